# Toolchain environment shared by every command of the framework (see DESIGN.md Appendix C).
export PATH=/opt/veriftools/go1.26.8/bin:$PATH
export GOTOOLCHAIN=local GOFLAGS=-mod=mod GOPROXY=off GOWORK=off GONOSUMDB='*' GONOSUMCHECK=1 GOFLAGS=-mod=mod
unset GOSUMDB
