// Package absint implements E-ABS (DESIGN.md §2.3): a path-sensitive abstract
// interpreter over the go/cfg of the parser-runtime methods of one template variant.
// The abstract state is a finite tuple (position epoch, state-store epoch, error-list
// epoch, stack-depth deltas, inversion parity, local environment, event log); the
// analysis explores the product of CFG blocks and abstract states to a fixpoint and
// records the abstract state at every return. Rules (package rules) then compare the
// recorded exits with the per-kind obligation table.
package absint

import (
	"fmt"
	"go/ast"
	"go/token"
	"go/types"
	"sort"
	"strings"
)

// Epoch names. "E" = value at function entry. "<site>:ok" / "<site>:fail" / "<site>" = value
// created by the most recent execution of the statement at <site>; "<name>~" = created by
// the previous execution of that site; "?" = unknown / older (never equal to anything).
const (
	Entry   = "E"
	Unknown = "?"
)

// Val is an abstract value of a local variable or expression.
type Val struct {
	K    string // sp tok bool nil child slice vals run tuple err errsnap rn map node str unk
	A    string // epoch (sp, tok, errsnap, rn), "T"/"F"/"U" (bool), site (child, run, err), description
	B    string // secondary: sp: origin ("pt","memo","tuple"); child: epoch the evaluation started from; vals: element description
	Used bool   // tok: already consumed by restoreState
	F    map[string]Val
}

func (v Val) String() string {
	s := v.K + "(" + v.A
	if v.B != "" {
		s += "|" + v.B
	}
	if v.Used {
		s += "|used"
	}
	if len(v.F) > 0 {
		ks := make([]string, 0, len(v.F))
		for k := range v.F {
			ks = append(ks, k)
		}
		sort.Strings(ks)
		for _, k := range ks {
			s += ";" + k + "=" + v.F[k].String()
		}
	}
	return s + ")"
}

func Unk(desc string) Val { return Val{K: "unk", A: desc} }
func Bool(b bool) Val {
	if b {
		return Val{K: "bool", A: "T"}
	}
	return Val{K: "bool", A: "F"}
}
func BoolU(desc string) Val { return Val{K: "bool", A: "U", B: desc} }

func (v Val) IsTrue() bool  { return v.K == "bool" && v.A == "T" }
func (v Val) IsFalse() bool { return v.K == "bool" && v.A == "F" }

// State is one abstract state. It is treated as immutable; use clone() before modifying.
type State struct {
	Pt, St, Er   string
	Env          map[types.Object]Val
	VS, RS, Rec  int  // vstack / rstack / recoveryStack depth relative to entry
	Inv          bool // parity of maxFailInvertExpected toggles relative to entry
	NotEOF       bool // proven: current position is not end of input
	Ev           []Event
	Facts        map[string]bool // branch conditions assumed on this path (expression text -> value)
	Und          []string        // reasons why this path is undecided
	DeferRestore []string
	DeferCalls   []*ast.CallExpr // deferred paired pops (popRecovery, popV), applied at every return, last first
}

// Event is a significant effect on the path, in execution order.
type Event struct {
	Kind string // read failAt run addErr ctx.pos ctx.text bind getMemo setMemo restore restoreState errs= eval defer
	Args []string
	Pos  token.Pos
	// snapshot of the relevant state when the event happened
	Pt, St string
	VS     int
	Facts  map[string]bool
	Vals   []Val // structured arguments (setMemo: key, tuple)
}

func (e Event) String() string { return e.Kind + "(" + strings.Join(e.Args, ",") + ")" }

func newState() *State {
	return &State{Pt: Entry, St: Entry, Er: Entry, Env: map[types.Object]Val{}, Facts: map[string]bool{}}
}

func (s *State) clone() *State {
	n := *s
	n.Env = make(map[types.Object]Val, len(s.Env))
	for k, v := range s.Env {
		n.Env[k] = v
	}
	n.Ev = append([]Event(nil), s.Ev...)
	n.Und = append([]string(nil), s.Und...)
	n.DeferCalls = append([]*ast.CallExpr(nil), s.DeferCalls...)
	n.Facts = make(map[string]bool, len(s.Facts))
	for k, v := range s.Facts {
		n.Facts[k] = v
	}
	return &n
}

func (s *State) key() string {
	var b strings.Builder
	fmt.Fprintf(&b, "%s|%s|%s|%d|%d|%d|%t|%t|", s.Pt, s.St, s.Er, s.VS, s.RS, s.Rec, s.Inv, s.NotEOF)
	type kv struct {
		p token.Pos
		n string
		v string
	}
	var kvs []kv
	for o, v := range s.Env {
		kvs = append(kvs, kv{o.Pos(), o.Name(), v.String()})
	}
	sort.Slice(kvs, func(i, j int) bool { return kvs[i].p < kvs[j].p })
	for _, x := range kvs {
		fmt.Fprintf(&b, "%s@%d=%s,", x.n, x.p, x.v)
	}
	b.WriteString("|")
	for _, e := range s.Ev {
		b.WriteString(e.String())
		b.WriteString(";")
	}
	b.WriteString("|")
	fs := make([]string, 0, len(s.Facts))
	for f, v := range s.Facts {
		fs = append(fs, fmt.Sprintf("%s=%t", f, v))
	}
	sort.Strings(fs)
	b.WriteString(strings.Join(fs, ","))
	b.WriteString("|")
	b.WriteString(strings.Join(s.Und, ";"))
	return b.String()
}

// event appends an event, capping repetitions so that loops reach a fixpoint.
func (s *State) event(kind string, pos token.Pos, args ...string) {
	s.eventV(kind, pos, nil, args...)
}

func (s *State) eventV(kind string, pos token.Pos, vals []Val, args ...string) {
	e := Event{Kind: kind, Args: args, Pos: pos, Pt: s.Pt, St: s.St, VS: s.VS, Vals: vals}
	e.Facts = make(map[string]bool, len(s.Facts))
	for k, v := range s.Facts {
		e.Facts[k] = v
	}
	str := e.String()
	n := 0
	for _, x := range s.Ev {
		if x.String() == str {
			n++
		}
	}
	if n >= 3 {
		return
	}
	s.Ev = append(s.Ev, e)
}

func (s *State) undecided(format string, a ...any) {
	msg := fmt.Sprintf(format, a...)
	for _, u := range s.Und {
		if u == msg {
			return
		}
	}
	s.Und = append(s.Und, msg)
}

// fresh installs a new epoch named name into *slot; previous holders of the same name become
// name~ and holders of name~ become unknown (see the package comment).
func (s *State) renameStale(name string) {
	old := name + "~"
	ren := func(x string) string {
		switch x {
		case name:
			return old
		case old:
			return Unknown
		}
		return x
	}
	s.Pt, s.St, s.Er = ren(s.Pt), ren(s.St), ren(s.Er)
	var renv func(v Val) Val
	renv = func(v Val) Val {
		switch v.K {
		case "sp", "tok", "errsnap", "rn", "slice":
			v.A = ren(v.A)
		case "child":
			v.B = ren(v.B)
		}
		if len(v.F) > 0 {
			nf := make(map[string]Val, len(v.F))
			for k, f := range v.F {
				nf[k] = renv(f)
			}
			v.F = nf
		}
		return v
	}
	for o, v := range s.Env {
		s.Env[o] = renv(v)
	}
}

func saturate(n int) int {
	if n > 3 {
		return 3
	}
	if n < -3 {
		return -3
	}
	return n
}

// Exit is the abstract state at one return statement.
type Exit struct {
	State  *State
	Pos    token.Pos
	Vals   []Val    // abstract values of the returned expressions
	Exprs  []string // source text of the returned expressions
	Index  int      // ordinal of the return statement in source order
	Panics bool
}

// Ok returns the abstract boolean of the last result (the ok flag of an evaluator).
func (e *Exit) Ok() Val {
	if len(e.Vals) == 0 {
		return Unk("no result")
	}
	return e.Vals[len(e.Vals)-1]
}

// Value returns the abstract first result.
func (e *Exit) Value() Val {
	if len(e.Vals) == 0 {
		return Unk("no result")
	}
	return e.Vals[0]
}
