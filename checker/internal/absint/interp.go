package absint

import (
	"fmt"
	"go/ast"
	"go/constant"
	"go/token"
	"go/types"
	"regexp"
	"sort"
	"strings"

	"golang.org/x/tools/go/cfg"

	"pigeonverif/internal/variants"
)

// Role classifies a method of *parser for the transfer functions.
type Role int

const (
	RoleNone Role = iota
	RoleRead
	RoleRestore
	RoleCloneState
	RoleRestoreState
	RolePushV
	RolePopV
	RolePushRecovery
	RolePopRecovery
	RoleFailAt
	RoleAddErr
	RoleAddErrAt
	RoleSliceFrom
	RoleDebug
	RoleGetMemo
	RoleSetMemo
	RoleStats
	RoleEvaluator
)

var fixedRoles = map[string]Role{
	"read": RoleRead, "restore": RoleRestore, "cloneState": RoleCloneState, "restoreState": RoleRestoreState,
	"pushV": RolePushV, "popV": RolePopV, "pushRecovery": RolePushRecovery, "popRecovery": RolePopRecovery,
	"failAt": RoleFailAt, "addErr": RoleAddErr, "addErrAt": RoleAddErrAt, "sliceFrom": RoleSliceFrom,
	"in": RoleDebug, "out": RoleDebug, "print": RoleDebug, "printIndent": RoleDebug,
	"getMemoized": RoleGetMemo, "setMemoized": RoleSetMemo, "incChoiceAltCnt": RoleStats,
}

// StableConfig lists parser fields written only by options before parsing starts (verified by rule
// C06-w in package rules); branch facts about them survive calls.
var StableConfig = map[string]bool{"memoize": true, "debug": true, "recover": true, "allowInvalidUTF8": true, "maxExprCnt": true, "entrypoint": true}

type Interp struct {
	V      *variants.Variant
	Info   *types.Info
	Parser *types.Named
	Roles  map[string]Role
	sums   map[string]*Result // summaries of helper methods (not evaluators, not role functions)
	busy   map[string]bool
	// the three fields of resultTuple by position (value, flag, end), whatever they are called: name -> v | b | end
	tupleField map[string]string
	readOnly   map[string]int // parser method -> 1 read-only, 2 not, 3 being decided
	// boolean parameters bound to literals while a specialised summary is computed (index -> value)
	constParams map[int]bool
}

func New(v *variants.Variant) (*Interp, error) {
	obj := v.Pkg.Scope().Lookup("parser")
	if obj == nil {
		return nil, fmt.Errorf("type parser not found in variant %s", v.Name)
	}
	named, ok := obj.Type().(*types.Named)
	if !ok {
		return nil, fmt.Errorf("parser is not a named type")
	}
	in := &Interp{V: v, Info: v.Info, Parser: named, Roles: map[string]Role{}, tupleField: map[string]string{}}
	if rt := v.Pkg.Scope().Lookup("resultTuple"); rt != nil {
		if st, ok := rt.Type().Underlying().(*types.Struct); ok {
			canon := []string{"v", "b", "end"}
			for i := 0; i < st.NumFields() && i < len(canon); i++ {
				in.tupleField[st.Field(i).Name()] = canon[i]
			}
		}
	}
	for i := 0; i < named.NumMethods(); i++ {
		m := named.Method(i)
		if r, ok := fixedRoles[m.Name()]; ok {
			in.Roles[m.Name()] = r
			continue
		}
		sig := m.Type().(*types.Signature)
		if strings.HasPrefix(m.Name(), "parse") && m.Name() != "parse" && sig.Results().Len() == 2 {
			if b, ok := sig.Results().At(1).Type().(*types.Basic); ok && b.Kind() == types.Bool {
				in.Roles[m.Name()] = RoleEvaluator
			}
		}
	}
	return in, nil
}

// Evaluators lists the evaluator methods (parse<Kind> and wrappers), sorted.
func (in *Interp) Evaluators() []string {
	var out []string
	for n, r := range in.Roles {
		if r == RoleEvaluator {
			out = append(out, n)
		}
	}
	sort.Strings(out)
	return out
}

func (in *Interp) isParserPtr(t types.Type) bool {
	p, ok := t.(*types.Pointer)
	if !ok {
		return false
	}
	return types.Identical(p.Elem(), in.Parser)
}

// purePredicate: a call p.m() of a parser method without parameters whose body is a single `return <expr>` that
// only reads (no calls but len): a test given a name (p.atEOF()). Returns the returned expression, to be evaluated in
// place of the call (the method's receiver is a *parser like the caller's).
func (in *Interp) purePredicate(c *ast.CallExpr) ast.Expr {
	sel, ok := c.Fun.(*ast.SelectorExpr)
	if !ok || !in.isP(sel.X) || len(c.Args) != 0 {
		return nil
	}
	fd := in.V.Func("parser", sel.Sel.Name)
	if fd == nil || fd.Body == nil || len(fd.Body.List) != 1 || (fd.Type.Params != nil && len(fd.Type.Params.List) > 0) {
		return nil
	}
	rs, ok := fd.Body.List[0].(*ast.ReturnStmt)
	if !ok || len(rs.Results) != 1 {
		return nil
	}
	pure := true
	ast.Inspect(rs.Results[0], func(n ast.Node) bool {
		if ce, ok := n.(*ast.CallExpr); ok {
			if id, isID := ce.Fun.(*ast.Ident); !isID || (id.Name != "len" && id.Name != "cap") {
				pure = false
			}
		}
		return true
	})
	if !pure {
		return nil
	}
	return rs.Results[0]
}

// boundPredicate: a call X.m() without arguments of a method of another type of the runtime (a savepoint, a node)
// whose body is a single `return <expr>` that only reads: a test given a name (p.pt.atEOF(), start.atEOF()). The
// method's receiver is bound to the value of X for the evaluation of the returned expression; undo removes the binding.
func (r *run) boundPredicate(s *State, c *ast.CallExpr) (ast.Expr, func()) {
	in := r.in
	sel, ok := c.Fun.(*ast.SelectorExpr)
	if !ok || in.isP(sel.X) || len(c.Args) != 0 {
		return nil, nil
	}
	selInfo := in.Info.Selections[sel]
	if selInfo == nil || selInfo.Kind() != types.MethodVal {
		return nil, nil
	}
	var fd *ast.FuncDecl
	for _, d := range in.V.Funcs() {
		if d.Recv != nil && d.Body != nil && in.Info.Defs[d.Name] == selInfo.Obj() {
			fd = d
		}
	}
	if fd == nil || len(fd.Body.List) != 1 || (fd.Type.Params != nil && len(fd.Type.Params.List) > 0) || len(fd.Recv.List) != 1 || len(fd.Recv.List[0].Names) != 1 {
		return nil, nil
	}
	rs, ok := fd.Body.List[0].(*ast.ReturnStmt)
	if !ok || len(rs.Results) != 1 {
		return nil, nil
	}
	pure := true
	ast.Inspect(rs.Results[0], func(n ast.Node) bool {
		if ce, ok := n.(*ast.CallExpr); ok {
			if id, isID := ce.Fun.(*ast.Ident); !isID || (id.Name != "len" && id.Name != "cap") {
				pure = false
			}
		}
		return true
	})
	recvObj := in.Info.Defs[fd.Recv.List[0].Names[0]]
	if !pure || recvObj == nil {
		return nil, nil
	}
	old, had := s.Env[recvObj]
	s.Env[recvObj] = r.eval(s, sel.X)
	return rs.Results[0], func() {
		if had {
			s.Env[recvObj] = old
		} else {
			delete(s.Env, recvObj)
		}
	}
}

// readOnlyMethod: the parser method stores nothing through its receiver, runs no code block and calls only
// functions that are not parser methods (or parser methods that are read-only themselves) without handing them the
// parser: whatever it returns, the parser is as it was.
func (in *Interp) readOnlyMethod(name string) bool {
	if in.readOnly == nil {
		in.readOnly = map[string]int{}
	}
	switch in.readOnly[name] {
	case 1:
		return true
	case 2, 3:
		return false // not read-only, or being decided (recursion: not accepted)
	}
	in.readOnly[name] = 3
	fd := in.V.Func("parser", name)
	ok := fd != nil && fd.Body != nil && fd.Recv != nil && len(fd.Recv.List) == 1 && len(fd.Recv.List[0].Names) == 1
	if ok {
		if _, fixed := fixedRoles[name]; fixed {
			ok = false
		}
	}
	if ok {
		recv := fd.Recv.List[0].Names[0].Name
		rooted := func(e ast.Expr) bool {
			for {
				switch x := e.(type) {
				case *ast.SelectorExpr:
					e = x.X
				case *ast.IndexExpr:
					e = x.X
				case *ast.StarExpr:
					e = x.X
				case *ast.ParenExpr:
					e = x.X
				case *ast.SliceExpr:
					e = x.X
				case *ast.Ident:
					return x.Name == recv
				default:
					return false
				}
			}
		}
		ast.Inspect(fd.Body, func(n ast.Node) bool {
			switch x := n.(type) {
			case *ast.AssignStmt:
				for _, l := range x.Lhs {
					if _, isIdent := l.(*ast.Ident); !isIdent && rooted(l) {
						ok = false
					}
					if id, isIdent := l.(*ast.Ident); isIdent && id.Name == recv {
						ok = false
					}
				}
			case *ast.IncDecStmt:
				if rooted(x.X) {
					ok = false
				}
			case *ast.UnaryExpr:
				if x.Op == token.AND && rooted(x.X) {
					ok = false // an address that could be stored through
				}
			case *ast.GoStmt, *ast.DeferStmt, *ast.SendStmt, *ast.FuncLit:
				ok = false
			case *ast.CallExpr:
				for _, a := range x.Args {
					if id, isIdent := a.(*ast.Ident); isIdent && id.Name == recv {
						ok = false
					}
				}
				switch f := x.Fun.(type) {
				case *ast.SelectorExpr:
					if id, isIdent := f.X.(*ast.Ident); isIdent && id.Name == recv {
						if r, fixed := fixedRoles[f.Sel.Name]; fixed {
							if r != RoleSliceFrom {
								ok = false
							}
						} else if !in.readOnlyMethod(f.Sel.Name) {
							ok = false
						}
					} else if f.Sel.Name == "run" {
						ok = false
					} else if rooted(f.X) {
						// a method of something the parser holds (a map, a buffer): could modify it
						ok = false
					}
				case *ast.Ident:
					switch f.Name {
					case "delete", "clear", "panic", "recover", "copy":
						ok = false
					}
				}
			}
			return true
		})
	}
	if ok {
		in.readOnly[name] = 1
	} else {
		in.readOnly[name] = 2
	}
	return ok
}

// isP reports whether e is an identifier of type *parser.
func (in *Interp) isP(e ast.Expr) bool {
	id, ok := e.(*ast.Ident)
	if !ok {
		return false
	}
	t := in.Info.TypeOf(id)
	return t != nil && in.isParserPtr(t)
}

// pPath renders a p-rooted access path ("pt.rn", "cur.state", "*errs", "vstack[]") or "".
func (in *Interp) pPath(e ast.Expr) string {
	switch x := e.(type) {
	case *ast.ParenExpr:
		return in.pPath(x.X)
	case *ast.SelectorExpr:
		if in.isP(x.X) {
			return x.Sel.Name
		}
		if p := in.pPath(x.X); p != "" {
			return p + "." + x.Sel.Name
		}
	case *ast.StarExpr:
		if p := in.pPath(x.X); p != "" {
			return "*" + p
		}
	case *ast.IndexExpr:
		if p := in.pPath(x.X); p != "" {
			return p + "[]"
		}
	case *ast.SliceExpr:
		if p := in.pPath(x.X); p != "" {
			return p + "[:]"
		}
	}
	return ""
}

type Result struct {
	Fn     *ast.FuncDecl
	Name   string
	Exits  []*Exit
	Panics []*Exit
	States int
	CFG    *cfg.CFG
}

type outcome struct {
	s   *State
	res []Val
}

type run struct {
	in   *Interp
	fd   *ast.FuncDecl
	site map[ast.Node]string
	nsit int
}

func (r *run) siteOf(n ast.Node) string {
	if s, ok := r.site[n]; ok {
		return s
	}
	r.nsit++
	line := r.in.V.Fset.Position(n.Pos()).Line - r.in.V.Fset.Position(r.fd.Pos()).Line
	s := fmt.Sprintf("s%d@+%d", r.nsit, line)
	r.site[n] = s
	return s
}

func (in *Interp) exprText(e ast.Expr) string { return types.ExprString(e) }

// Run analyses one function to a fixpoint over (block, abstract state).
func (in *Interp) Run(fd *ast.FuncDecl) *Result { return in.runSeeded(fd, false) }

// summary analyses a helper method with symbolic parameters ("param:<i>" epochs) so that its exits can be
// transplanted into a caller (function summary, inlining depth bounded by the recursion guard).
// Summary is the exported form of summary.
func (in *Interp) Summary(name string) *Result { return in.summary(name) }

func (in *Interp) summary(name string) *Result { return in.summaryWith(name, nil) }

// summaryWith: the summary of a helper specialised for the boolean parameters that the call site passes as literals
// (`p.parseLookahead(e, true)`): the helper is analysed with those parameters known, so a mode flag decides which of
// its paths exist for this caller.
func (in *Interp) summaryWith(name string, consts map[int]bool) *Result {
	if in.sums == nil {
		in.sums, in.busy = map[string]*Result{}, map[string]bool{}
	}
	key := name
	if len(consts) > 0 {
		var ks []int
		for k := range consts {
			ks = append(ks, k)
		}
		sort.Ints(ks)
		for _, k := range ks {
			key += fmt.Sprintf("|%d=%t", k, consts[k])
		}
	}
	if r, ok := in.sums[key]; ok {
		return r
	}
	if in.busy[key] || len(in.busy) >= 3 {
		return nil
	}
	fd := in.V.Func("parser", name)
	if fd == nil || fd.Body == nil {
		return nil
	}
	in.busy[key] = true
	saved := in.constParams
	in.constParams = consts
	res := in.runSeeded(fd, true)
	in.constParams = saved
	delete(in.busy, key)
	in.sums[key] = res
	return res
}

func (in *Interp) runSeeded(fd *ast.FuncDecl, symbolicParams bool) *Result {
	r := &run{in: in, fd: fd, site: map[ast.Node]string{}}
	// assign site ids deterministically in source order
	ast.Inspect(fd.Body, func(n ast.Node) bool {
		switch n.(type) {
		case *ast.CallExpr, *ast.CompositeLit:
			r.siteOf(n)
		}
		return true
	})
	g := cfg.New(fd.Body, func(c *ast.CallExpr) bool {
		if id, ok := c.Fun.(*ast.Ident); ok && id.Name == "panic" {
			return false
		}
		return true
	})
	res := &Result{Fn: fd, Name: fd.Name.Name, CFG: g}
	retIndex := map[token.Pos]int{}
	{
		var rets []token.Pos
		ast.Inspect(fd.Body, func(n ast.Node) bool {
			if _, ok := n.(*ast.FuncLit); ok {
				return false
			}
			if rs, ok := n.(*ast.ReturnStmt); ok {
				rets = append(rets, rs.Pos())
			}
			return true
		})
		sort.Slice(rets, func(i, j int) bool { return rets[i] < rets[j] })
		for i, p := range rets {
			retIndex[p] = i + 1
		}
	}
	type item struct {
		b *cfg.Block
		s *State
	}
	seen := map[string]bool{}
	var work []item
	push := func(b *cfg.Block, s *State) {
		k := fmt.Sprintf("%d#%s", b.Index, s.key())
		if seen[k] {
			return
		}
		seen[k] = true
		work = append(work, item{b, s})
	}
	if len(g.Blocks) == 0 {
		return res
	}
	init := newState()
	if symbolicParams && fd.Type.Params != nil {
		i := 0
		for _, f := range fd.Type.Params.List {
			for _, nm := range f.Names {
				if o := in.Info.ObjectOf(nm); o != nil {
					switch namedTypeName(o.Type()) {
					case "savepoint":
						init.Env[o] = Val{K: "sp", A: fmt.Sprintf("param:%d", i), B: "param"}
					case "storeDict":
						init.Env[o] = Val{K: "tok", A: fmt.Sprintf("param:%d", i)}
					case "position":
						init.Env[o] = Val{K: "pos", A: fmt.Sprintf("param:%d", i)}
					default:
						if b, ok := o.Type().Underlying().(*types.Basic); ok && b.Info()&types.IsBoolean != 0 {
							init.Env[o] = Val{K: "bool", A: "U", B: fmt.Sprintf("param:%d", i)}
							if cv, known := in.constParams[i]; known {
								init.Env[o] = Bool(cv)
							}
						}
					}
				}
				i++
			}
		}
	}
	push(g.Blocks[0], init)
	exitSeen := map[string]bool{}
	for len(work) > 0 {
		it := work[len(work)-1]
		work = work[:len(work)-1]
		res.States++
		if res.States > stateCap {
			e := &Exit{State: newState()}
			e.State.undecided("state space exceeded 10000 (block,state) pairs")
			res.Exits = append(res.Exits, e)
			break
		}
		states := []*State{it.s.clone()}
		terminated := false
		var condExpr ast.Expr
		for i, n := range it.b.Nodes {
			last := i == len(it.b.Nodes)-1
			if last && len(it.b.Succs) == 2 {
				if e, ok := n.(ast.Expr); ok {
					if t := in.Info.TypeOf(e); t != nil {
						if b, ok := t.Underlying().(*types.Basic); ok && b.Info()&types.IsBoolean != 0 {
							condExpr = e
							break
						}
					}
				}
			}
			var next []*State
			for _, s := range states {
				switch x := n.(type) {
				case *ast.ReturnStmt:
					for _, o := range r.ret(s, x) {
						for k := len(o.s.DeferCalls) - 1; k >= 0; k-- {
							r.call(o.s, o.s.DeferCalls[k])
						}
						e := &Exit{State: o.s, Pos: x.Pos(), Vals: o.res, Index: retIndex[x.Pos()]}
						for _, re := range x.Results {
							e.Exprs = append(e.Exprs, in.exprText(re))
						}
						k := fmt.Sprintf("%d|%s|%v", e.Index, o.s.key(), o.res)
						if !exitSeen[k] {
							exitSeen[k] = true
							res.Exits = append(res.Exits, e)
						}
					}
					terminated = true
				default:
					next = append(next, r.node(s, n)...)
				}
			}
			if terminated {
				break
			}
			states = next
		}
		if terminated {
			continue
		}
		if len(it.b.Succs) == 0 {
			// falls into a no-return call (panic)
			for _, s := range states {
				res.Panics = append(res.Panics, &Exit{State: s, Panics: true})
			}
			continue
		}
		for _, s := range states {
			if condExpr != nil {
				v := r.cond(s, condExpr)
				if !v.IsFalse() {
					t := s.clone()
					r.assume(t, condExpr, true)
					push(it.b.Succs[0], t)
				}
				if !v.IsTrue() {
					f := s.clone()
					r.assume(f, condExpr, false)
					push(it.b.Succs[1], f)
				}
				continue
			}
			for _, succ := range it.b.Succs {
				push(succ, s.clone())
			}
		}
	}
	sort.SliceStable(res.Exits, func(i, j int) bool { return res.Exits[i].Index < res.Exits[j].Index })
	return res
}

// node executes one CFG node (statement or bare expression) and returns the successor states.
func (r *run) node(s *State, n ast.Node) []*State {
	switch x := n.(type) {
	case *ast.AssignStmt:
		return r.assign(s, x)
	case *ast.ExprStmt:
		if c, ok := x.X.(*ast.CallExpr); ok {
			var out []*State
			for _, o := range r.call(s, c) {
				out = append(out, o.s)
			}
			return out
		}
		r.eval(s, x.X)
		return []*State{s}
	case *ast.IncDecStmt:
		if p := r.in.pPath(x.X); p != "" {
			r.pWrite(s, p, x.X, nil, x.Pos())
		} else if id, ok := x.X.(*ast.Ident); ok {
			if o := r.in.Info.ObjectOf(id); o != nil {
				s.Env[o] = Unk(id.Name)
				r.dropFactsAbout(s, id.Name)
			}
		}
		return []*State{s}
	case *ast.ValueSpec:
		for i, nm := range x.Names {
			o := r.in.Info.ObjectOf(nm)
			if o == nil {
				continue
			}
			if i < len(x.Values) {
				if c, ok := x.Values[i].(*ast.CallExpr); ok && r.effectful(c) {
					s.undecided("effectful call in var declaration %s", r.in.exprText(c))
					continue
				}
				s.Env[o] = r.eval(s, x.Values[i])
			} else {
				s.Env[o] = r.zero(o.Type())
			}
		}
		return []*State{s}
	case *ast.DeferStmt:
		if r.roleOf(x.Call) == RoleDebug {
			// arguments are evaluated now; they may only be debug helpers / pure
			for _, a := range x.Call.Args {
				r.eval(s, a)
			}
			return []*State{s}
		}
		if _, ok := x.Call.Fun.(*ast.FuncLit); ok {
			s.event("defer", x.Pos(), "funclit")
			return []*State{s}
		}
		// a deferred pop of one of the paired stacks, without arguments: it runs at every return of the function
		if role := r.roleOf(x.Call); (role == RolePopRecovery || role == RolePopV) && len(x.Call.Args) == 0 {
			s.DeferCalls = append(s.DeferCalls, x.Call)
			return []*State{s}
		}
		s.undecided("defer of %s", r.in.exprText(x.Call))
		return []*State{s}
	case *ast.GoStmt:
		s.undecided("go statement")
		return []*State{s}
	case *ast.BranchStmt, *ast.EmptyStmt, *ast.LabeledStmt:
		return []*State{s}
	case *ast.SendStmt:
		s.undecided("send statement")
		return []*State{s}
	case ast.Expr:
		// range operand / key / value, switch tags, case expressions
		if c, ok := x.(*ast.CallExpr); ok && r.effectful(c) {
			s.undecided("effectful call %s in expression position", r.in.exprText(c))
			return []*State{s}
		}
		if id, ok := x.(*ast.Ident); ok {
			// range key/value definition: value becomes unknown
			if o := r.in.Info.Defs[id]; o != nil {
				s.Env[o] = Unk(id.Name)
				r.dropFactsAbout(s, id.Name)
			}
			return []*State{s}
		}
		r.eval(s, x)
		return []*State{s}
	}
	s.undecided("unsupported statement %T", n)
	return []*State{s}
}

func (r *run) zero(t types.Type) Val {
	switch u := t.Underlying().(type) {
	case *types.Slice:
		return Val{K: "vals", A: "empty"}
	case *types.Basic:
		if u.Info()&types.IsBoolean != 0 {
			return Bool(false)
		}
	case *types.Interface, *types.Pointer, *types.Map:
		return Val{K: "nil"}
	case *types.Struct:
		if n, ok := t.(*types.Named); ok && n.Obj().Name() == "savepoint" {
			return Val{K: "sp", A: "zero", B: "zero"}
		}
	}
	return Unk("zero")
}

var identRe = regexp.MustCompile(`[A-Za-z_][A-Za-z_0-9]*`)

func (r *run) dropFactsAbout(s *State, name string) {
	for f := range s.Facts {
		for _, id := range identRe.FindAllString(f, -1) {
			if id == name {
				delete(s.Facts, f)
				break
			}
		}
	}
}

var pFieldRe = regexp.MustCompile(`\bp\.([A-Za-z_][A-Za-z_0-9]*)`)

// dropVolatileFacts removes facts that mention parser fields other than stable configuration.
func (r *run) dropVolatileFacts(s *State) {
	for f := range s.Facts {
		for _, m := range pFieldRe.FindAllStringSubmatch(f, -1) {
			if !StableConfig[m[1]] {
				delete(s.Facts, f)
				break
			}
		}
	}
}

func (r *run) roleOf(c *ast.CallExpr) Role {
	sel, ok := c.Fun.(*ast.SelectorExpr)
	if !ok {
		return RoleNone
	}
	if !r.in.isP(sel.X) {
		return RoleNone
	}
	return r.in.Roles[sel.Sel.Name]
}

// isRun reports whether c calls a function-typed field named run of a grammar node (a code block).
func (r *run) isRun(c *ast.CallExpr) bool {
	// a code block handed on as a function value: a parameter or local of function type, called with the parser
	if id, ok := c.Fun.(*ast.Ident); ok {
		if v, isVar := r.in.Info.ObjectOf(id).(*types.Var); isVar && !v.IsField() {
			if _, isSig := v.Type().Underlying().(*types.Signature); isSig {
				for _, a := range c.Args {
					if r.in.isP(a) {
						return true
					}
				}
			}
		}
		return false
	}
	sel, ok := c.Fun.(*ast.SelectorExpr)
	if !ok {
		return false
	}
	if s := r.in.Info.Selections[sel]; s != nil && s.Kind() == types.FieldVal {
		if _, ok := s.Type().Underlying().(*types.Signature); ok {
			return true
		}
	}
	return false
}

// effectful: the call may change tracked parser state.
func (r *run) effectful(c *ast.CallExpr) bool {
	switch r.roleOf(c) {
	case RoleSliceFrom, RoleDebug:
		return false
	case RoleNone:
		if r.isRun(c) {
			return true
		}
		if r.in.purePredicate(c) != nil {
			return false
		}
		if sel, ok := c.Fun.(*ast.SelectorExpr); ok && r.in.isP(sel.X) {
			if r.in.readOnlyMethod(sel.Sel.Name) {
				for _, a := range c.Args {
					if r.in.isP(a) {
						return true
					}
				}
				return false // a parser method that only reads (a membership test given a name): an opaque value
			}
			return true // unknown parser method
		}
		for _, a := range c.Args {
			if r.in.isP(a) {
				return true
			}
		}
		return false
	}
	return true
}

// sourceText renders an argument by what it stands for: a named constant by its value, a local that is defined once
// in the function by its definition (a label read into a local before it is reported).
func (r *run) sourceText(e ast.Expr) string {
	in := r.in
	id, ok := e.(*ast.Ident)
	if !ok {
		return in.exprText(e)
	}
	switch obj := in.Info.ObjectOf(id).(type) {
	case *types.Const:
		if obj.Val() != nil {
			return obj.Val().ExactString()
		}
	case *types.Var:
		if obj.IsField() || r.fd == nil || r.fd.Body == nil {
			break
		}
		var def ast.Expr
		n := 0
		ast.Inspect(r.fd.Body, func(nd ast.Node) bool {
			switch x := nd.(type) {
			case *ast.AssignStmt:
				for i, l := range x.Lhs {
					if li, ok := l.(*ast.Ident); ok && in.Info.ObjectOf(li) == obj {
						n++
						if len(x.Lhs) == len(x.Rhs) {
							def = x.Rhs[i]
						} else {
							def = nil
						}
					}
				}
			case *ast.ValueSpec:
				for i, nm := range x.Names {
					if in.Info.ObjectOf(nm) == obj {
						n++
						if i < len(x.Values) {
							def = x.Values[i]
						}
					}
				}
			}
			return true
		})
		if n == 1 && def != nil {
			if _, isCall := def.(*ast.CallExpr); !isCall {
				return in.exprText(def)
			}
		}
	}
	return in.exprText(e)
}

func (r *run) posEpoch(v Val) string {
	switch v.K {
	case "pos", "sp":
		return v.A
	}
	return Unknown
}

// call executes an effectful (or pure) call at statement level.
func (r *run) call(s *State, c *ast.CallExpr) []outcome {
	in := r.in
	role := r.roleOf(c)
	site := r.siteOf(c)
	args := func() []Val {
		var vs []Val
		for _, a := range c.Args {
			if ce, ok := a.(*ast.CallExpr); ok && r.effectful(ce) {
				s.undecided("effectful call %s nested in arguments of %s", in.exprText(ce), in.exprText(c.Fun))
				vs = append(vs, Unk("nested"))
				continue
			}
			vs = append(vs, r.eval(s, a))
		}
		return vs
	}
	one := func(res ...Val) []outcome { return []outcome{{s, res}} }
	switch role {
	case RoleRead:
		ne := "atEOF?"
		if s.NotEOF {
			ne = "notEOF"
		}
		s.event("read", c.Pos(), ne)
		name := "r" + site
		s.renameStale(name)
		s.Pt, s.Er = name, name
		s.NotEOF = false
		r.dropVolatileFacts(s)
		return one()
	case RoleRestore:
		a := args()
		if len(a) == 1 && a[0].K == "sp" {
			s.event("restore", c.Pos(), a[0].A, a[0].B)
			s.Pt = a[0].A
		} else {
			s.undecided("restore of a value that is not a tracked savepoint: %s", in.exprText(c))
			s.Pt = Unknown
		}
		s.NotEOF = false
		r.dropVolatileFacts(s)
		return one()
	case RoleCloneState:
		return one(Val{K: "tok", A: s.St})
	case RoleRestoreState:
		a := args()
		if len(a) == 1 && a[0].K == "tok" {
			used := "fresh"
			if a[0].Used {
				used = "ALREADY-USED"
			}
			s.event("restoreState", c.Pos(), a[0].A, used)
			s.St = a[0].A
			if id, ok := c.Args[0].(*ast.Ident); ok {
				if o := in.Info.ObjectOf(id); o != nil {
					v := s.Env[o]
					v.Used = true
					s.Env[o] = v
				}
			}
		} else {
			s.undecided("restoreState of a value that is not a tracked clone: %s", in.exprText(c))
			s.St = Unknown
		}
		return one()
	case RolePushV:
		s.VS = saturate(s.VS + 1)
		return one()
	case RolePopV:
		s.VS = saturate(s.VS - 1)
		return one()
	case RolePushRecovery:
		var at []string
		for _, a := range c.Args {
			at = append(at, r.throughLocal(a))
		}
		s.event("pushRecovery", c.Pos(), at...)
		s.Rec = saturate(s.Rec + 1)
		return one()
	case RolePopRecovery:
		s.event("popRecovery", c.Pos())
		s.Rec = saturate(s.Rec - 1)
		return one()
	case RoleFailAt:
		a := args()
		if len(a) == 3 {
			b := "U"
			if a[0].IsTrue() {
				b = "T"
			} else if a[0].IsFalse() {
				b = "F"
			}
			s.event("failAt", c.Pos(), b, r.posEpoch(a[1]), r.sourceText(c.Args[2]))
		} else {
			s.undecided("failAt with %d arguments", len(a))
		}
		return one()
	case RoleAddErr:
		a := args()
		d := "?"
		if len(a) == 1 {
			d = a[0].String()
		}
		s.event("addErr", c.Pos(), d, s.Pt)
		name := "e" + site
		s.renameStale(name)
		s.Er = name
		return one()
	case RoleAddErrAt:
		a := args()
		d, p := "?", Unknown
		if len(a) >= 2 {
			d, p = a[0].String(), r.posEpoch(a[1])
		}
		s.event("addErrAt", c.Pos(), d, p)
		name := "e" + site
		s.renameStale(name)
		s.Er = name
		return one()
	case RoleSliceFrom:
		return one(r.eval(s, c))
	case RoleDebug:
		args()
		return one(Unk("debug"))
	case RoleStats:
		args()
		return one()
	case RoleGetMemo:
		node := ""
		if len(c.Args) == 1 {
			node = in.exprText(c.Args[0])
		}
		s.event("getMemo", c.Pos(), node, s.Pt)
		t := Val{K: "tuple", A: "memo", F: map[string]Val{
			"v": Unk("memo.v"), "b": BoolU("memo.b"), "end": {K: "sp", A: "memo:" + site, B: "memo"}}}
		return one(t, BoolU("memo.hit"))
	case RoleSetMemo:
		a := args()
		if len(a) == 3 {
			key := Unknown
			if a[0].K == "sp" {
				key = a[0].A
			}
			s.eventV("setMemo", c.Pos(), []Val{a[0], a[2]}, key, in.exprText(c.Args[1]), a[2].String())
		} else {
			s.undecided("setMemoized with %d arguments", len(a))
		}
		return one()
	case RoleEvaluator:
		name := c.Fun.(*ast.SelectorExpr).Sel.Name
		arg := ""
		if len(c.Args) > 0 {
			arg = in.exprText(c.Args[0])
		}
		args()
		from := s.Pt
		okS := s.clone()
		okName := site + ":ok"
		okS.renameStale(okName)
		okS.event("eval", c.Pos(), name, arg, "ok", site)
		okS.Pt, okS.St, okS.Er = okName, okName, okName
		okS.NotEOF = false
		r.dropVolatileFacts(okS)
		failS := s
		failName := site + ":fail"
		failS.renameStale(failName)
		failS.event("eval", c.Pos(), name, arg, "fail", site)
		failS.Er = failName
		r.dropVolatileFacts(failS)
		return []outcome{
			{okS, []Val{{K: "child", A: site, B: from, F: map[string]Val{"arg": {K: "str", A: arg}, "fn": {K: "str", A: name}}}, Bool(true)}},
			{failS, []Val{{K: "nil"}, Bool(false)}},
		}
	}
	// code block
	if r.isRun(c) {
		for _, a := range c.Args {
			if !in.isP(a) {
				r.eval(s, a)
			}
		}
		recv := in.exprText(c.Fun)
		s.event("run", c.Pos(), recv, site)
		name := "run" + site
		s.renameStale(name)
		s.St, s.Er = name, name
		sig, _ := in.Info.TypeOf(c.Fun).Underlying().(*types.Signature)
		var res []Val
		if sig != nil {
			for i := 0; i < sig.Results().Len(); i++ {
				t := sig.Results().At(i).Type()
				switch {
				case t.String() == "error":
					res = append(res, Val{K: "err", A: site})
				case t.String() == "bool":
					res = append(res, Val{K: "bool", A: "U", B: "run:" + site})
				default:
					res = append(res, Val{K: "run", A: site})
				}
			}
		}
		return []outcome{{s, res}}
	}
	if sel, ok := c.Fun.(*ast.SelectorExpr); ok && in.isP(sel.X) && role == RoleNone {
		var consts map[int]bool
		for i, a := range c.Args {
			if id, ok := a.(*ast.Ident); ok && (id.Name == "true" || id.Name == "false") {
				if consts == nil {
					consts = map[int]bool{}
				}
				consts[i] = id.Name == "true"
			}
		}
		// a boolean argument that is a pure test of the caller's state (`p.matchIf(!p.atEOF(), …)`): the helper is
		// entered once with the test assumed true and the parameter known true, once with both false - what the test
		// establishes (not at end of input) then holds inside the helper on the paths the parameter selects
		split := -1
		for i, a := range c.Args {
			if _, known := consts[i]; known {
				continue
			}
			if t := in.Info.TypeOf(a); t != nil {
				if b, ok := t.Underlying().(*types.Basic); ok && b.Info()&types.IsBoolean != 0 {
					pure := true
					ast.Inspect(a, func(n ast.Node) bool {
						if ce, ok := n.(*ast.CallExpr); ok && r.effectful(ce) {
							pure = false
						}
						return true
					})
					if pure && in.summaryWith(sel.Sel.Name, consts) != nil {
						split = i
						break
					}
				}
			}
		}
		if split >= 0 {
			var out []outcome
			okAll := true
			v := r.cond(s, c.Args[split])
			for _, val := range []bool{true, false} {
				if val && v.IsFalse() || !val && v.IsTrue() {
					continue
				}
				t := s.clone()
				r.assume(t, c.Args[split], val)
				cs := map[int]bool{split: val}
				for k, b := range consts {
					cs[k] = b
				}
				sum := in.summaryWith(sel.Sel.Name, cs)
				if sum == nil || len(sum.Exits) == 0 {
					okAll = false
					break
				}
				out = append(out, r.applySummary(t, c, site, sum)...)
			}
			if okAll && len(out) > 0 {
				return out
			}
		}
		if sum := in.summaryWith(sel.Sel.Name, consts); sum != nil && len(sum.Exits) > 0 {
			return r.applySummary(s, c, site, sum)
		}
	}
	if r.effectful(c) {
		s.undecided("call to %s may change tracked parser state (no transfer function)", in.exprText(c.Fun))
		return one(Unk("call"))
	}
	// pure call
	return one(r.eval(s, c))
}

func (r *run) ret(s *State, x *ast.ReturnStmt) []outcome {
	if len(x.Results) == 1 {
		if c, ok := x.Results[0].(*ast.CallExpr); ok && r.effectful(c) {
			return r.call(s, c)
		}
	}
	// exactly one result is an effectful call (possibly negated): the other results are evaluated in the state each
	// of its outcomes leaves (they are pure, so the order does not matter)
	strip := func(e ast.Expr) (ast.Expr, bool) {
		neg := false
		for {
			switch y := e.(type) {
			case *ast.ParenExpr:
				e = y.X
				continue
			case *ast.UnaryExpr:
				if y.Op == token.NOT {
					neg = !neg
					e = y.X
					continue
				}
			}
			return e, neg
		}
	}
	nEff, iEff := 0, -1
	for i, e := range x.Results {
		inner, _ := strip(e)
		if c, ok := inner.(*ast.CallExpr); ok && r.effectful(c) {
			nEff++
			iEff = i
		}
	}
	if nEff == 1 && len(x.Results) > 1 {
		inner, neg := strip(x.Results[iEff])
		var out []outcome
		for _, o := range r.call(s, inner.(*ast.CallExpr)) {
			v := Unk("call")
			if len(o.res) > 0 {
				v = o.res[0]
			}
			if neg {
				switch {
				case v.IsTrue():
					v = Bool(false)
				case v.IsFalse():
					v = Bool(true)
				case v.K == "bool":
					v = Val{K: "bool", A: "U", B: "!" + v.B}
				default:
					v = BoolU(r.in.exprText(x.Results[iEff]))
				}
			}
			var vs []Val
			for i, e := range x.Results {
				if i == iEff {
					vs = append(vs, v)
				} else {
					vs = append(vs, r.eval(o.s, e))
				}
			}
			out = append(out, outcome{o.s, vs})
		}
		return out
	}
	var vs []Val
	for _, e := range x.Results {
		if c, ok := e.(*ast.CallExpr); ok && r.effectful(c) {
			s.undecided("effectful call %s among several results", r.in.exprText(c))
			vs = append(vs, Unk("call"))
			continue
		}
		vs = append(vs, r.eval(s, e))
	}
	if len(x.Results) == 0 && r.fd.Type.Results != nil {
		// naked return: named results
		for _, f := range r.fd.Type.Results.List {
			for _, nm := range f.Names {
				if o := r.in.Info.ObjectOf(nm); o != nil {
					vs = append(vs, s.Env[o])
				}
			}
		}
	}
	return []outcome{{s, vs}}
}

func (r *run) assign(s *State, x *ast.AssignStmt) []*State {
	in := r.in
	// single effectful call on the right-hand side
	if len(x.Rhs) == 1 {
		if c, ok := x.Rhs[0].(*ast.CallExpr); ok && r.effectful(c) {
			var out []*State
			for _, o := range r.call(s, c) {
				for i, l := range x.Lhs {
					v := Unk("result")
					if i < len(o.res) {
						v = o.res[i]
					}
					r.store(o.s, l, v, x.Rhs[0], x.Pos())
				}
				out = append(out, o.s)
			}
			return out
		}
		if ta, ok := x.Rhs[0].(*ast.TypeAssertExpr); ok && len(x.Lhs) == 2 {
			r.store(s, x.Lhs[0], Unk("typeassert"), ta, x.Pos())
			r.store(s, x.Lhs[1], BoolU(in.exprText(ta)), ta, x.Pos())
			return []*State{s}
		}
		if ix, ok := x.Rhs[0].(*ast.IndexExpr); ok && len(x.Lhs) == 2 {
			r.store(s, x.Lhs[0], Unk(in.exprText(ix)), ix, x.Pos())
			r.store(s, x.Lhs[1], BoolU(in.exprText(ix)), ix, x.Pos())
			return []*State{s}
		}
		if c, ok := x.Rhs[0].(*ast.CallExpr); ok && len(x.Lhs) > 1 {
			for _, l := range x.Lhs {
				r.store(s, l, Unk(in.exprText(c)), c, x.Pos())
			}
			return []*State{s}
		}
	}
	if x.Tok != token.ASSIGN && x.Tok != token.DEFINE {
		// op-assign: x += y
		for _, l := range x.Lhs {
			if p := in.pPath(l); p != "" {
				r.pWrite(s, p, l, nil, x.Pos())
			} else {
				r.store(s, l, Unk("opassign"), nil, x.Pos())
			}
		}
		return []*State{s}
	}
	vals := make([]Val, len(x.Rhs))
	for i, e := range x.Rhs {
		if c, ok := e.(*ast.CallExpr); ok && r.effectful(c) {
			s.undecided("effectful call %s in multi-assignment", in.exprText(c))
			vals[i] = Unk("call")
			continue
		}
		vals[i] = r.eval(s, e)
	}
	for i, l := range x.Lhs {
		if i < len(vals) {
			r.store(s, l, vals[i], x.Rhs[i], x.Pos())
		}
	}
	return []*State{s}
}

// store assigns v to the l-value l.
func (r *run) store(s *State, l ast.Expr, v Val, rhs ast.Expr, pos token.Pos) {
	in := r.in
	switch x := l.(type) {
	case *ast.Ident:
		if x.Name == "_" {
			return
		}
		if o := in.Info.ObjectOf(x); o != nil {
			if _, isVar := o.(*types.Var); isVar && o.Parent() != in.V.Pkg.Scope() {
				s.Env[o] = v
				r.dropFactsAbout(s, x.Name)
				return
			}
			s.undecided("assignment to package-level variable %s", x.Name)
		}
		return
	}
	// label binding: a store into the top map of the variable stack, through a local alias or directly
	if ix, ok := l.(*ast.IndexExpr); ok {
		if base := r.eval(s, ix.X); base.K == "map" && base.A == "vstack-top" {
			s.event("bind", pos, in.exprText(ix.Index), v.String(), base.B, fmt.Sprint(s.VS))
			return
		}
	}
	if p := in.pPath(l); p != "" {
		r.pWriteVal(s, p, l, rhs, v, pos)
		return
	}
	// a slot store into a presized result list: one more element, in slot order
	if ix, ok := l.(*ast.IndexExpr); ok {
		if id, isID := ix.X.(*ast.Ident); isID {
			if o := in.Info.ObjectOf(id); o != nil {
				if cur, tracked := s.Env[o]; tracked && cur.K == "vals" && cur.F != nil && cur.F["presized"].K == "str" {
					if _, isIdx := ix.Index.(*ast.Ident); isIdx {
						d := v.K
						if v.K == "child" {
							d = "child@" + v.A
						}
						if cur.A != "empty" && cur.B != d {
							d = "mixed"
						}
						n := map[string]string{"empty": "n1", "n1": "n2", "n2": "n3", "n3": "n3"}[cur.A]
						s.Env[o] = Val{K: "vals", A: n, B: d, F: cur.F}
						return
					}
				}
			}
		}
	}
	// index into a tracked local map
	if ix, ok := l.(*ast.IndexExpr); ok {
		base := r.eval(s, ix.X)
		if base.K == "map" && base.A == "vstack-top" {
			s.event("bind", pos, in.exprText(ix.Index), v.String(), base.B, fmt.Sprint(s.VS))
			return
		}
		if base.K == "node" || base.K == "field" {
			s.undecided("store into grammar node %s", in.exprText(l))
		}
		return
	}
	if sel, ok := l.(*ast.SelectorExpr); ok {
		base := r.eval(s, sel.X)
		if base.K == "node" || base.K == "field" {
			s.undecided("store into grammar node %s", in.exprText(l))
		}
		if base.K == "sp" || base.K == "pos" {
			s.undecided("field store into a savepoint/position value %s", in.exprText(l))
		}
	}
}

func (r *run) pWrite(s *State, path string, l, rhs ast.Expr, pos token.Pos) {
	r.pWriteVal(s, path, l, rhs, Unk("?"), pos)
}

// pWriteVal handles a store to a parser field.
func (r *run) pWriteVal(s *State, path string, l, rhs ast.Expr, v Val, pos token.Pos) {
	in := r.in
	rt := ""
	if rhs != nil {
		rt = strings.ReplaceAll(in.exprText(rhs), " ", "")
	}
	top := path
	if i := strings.IndexAny(path, ".["); i > 0 {
		top = path[:i]
	}
	top = strings.TrimPrefix(top, "*")
	switch {
	case path == "rstack":
		switch {
		case strings.HasPrefix(rt, "append(p.rstack,"):
			s.RS = saturate(s.RS + 1)
			s.event("rstack.push", pos, strings.TrimSuffix(strings.TrimPrefix(rt, "append(p.rstack,"), ")"))
		case rt == "p.rstack[:len(p.rstack)-1]" || r.isTopIndexSlice(s, rhs):
			s.RS = saturate(s.RS - 1)
			s.event("rstack.pop", pos)
		default:
			s.undecided("unrecognised write to p.rstack: %s", rt)
		}
	case path == "maxFailInvertExpected":
		if rt == "!p.maxFailInvertExpected" {
			s.Inv = !s.Inv
			s.event("invert", pos)
		} else {
			s.undecided("unrecognised write to p.maxFailInvertExpected: %s", rt)
		}
	case path == "*errs":
		if v.K == "errsnap" {
			s.event("errs=", pos, v.A)
			s.Er = v.A
		} else {
			s.undecided("*p.errs assigned a value that is not an earlier snapshot: %s", rt)
			s.Er = Unknown
		}
	case path == "cur.pos":
		s.event("ctx.pos", pos, r.posEpoch(v), v.K)
	case path == "cur.text":
		s.event("ctx.text", pos, v.String())
	case top == "pt" || top == "data" || top == "vstack" || top == "recoveryStack" || top == "memo" || top == "errs" ||
		top == "maxFailPos" || top == "maxFailExpected" || top == "rules" || top == "cur":
		s.undecided("write to tracked parser location p.%s outside its owner function", path)
	default:
		// untracked (depth, statistics, ...): checked by the who-may-write rules
		s.event("pwrite", pos, path)
	}
}

// eval evaluates a side-effect free expression.
func (r *run) eval(s *State, e ast.Expr) Val {
	in := r.in
	if tv, ok := in.Info.Types[e]; ok && tv.Value != nil {
		if tv.Value.Kind() == constant.Bool {
			return Bool(constant.BoolVal(tv.Value))
		}
		return Val{K: "const", A: tv.Value.ExactString()}
	}
	switch x := e.(type) {
	case *ast.ParenExpr:
		return r.eval(s, x.X)
	case *ast.Ident:
		if x.Name == "nil" {
			return Val{K: "nil"}
		}
		o := in.Info.ObjectOf(x)
		if o == nil {
			return Unk(x.Name)
		}
		if v, ok := s.Env[o]; ok {
			return v
		}
		if in.isP(x) {
			return Val{K: "parser"}
		}
		if _, ok := o.(*types.Var); ok {
			if pt, ok := o.Type().(*types.Pointer); ok {
				if _, ok := pt.Elem().(*types.Named); ok {
					return Val{K: "node", A: x.Name}
				}
			}
		}
		return Unk(x.Name)
	case *ast.SelectorExpr:
		if p := in.pPath(x); p != "" {
			switch p {
			case "pt":
				return Val{K: "sp", A: s.Pt, B: "pt"}
			case "pt.position":
				return Val{K: "pos", A: s.Pt}
			case "pt.rn":
				return Val{K: "rn", A: s.Pt}
			}
			return Val{K: "pfield", A: p}
		}
		base := r.eval(s, x.X)
		switch base.K {
		case "sp":
			if x.Sel.Name == "position" {
				return Val{K: "pos", A: base.A}
			}
			if x.Sel.Name == "rn" {
				return Val{K: "rn", A: base.A}
			}
			return Val{K: "spfield", A: base.A, B: x.Sel.Name}
		case "tuple":
			name := x.Sel.Name
			if c, known := in.tupleField[name]; known {
				name = c
			}
			if f, ok := base.F[name]; ok {
				return f
			}
		case "node":
			return Val{K: "field", A: base.A + "." + x.Sel.Name}
		case "field":
			return Val{K: "field", A: base.A + "." + x.Sel.Name}
		}
		return Unk(in.exprText(x))
	case *ast.StarExpr:
		if p := in.pPath(x); p == "*errs" {
			return Val{K: "errsnap", A: s.Er}
		}
		return Unk(in.exprText(x))
	case *ast.IndexExpr:
		if p := in.pPath(x.X); p == "vstack" && strings.ReplaceAll(in.exprText(x.Index), " ", "") == "len(p.vstack)-1" {
			return Val{K: "map", A: "vstack-top", B: fmt.Sprint(s.VS)}
		}
		return Unk(in.exprText(x))
	case *ast.UnaryExpr:
		v := r.eval(s, x.X)
		if x.Op == token.NOT {
			switch {
			case v.IsTrue():
				return Bool(false)
			case v.IsFalse():
				return Bool(true)
			case v.K == "bool":
				return Val{K: "bool", A: "U", B: "!" + v.B}
			}
			return BoolU(in.exprText(x))
		}
		return Unk(in.exprText(x))
	case *ast.BinaryExpr:
		switch x.Op {
		case token.LAND:
			a := r.eval(s, x.X)
			if a.IsFalse() {
				return Bool(false)
			}
			b := r.eval(s, x.Y)
			if b.IsFalse() {
				return Bool(false)
			}
			if a.IsTrue() && b.IsTrue() {
				return Bool(true)
			}
			return BoolU(in.exprText(x))
		case token.LOR:
			a := r.eval(s, x.X)
			if a.IsTrue() {
				return Bool(true)
			}
			b := r.eval(s, x.Y)
			if b.IsTrue() {
				return Bool(true)
			}
			if a.IsFalse() && b.IsFalse() {
				return Bool(false)
			}
			return BoolU(in.exprText(x))
		case token.EQL, token.NEQ:
			// len(vals) == 0
			if c, ok := x.X.(*ast.CallExpr); ok && in.exprText(c.Fun) == "len" && len(c.Args) == 1 && in.exprText(x.Y) == "0" {
				v := r.eval(s, c.Args[0])
				if v.K == "vals" {
					isEmpty := v.A == "empty"
					if x.Op == token.NEQ {
						isEmpty = !isEmpty
					}
					return Bool(isEmpty)
				}
			}
			r.eval(s, x.X)
			r.eval(s, x.Y)
			return BoolU(in.exprText(x))
		}
		r.eval(s, x.X)
		r.eval(s, x.Y)
		if t := in.Info.TypeOf(x); t != nil {
			if b, ok := t.Underlying().(*types.Basic); ok && b.Info()&types.IsBoolean != 0 {
				return BoolU(in.exprText(x))
			}
		}
		return Unk(in.exprText(x))
	case *ast.CallExpr:
		if b := in.purePredicate(x); b != nil {
			return r.eval(s, b)
		}
		if b, undo := r.boundPredicate(s, x); b != nil {
			defer undo()
			return r.eval(s, b)
		}
		if r.effectful(x) {
			s.undecided("effectful call %s in expression position", in.exprText(x))
			return Unk("call")
		}
		fn := in.exprText(x.Fun)
		switch {
		case r.roleOf(x) == RoleSliceFrom && len(x.Args) == 1:
			a := r.eval(s, x.Args[0])
			if a.K == "sp" {
				return Val{K: "slice", A: a.A, B: s.Pt}
			}
			return Val{K: "slice", A: Unknown, B: s.Pt}
		case fn == "unicode.ToLower" && len(x.Args) == 1:
			a := r.eval(s, x.Args[0])
			if a.K == "rn" {
				return Val{K: "rn", A: a.A, B: "folded"}
			}
			return Unk(in.exprText(x))
		case fn == "append" && len(x.Args) >= 1:
			a := r.eval(s, x.Args[0])
			if a.K == "vals" && len(x.Args) == 2 && !x.Ellipsis.IsValid() {
				el := r.eval(s, x.Args[1])
				d := el.K
				if el.K == "child" {
					d = "child@" + el.A
				}
				if a.A != "empty" && a.B != d {
					d = "mixed"
				}
				n := map[string]string{"empty": "n1", "n1": "n2", "n2": "n3", "n3": "n3"}[a.A]
				return Val{K: "vals", A: n, B: d}
			}
			for _, y := range x.Args[1:] {
				r.eval(s, y)
			}
			return Unk(in.exprText(x))
		case fn == "make":
			if len(x.Args) >= 1 {
				if t := in.Info.TypeOf(x.Args[0]); t != nil {
					if _, ok := t.Underlying().(*types.Slice); ok {
						if len(x.Args) >= 2 && in.exprText(x.Args[1]) == "0" {
							return Val{K: "vals", A: "empty"}
						}
						// a list created at its final length and filled slot by slot (`vals[i] = v` in the loop
						// over the operands): every slot store counts as one appended element; the list is looked
						// at only after the loop
						if len(x.Args) == 2 && strings.HasPrefix(in.exprText(x.Args[1]), "len(") {
							return Val{K: "vals", A: "empty", F: map[string]Val{"presized": {K: "str", A: in.exprText(x.Args[1])}}}
						}
					}
				}
			}
			return Unk(in.exprText(x))
		}
		for _, a := range x.Args {
			r.eval(s, a)
		}
		return Unk(in.exprText(x))
	case *ast.CompositeLit:
		t := in.Info.TypeOf(x)
		if n, ok := t.(*types.Named); ok && n.Obj().Name() == "resultTuple" {
			f := map[string]Val{}
			names := []string{"v", "b", "end"}
			for i, el := range x.Elts {
				if kv, ok := el.(*ast.KeyValueExpr); ok {
					k := in.exprText(kv.Key)
					if c, known := in.tupleField[k]; known {
						k = c
					}
					f[k] = r.eval(s, kv.Value)
				} else if i < len(names) {
					f[names[i]] = r.eval(s, el)
				}
			}
			// fields left out of a keyed literal have their zero values
			if _, ok := f["v"]; !ok {
				f["v"] = Val{K: "nil"}
			}
			if _, ok := f["b"]; !ok {
				f["b"] = Bool(false)
			}
			f["$st"] = Val{K: "tok", A: s.St}
			f["$er"] = Val{K: "errsnap", A: s.Er}
			f["$pt"] = Val{K: "sp", A: s.Pt}
			return Val{K: "tuple", A: "lit", F: f}
		}
		if n, ok := t.(*types.Named); ok && (n.Obj().Name() == "savepoint" || n.Obj().Name() == "position") {
			s.undecided("composite literal of type %s", n.Obj().Name())
		}
		// a helper struct that carries tracked values (a savepoint and a state clone kept together): field by field
		if n, ok := t.(*types.Named); ok {
			if st, isStruct := n.Underlying().(*types.Struct); isStruct && n.Obj().Pkg() == in.V.Pkg {
				f := map[string]Val{}
				okAll := true
				for i, el := range x.Elts {
					name, val := "", ast.Expr(nil)
					if kv, ok := el.(*ast.KeyValueExpr); ok {
						name, val = in.exprText(kv.Key), kv.Value
					} else if i < st.NumFields() {
						name, val = st.Field(i).Name(), el
					}
					if val == nil {
						okAll = false
						continue
					}
					if c, isCall := val.(*ast.CallExpr); isCall && r.effectful(c) {
						outs := r.call(s, c)
						if len(outs) == 1 && outs[0].s == s && len(outs[0].res) >= 1 {
							f[name] = outs[0].res[0]
						} else {
							s.undecided("effectful call %s in a struct literal", in.exprText(c))
							okAll = false
						}
						continue
					}
					f[name] = r.eval(s, val)
				}
				if okAll {
					return Val{K: "tuple", A: "struct:" + n.Obj().Name(), F: f}
				}
				return Unk(in.exprText(x))
			}
		}
		for _, el := range x.Elts {
			if kv, ok := el.(*ast.KeyValueExpr); ok {
				r.eval(s, kv.Value)
			} else {
				r.eval(s, el)
			}
		}
		return Unk(in.exprText(x))
	case *ast.BasicLit:
		return Val{K: "const", A: x.Value}
	case *ast.TypeAssertExpr:
		r.eval(s, x.X)
		return Unk(in.exprText(x))
	case *ast.SliceExpr:
		r.eval(s, x.X)
		return Unk(in.exprText(x))
	case *ast.FuncLit:
		return Unk("funclit")
	}
	return Unk(fmt.Sprintf("%T", e))
}

// cond evaluates a branch condition, consulting path facts first.
func (r *run) cond(s *State, e ast.Expr) Val {
	txt := r.in.exprText(e)
	if v, ok := s.Facts[txt]; ok {
		return Bool(v)
	}
	switch x := e.(type) {
	case *ast.CallExpr:
		if b := r.in.purePredicate(x); b != nil {
			return r.cond(s, b)
		}
		if b, undo := r.boundPredicate(s, x); b != nil {
			defer undo()
			return r.cond(s, b)
		}
	case *ast.ParenExpr:
		return r.cond(s, x.X)
	case *ast.UnaryExpr:
		if x.Op == token.NOT {
			v := r.cond(s, x.X)
			switch {
			case v.IsTrue():
				return Bool(false)
			case v.IsFalse():
				return Bool(true)
			}
			return BoolU(txt)
		}
	case *ast.BinaryExpr:
		if x.Op == token.LAND {
			a, b := r.cond(s, x.X), r.cond(s, x.Y)
			if a.IsFalse() || b.IsFalse() {
				return Bool(false)
			}
			if a.IsTrue() && b.IsTrue() {
				return Bool(true)
			}
			return BoolU(txt)
		}
		if x.Op == token.LOR {
			a, b := r.cond(s, x.X), r.cond(s, x.Y)
			if a.IsTrue() || b.IsTrue() {
				return Bool(true)
			}
			if a.IsFalse() && b.IsFalse() {
				return Bool(false)
			}
			return BoolU(txt)
		}
	}
	return r.eval(s, e)
}

// falsityImpliesNotEOF: if e evaluates to false then the current position is not end of input.
func (r *run) falsityImpliesNotEOF(s *State, e ast.Expr) bool {
	in := r.in
	switch x := e.(type) {
	case *ast.CallExpr:
		if b := in.purePredicate(x); b != nil {
			return r.falsityImpliesNotEOF(s, b)
		}
		if b, undo := r.boundPredicate(s, x); b != nil {
			defer undo()
			return r.falsityImpliesNotEOF(s, b)
		}
	case *ast.ParenExpr:
		return r.falsityImpliesNotEOF(s, x.X)
	case *ast.BinaryExpr:
		switch x.Op {
		case token.LAND:
			return r.falsityImpliesNotEOF(s, x.X) && r.falsityImpliesNotEOF(s, x.Y)
		case token.LOR:
			return r.falsityImpliesNotEOF(s, x.X) || r.falsityImpliesNotEOF(s, x.Y)
		case token.EQL:
			l, rr := x.X, x.Y
			if in.exprText(l) == "utf8.RuneError" {
				l, rr = rr, l
			}
			if in.exprText(rr) == "utf8.RuneError" {
				v := r.eval(s, l)
				return v.K == "rn" && v.A == s.Pt && v.B == ""
			}
			if in.exprText(rr) == "0" && r.isCurrentWidth(s, l) {
				return true
			}
		}
	}
	return false
}

// isCurrentWidth: e denotes the width of the rune at the current position (p.pt.w or <copy of p.pt>.w).
func (r *run) isCurrentWidth(s *State, e ast.Expr) bool {
	if r.in.pPath(e) == "pt.w" {
		return true
	}
	v := r.eval(s, e)
	return v.K == "spfield" && v.B == "w" && v.A == s.Pt
}

// truthImpliesNotEOF: e true implies not end of input (cur < K with K <= 0xFFFD on the raw rune).
func (r *run) truthImpliesNotEOF(s *State, e ast.Expr) bool {
	in := r.in
	switch x := e.(type) {
	case *ast.CallExpr:
		if b := in.purePredicate(x); b != nil {
			return r.truthImpliesNotEOF(s, b)
		}
		if b, undo := r.boundPredicate(s, x); b != nil {
			defer undo()
			return r.truthImpliesNotEOF(s, b)
		}
	case *ast.ParenExpr:
		return r.truthImpliesNotEOF(s, x.X)
	case *ast.UnaryExpr:
		if x.Op == token.NOT {
			return r.falsityImpliesNotEOF(s, x.X)
		}
	case *ast.BinaryExpr:
		switch x.Op {
		case token.LAND:
			return r.truthImpliesNotEOF(s, x.X) || r.truthImpliesNotEOF(s, x.Y)
		case token.LOR:
			return r.truthImpliesNotEOF(s, x.X) && r.truthImpliesNotEOF(s, x.Y)
		case token.LSS, token.LEQ:
			lhs := x.X
			// an integer conversion of the rune is the rune (int(cur) < len(table))
			for {
				if pe, ok := lhs.(*ast.ParenExpr); ok {
					lhs = pe.X
					continue
				}
				if ce, ok := lhs.(*ast.CallExpr); ok && len(ce.Args) == 1 {
					if tv, ok := in.Info.Types[ce.Fun]; ok && tv.IsType() {
						if b, ok := tv.Type.Underlying().(*types.Basic); ok && b.Info()&types.IsInteger != 0 {
							lhs = ce.Args[0]
							continue
						}
					}
				}
				break
			}
			v := r.eval(s, lhs)
			if v.K == "rn" && v.A == s.Pt && v.B == "" {
				if tv, ok := in.Info.Types[x.Y]; ok && tv.Value != nil {
					if k, ok := constant.Int64Val(constant.ToInt(tv.Value)); ok && k <= 0xFFFD {
						return true
					}
				}
			}
		case token.NEQ:
			l, rr := x.X, x.Y
			if in.exprText(l) == "utf8.RuneError" {
				l, rr = rr, l
			}
			if in.exprText(rr) == "utf8.RuneError" {
				v := r.eval(s, l)
				return v.K == "rn" && v.A == s.Pt && v.B == ""
			}
			if in.exprText(rr) == "0" && r.isCurrentWidth(s, l) {
				return true
			}
		}
	}
	return false
}

// assume refines the state with the knowledge that e evaluated to val.
func (r *run) assume(s *State, e ast.Expr, val bool) {
	in := r.in
	if val && r.truthImpliesNotEOF(s, e) {
		s.NotEOF = true
	}
	if !val && r.falsityImpliesNotEOF(s, e) {
		s.NotEOF = true
	}
	switch x := e.(type) {
	case *ast.ParenExpr:
		r.assume(s, x.X, val)
		return
	case *ast.UnaryExpr:
		if x.Op == token.NOT {
			r.assume(s, x.X, !val)
			return
		}
	case *ast.BinaryExpr:
		if x.Op == token.LAND && val {
			r.assume(s, x.X, true)
			r.assume(s, x.Y, true)
		}
		if x.Op == token.LOR && !val {
			r.assume(s, x.X, false)
			r.assume(s, x.Y, false)
		}
		// a false conjunction with one operand known true makes the other false (dually for a true disjunction)
		if x.Op == token.LAND && !val {
			switch {
			case r.cond(s, x.X).IsTrue():
				r.assume(s, x.Y, false)
			case r.cond(s, x.Y).IsTrue():
				r.assume(s, x.X, false)
			}
		}
		if x.Op == token.LOR && val {
			switch {
			case r.cond(s, x.X).IsFalse():
				r.assume(s, x.Y, true)
			case r.cond(s, x.Y).IsFalse():
				r.assume(s, x.X, true)
			}
		}
	case *ast.Ident:
		if o := in.Info.ObjectOf(x); o != nil {
			if v, ok := s.Env[o]; ok && v.K == "bool" {
				nv := Bool(val)
				s.Env[o] = nv
				return
			}
		}
	}
	txt := in.exprText(e)
	if strings.Contains(txt, "p.debug") && !strings.Contains(txt, "&&") && !strings.Contains(txt, "||") {
		return // debug never decides anything: both branches stay open (rule C06-a checks non-interference)
	}
	s.Facts[txt] = val
}

func namedTypeName(t types.Type) string {
	if n, ok := t.(*types.Named); ok {
		return n.Obj().Name()
	}
	return ""
}

// applySummary transplants every exit of a summarised helper into the caller state.
func (r *run) applySummary(s *State, c *ast.CallExpr, site string, sum *Result) []outcome {
	in := r.in
	var args []Val
	for _, a := range c.Args {
		if ce, ok := a.(*ast.CallExpr); ok && r.effectful(ce) {
			s.undecided("effectful call %s nested in arguments of helper %s", in.exprText(ce), in.exprText(c.Fun))
			args = append(args, Unk("nested"))
			continue
		}
		args = append(args, r.eval(s, a))
	}
	name := c.Fun.(*ast.SelectorExpr).Sel.Name
	paramText := map[string]string{}
	if sum.Fn.Type.Params != nil {
		i := 0
		for _, f := range sum.Fn.Type.Params.List {
			for _, nm := range f.Names {
				if i < len(c.Args) {
					paramText[nm.Name] = in.exprText(c.Args[i])
				}
				i++
			}
		}
	}
	var out []outcome
	for _, ex := range sum.Exits {
		t := s.clone()
		// epoch mapping per component: callee entry -> caller current; param:<i> -> the argument's epoch; other -> fresh
		fresh := map[string]string{}
		mk := func(x, cur string) string {
			switch {
			case x == Entry:
				return cur
			case x == Unknown:
				return Unknown
			case strings.HasPrefix(x, "param:"):
				var i int
				fmt.Sscanf(x, "param:%d", &i)
				if i < len(args) && args[i].A != "" && (args[i].K == "sp" || args[i].K == "tok" || args[i].K == "pos") {
					return args[i].A
				}
				return Unknown
			}
			n := site + "/" + x
			fresh[n] = n
			return n
		}
		pt0, st0, er0 := t.Pt, t.St, t.Er
		mapPt := func(x string) string { return mk(x, pt0) }
		mapSt := func(x string) string { return mk(x, st0) }
		mapEr := func(x string) string { return mk(x, er0) }
		var mapVal func(v Val) Val
		mapVal = func(v Val) Val {
			switch v.K {
			case "sp", "pos", "rn", "spfield":
				v.A = mapPt(v.A)
			case "slice":
				v.A, v.B = mapPt(v.A), mapPt(v.B)
			case "tok":
				v.A = mapSt(v.A)
			case "errsnap":
				v.A = mapEr(v.A)
			case "child":
				v.B = mapPt(v.B)
				v.A = site + "/" + v.A
			case "run", "err":
				v.A = site + "/" + v.A
			case "bool":
				if strings.HasPrefix(v.B, "param:") {
					var i int
					fmt.Sscanf(v.B, "param:%d", &i)
					if i < len(args) && args[i].K == "bool" {
						return args[i]
					}
				}
				// the boolean a code block returned inside the helper: its site is re-based like the run event's
				for _, pre := range []string{"run:", "!run:"} {
					if strings.HasPrefix(v.B, pre) {
						v.B = pre + site + "/" + strings.TrimPrefix(v.B, pre)
					}
				}
			}
			if len(v.F) > 0 {
				nf := map[string]Val{}
				for k, f := range v.F {
					nf[k] = mapVal(f)
				}
				v.F = nf
			}
			return v
		}
		es := ex.State
		newPt, newSt, newEr := mapPt(es.Pt), mapSt(es.St), mapEr(es.Er)
		for n := range fresh {
			t.renameStale(n)
		}
		// events, re-based
		for _, ev := range es.Ev {
			ne := ev
			ne.Pt, ne.St = mapPt(ev.Pt), mapSt(ev.St)
			ne.VS = t.VS + ev.VS
			ne.Args = append([]string(nil), ev.Args...)
			for i, a := range ne.Args {
				switch {
				case ev.Kind == "restoreState" && i == 0:
					ne.Args[i] = mapSt(a)
				case ev.Kind == "errs=" && i == 0:
					ne.Args[i] = mapEr(a)
				case a == Entry || strings.HasPrefix(a, "param:"):
					ne.Args[i] = mapPt(a)
				case paramText[a] != "":
					ne.Args[i] = paramText[a]
				case ev.Kind == "eval" && i == 3, ev.Kind == "run" && i == 1:
					ne.Args[i] = site + "/" + a
				case strings.HasPrefix(a, "err(") && strings.HasSuffix(a, ")"):
					// the error value of a block run inside the helper: named after the run's re-based site
					ne.Args[i] = "err(" + site + "/" + a[4:len(a)-1] + ")"
				}
			}
			for i, v := range ne.Vals {
				if i == 0 {
					ne.Vals = append([]Val(nil), ne.Vals...)
				}
				ne.Vals[i] = mapVal(v)
			}
			// a read() the helper performs at the position it was entered with inherits the caller's end-of-input fact
			if ev.Kind == "read" && len(ne.Args) > 0 && ne.Args[0] != "notEOF" && ev.Pt == Entry && s.NotEOF {
				ne.Args[0] = "notEOF"
			}
			// cap like State.event
			cnt := 0
			for _, x := range t.Ev {
				if x.String() == ne.String() {
					cnt++
				}
			}
			if cnt < 3 {
				t.Ev = append(t.Ev, ne)
			}
		}
		changed := es.Pt != Entry
		t.Pt, t.St, t.Er = newPt, newSt, newEr
		t.VS, t.RS, t.Rec = saturate(t.VS+es.VS), saturate(t.RS+es.RS), saturate(t.Rec+es.Rec)
		if es.Inv {
			t.Inv = !t.Inv
		}
		if changed {
			t.NotEOF = es.NotEOF
		} else {
			t.NotEOF = t.NotEOF || es.NotEOF
		}
		if len(es.Ev) > 0 || changed || es.St != Entry || es.Er != Entry {
			r.dropVolatileFacts(t)
		}
		for _, u := range es.Und {
			t.undecided("in helper %s: %s", name, u)
		}
		// what the helper's exit knows about the nil-ness of its own locals (the error of a block it ran) stays known,
		// under a name that cannot collide with the caller's variables
		for f, v := range es.Facts {
			if i := strings.Index(f, " != nil"); i > 0 && i+len(" != nil") == len(f) && token.IsIdentifier(f[:i]) {
				sfx := strings.Map(func(r rune) rune {
					if r == '_' || (r >= '0' && r <= '9') || (r >= 'a' && r <= 'z') || (r >= 'A' && r <= 'Z') {
						return r
					}
					return '_'
				}, site)
				if t.Facts == nil {
					t.Facts = map[string]bool{}
				}
				t.Facts[f[:i]+"_in_"+name+"_"+sfx+" != nil"] = v
			}
		}
		var res []Val
		for _, v := range ex.Vals {
			res = append(res, mapVal(v))
		}
		out = append(out, outcome{t, res})
	}
	return out
}

// isTopIndexSlice: rhs is `p.rstack[:top]` with top a local whose only definition in the function is
// `top := len(p.rstack) - 1`, made after the last push (the depth has not changed since: checked by position - the
// definition lies after every append to p.rstack that precedes the slice).
func (r *run) isTopIndexSlice(s *State, rhs ast.Expr) bool {
	se, ok := rhs.(*ast.SliceExpr)
	if !ok || se.Low != nil || se.High == nil || se.Max != nil || r.in.exprText(se.X) != "p.rstack" {
		return false
	}
	id, ok := se.High.(*ast.Ident)
	if !ok {
		return false
	}
	obj := r.in.Info.ObjectOf(id)
	if obj == nil {
		return false
	}
	var def *ast.AssignStmt
	nDefs := 0
	var pushes []token.Pos
	ast.Inspect(r.fd.Body, func(n ast.Node) bool {
		as, ok := n.(*ast.AssignStmt)
		if !ok {
			return true
		}
		for i, l := range as.Lhs {
			if lid, ok := l.(*ast.Ident); ok && r.in.Info.ObjectOf(lid) == obj {
				nDefs++
				if len(as.Lhs) == len(as.Rhs) && strings.ReplaceAll(r.in.exprText(as.Rhs[i]), " ", "") == "len(p.rstack)-1" {
					def = as
				}
			}
			if strings.ReplaceAll(r.in.exprText(l), " ", "") == "p.rstack" {
				if as.End() <= rhs.Pos() {
					pushes = append(pushes, as.Pos())
				}
			}
		}
		return true
	})
	if def == nil || nDefs != 1 || def.Pos() > rhs.Pos() {
		return false
	}
	for _, p := range pushes {
		if p > def.Pos() && p < rhs.Pos() {
			return false // the stack was stored to between the definition of the index and its use
		}
	}
	return true
}

// throughLocal renders an argument; a local that is defined exactly once in the function, as a field selection
// (`labels := recover.failureLabel`), reads as that selection.
func (r *run) throughLocal(e ast.Expr) string {
	id, ok := e.(*ast.Ident)
	if !ok {
		return r.in.exprText(e)
	}
	obj := r.in.Info.ObjectOf(id)
	if obj == nil {
		return r.in.exprText(e)
	}
	n := 0
	var def ast.Expr
	ast.Inspect(r.fd.Body, func(nd ast.Node) bool {
		switch x := nd.(type) {
		case *ast.AssignStmt:
			for i, l := range x.Lhs {
				if lid, ok := l.(*ast.Ident); ok && r.in.Info.ObjectOf(lid) == obj {
					n++
					if len(x.Lhs) == len(x.Rhs) {
						def = x.Rhs[i]
					}
				}
			}
		case *ast.IncDecStmt:
			if lid, ok := x.X.(*ast.Ident); ok && r.in.Info.ObjectOf(lid) == obj {
				n += 2
			}
		case *ast.UnaryExpr:
			if lid, ok := x.X.(*ast.Ident); ok && x.Op == token.AND && r.in.Info.ObjectOf(lid) == obj {
				n += 2
			}
		}
		return true
	})
	if n == 1 && def != nil {
		if _, isSel := def.(*ast.SelectorExpr); isSel {
			return r.in.exprText(def)
		}
	}
	return r.in.exprText(e)
}

// stateCap bounds the (block, abstract state) pairs explored per function. The evaluators of the pinned tree and of
// every stored refactoring set need a few hundred at most; a function that exceeds the cap is reported as undecided
// (the check fails) instead of exhausting time and memory.
const stateCap = 10000
