// Package ob holds the obligation / report / evidence machinery shared by all
// property checks (DESIGN.md §2.10 and Appendix B).
package ob

import (
	"encoding/json"
	"fmt"
	"os"
	"path/filepath"
	"sort"
	"strconv"
	"strings"
	"time"
)

type Verdict string

const (
	Discharged Verdict = "discharged"
	Violated   Verdict = "violated"
	Undecided  Verdict = "undecided"
)

// Obligation is one rule instance. Key = "<rule>:<construct>", never a line number.
type Obligation struct {
	Key        string   `json:"key"`
	Rule       string   `json:"rule"`
	Construct  string   `json:"construct"`
	Verdict    Verdict  `json:"verdict"`
	Where      string   `json:"where,omitempty"`  // file:line of the construct (informational)
	Detail     string   `json:"detail,omitempty"` // witness / reason
	Variants   []string `json:"variants,omitempty"`
	NonTrivial bool     `json:"nontrivial"` // needed a path / effect / dataflow argument
	Known      string   `json:"known_finding,omitempty"`
}

type MinInst struct {
	Rule     string `json:"rule"`
	Expected int    `json:"expected_at_least"`
	Found    int    `json:"found"`
}

type Report struct {
	Property    string
	Tier        string
	start       time.Time
	obs         map[string]*Obligation
	order       []string
	Analysed    map[string]any
	mins        []MinInst
	Explanation string
	Rules       map[string]string // rule id -> rule text
	Assumptions []string
	Technique   string
	fatal       []string
	evals       int
}

func New(property, tier string) *Report {
	return &Report{Property: property, Tier: tier, start: time.Now(), obs: map[string]*Obligation{},
		Analysed: map[string]any{}, Rules: map[string]string{}}
}

// Rule registers the text of a rule (printed in evidence).
func (r *Report) Rule(id, text string) { r.Rules[id] = text }

// Add records the verdict of one obligation evaluated in one variant ("" = not variant specific).
// The same key may be added once per variant; verdicts are merged (worst wins).
func (r *Report) Add(rule, construct string, v Verdict, variant, where, detail string, nontrivial bool) *Obligation {
	key := rule + ":" + construct
	r.evals++
	o := r.obs[key]
	if o == nil {
		o = &Obligation{Key: key, Rule: rule, Construct: construct, Verdict: v, Where: where, Detail: detail, NonTrivial: nontrivial}
		r.obs[key] = o
		r.order = append(r.order, key)
	} else {
		if rank(v) > rank(o.Verdict) {
			o.Verdict, o.Detail, o.Where = v, detail, where
		}
		o.NonTrivial = o.NonTrivial || nontrivial
	}
	if variant != "" {
		if v != Discharged {
			o.Variants = append(o.Variants, variant+"!")
		} else {
			o.Variants = append(o.Variants, variant)
		}
	}
	return o
}

func (r *Report) Ok(rule, construct, variant, where, detail string) {
	r.Add(rule, construct, Discharged, variant, where, detail, true)
}
func (r *Report) Bad(rule, construct, variant, where, detail string) {
	r.Add(rule, construct, Violated, variant, where, detail, true)
}
func (r *Report) Unk(rule, construct, variant, where, detail string) {
	r.Add(rule, construct, Undecided, variant, where, detail, true)
}

// Check is Ok/Bad depending on cond.
func (r *Report) Check(cond bool, rule, construct, variant, where, okDetail, badDetail string) bool {
	if cond {
		r.Ok(rule, construct, variant, where, okDetail)
	} else {
		r.Bad(rule, construct, variant, where, badDetail)
	}
	return cond
}

func rank(v Verdict) int {
	switch v {
	case Discharged:
		return 0
	case Undecided:
		return 1
	}
	return 2
}

// Min declares that rule must have matched at least n instances (confirmed by hand on the reference tree).
func (r *Report) Min(rule string, expected, found int) {
	r.mins = append(r.mins, MinInst{rule, expected, found})
}

// CountRule returns the number of distinct obligations recorded for rule so far.
func (r *Report) CountRule(rule string) int {
	n := 0
	for _, o := range r.obs {
		if o.Rule == rule {
			n++
		}
	}
	return n
}

// MinRule = Min(rule, expected, CountRule(rule)).
func (r *Report) MinRule(rule string, expected int) { r.Min(rule, expected, r.CountRule(rule)) }

// Fatal records a failure of the machinery itself (anchor unresolved, type-check failure, panic).
func (r *Report) Fatal(format string, a ...any) {
	r.fatal = append(r.fatal, fmt.Sprintf(format, a...))
}

type knownEntry struct {
	Status   string `json:"status"`
	Property string `json:"property"`
	Key      string `json:"key"`
	What     string `json:"what"`
	Repro    string `json:"repro,omitempty"`
	Commit   string `json:"commit,omitempty"`
}

func verifDir() string {
	if d := os.Getenv("VERIF_DIR"); d != "" {
		return d
	}
	return "/verif"
}

func loadKnown() ([]knownEntry, error) {
	b, err := os.ReadFile(filepath.Join(verifDir(), "known_findings.json"))
	if err != nil {
		if os.IsNotExist(err) {
			return nil, nil
		}
		return nil, err
	}
	var ks []knownEntry
	if err := json.Unmarshal(b, &ks); err != nil {
		return nil, err
	}
	return ks, nil
}

// Finish prints the verdict lines, writes evidence and returns the process exit code.
func (r *Report) Finish() int {
	known, err := loadKnown()
	if err != nil {
		r.Fatal("known_findings.json unreadable: %v", err)
	}
	knownByKey := map[string]knownEntry{}
	for _, k := range known {
		if k.Status == "known" && k.Property == r.Property {
			knownByKey[k.Key] = k
		}
	}
	// thorough tier: result of the checker's self-test for this property (written by run.sh just before)
	if b, err := os.ReadFile(filepath.Join(verifDir(), "evidence", r.Property+".selftest.json")); err == nil {
		var st struct {
			Mutants  int `json:"mutants"`
			Failures int `json:"failures"`
			Results  []map[string]any
			Note     string `json:"note"`
		}
		if json.Unmarshal(b, &st) == nil {
			r.Analysed["selftest"] = map[string]any{"mutants_applied_to_scratch_copies": st.Mutants, "failures": st.Failures, "results": st.Results}
			if st.Note != "" {
				r.Analysed["selftest"] = map[string]any{"note": st.Note}
			}
			if st.Failures > 0 {
				r.Fatal("checker self-test: %d of %d mutants / silent edits of this property were not handled as expected (see evidence/%s.selftest.log)", st.Failures, st.Mutants, r.Property)
			}
		}
	}
	for _, m := range r.mins {
		if m.Found < m.Expected {
			r.Fatal("rule %s matched %d instances, fewer than the %d confirmed by hand: the rule has lost its anchors", m.Rule, m.Found, m.Expected)
		}
	}
	var viol, undec, knownHit []*Obligation
	discharged := 0
	nontrivial := 0
	sort.Strings(r.order)
	for _, k := range r.order {
		o := r.obs[k]
		if o.NonTrivial {
			nontrivial++
		}
		switch o.Verdict {
		case Discharged:
			discharged++
		case Violated:
			if ke, ok := knownByKey[o.Key]; ok {
				o.Known = ke.What
				knownHit = append(knownHit, o)
			} else {
				viol = append(viol, o)
			}
		case Undecided:
			undec = append(undec, o)
		}
	}
	for _, o := range knownHit {
		fmt.Printf("KNOWN-FINDING: property=%s %s %s [%s] (%s)\n", r.Property, o.Key, o.Known, o.Where, o.Detail)
	}
	for k, ke := range knownByKey {
		hit := false
		for _, o := range knownHit {
			if o.Key == k {
				hit = true
			}
		}
		if !hit {
			fmt.Printf("STALE-KNOWN-FINDING: property=%s %s (%s) is listed but no longer violated\n", r.Property, k, ke.What)
		}
	}
	evdir := filepath.Join(verifDir(), "evidence")
	_ = os.MkdirAll(evdir, 0o755)
	exit := 0
	violPath := filepath.Join(evdir, r.Property+".violations.json")
	_ = os.Remove(violPath)
	if len(viol)+len(undec)+len(r.fatal) > 0 {
		exit = 1
		type vf struct {
			Property  string        `json:"property"`
			Violated  []*Obligation `json:"violated"`
			Undecided []*Obligation `json:"undecided"`
			Fatal     []string      `json:"machinery_failures"`
			Rules     map[string]string
		}
		rules := map[string]string{}
		for _, o := range append(append([]*Obligation{}, viol...), undec...) {
			rules[o.Rule] = r.Rules[o.Rule]
		}
		b, _ := json.MarshalIndent(vf{r.Property, viol, undec, r.fatal, rules}, "", " ")
		_ = os.WriteFile(violPath, b, 0o644)
		for _, o := range viol {
			fmt.Printf("violated  %s\n    at %s\n    %s\n", o.Key, o.Where, o.Detail)
		}
		for id, t := range rules {
			fmt.Printf("rule %s: %s\n", id, t)
		}
		for _, o := range undec {
			fmt.Printf("undecided %s\n    at %s\n    %s\n", o.Key, o.Where, o.Detail)
		}
		for _, f := range r.fatal {
			fmt.Printf("machinery failure: %s\n", f)
		}
		fmt.Printf("VIOLATION property=%s replay=%s\n", r.Property, violPath)
	}
	// evidence
	samples := []any{}
	// prefer a mix: known, then nontrivial discharged
	for _, o := range knownHit {
		samples = append(samples, o)
	}
	for _, o := range viol {
		samples = append(samples, o)
	}
	step := 1
	if len(r.order) > 12 {
		step = len(r.order) / 12
	}
	for i := 0; i < len(r.order) && len(samples) < 16; i += step {
		samples = append(samples, r.obs[r.order[i]])
	}
	seed := 0
	if s := os.Getenv("VERIF_SEED"); s != "" {
		if n, err := strconv.Atoi(s); err == nil {
			seed = n
		}
	}
	all := make([]*Obligation, 0, len(r.order))
	for _, k := range r.order {
		all = append(all, r.obs[k])
	}
	ruleIDs := make([]string, 0, len(r.Rules))
	for id := range r.Rules {
		ruleIDs = append(ruleIDs, id)
	}
	sort.Strings(ruleIDs)
	ruleTexts := []string{}
	for _, id := range ruleIDs {
		ruleTexts = append(ruleTexts, id+": "+r.Rules[id])
	}
	ev := map[string]any{
		"property_id": r.Property,
		"tier":        r.Tier,
		"seed":        seed,
		"level":       "other",
		"coverage": map[string]any{
			"explanation":         r.Explanation,
			"technique":           r.Technique,
			"rules":               ruleTexts,
			"obligations":         len(r.order),
			"discharged":          discharged,
			"known_findings":      len(knownHit),
			"violated":            len(viol),
			"undecided":           len(undec),
			"evaluations":         r.evals,
			"distinct_nontrivial": nontrivial,
			"rule":                "one obligation per (rule, construct); evaluations counts each template variant separately; non-trivial = needed a path, effect or dataflow argument rather than an existence test",
			"samples":             samples,
			"analysed":            r.Analysed,
			"min_instances":       r.mins,
			"all_obligations":     all,
			"machinery_failures":  r.fatal,
			"checker_cmd":         strings.Join(os.Args, " "),
			"exhaustive":          true,
		},
		"assumptions": r.Assumptions,
		"violations":  len(viol) + len(undec) + len(r.fatal),
		"wall_s":      time.Since(r.start).Seconds(),
	}
	b, _ := json.MarshalIndent(ev, "", " ")
	if err := os.WriteFile(filepath.Join(evdir, r.Property+".json"), b, 0o644); err != nil {
		fmt.Printf("cannot write evidence: %v\n", err)
		return 1
	}
	fmt.Printf("%s %s: %d obligations, %d discharged, %d known findings, %d violated, %d undecided, %d machinery failures (%.1fs)\n",
		r.Property, r.Tier, len(r.order), discharged, len(knownHit), len(viol), len(undec), len(r.fatal), time.Since(r.start).Seconds())
	return exit
}
