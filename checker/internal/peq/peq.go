// Package peq implements E-PEQ (DESIGN.md §2.5): partial evaluation of one template variant under
// constant parser fields, removal of statements of proven non-interfering slices, removal of locals that
// became unused, and syntactic comparison with another variant, declaration by declaration.
package peq

import (
	"bytes"
	"fmt"
	"go/ast"
	"go/parser"
	"go/printer"
	"go/token"
	"pigeonverif/internal/astinline"
	"sort"
	"strings"
)

// Config says what to specialise.
type Config struct {
	FalseFields    map[string]bool // selector texts that are constant false, e.g. "p.debug"
	DropCalls      map[string]bool // statement-level calls to drop, e.g. "p.incChoiceAltCnt"
	DropAssignFrom map[string]bool // assignments whose right-hand side is a call of these, e.g. "p.cloneState"
	DropKeys       map[string]bool // composite-literal keys to drop, e.g. "state"
	DropCases      map[string]bool // type-switch cases to drop, e.g. "*stateCodeExpr" (node type that cannot occur)
	falseLocals    map[string]bool // per function: locals that are false on every assignment once the constant fields are folded
}

func text(n ast.Node) string {
	var b bytes.Buffer
	_ = printer.Fprint(&b, token.NewFileSet(), n)
	return b.String()
}

func nospace(n ast.Node) string { return strings.Join(strings.Fields(text(n)), "") }

// tri-valued constant folding of a condition; returns the simplified expression (nil when constant).
func (c *Config) fold(e ast.Expr) (val int, out ast.Expr) { // val: 1 true, 0 false, -1 unknown
	switch x := e.(type) {
	case *ast.ParenExpr:
		v, o := c.fold(x.X)
		if v >= 0 {
			return v, nil
		}
		if _, isBin := o.(*ast.BinaryExpr); isBin {
			return -1, &ast.ParenExpr{X: o}
		}
		return -1, o
	case *ast.SelectorExpr:
		if c.FalseFields[nospace(x)] {
			return 0, nil
		}
	case *ast.Ident:
		if c.falseLocals[x.Name] {
			return 0, nil
		}
		if x.Name == "false" {
			return 0, nil
		}
		if x.Name == "true" {
			return 1, nil
		}
	case *ast.UnaryExpr:
		if x.Op == token.NOT {
			v, o := c.fold(x.X)
			if v >= 0 {
				return 1 - v, nil
			}
			return -1, &ast.UnaryExpr{Op: token.NOT, X: o}
		}
	case *ast.BinaryExpr:
		switch x.Op {
		case token.LAND:
			a, ao := c.fold(x.X)
			b, bo := c.fold(x.Y)
			switch {
			case a == 0 || b == 0:
				return 0, nil
			case a == 1 && b == 1:
				return 1, nil
			case a == 1:
				return -1, unparen(bo)
			case b == 1:
				return -1, unparen(ao)
			}
			return -1, &ast.BinaryExpr{X: ao, Op: token.LAND, Y: bo}
		case token.LOR:
			a, ao := c.fold(x.X)
			b, bo := c.fold(x.Y)
			switch {
			case a == 1 || b == 1:
				return 1, nil
			case a == 0 && b == 0:
				return 0, nil
			case a == 0:
				return -1, unparen(bo)
			case b == 0:
				return -1, unparen(ao)
			}
			return -1, &ast.BinaryExpr{X: ao, Op: token.LOR, Y: bo}
		}
	}
	return -1, e
}

func (c *Config) mentionsConst(e ast.Expr) bool {
	found := false
	ast.Inspect(e, func(n ast.Node) bool {
		if id, ok := n.(*ast.Ident); ok && c.falseLocals[id.Name] {
			found = true
		}
		if s, ok := n.(*ast.SelectorExpr); ok && c.FalseFields[nospace(s)] {
			found = true
		}
		return true
	})
	return found
}

func unparen(e ast.Expr) ast.Expr {
	if p, ok := e.(*ast.ParenExpr); ok {
		return p.X
	}
	return e
}

func callText(e ast.Expr) string {
	if ce, ok := e.(*ast.CallExpr); ok {
		return nospace(ce.Fun)
	}
	return ""
}

// stmts rewrites a statement list.
func (c *Config) stmts(list []ast.Stmt) []ast.Stmt {
	var out []ast.Stmt
	for _, st := range list {
		out = append(out, c.stmt(st)...)
	}
	return out
}

func (c *Config) block(b *ast.BlockStmt) *ast.BlockStmt {
	if b == nil {
		return nil
	}
	return &ast.BlockStmt{List: c.stmts(b.List)}
}

func (c *Config) stmt(st ast.Stmt) []ast.Stmt {
	switch x := st.(type) {
	case *ast.ExprStmt:
		if c.DropCalls[callText(x.X)] {
			return nil
		}
		c.exprs(x.X)
		return []ast.Stmt{x}
	case *ast.AssignStmt:
		if len(x.Rhs) == 1 && c.DropAssignFrom[callText(x.Rhs[0])] {
			return nil
		}
		if len(x.Lhs) == 1 && len(x.Rhs) == 1 {
			if id, ok := x.Lhs[0].(*ast.Ident); ok && c.falseLocals[id.Name] {
				return nil // the local is false throughout: its uses were folded, its stores are dead
			}
		}
		for _, r := range x.Rhs {
			c.exprs(r)
		}
		return []ast.Stmt{x}
	case *ast.DeferStmt:
		c.exprs(x.Call)
		return []ast.Stmt{x}
	case *ast.ReturnStmt:
		for _, r := range x.Results {
			c.exprs(r)
		}
		return []ast.Stmt{x}
	case *ast.DeclStmt:
		return []ast.Stmt{x}
	case *ast.BlockStmt:
		return []ast.Stmt{c.block(x)}
	case *ast.IfStmt:
		v, cond := -1, x.Cond
		if c.mentionsConst(x.Cond) {
			v, cond = c.fold(x.Cond)
		}
		switch v {
		case 0:
			if x.Init != nil {
				// keep the init's effects if any: the template has none under constant conditions
			}
			switch e := x.Else.(type) {
			case nil:
				return nil
			case *ast.BlockStmt:
				return c.stmts(e.List)
			case *ast.IfStmt:
				return c.stmt(e)
			}
			return nil
		case 1:
			return c.stmts(x.Body.List)
		}
		n := &ast.IfStmt{Init: x.Init, Cond: cond, Body: c.block(x.Body)}
		switch e := x.Else.(type) {
		case *ast.BlockStmt:
			n.Else = c.block(e)
		case *ast.IfStmt:
			r := c.stmt(e)
			switch {
			case len(r) == 1:
				if is, ok := r[0].(*ast.IfStmt); ok {
					n.Else = is
				} else {
					n.Else = &ast.BlockStmt{List: r}
				}
			case len(r) > 1:
				n.Else = &ast.BlockStmt{List: r}
			}
		}
		if b, ok := n.Else.(*ast.BlockStmt); ok && len(b.List) == 0 {
			n.Else = nil
		}
		return []ast.Stmt{n}
	case *ast.ForStmt:
		return []ast.Stmt{&ast.ForStmt{Init: x.Init, Cond: x.Cond, Post: x.Post, Body: c.block(x.Body)}}
	case *ast.RangeStmt:
		return []ast.Stmt{&ast.RangeStmt{Key: x.Key, Value: x.Value, Tok: x.Tok, X: x.X, Body: c.block(x.Body)}}
	case *ast.SwitchStmt:
		if x.Tag == nil && x.Init == nil {
			// a condition switch: clauses whose condition folds to false are dead, a clause whose condition folds to true
			// ends the chain (it becomes the default)
			n := &ast.BlockStmt{}
			for _, cl := range x.Body.List {
				cc, ok := cl.(*ast.CaseClause)
				if !ok || len(cc.List) != 1 || !c.mentionsConst(cc.List[0]) {
					n.List = append(n.List, cl)
					continue
				}
				v, cond := c.fold(cc.List[0])
				switch v {
				case 0:
					continue
				case 1:
					n.List = append(n.List, &ast.CaseClause{Body: cc.Body})
				default:
					n.List = append(n.List, &ast.CaseClause{List: []ast.Expr{cond}, Body: cc.Body})
					continue
				}
				break
			}
			return []ast.Stmt{&ast.SwitchStmt{Body: c.caseBlock(n)}}
		}
		return []ast.Stmt{&ast.SwitchStmt{Init: x.Init, Tag: x.Tag, Body: c.caseBlock(x.Body)}}
	case *ast.TypeSwitchStmt:
		body := c.caseBlock(x.Body)
		empty := x.Init == nil
		for _, cl := range body.List {
			if cc, ok := cl.(*ast.CaseClause); ok && len(cc.Body) > 0 {
				empty = false
			}
		}
		if empty {
			if es, ok := x.Assign.(*ast.ExprStmt); ok {
				if _, isAssert := es.X.(*ast.TypeAssertExpr); isAssert {
					return nil // a type switch none of whose clauses does anything
				}
			}
		}
		return []ast.Stmt{&ast.TypeSwitchStmt{Init: x.Init, Assign: x.Assign, Body: body}}
	}
	return []ast.Stmt{st}
}

func (c *Config) caseBlock(b *ast.BlockStmt) *ast.BlockStmt {
	n := &ast.BlockStmt{}
	for _, cl := range b.List {
		if cc, ok := cl.(*ast.CaseClause); ok {
			if len(cc.List) == 1 && c.DropCases[nospace(cc.List[0])] {
				continue
			}
			n.List = append(n.List, &ast.CaseClause{List: cc.List, Body: c.stmts(cc.Body)})
		} else {
			n.List = append(n.List, cl)
		}
	}
	return n
}

// exprs rewrites function literals and composite literals nested in an expression (in place).
func (c *Config) exprs(e ast.Node) {
	ast.Inspect(e, func(n ast.Node) bool {
		switch x := n.(type) {
		case *ast.FuncLit:
			x.Body = c.block(x.Body)
			return false
		case *ast.CompositeLit:
			var elts []ast.Expr
			for _, el := range x.Elts {
				if kv, ok := el.(*ast.KeyValueExpr); ok && c.DropKeys[nospace(kv.Key)] {
					continue
				}
				elts = append(elts, el)
			}
			x.Elts = elts
		}
		return true
	})
}

// dropUnusedLocals removes local definitions (x := pure, var x T, var x = pure) whose variable is not used.
func dropUnusedLocals(fd *ast.FuncDecl) {
	for changed := true; changed; {
		changed = false
		uses := map[string]int{}
		ast.Inspect(fd.Body, func(n ast.Node) bool {
			if id, ok := n.(*ast.Ident); ok {
				uses[id.Name]++
			}
			return true
		})
		pure := func(e ast.Expr) bool {
			ok := true
			ast.Inspect(e, func(n ast.Node) bool {
				if ce, isCall := n.(*ast.CallExpr); isCall && nospace(ce.Fun) != "len" {
					ok = false
				}
				return true
			})
			return ok
		}
		var rewrite func(list []ast.Stmt) []ast.Stmt
		rewrite = func(list []ast.Stmt) []ast.Stmt {
			var out []ast.Stmt
			for _, st := range list {
				switch x := st.(type) {
				case *ast.AssignStmt:
					if x.Tok == token.DEFINE && len(x.Lhs) == 1 && len(x.Rhs) == 1 && pure(x.Rhs[0]) {
						if id, ok := x.Lhs[0].(*ast.Ident); ok && uses[id.Name] == 1 {
							changed = true
							continue
						}
					}
					// assignments to a variable that is otherwise never read: x = pure, where x only occurs as assignment target
				case *ast.DeclStmt:
					gd, ok := x.Decl.(*ast.GenDecl)
					if ok && gd.Tok == token.VAR {
						var specs []ast.Spec
						for _, sp := range gd.Specs {
							vs := sp.(*ast.ValueSpec)
							keep := true
							if len(vs.Names) == 1 && uses[vs.Names[0].Name] == 1 {
								if len(vs.Values) == 0 || pure(vs.Values[0]) {
									keep = false
									changed = true
								}
							}
							if keep {
								specs = append(specs, sp)
							}
						}
						if len(specs) == 0 {
							continue
						}
						if len(specs) != len(gd.Specs) {
							x = &ast.DeclStmt{Decl: &ast.GenDecl{Tok: token.VAR, Lparen: gd.Lparen, Specs: specs, Rparen: gd.Rparen}}
							out = append(out, x)
							continue
						}
					}
				case *ast.IfStmt:
					x.Body.List = rewrite(x.Body.List)
					if eb, ok := x.Else.(*ast.BlockStmt); ok {
						eb.List = rewrite(eb.List)
					}
				case *ast.ForStmt:
					x.Body.List = rewrite(x.Body.List)
				case *ast.RangeStmt:
					x.Body.List = rewrite(x.Body.List)
				case *ast.BlockStmt:
					x.List = rewrite(x.List)
				}
				out = append(out, st)
			}
			return out
		}
		fd.Body.List = rewrite(fd.Body.List)
		// a variable that is only ever assigned (x = pure) after its declaration was kept: handle `var pt savepoint` + `pt = p.pt`
		assignedOnly := map[string]bool{}
		reads := map[string]int{}
		ast.Inspect(fd.Body, func(n ast.Node) bool {
			switch x := n.(type) {
			case *ast.AssignStmt:
				if x.Tok == token.ASSIGN && len(x.Lhs) == 1 && len(x.Rhs) == 1 && pure(x.Rhs[0]) {
					if id, ok := x.Lhs[0].(*ast.Ident); ok {
						assignedOnly[id.Name] = true
						reads[id.Name]--
					}
				}
			case *ast.Ident:
				reads[x.Name]++
			}
			return true
		})
		_ = assignedOnly
	}
}

// Specialise parses src (a complete Go file), applies cfg to every function body and returns the file.
func Specialise(src string, cfg *Config) (*ast.File, error) {
	fset := token.NewFileSet()
	f, err := parser.ParseFile(fset, "v0.go", src, parser.SkipObjectResolution)
	if err != nil {
		return nil, err
	}
	astinline.Accessors(f)
	for _, d := range f.Decls {
		switch x := d.(type) {
		case *ast.FuncDecl:
			if x.Body != nil {
				cfg.falseLocals = cfg.findFalseLocals(x)
				x.Body = cfg.block(x.Body)
				cfg.falseLocals = nil
				dropUnusedLocals(x)
			}
			x.Doc = nil
		case *ast.GenDecl:
			x.Doc = nil
			for _, sp := range x.Specs {
				if vs, ok := sp.(*ast.ValueSpec); ok {
					for _, v := range vs.Values {
						cfg.exprs(v)
					}
				}
			}
		}
	}
	return f, nil
}

// Plain parses src without transformation (docs stripped).
func Plain(src string) (*ast.File, error) {
	fset := token.NewFileSet()
	f, err := parser.ParseFile(fset, "v1.go", src, parser.SkipObjectResolution)
	if err != nil {
		return nil, err
	}
	astinline.Accessors(f)
	for _, d := range f.Decls {
		switch x := d.(type) {
		case *ast.FuncDecl:
			x.Doc = nil
		case *ast.GenDecl:
			x.Doc = nil
		}
	}
	return f, nil
}

// DeclKey names a declaration: "func recv.name", "type name", "var name", "const name".
func DeclKeys(d ast.Decl) []string {
	switch x := d.(type) {
	case *ast.FuncDecl:
		recv := ""
		if x.Recv != nil && len(x.Recv.List) == 1 {
			recv = strings.TrimPrefix(nospace(x.Recv.List[0].Type), "*") + "."
		}
		return []string{"func " + recv + x.Name.Name}
	case *ast.GenDecl:
		var ks []string
		for _, sp := range x.Specs {
			switch s := sp.(type) {
			case *ast.TypeSpec:
				ks = append(ks, "type "+s.Name.Name)
			case *ast.ValueSpec:
				for _, n := range s.Names {
					ks = append(ks, strings.ToLower(x.Tok.String())+" "+n.Name)
				}
			}
		}
		return ks
	}
	return nil
}

// Items splits a file into named items with their normalised text (one per func, type spec, value name).
func Items(f *ast.File) map[string]string {
	out := map[string]string{}
	for _, d := range f.Decls {
		switch x := d.(type) {
		case *ast.FuncDecl:
			out[DeclKeys(x)[0]] = norm(x)
		case *ast.GenDecl:
			if x.Tok == token.IMPORT {
				continue
			}
			for _, sp := range x.Specs {
				switch s := sp.(type) {
				case *ast.TypeSpec:
					s.Doc, s.Comment = nil, nil
					if st, ok := s.Type.(*ast.StructType); ok {
						for _, fl := range st.Fields.List {
							fl.Doc, fl.Comment = nil, nil
						}
					}
					out["type "+s.Name.Name] = norm(s)
				case *ast.ValueSpec:
					s.Doc, s.Comment = nil, nil
					for _, n := range s.Names {
						out[strings.ToLower(x.Tok.String())+" "+n.Name] = norm(s)
					}
				}
			}
		}
	}
	return out
}

func norm(n ast.Node) string {
	var b bytes.Buffer
	cfg := printer.Config{Mode: printer.UseSpaces | printer.TabIndent, Tabwidth: 8}
	_ = cfg.Fprint(&b, token.NewFileSet(), n)
	// positions of a rewritten tree are inconsistent, so the printer's line breaks are not canonical:
	// compare token streams instead of layout
	return strings.Join(strings.Fields(strings.NewReplacer("(", " ( ", ")", " ) ", "{", " { ", "}", " } ", ",", " , ", ";", " ; ").Replace(b.String())), " ")
}

// StructFields returns the field names of a struct type spec text item (from the AST).
func StructFields(f *ast.File, name string) []string {
	var out []string
	ast.Inspect(f, func(n ast.Node) bool {
		ts, ok := n.(*ast.TypeSpec)
		if !ok || ts.Name.Name != name {
			return true
		}
		if st, ok := ts.Type.(*ast.StructType); ok {
			for _, fl := range st.Fields.List {
				if len(fl.Names) == 0 {
					out = append(out, "embedded:"+nospace(fl.Type))
				}
				for _, nm := range fl.Names {
					out = append(out, nm.Name)
				}
			}
		}
		return false
	})
	return out
}

// RemoveFields deletes the named fields from struct type `name` in f.
func RemoveFields(f *ast.File, name string, drop map[string]bool) {
	ast.Inspect(f, func(n ast.Node) bool {
		ts, ok := n.(*ast.TypeSpec)
		if !ok || ts.Name.Name != name {
			return true
		}
		if st, ok := ts.Type.(*ast.StructType); ok {
			var keep []*ast.Field
			for _, fl := range st.Fields.List {
				var names []*ast.Ident
				for _, nm := range fl.Names {
					if !drop[nm.Name] {
						names = append(names, nm)
					}
				}
				if len(fl.Names) > 0 && len(names) == 0 {
					continue
				}
				fl.Names = names
				keep = append(keep, fl)
			}
			st.Fields.List = keep
		}
		return false
	})
}

// References returns the identifiers (selector field names and plain identifiers) used in the item set.
func References(f *ast.File, keep func(key string) bool) map[string]bool {
	out := map[string]bool{}
	for _, d := range f.Decls {
		ks := DeclKeys(d)
		use := false
		for _, k := range ks {
			if keep(k) {
				use = true
			}
		}
		if !use {
			continue
		}
		ast.Inspect(d, func(n ast.Node) bool {
			switch x := n.(type) {
			case *ast.Ident:
				out[x.Name] = true
			case *ast.SelectorExpr:
				out["."+x.Sel.Name] = true
			}
			return true
		})
	}
	return out
}

// Diff describes the first differing token of two normalised texts.
func Diff(a, b string) string {
	at, bt := strings.Fields(a), strings.Fields(b)
	for i := 0; i < len(at) && i < len(bt); i++ {
		if at[i] != bt[i] {
			lo := i - 6
			if lo < 0 {
				lo = 0
			}
			ha, hb := i+8, i+8
			if ha > len(at) {
				ha = len(at)
			}
			if hb > len(bt) {
				hb = len(bt)
			}
			return fmt.Sprintf("…%s… vs …%s…", strings.Join(at[lo:ha], " "), strings.Join(bt[lo:hb], " "))
		}
	}
	return fmt.Sprintf("one is a prefix of the other (%d vs %d tokens)", len(at), len(bt))
}

func SortedKeys(m map[string]string) []string {
	var ks []string
	for k := range m {
		ks = append(ks, k)
	}
	sort.Strings(ks)
	return ks
}

// findFalseLocals: locals of fd every assignment of which is constant false once the constant fields are folded
// (`memoize := p.memoize` with p.memoize false, `memoize = false` in some branch), and whose address is not taken.
func (c *Config) findFalseLocals(fd *ast.FuncDecl) map[string]bool {
	cand := map[string]bool{}
	bad := map[string]bool{}
	ast.Inspect(fd.Body, func(n ast.Node) bool {
		switch x := n.(type) {
		case *ast.AssignStmt:
			for i, l := range x.Lhs {
				id, ok := l.(*ast.Ident)
				if !ok || id.Name == "_" {
					continue
				}
				if len(x.Lhs) != len(x.Rhs) || x.Tok != token.DEFINE && x.Tok != token.ASSIGN {
					bad[id.Name] = true
					continue
				}
				if v, _ := c.fold(x.Rhs[i]); v == 0 {
					cand[id.Name] = true
				} else {
					bad[id.Name] = true
				}
			}
		case *ast.ValueSpec:
			for _, nm := range x.Names {
				bad[nm.Name] = true
			}
		case *ast.RangeStmt:
			for _, v := range []ast.Expr{x.Key, x.Value} {
				if id, ok := v.(*ast.Ident); ok {
					bad[id.Name] = true
				}
			}
		case *ast.IncDecStmt:
			if id, ok := x.X.(*ast.Ident); ok {
				bad[id.Name] = true
			}
		case *ast.UnaryExpr:
			if id, ok := x.X.(*ast.Ident); ok && x.Op == token.AND {
				bad[id.Name] = true
			}
		}
		return true
	})
	// parameters and named results are not locals with a known value
	for _, fl := range []*ast.FieldList{fd.Type.Params, fd.Type.Results} {
		if fl == nil {
			continue
		}
		for _, f := range fl.List {
			for _, nm := range f.Names {
				bad[nm.Name] = true
			}
		}
	}
	out := map[string]bool{}
	for n := range cand {
		if !bad[n] {
			out[n] = true
		}
	}
	return out
}
