// Package skeleton implements E-SKEL (DESIGN.md §2.2): it derives, from the source of
// builder/builder.go alone, a Go file containing every struct literal, field name and
// method expression the builder can emit into a generated parser, so that type-checking
// "skeleton + template variant" proves writer/reader agreement between the compiler (G)
// and the interpreter (T) for every flag combination.
package skeleton

import (
	"fmt"
	"go/ast"
	"go/constant"
	"go/token"
	"go/types"
	"sort"
	"strings"

	"golang.org/x/tools/go/packages"
)

type Kind struct {
	Name   string // ast type name, e.g. "ActionExpr"
	Writer string // builder method, e.g. "writeActionExpr"
	// SetsGlobalState: the writer assigns b.globalState = true (emitted only in GlobalState variants)
	SetsGlobalState bool
	CodeWriter      string // write<K>ExprCode or ""
}

type Gen struct {
	pkg   *packages.Package
	funcs map[string]*ast.FuncDecl // builder methods by name
	Kinds []Kind
	// ParamWiring: template parameter name -> builder field name (from writeStaticCode)
	ParamWiring map[string]string
	Problems    []string
}

func New(builder *packages.Package) *Gen {
	g := &Gen{pkg: builder, funcs: map[string]*ast.FuncDecl{}, ParamWiring: map[string]string{}}
	for _, f := range builder.Syntax {
		for _, d := range f.Decls {
			if fd, ok := d.(*ast.FuncDecl); ok && fd.Recv != nil {
				g.funcs[fd.Name.Name] = fd
			}
		}
	}
	g.readKinds()
	g.readWiring()
	return g
}

func (g *Gen) problem(format string, a ...any) {
	g.Problems = append(g.Problems, fmt.Sprintf(format, a...))
}

// readKinds extracts kind -> writer from the type switch in writeExpr.
func (g *Gen) readKinds() {
	fd := g.funcs["writeExpr"]
	if fd == nil {
		g.problem("builder.writeExpr not found")
		return
	}
	ast.Inspect(fd, func(n ast.Node) bool {
		ts, ok := n.(*ast.TypeSwitchStmt)
		if !ok {
			return true
		}
		for _, c := range ts.Body.List {
			cc := c.(*ast.CaseClause)
			if len(cc.List) != 1 || len(cc.Body) != 1 {
				continue
			}
			st, ok := cc.List[0].(*ast.StarExpr)
			if !ok {
				continue
			}
			sel, ok := st.X.(*ast.SelectorExpr)
			if !ok {
				continue
			}
			es, ok := cc.Body[0].(*ast.ExprStmt)
			if !ok {
				continue
			}
			call, ok := es.X.(*ast.CallExpr)
			if !ok {
				continue
			}
			fs, ok := call.Fun.(*ast.SelectorExpr)
			if !ok {
				continue
			}
			k := Kind{Name: sel.Sel.Name, Writer: fs.Sel.Name}
			if w := g.funcs[k.Writer]; w != nil {
				ast.Inspect(w, func(n ast.Node) bool {
					if as, ok := n.(*ast.AssignStmt); ok && len(as.Lhs) == 1 {
						if s, ok := as.Lhs[0].(*ast.SelectorExpr); ok && s.Sel.Name == "globalState" {
							k.SetsGlobalState = true
						}
					}
					return true
				})
			} else {
				g.problem("writer %s for kind %s not found", k.Writer, k.Name)
			}
			if _, ok := g.funcs["write"+k.Name+"Code"]; ok {
				k.CodeWriter = "write" + k.Name + "Code"
			}
			g.Kinds = append(g.Kinds, k)
		}
		return false
	})
	sort.Slice(g.Kinds, func(i, j int) bool { return g.Kinds[i].Name < g.Kinds[j].Name })
}

func (g *Gen) readWiring() {
	if g.funcs["writeStaticCode"] == nil {
		g.problem("builder.writeStaticCode not found")
		return
	}
	// the parameter struct handed to the template: in writeStaticCode or a builder method it calls
	seen := map[string]bool{}
	var visit func(name string)
	visit = func(name string) {
		fd := g.funcs[name]
		if fd == nil || fd.Body == nil || seen[name] || len(g.ParamWiring) > 0 {
			return
		}
		seen[name] = true
		var calls []string
		defer func() {
			for _, c := range calls {
				visit(c)
			}
		}()
		ast.Inspect(fd, func(n ast.Node) bool {
			if len(g.ParamWiring) > 0 {
				return false
			}
			switch x := n.(type) {
			case *ast.CallExpr:
				if s, ok := x.Fun.(*ast.SelectorExpr); ok {
					if _, ok := g.funcs[s.Sel.Name]; ok {
						calls = append(calls, s.Sel.Name)
					}
				}
			case *ast.CompositeLit:
				if _, ok := x.Type.(*ast.StructType); !ok {
					// or a named struct type of the package made of boolean switches only (the parameter struct given a name)
					st, isStruct := g.pkg.TypesInfo.TypeOf(x).Underlying().(*types.Struct)
					if !isStruct || st.NumFields() == 0 {
						return true
					}
					for i := 0; i < st.NumFields(); i++ {
						if b, isBasic := st.Field(i).Type().Underlying().(*types.Basic); !isBasic || b.Kind() != types.Bool {
							return true
						}
					}
				}
				for _, e := range x.Elts {
					kv, ok := e.(*ast.KeyValueExpr)
					if !ok {
						continue
					}
					k, ok := kv.Key.(*ast.Ident)
					if !ok {
						continue
					}
					if s, ok := kv.Value.(*ast.SelectorExpr); ok {
						g.ParamWiring[k.Name] = s.Sel.Name
					} else {
						g.ParamWiring[k.Name] = "?"
					}
				}
				return false
			}
			return true
		})
	}
	visit("writeStaticCode")
}

// Flags gives the value of builder boolean fields for one variant.
type Flags map[string]bool

// emitter walks a builder method and reproduces its writes.
type emitter struct {
	g       *Gen
	flags   Flags
	elseArm bool // take else-arms instead of then-arms where an if has both
	fnID    string
	subst   map[string]func() string // callee method name -> replacement emission
	sb      *strings.Builder
	depth   int
	active  map[string]bool
	env     map[types.Object]any // parameters of inlined helpers bound to constant arguments
}

func (e *emitter) valueFor(arg ast.Expr) any {
	// calls of b.funcName(...) become the current function identifier
	if c, ok := arg.(*ast.CallExpr); ok {
		if s, ok := c.Fun.(*ast.SelectorExpr); ok && s.Sel.Name == "funcName" {
			return e.fnID
		}
	}
	if id, ok := arg.(*ast.Ident); ok {
		if v, ok := e.env[e.g.pkg.TypesInfo.Uses[id]]; ok {
			return v
		}
	}
	if tv, ok := e.g.pkg.TypesInfo.Types[arg]; ok && tv.Value != nil && tv.Value.Kind() == constant.String {
		return constant.StringVal(tv.Value)
	}
	t := e.g.pkg.TypesInfo.TypeOf(arg)
	if t == nil {
		return "x"
	}
	switch u := t.Underlying().(type) {
	case *types.Basic:
		switch {
		case u.Kind() == types.Int32 || u.Kind() == types.UntypedRune:
			return 'x'
		case u.Info()&types.IsInteger != 0:
			return 1
		case u.Info()&types.IsBoolean != 0:
			return true
		case u.Info()&types.IsString != 0:
			return "x"
		}
	case *types.Array:
		if b, ok := u.Elem().Underlying().(*types.Basic); ok && b.Kind() == types.Bool && u.Len() == 128 {
			return [128]bool{}
		}
	}
	e.g.problem("no literal for argument of type %s", t)
	return "x"
}

func (e *emitter) stringOf(x ast.Expr) (string, bool) {
	tv, ok := e.g.pkg.TypesInfo.Types[x]
	if ok && tv.Value != nil && tv.Value.Kind() == constant.String {
		return constant.StringVal(tv.Value), true
	}
	return "", false
}

// isBuilderRecv reports whether x is an expression of the builder type (the receiver, whatever it is called).
func (e *emitter) isBuilderRecv(x ast.Expr) bool {
	t := e.g.pkg.TypesInfo.TypeOf(x)
	if t == nil {
		return false
	}
	if p, ok := t.(*types.Pointer); ok {
		t = p.Elem()
	}
	n, ok := t.(*types.Named)
	return ok && n.Obj().Name() == "builder"
}

func (e *emitter) call(c *ast.CallExpr) bool {
	s, ok := c.Fun.(*ast.SelectorExpr)
	if !ok {
		return false
	}
	if !e.isBuilderRecv(s.X) {
		return false
	}
	switch s.Sel.Name {
	case "writelnf", "writef":
		if len(c.Args) == 0 {
			return true
		}
		f, ok := e.stringOf(c.Args[0])
		if !ok {
			e.g.problem("non-constant format in %s", s.Sel.Name)
			return true
		}
		var vals []any
		for _, a := range c.Args[1:] {
			vals = append(vals, e.valueFor(a))
		}
		e.sb.WriteString(fmt.Sprintf(f, vals...))
		if s.Sel.Name == "writelnf" {
			e.sb.WriteString("\n")
		}
		return true
	case "writeln":
		// a constant line is part of the emitted literal (a frame line written without formatting); anything else is
		// user or runtime code text, which the skeleton does not contain
		if len(c.Args) == 1 {
			if f, ok := e.stringOf(c.Args[0]); ok {
				e.sb.WriteString(f)
				e.sb.WriteString("\n")
			}
		}
		return true
	}
	if r, ok := e.subst[s.Sel.Name]; ok {
		e.sb.WriteString(r())
		return true
	}
	// any other builder method: its writes are part of the caller's emission
	if fd := e.g.funcs[s.Sel.Name]; fd != nil && fd.Body != nil && e.depth < 6 && !e.active[s.Sel.Name] {
		if e.active == nil {
			e.active = map[string]bool{}
		}
		e.active[s.Sel.Name] = true
		e.depth++
		// bind parameters that receive constant strings (a field name passed to a shared writer)
		var bound []types.Object
		if fd.Type.Params != nil {
			i := 0
			for _, fl := range fd.Type.Params.List {
				for _, pn := range fl.Names {
					if i < len(c.Args) {
						if tv, ok := e.g.pkg.TypesInfo.Types[c.Args[i]]; ok && tv.Value != nil && tv.Value.Kind() == constant.String {
							if obj := e.g.pkg.TypesInfo.Defs[pn]; obj != nil {
								if e.env == nil {
									e.env = map[types.Object]any{}
								}
								e.env[obj] = constant.StringVal(tv.Value)
								bound = append(bound, obj)
							}
						}
					}
					i++
				}
			}
		}
		e.stmts(fd.Body.List)
		for _, o := range bound {
			delete(e.env, o)
		}
		e.depth--
		delete(e.active, s.Sel.Name)
		return true
	}
	return false
}

func endsInReturn(b *ast.BlockStmt) bool {
	if len(b.List) == 0 {
		return false
	}
	_, ok := b.List[len(b.List)-1].(*ast.ReturnStmt)
	return ok
}

// flagCond evaluates conditions of the shape b.<flag> / !b.<flag>.
func (e *emitter) flagCond(c ast.Expr) (val, known bool) {
	switch x := c.(type) {
	case *ast.SelectorExpr:
		if e.isBuilderRecv(x.X) {
			v, ok := e.flags[x.Sel.Name]
			return v, ok
		}
	case *ast.UnaryExpr:
		if x.Op == token.NOT {
			v, k := e.flagCond(x.X)
			return !v, k
		}
	case *ast.ParenExpr:
		return e.flagCond(x.X)
	}
	return false, false
}

func (e *emitter) stmts(list []ast.Stmt) {
	for _, s := range list {
		e.stmt(s)
	}
}

func (e *emitter) stmt(s ast.Stmt) {
	switch s := s.(type) {
	case *ast.ExprStmt:
		if c, ok := s.X.(*ast.CallExpr); ok {
			e.call(c)
		}
	case *ast.BlockStmt:
		e.stmts(s.List)
	case *ast.IfStmt:
		if v, known := e.flagCond(s.Cond); known {
			if v {
				e.stmts(s.Body.List)
			} else if s.Else != nil {
				e.stmt(s.Else)
			}
			return
		}
		if endsInReturn(s.Body) && s.Else == nil {
			return // early-exit guard (nil node): alternative emission "nil," handled by the caller
		}
		if s.Else != nil && e.elseArm {
			e.stmt(s.Else)
			return
		}
		e.stmts(s.Body.List)
	case *ast.ForStmt:
		e.stmts(s.Body.List)
	case *ast.RangeStmt:
		e.stmts(s.Body.List)
	}
}

func (e *emitter) emitFunc(name string) string {
	fd := e.g.funcs[name]
	if fd == nil {
		e.g.problem("builder method %s not found", name)
		return ""
	}
	old := e.sb
	e.sb = &strings.Builder{}
	e.stmts(fd.Body.List)
	out := e.sb.String()
	e.sb = old
	return out
}

// templateVar resolves a package-level string variable's initial value (or a string constant's value).
func (g *Gen) templateVar(name string) (string, bool) {
	for _, f := range g.pkg.Syntax {
		for _, d := range f.Decls {
			gd, ok := d.(*ast.GenDecl)
			if !ok || (gd.Tok != token.VAR && gd.Tok != token.CONST) {
				continue
			}
			for _, sp := range gd.Specs {
				vs := sp.(*ast.ValueSpec)
				for i, n := range vs.Names {
					if n.Name == name && i < len(vs.Values) {
						if tv, ok := g.pkg.TypesInfo.Types[vs.Values[i]]; ok && tv.Value != nil && tv.Value.Kind() == constant.String {
							return constant.StringVal(tv.Value), true
						}
					}
				}
			}
		}
	}
	return "", false
}

// codeFuncs emits the on<ID>/call<ID> pair a code-block kind produces, from the templates
// passed to b.writeFunc in write<K>ExprCode.
func (g *Gen) codeFuncs(k Kind, fnID string, withArg bool) string {
	fd := g.funcs[k.CodeWriter]
	if fd == nil {
		return ""
	}
	// the two templates of the kind: the package-level format strings named in the code writer (or in the builder
	// methods it calls with them); the definition template has four verbs (receiver, name, parameters, body), the
	// call wrapper two (name, arguments)
	var funcTpl, callTpl string
	seen := map[string]bool{}
	var scan func(fd *ast.FuncDecl, depth int)
	scan = func(fd *ast.FuncDecl, depth int) {
		ast.Inspect(fd, func(n ast.Node) bool {
			switch x := n.(type) {
			case *ast.Ident:
				if seen[x.Name] {
					return true
				}
				obj := g.pkg.TypesInfo.Uses[x]
				_, isVar := obj.(*types.Var)
				_, isConst := obj.(*types.Const)
				if (isVar || isConst) && obj.Parent() == g.pkg.Types.Scope() {
					if v, ok := g.templateVar(x.Name); ok {
						seen[x.Name] = true
						fits := func(n int) bool {
							args := make([]any, n)
							for i := range args {
								args[i] = "x"
							}
							return !strings.Contains(fmt.Sprintf(v, args...), "%!")
						}
						switch {
						case fits(4) && !fits(3):
							if funcTpl != "" {
								g.problem("%s: two definition templates", k.CodeWriter)
							}
							funcTpl = v
						case fits(2) && !fits(1):
							if callTpl != "" {
								g.problem("%s: two call templates", k.CodeWriter)
							}
							callTpl = v
						}
					}
				}
			}
			return true
		})
	}
	scan(fd, 0)
	if funcTpl == "" || callTpl == "" {
		g.problem("%s: cannot resolve the definition and call templates", k.CodeWriter)
		return ""
	}
	var out strings.Builder
	body := "\treturn nil, nil"
	switch {
	case strings.Contains(funcTpl, "(bool, error)"):
		body = "\treturn false, nil"
	case strings.Contains(funcTpl, "(error)"):
		body = "\treturn nil"
	}
	params, args := "", ""
	if withArg {
		params, args = "lbl any", `stack["lbl"]`
	}
	// argument order: funcTpl(recv, name, params, body); callTpl(name, args) (decided by rule C04-j on writeFunc)
	out.WriteString(fmt.Sprintf(funcTpl, "c", fnID, params, body) + "\n")
	out.WriteString(fmt.Sprintf(callTpl, fnID, args) + "\n")
	return out.String()
}

// Source produces the skeleton file for one variant. elseArm selects the alternative arms.
func (g *Gen) Source(flags Flags, globalState, elseArm bool) string {
	var rules, funcs strings.Builder
	for i, k := range g.Kinds {
		if k.SetsGlobalState && !globalState {
			continue
		}
		fnID := fmt.Sprintf("onSkel%s%d", k.Name, i+1)
		e := &emitter{g: g, flags: flags, elseArm: elseArm, fnID: fnID}
		e.subst = map[string]func() string{"writeExpr": func() string { return "nil,\n" }}
		kindLit := e.emitFunc(k.Writer)
		// the rule wrapper: writeRule with writeExpr replaced by this kind's literal
		e2 := &emitter{g: g, flags: flags, elseArm: elseArm, fnID: fnID}
		e2.subst = map[string]func() string{"writeExpr": func() string { return kindLit }}
		rules.WriteString(e2.emitFunc("writeRule"))
		if k.CodeWriter != "" {
			funcs.WriteString(g.codeFuncs(k, fnID, i%2 == 0 != elseArm))
		}
	}
	// grammar wrapper: writeGrammar with writeRule replaced by all rules
	e := &emitter{g: g, flags: flags, elseArm: elseArm}
	e.subst = map[string]func() string{"writeRule": func() string { return rules.String() }}
	lit := e.emitFunc("writeGrammar")
	// further package-level emissions: builder methods that buildParser calls besides the four phases handled above
	// (initializer, grammar literal, code methods, runtime) - e.g. shared declarations the literal refers to by name
	var extra strings.Builder
	if bp := g.funcs["buildParser"]; bp != nil && bp.Body != nil {
		phase := map[string]bool{"writeInit": true, "writeGrammar": true, "writeRuleCode": true, "writeStaticCode": true, "writeRule": true, "writeExpr": true, "writeExprCode": true}
		seen := map[string]bool{}
		ast.Inspect(bp.Body, func(n ast.Node) bool {
			es, ok := n.(*ast.ExprStmt)
			if !ok {
				return true
			}
			c, ok := es.X.(*ast.CallExpr)
			if !ok {
				return true
			}
			s, ok := c.Fun.(*ast.SelectorExpr)
			if !ok || phase[s.Sel.Name] || seen[s.Sel.Name] || !strings.HasPrefix(s.Sel.Name, "write") {
				return true
			}
			if fd := g.funcs[s.Sel.Name]; fd != nil && fd.Body != nil {
				seen[s.Sel.Name] = true
				ex := &emitter{g: g, flags: flags, elseArm: elseArm, fnID: "onSkelExtra"}
				ex.subst = map[string]func() string{"writeExpr": func() string { return "nil,\n" }}
				extra.WriteString(ex.emitFunc(s.Sel.Name))
				extra.WriteString("\n")
			}
			return true
		})
	}
	return "package p\n\n" + lit + "\n" + extra.String() + funcs.String()
}
