// Package skeleton implements E-SKEL (DESIGN.md §2.2): it derives, from the source of
// builder/builder.go alone, a Go file containing every struct literal, field name and
// method expression the builder can emit into a generated parser, so that type-checking
// "skeleton + template variant" proves writer/reader agreement between the compiler (G)
// and the interpreter (T) for every flag combination.
package skeleton

import (
	"fmt"
	"go/ast"
	"go/constant"
	"go/token"
	"go/types"
	"sort"
	"strings"

	"golang.org/x/tools/go/packages"
)

type Kind struct {
	Name   string // ast type name, e.g. "ActionExpr"
	Writer string // builder method, e.g. "writeActionExpr"
	// SetsGlobalState: the writer assigns b.globalState = true (emitted only in GlobalState variants)
	SetsGlobalState bool
	CodeWriter      string // write<K>ExprCode or ""
}

type Gen struct {
	pkg   *packages.Package
	funcs map[string]*ast.FuncDecl // builder methods by name
	Kinds []Kind
	// ParamWiring: template parameter name -> builder field name (from writeStaticCode)
	ParamWiring map[string]string
	Problems    []string
}

func New(builder *packages.Package) *Gen {
	g := &Gen{pkg: builder, funcs: map[string]*ast.FuncDecl{}, ParamWiring: map[string]string{}}
	for _, f := range builder.Syntax {
		for _, d := range f.Decls {
			if fd, ok := d.(*ast.FuncDecl); ok && fd.Recv != nil {
				g.funcs[fd.Name.Name] = fd
			}
		}
	}
	g.readKinds()
	g.readWiring()
	return g
}

func (g *Gen) problem(format string, a ...any) {
	g.Problems = append(g.Problems, fmt.Sprintf(format, a...))
}

// readKinds extracts kind -> writer from the type switch in writeExpr.
func (g *Gen) readKinds() {
	fd := g.funcs["writeExpr"]
	if fd == nil {
		g.problem("builder.writeExpr not found")
		return
	}
	ast.Inspect(fd, func(n ast.Node) bool {
		ts, ok := n.(*ast.TypeSwitchStmt)
		if !ok {
			return true
		}
		for _, c := range ts.Body.List {
			cc := c.(*ast.CaseClause)
			if len(cc.List) != 1 || len(cc.Body) != 1 {
				continue
			}
			st, ok := cc.List[0].(*ast.StarExpr)
			if !ok {
				continue
			}
			sel, ok := st.X.(*ast.SelectorExpr)
			if !ok {
				continue
			}
			es, ok := cc.Body[0].(*ast.ExprStmt)
			if !ok {
				continue
			}
			call, ok := es.X.(*ast.CallExpr)
			if !ok {
				continue
			}
			fs, ok := call.Fun.(*ast.SelectorExpr)
			if !ok {
				continue
			}
			k := Kind{Name: sel.Sel.Name, Writer: fs.Sel.Name}
			if w := g.funcs[k.Writer]; w != nil {
				ast.Inspect(w, func(n ast.Node) bool {
					if as, ok := n.(*ast.AssignStmt); ok && len(as.Lhs) == 1 {
						if s, ok := as.Lhs[0].(*ast.SelectorExpr); ok && s.Sel.Name == "globalState" {
							k.SetsGlobalState = true
						}
					}
					return true
				})
			} else {
				g.problem("writer %s for kind %s not found", k.Writer, k.Name)
			}
			if _, ok := g.funcs["write"+k.Name+"Code"]; ok {
				k.CodeWriter = "write" + k.Name + "Code"
			}
			g.Kinds = append(g.Kinds, k)
		}
		return false
	})
	sort.Slice(g.Kinds, func(i, j int) bool { return g.Kinds[i].Name < g.Kinds[j].Name })
}

func (g *Gen) readWiring() {
	fd := g.funcs["writeStaticCode"]
	if fd == nil {
		g.problem("builder.writeStaticCode not found")
		return
	}
	ast.Inspect(fd, func(n ast.Node) bool {
		cl, ok := n.(*ast.CompositeLit)
		if !ok {
			return true
		}
		if _, ok := cl.Type.(*ast.StructType); !ok {
			return true
		}
		for _, e := range cl.Elts {
			kv, ok := e.(*ast.KeyValueExpr)
			if !ok {
				continue
			}
			k, ok := kv.Key.(*ast.Ident)
			if !ok {
				continue
			}
			if s, ok := kv.Value.(*ast.SelectorExpr); ok {
				g.ParamWiring[k.Name] = s.Sel.Name
			} else {
				g.ParamWiring[k.Name] = "?"
			}
		}
		return false
	})
}

// Flags gives the value of builder boolean fields for one variant.
type Flags map[string]bool

// emitter walks a builder method and reproduces its writes.
type emitter struct {
	g       *Gen
	flags   Flags
	elseArm bool // take else-arms instead of then-arms where an if has both
	fnID    string
	subst   map[string]func() string // callee method name -> replacement emission
	sb      *strings.Builder
}

func (e *emitter) valueFor(arg ast.Expr) any {
	// calls of b.funcName(...) become the current function identifier
	if c, ok := arg.(*ast.CallExpr); ok {
		if s, ok := c.Fun.(*ast.SelectorExpr); ok && s.Sel.Name == "funcName" {
			return e.fnID
		}
	}
	t := e.g.pkg.TypesInfo.TypeOf(arg)
	if t == nil {
		return "x"
	}
	switch u := t.Underlying().(type) {
	case *types.Basic:
		switch {
		case u.Kind() == types.Int32 || u.Kind() == types.UntypedRune:
			return 'x'
		case u.Info()&types.IsInteger != 0:
			return 1
		case u.Info()&types.IsBoolean != 0:
			return true
		case u.Info()&types.IsString != 0:
			return "x"
		}
	case *types.Array:
		if b, ok := u.Elem().Underlying().(*types.Basic); ok && b.Kind() == types.Bool && u.Len() == 128 {
			return [128]bool{}
		}
	}
	e.g.problem("no literal for argument of type %s", t)
	return "x"
}

func (e *emitter) stringOf(x ast.Expr) (string, bool) {
	tv, ok := e.g.pkg.TypesInfo.Types[x]
	if ok && tv.Value != nil && tv.Value.Kind() == constant.String {
		return constant.StringVal(tv.Value), true
	}
	return "", false
}

func (e *emitter) call(c *ast.CallExpr) bool {
	s, ok := c.Fun.(*ast.SelectorExpr)
	if !ok {
		return false
	}
	if id, ok := s.X.(*ast.Ident); !ok || id.Name != "b" {
		return false
	}
	switch s.Sel.Name {
	case "writelnf", "writef":
		if len(c.Args) == 0 {
			return true
		}
		f, ok := e.stringOf(c.Args[0])
		if !ok {
			e.g.problem("non-constant format in %s", s.Sel.Name)
			return true
		}
		var vals []any
		for _, a := range c.Args[1:] {
			vals = append(vals, e.valueFor(a))
		}
		e.sb.WriteString(fmt.Sprintf(f, vals...))
		if s.Sel.Name == "writelnf" {
			e.sb.WriteString("\n")
		}
		return true
	case "writeln":
		return true
	}
	if r, ok := e.subst[s.Sel.Name]; ok {
		e.sb.WriteString(r())
		return true
	}
	return false
}

func endsInReturn(b *ast.BlockStmt) bool {
	if len(b.List) == 0 {
		return false
	}
	_, ok := b.List[len(b.List)-1].(*ast.ReturnStmt)
	return ok
}

// flagCond evaluates conditions of the shape b.<flag> / !b.<flag>.
func (e *emitter) flagCond(c ast.Expr) (val, known bool) {
	switch x := c.(type) {
	case *ast.SelectorExpr:
		if id, ok := x.X.(*ast.Ident); ok && id.Name == "b" {
			v, ok := e.flags[x.Sel.Name]
			return v, ok
		}
	case *ast.UnaryExpr:
		if x.Op == token.NOT {
			v, k := e.flagCond(x.X)
			return !v, k
		}
	case *ast.ParenExpr:
		return e.flagCond(x.X)
	}
	return false, false
}

func (e *emitter) stmts(list []ast.Stmt) {
	for _, s := range list {
		e.stmt(s)
	}
}

func (e *emitter) stmt(s ast.Stmt) {
	switch s := s.(type) {
	case *ast.ExprStmt:
		if c, ok := s.X.(*ast.CallExpr); ok {
			e.call(c)
		}
	case *ast.BlockStmt:
		e.stmts(s.List)
	case *ast.IfStmt:
		if v, known := e.flagCond(s.Cond); known {
			if v {
				e.stmts(s.Body.List)
			} else if s.Else != nil {
				e.stmt(s.Else)
			}
			return
		}
		if endsInReturn(s.Body) && s.Else == nil {
			return // early-exit guard (nil node): alternative emission "nil," handled by the caller
		}
		if s.Else != nil && e.elseArm {
			e.stmt(s.Else)
			return
		}
		e.stmts(s.Body.List)
	case *ast.ForStmt:
		e.stmts(s.Body.List)
	case *ast.RangeStmt:
		e.stmts(s.Body.List)
	}
}

func (e *emitter) emitFunc(name string) string {
	fd := e.g.funcs[name]
	if fd == nil {
		e.g.problem("builder method %s not found", name)
		return ""
	}
	old := e.sb
	e.sb = &strings.Builder{}
	e.stmts(fd.Body.List)
	out := e.sb.String()
	e.sb = old
	return out
}

// templateVar resolves a package-level string variable's initial value.
func (g *Gen) templateVar(name string) (string, bool) {
	for _, f := range g.pkg.Syntax {
		for _, d := range f.Decls {
			gd, ok := d.(*ast.GenDecl)
			if !ok || gd.Tok != token.VAR {
				continue
			}
			for _, sp := range gd.Specs {
				vs := sp.(*ast.ValueSpec)
				for i, n := range vs.Names {
					if n.Name == name && i < len(vs.Values) {
						if tv, ok := g.pkg.TypesInfo.Types[vs.Values[i]]; ok && tv.Value != nil && tv.Value.Kind() == constant.String {
							return constant.StringVal(tv.Value), true
						}
					}
				}
			}
		}
	}
	return "", false
}

// codeFuncs emits the on<ID>/call<ID> pair a code-block kind produces, from the templates
// passed to b.writeFunc in write<K>ExprCode.
func (g *Gen) codeFuncs(k Kind, fnID string, withArg bool) string {
	fd := g.funcs[k.CodeWriter]
	if fd == nil {
		return ""
	}
	var out strings.Builder
	ast.Inspect(fd, func(n ast.Node) bool {
		c, ok := n.(*ast.CallExpr)
		if !ok {
			return true
		}
		s, ok := c.Fun.(*ast.SelectorExpr)
		if !ok || s.Sel.Name != "writeFunc" || len(c.Args) != 4 {
			return true
		}
		callID, ok1 := c.Args[2].(*ast.Ident)
		funcID, ok2 := c.Args[3].(*ast.Ident)
		if !ok1 || !ok2 {
			g.problem("%s: writeFunc templates are not plain identifiers", k.CodeWriter)
			return false
		}
		callTpl, ok1 := g.templateVar(callID.Name)
		funcTpl, ok2 := g.templateVar(funcID.Name)
		if !ok1 || !ok2 {
			g.problem("%s: cannot resolve templates %s/%s", k.CodeWriter, callID.Name, funcID.Name)
			return false
		}
		body := "\treturn nil, nil"
		switch {
		case strings.Contains(funcTpl, "(bool, error)"):
			body = "\treturn false, nil"
		case strings.Contains(funcTpl, "(error)"):
			body = "\treturn nil"
		}
		params, args := "", ""
		if withArg {
			params, args = "lbl any", `stack["lbl"]`
		}
		// argument order taken from writeFunc: funcTpl(recv, name, params, body); callTpl(name, args)
		out.WriteString(fmt.Sprintf(funcTpl, "c", fnID, params, body) + "\n")
		out.WriteString(fmt.Sprintf(callTpl, fnID, args) + "\n")
		return false
	})
	return out.String()
}

// Source produces the skeleton file for one variant. elseArm selects the alternative arms.
func (g *Gen) Source(flags Flags, globalState, elseArm bool) string {
	var rules, funcs strings.Builder
	for i, k := range g.Kinds {
		if k.SetsGlobalState && !globalState {
			continue
		}
		fnID := fmt.Sprintf("onSkel%s%d", k.Name, i+1)
		e := &emitter{g: g, flags: flags, elseArm: elseArm, fnID: fnID}
		e.subst = map[string]func() string{"writeExpr": func() string { return "nil,\n" }}
		kindLit := e.emitFunc(k.Writer)
		// the rule wrapper: writeRule with writeExpr replaced by this kind's literal
		e2 := &emitter{g: g, flags: flags, elseArm: elseArm, fnID: fnID}
		e2.subst = map[string]func() string{"writeExpr": func() string { return kindLit }}
		rules.WriteString(e2.emitFunc("writeRule"))
		if k.CodeWriter != "" {
			funcs.WriteString(g.codeFuncs(k, fnID, i%2 == 0 != elseArm))
		}
	}
	// grammar wrapper: writeGrammar with writeRule replaced by all rules
	e := &emitter{g: g, flags: flags, elseArm: elseArm}
	e.subst = map[string]func() string{"writeRule": func() string { return rules.String() }}
	lit := e.emitFunc("writeGrammar")
	return "package p\n\n" + lit + "\n" + funcs.String()
}
