package astinline

import (
	"go/ast"
	"go/token"

	"golang.org/x/tools/go/ast/astutil"
)

// Accessors expands, in the syntax tree the rules read (never in the text that is type-checked for C04 or
// compared for C20), the calls of trivial read accessors of the parser: a method without parameters whose body is a
// single `return <expr>` over fields of the receiver, subscripts, len and operators - `func (p *parser) currentRule()
// *rule { return p.rstack[len(p.rstack)-1] }`. The call `p.currentRule()` then reads as the expression it returns,
// which is what the rules about the rule stack, the memo guards and the partial evaluator are stated on. The method
// name has to be unique among the functions, methods and fields of the file (the expansion happens before type
// checking, so the receiver type of a call is not known).
func Accessors(f *ast.File) int {
	// an accessor whose body calls another accessor becomes a pure read once that call is expanded: repeat
	total := 0
	for round := 0; round < 4; round++ {
		n := accessorsOnce(f)
		total += n
		if n == 0 {
			break
		}
	}
	return total
}

func accessorsOnce(f *ast.File) int {
	names := map[string]int{}
	for _, d := range f.Decls {
		switch x := d.(type) {
		case *ast.FuncDecl:
			names[x.Name.Name]++
		case *ast.GenDecl:
			// a struct field of function type can be called like a method: it shares the name space. Fields of other
			// types cannot (`p.pt.offset()` does not compile), so `offset` the field and `offset()` the accessor coexist.
			ast.Inspect(x, func(n ast.Node) bool {
				if fl, ok := n.(*ast.FieldList); ok {
					for _, fd := range fl.List {
						if !funcTyped(f, fd.Type) {
							continue
						}
						for _, nm := range fd.Names {
							names[nm.Name]++
						}
					}
				}
				return true
			})
		}
	}
	type accessor struct {
		recv string
		expr ast.Expr
	}
	acc := map[string]accessor{}
	for _, d := range f.Decls {
		fd, ok := d.(*ast.FuncDecl)
		if !ok || fd.Recv == nil || fd.Body == nil || len(fd.Recv.List) != 1 || len(fd.Recv.List[0].Names) != 1 {
			continue
		}
		rt := fd.Recv.List[0].Type
		if st, ok := rt.(*ast.StarExpr); ok {
			rt = st.X
		}
		if id, ok := rt.(*ast.Ident); !ok || id.Name != "parser" {
			continue
		}
		if names[fd.Name.Name] != 1 || fd.Type.Params.NumFields() != 0 || fd.Type.Results.NumFields() != 1 || len(fd.Body.List) != 1 {
			continue
		}
		rs, ok := fd.Body.List[0].(*ast.ReturnStmt)
		if !ok || len(rs.Results) != 1 {
			continue
		}
		recv := fd.Recv.List[0].Names[0].Name
		if !pureRead(rs.Results[0], recv) {
			continue
		}
		acc[fd.Name.Name] = accessor{recv: recv, expr: rs.Results[0]}
	}
	if len(acc) == 0 {
		return 0
	}
	n := 0
	astutil.Apply(f, nil, func(c *astutil.Cursor) bool {
		ce, ok := c.Node().(*ast.CallExpr)
		if !ok || len(ce.Args) != 0 {
			return true
		}
		sel, ok := ce.Fun.(*ast.SelectorExpr)
		if !ok {
			return true
		}
		x, ok := sel.X.(*ast.Ident)
		if !ok {
			return true
		}
		a, ok := acc[sel.Sel.Name]
		if !ok {
			return true
		}
		repl := cloneRead(a.expr, a.recv, x.Name, ce.Pos())
		switch repl.(type) {
		case *ast.Ident, *ast.SelectorExpr, *ast.IndexExpr, *ast.CallExpr, *ast.ParenExpr, *ast.BasicLit:
			// a primary expression: stands where the call stood as it is
		default:
			repl = &ast.ParenExpr{Lparen: ce.Pos(), X: repl, Rparen: ce.Pos()}
		}
		c.Replace(repl)
		n++
		return true
	})
	return n
}

// pureRead: the expression reads memory reachable from the receiver and computes with it; it calls nothing but len.
func pureRead(e ast.Expr, recv string) bool {
	switch x := e.(type) {
	case *ast.Ident:
		return x.Name == recv || x.Name == "nil" || x.Name == "true" || x.Name == "false"
	case *ast.BasicLit:
		return true
	case *ast.SelectorExpr:
		return pureRead(x.X, recv)
	case *ast.IndexExpr:
		return pureRead(x.X, recv) && pureRead(x.Index, recv)
	case *ast.ParenExpr:
		return pureRead(x.X, recv)
	case *ast.StarExpr:
		return pureRead(x.X, recv)
	case *ast.UnaryExpr:
		return x.Op != token.AND && x.Op != token.ARROW && pureRead(x.X, recv)
	case *ast.BinaryExpr:
		return pureRead(x.X, recv) && pureRead(x.Y, recv)
	case *ast.CallExpr:
		if id, ok := x.Fun.(*ast.Ident); ok && id.Name == "len" && len(x.Args) == 1 {
			return pureRead(x.Args[0], recv)
		}
	}
	return false
}

func cloneRead(e ast.Expr, recv, to string, pos token.Pos) ast.Expr {
	switch x := e.(type) {
	case *ast.Ident:
		name := x.Name
		if name == recv {
			name = to
		}
		return &ast.Ident{NamePos: pos, Name: name}
	case *ast.BasicLit:
		return &ast.BasicLit{ValuePos: pos, Kind: x.Kind, Value: x.Value}
	case *ast.SelectorExpr:
		return &ast.SelectorExpr{X: cloneRead(x.X, recv, to, pos), Sel: &ast.Ident{NamePos: pos, Name: x.Sel.Name}}
	case *ast.IndexExpr:
		return &ast.IndexExpr{X: cloneRead(x.X, recv, to, pos), Lbrack: pos, Index: cloneRead(x.Index, recv, to, pos), Rbrack: pos}
	case *ast.ParenExpr:
		return &ast.ParenExpr{Lparen: pos, X: cloneRead(x.X, recv, to, pos), Rparen: pos}
	case *ast.StarExpr:
		return &ast.StarExpr{Star: pos, X: cloneRead(x.X, recv, to, pos)}
	case *ast.UnaryExpr:
		return &ast.UnaryExpr{OpPos: pos, Op: x.Op, X: cloneRead(x.X, recv, to, pos)}
	case *ast.BinaryExpr:
		return &ast.BinaryExpr{X: cloneRead(x.X, recv, to, pos), OpPos: pos, Op: x.Op, Y: cloneRead(x.Y, recv, to, pos)}
	case *ast.CallExpr:
		return &ast.CallExpr{Fun: &ast.Ident{NamePos: pos, Name: "len"}, Lparen: pos, Args: []ast.Expr{cloneRead(x.Args[0], recv, to, pos)}, Rparen: pos}
	}
	return e
}

// funcTyped: the type expression is a function type, or a name declared as one in the file (or a name the file does not
// declare: unknown, treated as possibly a function).
func funcTyped(f *ast.File, t ast.Expr) bool {
	switch x := t.(type) {
	case *ast.FuncType:
		return true
	case *ast.Ident:
		for _, d := range f.Decls {
			if gd, ok := d.(*ast.GenDecl); ok {
				for _, sp := range gd.Specs {
					if ts, ok := sp.(*ast.TypeSpec); ok && ts.Name.Name == x.Name {
						_, isFunc := ts.Type.(*ast.FuncType)
						return isFunc
					}
				}
			}
		}
		switch x.Name {
		case "bool", "string", "int", "int8", "int16", "int32", "int64", "uint", "uint8", "uint16", "uint32", "uint64", "uintptr", "byte", "rune", "float32", "float64", "error", "any":
			return false
		}
		return true
	case *ast.ParenExpr:
		return funcTyped(f, x.X)
	}
	return false
}
