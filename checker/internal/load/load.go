// Package load loads the generator packages of /repo (layer G) with full type
// information, and lazily their SSA form and call graph.
package load

import (
	"fmt"
	"go/ast"
	"go/token"
	"go/types"
	"os"
	"strings"

	"golang.org/x/tools/go/callgraph"
	"golang.org/x/tools/go/callgraph/cha"
	"golang.org/x/tools/go/callgraph/vta"
	"golang.org/x/tools/go/packages"
	"golang.org/x/tools/go/ssa"
	"golang.org/x/tools/go/ssa/ssautil"
)

const Mod = "github.com/mna/pigeon"

type G struct {
	Repo  string
	Pkgs  []*packages.Package
	ByPth map[string]*packages.Package
	Fset  *token.FileSet
	prog  *ssa.Program
	spkgs []*ssa.Package
	cg    *callgraph.Graph
}

func Repo() string {
	if r := os.Getenv("VERIF_REPO"); r != "" {
		return r
	}
	return "/repo"
}

// Load loads the given patterns (relative to the repo root) with syntax and types for the
// matched packages and all dependencies (LoadAllSyntax), so that SSA can be built.
func Load(patterns ...string) (*G, error) {
	repo := Repo()
	cfg := &packages.Config{Mode: packages.LoadAllSyntax, Dir: repo, Tests: false}
	pkgs, err := packages.Load(cfg, patterns...)
	if err != nil {
		return nil, err
	}
	if len(pkgs) == 0 {
		return nil, fmt.Errorf("no packages matched %v", patterns)
	}
	g := &G{Repo: repo, Pkgs: pkgs, ByPth: map[string]*packages.Package{}}
	var errs []string
	packages.Visit(pkgs, nil, func(p *packages.Package) {
		g.ByPth[p.PkgPath] = p
		for _, e := range p.Errors {
			errs = append(errs, e.Error())
		}
	})
	if len(errs) > 0 {
		return nil, fmt.Errorf("package errors: %s", strings.Join(errs, "; "))
	}
	g.Fset = pkgs[0].Fset
	return g, nil
}

// Pkg returns the package with the import path Mod+suffix ("" = root).
func (g *G) Pkg(suffix string) *packages.Package {
	p := Mod
	if suffix != "" {
		p += "/" + suffix
	}
	return g.ByPth[p]
}

// Where renders a position relative to the repo root.
func (g *G) Where(pos token.Pos) string {
	if !pos.IsValid() {
		return "?"
	}
	p := g.Fset.Position(pos)
	return fmt.Sprintf("%s:%d", strings.TrimPrefix(p.Filename, g.Repo+"/"), p.Line)
}

// FuncDecl finds a function or method declaration in pkg. recv "" = plain function.
func FuncDecl(p *packages.Package, recv, name string) *ast.FuncDecl {
	for _, f := range p.Syntax {
		for _, d := range f.Decls {
			fd, ok := d.(*ast.FuncDecl)
			if !ok || fd.Name.Name != name {
				continue
			}
			if RecvName(fd) == recv {
				return fd
			}
		}
	}
	return nil
}

// RecvName returns the receiver's type name of fd ("" for functions).
func RecvName(fd *ast.FuncDecl) string {
	if fd.Recv == nil || len(fd.Recv.List) != 1 {
		return ""
	}
	t := fd.Recv.List[0].Type
	if st, ok := t.(*ast.StarExpr); ok {
		t = st.X
	}
	if id, ok := t.(*ast.Ident); ok {
		return id.Name
	}
	return ""
}

// AllFuncDecls lists all function declarations of a package.
func AllFuncDecls(p *packages.Package) []*ast.FuncDecl {
	var out []*ast.FuncDecl
	for _, f := range p.Syntax {
		for _, d := range f.Decls {
			if fd, ok := d.(*ast.FuncDecl); ok {
				out = append(out, fd)
			}
		}
	}
	return out
}

// SSA builds (once) the SSA program for all loaded packages.
func (g *G) SSA() (*ssa.Program, []*ssa.Package) {
	if g.prog == nil {
		g.prog, g.spkgs = ssautil.AllPackages(g.Pkgs, ssa.InstantiateGenerics)
		g.prog.Build()
	}
	return g.prog, g.spkgs
}

// SSAPkg returns the ssa package for a types package.
func (g *G) SSAPkg(tp *types.Package) *ssa.Package {
	prog, _ := g.SSA()
	return prog.Package(tp)
}

// CallGraph builds (once) the VTA call graph seeded with CHA.
func (g *G) CallGraph() *callgraph.Graph {
	if g.cg == nil {
		prog, _ := g.SSA()
		g.cg = vta.CallGraph(ssautil.AllFunctions(prog), cha.CallGraph(prog))
	}
	return g.cg
}
