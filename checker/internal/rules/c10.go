package rules

import (
	"fmt"
	"go/ast"
	"go/token"
	"go/types"
	"sort"
	"strings"

	"pigeonverif/internal/load"
	"pigeonverif/internal/peq"
	"pigeonverif/internal/variants"
)

// C10 — -optimize-parser output is observationally equivalent to the standard parser.
func C10(c *Ctx) {
	r := c.R
	r.Technique = "partial evaluation of the non-optimized template variant under debug=false, memoize=false with removal of proven non-interfering slices, then syntactic equality with the optimized variant, declaration by declaration, for all 8 settings of the other parameters; who-may-read rule for the builder flag"
	r.Explanation = "Decides the property for every grammar and input, modulo the soundness of the folding rules: for each setting of (BasicLatinLookupTable, GlobalState, LeftRecursion) the standard runtime, specialised to the default runtime options debug=false and memoize=false (the only writers of those fields are the Debug/Memoize options, C06-w), with the statistics statements removed (write-only slice, C06-c) and — when the grammar has no state blocks — the state-store statements removed (no user code can name c.state, the field does not exist in the optimized variant; nothing reads the store, C05), folded (false||x→x, false&&x→false, if false{A}else{B}→B), and with locals that became unused dropped, is token-for-token equal to the optimized runtime: every function, type, variable and constant that the optimized variant has. Declarations only the standard variant has are unreferenced after specialisation. The flag reaches nothing else in the builder, so the grammar literal and the code blocks are identical for both settings."
	r.Assumptions = []string{"the five folding rules preserve semantics", "default runtime options (no Debug/Memoize/Statistics/InitState option passed)", "C05, C06-a, C06-c, C06-w hold (re-checked by their own properties)"}
	r.Rule("C10-a", "for every declaration of the optimized variant: PE(standard variant){debug:=false, memoize:=false, stats slice dropped, state slice dropped iff !GlobalState} has the same declaration with the same token sequence")
	r.Rule("C10-a2", "declarations and struct fields that only the standard variant has are not referenced by any surviving declaration after specialisation")
	r.Rule("C10-b", "builder: b.optimize is assigned only by the Optimize option and read only in writeStaticCode's parameter struct; main wires -optimize-parser only to builder.Optimize")

	src := c.Src()
	if src == nil {
		return
	}
	n := 0
	for i := 0; i < 8; i++ {
		base := variants.Params{BasicLatinLookupTable: i&1 != 0, GlobalState: i&2 != 0, LeftRecursion: i&4 != 0}
		p0, p1 := base, base
		p1.Optimize = true
		t0, _, err0 := src.Instantiate(p0)
		t1, _, err1 := src.Instantiate(p1)
		if err0 != nil || err1 != nil {
			r.Fatal("instantiate %s/%s: %v %v", p0.Name(), p1.Name(), err0, err1)
			continue
		}
		n++
		cfg := &peq.Config{
			FalseFields:    map[string]bool{"p.debug": true, "p.memoize": true},
			DropCalls:      map[string]bool{"p.incChoiceAltCnt": true},
			DropAssignFrom: map[string]bool{},
			DropKeys:       map[string]bool{},
		}
		if !base.GlobalState {
			cfg.DropCalls["p.restoreState"] = true
			cfg.DropAssignFrom["p.cloneState"] = true
			cfg.DropKeys["state"] = true
			cfg.DropCases = map[string]bool{"*stateCodeExpr": true} // the builder emits this node type only together with GlobalState (E-SKEL, C04-a)
		}
		f0, err := peq.Specialise("package p\n"+t0, cfg)
		if err != nil {
			r.Fatal("specialise %s: %v", p0.Name(), err)
			continue
		}
		f1, err := peq.Plain("package p\n" + t1)
		if err != nil {
			r.Fatal("parse %s: %v", p1.Name(), err)
			continue
		}
		pair := p0.Name() + "~" + p1.Name()
		// struct fields only the standard variant has
		var dropped []string
		for _, tn := range []string{"parser", "current", "rule"} {
			have1 := map[string]bool{}
			for _, f := range peq.StructFields(f1, tn) {
				have1[f] = true
			}
			drop := map[string]bool{}
			for _, f := range peq.StructFields(f0, tn) {
				if !have1[f] {
					drop[f] = true
					dropped = append(dropped, tn+"."+f)
				}
			}
			peq.RemoveFields(f0, tn, drop)
		}
		i0, i1 := peq.Items(f0), peq.Items(f1)
		keepKey := func(k string) bool { _, ok := i1[k]; return ok }
		refs := peq.References(f0, keepKey)
		// ---- a
		var bad []string
		equivalentNF := map[string]string{}
		for _, k := range peq.SortedKeys(i1) {
			t0, ok := i0[k]
			if !ok {
				bad = append(bad, k+": only in the optimized variant")
				continue
			}
			if t0 != i1[k] {
				// the texts differ: the same decisions written differently? (normal-form path tables of the two versions)
				if strings.HasPrefix(k, "func ") {
					if ok, how := funcsEquivalentNF(funcItem(f0, k), funcItem(f1, k)); ok {
						equivalentNF[k] = how
						continue
					}
				}
				bad = append(bad, k+": "+peq.Diff(t0, i1[k]))
			}
		}
		sort.Strings(bad)
		if len(bad) > 0 {
			for _, b := range bad {
				k := b[:strings.Index(b, ":")]
				r.Bad("C10-a", "T."+k+":PE(standard)==optimized", pair, "builder/static_code.go", "after specialisation the standard variant differs from the optimized one: "+b)
			}
		}
		for _, k := range peq.SortedKeys(i1) {
			if i0[k] == i1[k] {
				r.Ok("C10-a", "T."+k+":PE(standard)==optimized", pair, "builder/static_code.go", "token-identical after specialisation")
			} else if how, ok := equivalentNF[k]; ok {
				r.Ok("C10-a", "T."+k+":PE(standard)==optimized", pair, "builder/static_code.go", "equivalent after specialisation ("+how+")")
			}
		}
		// ---- a2
		// a function shown equivalent to its optimized twin on normal forms may still name a standard-only
		// declaration on a path the comparison proved infeasible: what it references is what the twin references
		if len(equivalentNF) > 0 {
			refs = peq.References(f0, func(k string) bool { _, nf := equivalentNF[k]; return keepKey(k) && !nf })
			for k := range peq.References(f1, func(k string) bool { _, nf := equivalentNF[k]; return nf }) {
				refs[k] = true
			}
		}
		var bad2 []string
		for _, k := range peq.SortedKeys(i0) {
			if _, ok := i1[k]; ok {
				continue
			}
			name := k[strings.Index(k, " ")+1:]
			if j := strings.Index(name, "."); j >= 0 {
				if refs["."+name[j+1:]] || refs[name[j+1:]] {
					bad2 = append(bad2, k+" exists only in the standard variant but is still referenced after specialisation")
				}
			} else if refs[name] {
				bad2 = append(bad2, k+" exists only in the standard variant but is still referenced after specialisation")
			}
		}
		for _, f := range dropped {
			fn := f[strings.Index(f, ".")+1:]
			if refs["."+fn] {
				bad2 = append(bad2, "field "+f+" exists only in the standard variant but is still referenced after specialisation")
			}
		}
		sort.Strings(bad2)
		if len(bad2) > 0 {
			r.Bad("C10-a2", "T:standard-only-declarations-dead", pair, "builder/static_code.go", strings.Join(bad2, "; "))
		} else {
			r.Ok("C10-a2", "T:standard-only-declarations-dead", pair, "builder/static_code.go", fmt.Sprintf("%d declarations and %d fields only in the standard variant, none referenced (%s)", len(i0)-len(i1), len(dropped), strings.Join(dropped, ",")))
		}
	}
	r.Min("variant pairs compared", 8, n)
	r.MinRule("C10-a", 80)

	// ---- b
	g := c.G()
	if g == nil {
		return
	}
	bp := g.Pkg("builder")
	var reads, writes []string
	for _, fd := range load.AllFuncDecls(bp) {
		if fd.Body == nil {
			continue
		}
		isOpt := func(e ast.Expr) bool {
			se, ok := e.(*ast.SelectorExpr)
			if !ok || se.Sel.Name != "optimize" {
				return false
			}
			if sel := bp.TypesInfo.Selections[se]; sel != nil {
				if v, ok := sel.Obj().(*types.Var); ok && v.IsField() {
					return true
				}
			}
			return false
		}
		ast.Inspect(fd.Body, func(n ast.Node) bool {
			switch x := n.(type) {
			case *ast.AssignStmt:
				for _, l := range x.Lhs {
					if isOpt(l) {
						writes = append(writes, fd.Name.Name)
					}
				}
			case *ast.SelectorExpr:
				if isOpt(x) {
					reads = append(reads, fd.Name.Name)
				}
			}
			return true
		})
	}
	// the template parameter struct is built by writeStaticCode or a helper it delegates to
	allowed := map[string]bool{"Optimize": true}
	for _, h := range withHelpers(bp, load.FuncDecl(bp, "builder", "writeStaticCode"), "writeExpr", "writeExprCode") {
		allowed[h.Name.Name] = true
	}
	sort.Strings(reads)
	// reads include the assignment target and the `prev := b.optimize` in the option
	okB := strings.Join(writes, ",") == "Optimize"
	for _, rd := range reads {
		if !allowed[rd] {
			okB = false
		}
	}
	r.Check(okB, "C10-b", "G.builder.optimize:used-only-for-the-template-parameter", "", "builder/builder.go", "written by the Optimize option, read by writeStaticCode", fmt.Sprintf("writes %v reads %v", writes, reads))
	// every use of the value of -optimize-parser in the command is the argument of builder.Optimize
	mp := g.Pkg("")
	skipGen := func(fn string) bool { return strings.HasSuffix(fn, "/pigeon.go") || strings.HasSuffix(fn, "_test.go") }
	fm := newFlagModel(mp, skipGen)
	uses, wired := 0, 0
	for i, f := range mp.Syntax {
		if i < len(mp.CompiledGoFiles) && skipGen(mp.CompiledGoFiles[i]) {
			continue
		}
		var stack []ast.Node
		ast.Inspect(f, func(n ast.Node) bool {
			if n == nil {
				stack = stack[:len(stack)-1]
				return true
			}
			stack = append(stack, n)
			e, ok := n.(ast.Expr)
			if !ok || fm.flagOf(e) != "optimize-parser" {
				return true
			}
			// not the registration &x itself
			if len(stack) >= 2 {
				if ue, ok := stack[len(stack)-2].(*ast.UnaryExpr); ok && ue.Op == token.AND {
					return false
				}
			}
			uses++
			if len(stack) >= 2 {
				if ce, ok := stack[len(stack)-2].(*ast.CallExpr); ok && callName(ce) == "builder.Optimize" && len(ce.Args) == 1 {
					wired++
				}
			}
			return false
		})
	}
	okM := wired == 1 && uses == 1
	r.Check(okM, "C10-b", "G.main:-optimize-parser-wired-only-to-builder.Optimize", "", "main.go", "the flag's value is used once, as the argument of builder.Optimize", fmt.Sprintf("uses of the value: %d, of which as the argument of builder.Optimize: %d", uses, wired))
}

// funcItem finds the function declaration an item key ("func recv.name" / "func name") names.
func funcItem(f *ast.File, key string) *ast.FuncDecl {
	for _, d := range f.Decls {
		if fd, ok := d.(*ast.FuncDecl); ok {
			for _, k := range peq.DeclKeys(fd) {
				if k == key {
					return fd
				}
			}
		}
	}
	return nil
}
