package rules

import (
	"fmt"
	"go/ast"
	"go/parser"
	"go/token"
	"os"
	"path/filepath"
	"regexp"
	"sort"
	"strconv"
	"strings"

	"pigeonverif/internal/load"
)

// canonRules parses a generated parser file and returns, per rule name, a canonical rendering of the rule's
// expression tree without positions and without the identity of code-block methods.
func canonRules(path string) (map[string]string, error) {
	src, err := os.ReadFile(path)
	if err != nil {
		return nil, err
	}
	text := string(src)
	if loc := staticStartRe.FindStringIndex(text); loc != nil {
		text = text[:loc[0]]
	}
	fset := token.NewFileSet()
	f, err := parser.ParseFile(fset, path, text, parser.SkipObjectResolution)
	if err != nil {
		return nil, err
	}
	out := map[string]string{}
	var canon func(e ast.Expr) string
	canon = func(e ast.Expr) string {
		if ue, ok := e.(*ast.UnaryExpr); ok {
			e = ue.X
		}
		switch x := e.(type) {
		case *ast.CompositeLit:
			tn := ""
			if x.Type != nil {
				tn = nospace(x.Type)
			}
			var parts []string
			for _, el := range x.Elts {
				kv, ok := el.(*ast.KeyValueExpr)
				if !ok {
					parts = append(parts, canon(el))
					continue
				}
				k := nospace(kv.Key)
				switch k {
				case "pos", "line", "col", "offset", "basicLatinChars", "leader", "leftRecursive", "displayName":
					continue
				case "run":
					parts = append(parts, "run")
					continue
				}
				parts = append(parts, k+"="+canon(kv.Value))
			}
			return tn + "{" + strings.Join(parts, ",") + "}"
		case *ast.BasicLit:
			return x.Value
		case *ast.Ident:
			return x.Name
		}
		return nospace(e)
	}
	ast.Inspect(f, func(n ast.Node) bool {
		kv, ok := n.(*ast.KeyValueExpr)
		if !ok || nospace(kv.Key) != "rules" {
			return true
		}
		cl, ok := kv.Value.(*ast.CompositeLit)
		if !ok {
			return false
		}
		for _, e := range cl.Elts {
			rcl, ok := e.(*ast.CompositeLit)
			if !ok {
				continue
			}
			name, expr := "", ""
			for _, re := range rcl.Elts {
				if rkv, ok := re.(*ast.KeyValueExpr); ok {
					switch nospace(rkv.Key) {
					case "name":
						name = strings.Trim(nospace(rkv.Value), `"`)
					case "expr":
						expr = canon(rkv.Value)
					}
				}
			}
			out[name] = expr
		}
		return false
	})
	return out, nil
}

// siblingGrammarReasons lists the rules that legitimately differ between the bootstrap grammar and the full
// pigeon grammar (the latter is a superset: recovery, throw, state blocks, code predicates, error reporting actions).
var siblingGrammarReasons = map[string]string{
	"Grammar":            "same shape; listed because the action differs only by error handling",
	"Rule":               "same shape",
	"Expression":         "pigeon.peg inserts the RecoveryExpr level",
	"LabeledExpr":        "pigeon.peg adds ThrowExpr as an alternative",
	"PrimaryExpr":        "pigeon.peg adds SemanticPredExpr",
	"SemanticPredExpr":   "pigeon.peg adds the # state block and the code-predicate node types",
	"SemanticPredOp":     "pigeon.peg adds #",
	"RuleDefOp":          "pigeon.peg adds U+27F5",
	"SingleLineComment":  "pigeon.peg must not take the recovery operator //{ for a comment",
	"StringLiteral":      "pigeon.peg reports unterminated literals",
	"DoubleStringChar":   "pigeon.peg reports invalid escapes",
	"SingleStringChar":   "pigeon.peg reports invalid escapes",
	"RawStringChar":      "same shape",
	"DoubleStringEscape": "pigeon.peg reports invalid escapes",
	"SingleStringEscape": "pigeon.peg reports invalid escapes",
	"OctalEscape":        "pigeon.peg reports invalid escapes",
	"HexEscape":          "pigeon.peg reports invalid escapes",
	"LongUnicodeEscape":  "pigeon.peg validates the code point",
	"ShortUnicodeEscape": "pigeon.peg validates the code point",
	"CharClassMatcher":   "pigeon.peg reports unterminated classes",
	"CharClassEscape":    "pigeon.peg reports invalid escapes",
	"UnicodeClassEscape": "pigeon.peg validates class names",
	"UnicodeClass":       "bootstrap only",
	"CodeBlock":          "pigeon.peg reports unterminated blocks",
	"Code":               "pigeon.peg tracks strings and comments inside code",
	"Identifier":         "pigeon.peg rejects reserved words",
	"IdentifierName":     "same shape",
	"IdentifierStart":    "pigeon.peg allows any Unicode letter",
	"IdentifierPart":     "pigeon.peg allows any Unicode digit",
	"LitMatcher":         "same shape; action differs",
}

// siblingGrammars compares the rules shared by the two front-end grammars (through their generated literals).
func siblingGrammars(c *Ctx, rule string) {
	r := c.R
	repo := load.Repo()
	boot, err1 := canonRules(filepath.Join(repo, "bootstrap/cmd/bootstrap-pigeon/bootstrap_pigeon.go"))
	full, err2 := canonRules(filepath.Join(repo, "pigeon.go"))
	if err1 != nil || err2 != nil {
		r.Fatal("cannot read the generated front-ends: %v %v", err1, err2)
		return
	}
	bootAct, err3 := actionBodies(filepath.Join(repo, "bootstrap/cmd/bootstrap-pigeon/bootstrap_pigeon.go"))
	fullAct, err4 := actionBodies(filepath.Join(repo, "pigeon.go"))
	if err3 != nil || err4 != nil {
		r.Fatal("cannot read the code blocks of the generated front-ends: %v %v", err3, err4)
		return
	}
	sameAct := 0
	var shared []string
	for n := range boot {
		if _, ok := full[n]; ok {
			shared = append(shared, n)
		}
	}
	sort.Strings(shared)
	same, listed := 0, 0
	for _, n := range shared {
		construct := "A.front-end-grammars:rule " + n
		if boot[n] == full[n] {
			same++
			r.Ok(rule, construct, "", "grammar/bootstrap.peg, grammar/pigeon.peg", "identical expression in both grammars")
			// same expression: the code blocks that build the AST node must be the same as well
			ba, fa := strings.Join(bootAct[n], "\n--\n"), strings.Join(fullAct[n], "\n--\n")
			aconstruct := "A.front-end-grammars:actions of rule " + n
			switch _, listedRule := siblingGrammarReasons[n]; {
			case ba == fa:
				sameAct++
				r.Ok(rule, aconstruct, "", "grammar/bootstrap.peg, grammar/pigeon.peg", fmt.Sprintf("%d identical code blocks", len(bootAct[n])))
			case listedRule:
				r.Ok(rule, aconstruct, "", "grammar/bootstrap.peg, grammar/pigeon.peg", "differs by design: "+siblingGrammarReasons[n])
			default:
				r.Bad(rule, aconstruct, "", "grammar/bootstrap.peg, grammar/pigeon.peg", fmt.Sprintf("rule %s has the same expression in both front-end grammars but its code blocks differ, and it is not one of the rules where pigeon.peg extends bootstrap.peg: the two front-ends build different AST nodes for the same text. bootstrap: %s | pigeon: %s", n, abbreviate(firstDiff(ba, fa)), abbreviate(firstDiff(fa, ba))))
			}
			continue
		}
		if why, ok := siblingGrammarReasons[n]; ok {
			listed++
			r.Ok(rule, construct, "", "grammar/bootstrap.peg, grammar/pigeon.peg", "differs by design: "+why)
			continue
		}
		r.Bad(rule, construct, "", "grammar/bootstrap.peg, grammar/pigeon.peg", fmt.Sprintf("the two front-end grammars define rule %s differently although it is not one of the rules where pigeon.peg extends bootstrap.peg: bootstrap has %s, pigeon has %s — one of the two siblings was changed alone, so they no longer accept the same texts", n, abbreviate(boot[n]), abbreviate(full[n])))
	}
	r.Analysed["shared_front_end_rules"] = map[string]int{"shared": len(shared), "identical": same, "differ_by_design": listed, "identical_actions": sameAct}
	r.Min(rule+" shared rules", 40, len(shared))
}

func abbreviate(s string) string {
	if len(s) > 220 {
		return s[:220] + "…"
	}
	return s
}

var onMethodRe = regexp.MustCompile(`^on([A-Za-z_][A-Za-z_0-9]*?)(\d+)$`)

// actionBodies returns, per rule, the fingerprints of its on<Rule><n> methods (in index order), see actionFingerprint.
func actionBodies(path string) (map[string][]string, error) {
	fset := token.NewFileSet()
	f, err := parser.ParseFile(fset, path, nil, parser.SkipObjectResolution)
	if err != nil {
		return nil, err
	}
	type ent struct {
		ix   int
		body string
	}
	tmp := map[string][]ent{}
	for _, d := range f.Decls {
		fd, ok := d.(*ast.FuncDecl)
		if !ok || fd.Recv == nil || fd.Body == nil || len(fd.Recv.List) != 1 || nospace(fd.Recv.List[0].Type) != "*current" {
			continue
		}
		m := onMethodRe.FindStringSubmatch(fd.Name.Name)
		if m == nil {
			continue
		}
		var params []string
		for _, p := range fd.Type.Params.List {
			for _, nm := range p.Names {
				params = append(params, nm.Name)
			}
		}
		ix, _ := strconv.Atoi(m[2])
		tmp[m[1]] = append(tmp[m[1]], ent{ix, "(" + strings.Join(params, ",") + ")\n" + actionFingerprint(fd)})
	}
	out := map[string][]string{}
	for k, es := range tmp {
		sort.Slice(es, func(i, j int) bool { return es[i].ix < es[j].ix })
		for _, e := range es {
			out[k] = append(out[k], e.body)
		}
	}
	return out, nil
}

// firstDiff returns the part of a starting at the first line where a and b differ.
func firstDiff(a, b string) string {
	al, bl := strings.Split(a, "\n"), strings.Split(b, "\n")
	for i := range al {
		if i >= len(bl) || strings.TrimSpace(al[i]) != strings.TrimSpace(bl[i]) {
			return strings.TrimSpace(strings.Join(al[i:minInt(len(al), i+4)], " "))
		}
	}
	return "(prefix of the other)"
}

// actionFingerprint summarises what a code block does to the AST it builds, independently of control-structure form
// (switch or if chain), of the names of its locals and of helper locals: the set of
//   - constructors called (ast.New<Kind>) and other package-level functions called;
//   - field stores `<node>.<Field> = <value>` with single-definition locals inlined and remaining locals anonymised;
//   - type assertions to types of package ast (a new assertion means a new case distinction on the node kind);
//   - string literals (operators compared, error texts);
//   - shapes of returned values.
//
// One line per element, sorted.
func actionFingerprint(fd *ast.FuncDecl) string {
	renameScopedLocals(fd)
	set := map[string]bool{}
	params := map[string]bool{}
	for _, p := range fd.Type.Params.List {
		for _, nm := range p.Names {
			params[nm.Name] = true
		}
	}
	inl := inlineLocals(fd, nil)
	// anonymise what is still a local (multi-definition variables, loop variables); keep parameters, package names, types
	locals := map[string]bool{}
	ast.Inspect(fd.Body, func(n ast.Node) bool {
		switch x := n.(type) {
		case *ast.AssignStmt:
			if x.Tok == token.DEFINE {
				for _, l := range x.Lhs {
					if id, ok := l.(*ast.Ident); ok {
						locals[id.Name] = true
					}
				}
			}
		case *ast.ValueSpec:
			for _, nm := range x.Names {
				locals[nm.Name] = true
			}
		case *ast.RangeStmt:
			for _, e := range []ast.Expr{x.Key, x.Value} {
				if id, ok := e.(*ast.Ident); ok {
					locals[id.Name] = true
				}
			}
		}
		return true
	})
	anon := func(s string) string {
		for l := range locals {
			if params[l] {
				continue
			}
			s = regexp.MustCompile(`(^|[^A-Za-z0-9_.])`+regexp.QuoteMeta(l)+`($|[^A-Za-z0-9_])`).ReplaceAllString(s, "${1}_${2}")
			s = regexp.MustCompile(`(^|[^A-Za-z0-9_.])`+regexp.QuoteMeta(l)+`($|[^A-Za-z0-9_])`).ReplaceAllString(s, "${1}_${2}")
		}
		return s
	}
	ast.Inspect(fd.Body, func(n ast.Node) bool {
		switch x := n.(type) {
		case *ast.CallExpr:
			cn := callName(x)
			switch {
			case strings.HasPrefix(cn, "ast.New"):
				set["new "+cn] = true
			case cn != "" && !strings.Contains(cn, ".") && !locals[cn] && cn != "len" && cn != "append" && cn != "string" && cn != "make":
				set["call "+cn] = true
			case strings.HasPrefix(cn, "errors.") || strings.HasPrefix(cn, "strconv.") || strings.HasPrefix(cn, "strings.") || strings.HasPrefix(cn, "fmt."):
				set["call "+cn] = true
			}
		case *ast.AssignStmt:
			for i, l := range x.Lhs {
				if se, ok := l.(*ast.SelectorExpr); ok && i < len(x.Rhs) {
					set["set ."+se.Sel.Name+" = "+anon(inl(x.Rhs[i]))] = true
				}
			}
		case *ast.TypeAssertExpr:
			if x.Type != nil && strings.Contains(nospace(x.Type), "ast.") {
				set["assert "+nospace(x.Type)] = true
			}
		case *ast.BasicLit:
			if x.Kind == token.STRING {
				set["lit "+x.Value] = true
			}
		case *ast.ReturnStmt:
			var rs []string
			for _, e := range x.Results {
				rs = append(rs, anon(inl(e)))
			}
			set["return "+strings.Join(rs, ", ")] = true
		}
		return true
	})
	var out []string
	for k := range set {
		out = append(out, k)
	}
	sort.Strings(out)
	return strings.Join(out, "\n")
}

// renameScopedLocals gives a local that is declared (:=) in several sibling blocks - `zero := …` in two clauses of a
// switch - a name of its own per block, so that each is a single-definition local like `zeroOrOne` / `zeroOrMore`
// would be. It edits the identifiers of fd in place (callers own the syntax tree they pass).
func renameScopedLocals(fd *ast.FuncDecl) {
	if fd.Body == nil {
		return
	}
	type blk struct {
		node ast.Node
		defs map[string]token.Pos
	}
	defSites := map[string]int{}
	var blocks []*blk
	byNode := map[ast.Node]*blk{}
	listOf := func(n ast.Node) bool {
		switch n.(type) {
		case *ast.BlockStmt, *ast.CaseClause, *ast.CommClause:
			return true
		}
		return false
	}
	ast.Inspect(fd.Body, func(n ast.Node) bool {
		if n == nil {
			return true
		}
		if listOf(n) {
			b := &blk{node: n, defs: map[string]token.Pos{}}
			blocks = append(blocks, b)
			byNode[n] = b
		}
		return true
	})
	// definitions directly in a block
	var visit func(n ast.Node, cur *blk)
	visit = func(n ast.Node, cur *blk) {
		if n == nil {
			return
		}
		if b := byNode[n]; b != nil {
			cur = b
		}
		if as, ok := n.(*ast.AssignStmt); ok && as.Tok == token.DEFINE && cur != nil {
			for _, l := range as.Lhs {
				if id, ok := l.(*ast.Ident); ok && id.Name != "_" {
					if _, dup := cur.defs[id.Name]; !dup {
						cur.defs[id.Name] = id.Pos()
						defSites[id.Name]++
					}
				}
			}
		}
		ast.Inspect(n, func(m ast.Node) bool {
			if m == nil || m == n {
				return true
			}
			if _, isLit := m.(*ast.FuncLit); isLit {
				return false
			}
			visit(m, cur)
			return false
		})
	}
	visit(fd.Body, nil)
	// rename uses: innermost enclosing block that declares the name at or before the use
	index := map[*blk]int{}
	for i, b := range blocks {
		index[b] = i
	}
	var rename func(n ast.Node, chain []*blk)
	rename = func(n ast.Node, chain []*blk) {
		if n == nil {
			return
		}
		if b := byNode[n]; b != nil {
			chain = append(chain[:len(chain):len(chain)], b)
		}
		if id, ok := n.(*ast.Ident); ok && defSites[id.Name] > 1 {
			for k := len(chain) - 1; k >= 0; k-- {
				if at, ok := chain[k].defs[id.Name]; ok && at <= id.Pos() {
					id.Name = fmt.Sprintf("%s·%d", id.Name, index[chain[k]])
					break
				}
			}
			return
		}
		ast.Inspect(n, func(m ast.Node) bool {
			if m == nil || m == n {
				return true
			}
			switch x := m.(type) {
			case *ast.FuncLit:
				return false
			case *ast.SelectorExpr:
				rename(x.X, chain) // the selected name is a field, not a local
				return false
			case *ast.KeyValueExpr:
				rename(x.Value, chain)
				return false
			}
			rename(m, chain)
			return false
		})
	}
	rename(fd.Body, nil)
}
