package rules

import (
	"fmt"
	"regexp"
	"strings"

	"pigeonverif/internal/load"
)

// leftRecMarks reads, off the normalised paths of ComputeLeftRecursives (helpers expanded; the graph functions kept
// as calls), what one iteration over the strongly connected components does, and reports what is missing:
//
//	"members"  every member of a component with more than one vertex is marked LeftRecursive
//	"selfloop" a single vertex is marked exactly when it has an edge to itself in the first-graph
//	"report"   the first result is true exactly when something was marked
//	"leader"   the leader found by findLeader(graph, component) is marked Leader; a self-recursive rule is its own leader
//	"clears"   no flag is ever cleared, and no flag is set in another situation
func (c *Ctx) leftRecMarks() map[string][]string {
	if c.lrDone {
		return c.lrProblems
	}
	c.lrDone = true
	pr := map[string][]string{}
	c.lrProblems = pr
	g := c.G()
	fd := load.FuncDecl(g.Pkg("builder"), "", "ComputeLeftRecursives")
	if fd == nil || fd.Body == nil {
		pr["members"] = []string{"ComputeLeftRecursives not found"}
		return pr
	}
	rules := firstParam(fd)
	G := "MakeFirstGraph(" + rules + ")"
	nc := c.pkgNorm("builder").without("StronglyConnectedComponents", "findLeader", "FindCyclesInSCC", "MakeFirstGraph")
	paths := nc.normPaths(fd)
	if len(paths) == 0 {
		pr["members"] = []string{"no path of ComputeLeftRecursives could be read"}
		return pr
	}
	add := func(k, s string) { pr[k] = append(pr[k], s) }
	sccRe := regexp.MustCompile(`^range (StronglyConnectedComponents\(.*,` + regexp.QuoteMeta(G) + `\))$`)
	posRe := regexp.MustCompile(`^#\d+$`)
	nMulti, nSelf, nNoSelf, nNone := 0, 0, 0, 0
	for _, p0 := range paths {
		p := substAliases(p0, func(v string) bool { return strings.HasPrefix(v, rules+"[") && strings.HasSuffix(v, "]") })
		iL := p.evIndex("loop", 0, func(s string) bool { return sccRe.MatchString(s) })
		if iL < 0 {
			add("members", "a path does not iterate over the strongly connected components of the first-graph "+G)
			continue
		}
		S := sccRe.FindStringSubmatch(p[iL].Text)[1] + "[#1]"
		_, hi := loopSpan(p, p[iL].Text)
		body := p[iL+1 : hi]
		ret := lastReturn(p)
		first := splitTop(ret, ",")[0]
		if dollarRe.FindString(first) == first {
			// a flag declared without a value and never set on this path is false
			if v, _ := lastSet(p, first); v == "zero" {
				first = "false"
			}
		}
		if p.hasCall("panic(") {
			continue
		}
		// what the iteration marks
		type mark struct{ key, flag, val string }
		var marks []mark
		for _, e := range body {
			if e.Kind != "set" || !strings.HasPrefix(e.Text, rules+"[") {
				continue
			}
			for _, fl := range []string{"LeftRecursive", "Leader"} {
				if i := strings.Index(e.Text, "]."+fl+"="); i > 0 {
					marks = append(marks, mark{e.Text[len(rules)+1 : i], fl, e.Text[i+len("]."+fl+"="):]})
				}
			}
		}
		for _, m := range marks {
			if m.val != "true" {
				add("clears", "the flag "+m.flag+" of "+rules+"["+m.key+"] is set to "+m.val)
			}
		}
		has := func(key, flag string) bool {
			for _, m := range marks {
				if m.key == key && m.flag == flag && m.val == "true" {
					return true
				}
			}
			return false
		}
		leaderErr := "res1(findLeader(" + G + "," + S + "))"
		leader := "res0(findLeader(" + G + "," + S + "))"
		// facts of the iteration other than the ones that select the situation
		var other []string
		selfKey := ""
		for _, f := range body.facts() {
			switch {
			case f == "len("+S+")>1", f == "len("+S+")<=1", f == "len("+S+")==1", f == leaderErr+"==nil", f == leaderErr+"!=nil":
			case strings.HasPrefix(strings.TrimPrefix(f, "!"), "ok("+G+"["):
				k := strings.TrimSuffix(strings.TrimPrefix(strings.TrimPrefix(f, "!"), "ok("+G+"["), "])")
				if i := strings.Index(k, "]["); i > 0 && k[:i] == k[i+2:] {
					selfKey = k[:i]
				} else {
					other = append(other, f)
				}
			default:
				other = append(other, f)
			}
		}
		switch {
		case len(body) == 0 || (!body.holds("len("+S+")>1") && !body.holds("len("+S+")<=1") && !body.holds("len("+S+")==1")):
			if len(body) == 0 {
				nNone++
				if first != "false" || len(marks) > 0 {
					add("report", "with no component the result is "+first)
				}
			} else {
				add("members", "an iteration does not distinguish components with more than one vertex from single vertices")
			}
		case body.holds("len(" + S + ")>1"):
			if body.holds(leaderErr + "!=nil") {
				continue // error path (C07-e)
			}
			nMulti++
			if len(other) > 0 {
				add("members", "marking a component with several vertices depends on `"+strings.Join(other, "`, `")+"`")
			}
			// every member: a loop over S that marks its element, unconditionally
			okMembers := false
			for i, e := range body {
				if e.Kind == "loop" && e.Text == "range "+S {
					_, h2 := loopSpan(body[i:], e.Text)
					inner := body[i+1 : i+h2]
					for _, e2 := range inner {
						if e2.Kind == "set" && e2.Text == rules+"[#2].LeftRecursive=true" && len(inner.facts()) == 0 {
							okMembers = true
						}
					}
				}
			}
			if !okMembers {
				add("members", "not every member of a component with more than one vertex is marked LeftRecursive")
			}
			if !has(leader, "Leader") {
				add("leader", "the rule returned by findLeader("+G+", component) is not marked Leader: the component has no leader and no seed is ever grown for it")
			}
			for _, m := range marks {
				if m.flag == "Leader" && m.key != leader {
					add("leader", rules+"["+m.key+"] is marked Leader in a component with several vertices, expected only "+leader)
				}
				if m.flag == "LeftRecursive" && m.key != "#2" {
					add("clears", rules+"["+m.key+"] is marked LeftRecursive in a component with several vertices")
				}
			}
			if first != "true" {
				add("report", "after marking a component with several vertices the result is "+first+", not true")
			}
		default: // single vertex
			if len(other) > 0 {
				add("selfloop", "marking a single vertex depends on `"+strings.Join(other, "`, `")+"`")
			}
			if selfKey == "" || !posRe.MatchString(selfKey) {
				add("selfloop", "a single vertex is not tested for an edge to itself ("+G+"[v][v])")
				continue
			}
			if body.holds("ok(" + G + "[" + selfKey + "][" + selfKey + "])") {
				nSelf++
				if !has(selfKey, "LeftRecursive") {
					add("selfloop", "a rule with an edge to itself is not marked LeftRecursive")
				}
				if !has(selfKey, "Leader") {
					add("leader", "a self-recursive rule is not marked Leader: it is its own group and no seed is ever grown for it")
				}
				if first != "true" {
					add("report", "after marking a self-recursive rule the result is "+first+", not true")
				}
				for _, m := range marks {
					if m.key != selfKey {
						add("clears", rules+"["+m.key+"] is marked in the iteration of another single vertex")
					}
				}
			} else {
				nNoSelf++
				if len(marks) > 0 {
					add("selfloop", "a single vertex without an edge to itself is marked")
				}
				if first != "false" {
					add("report", "with nothing marked the result is "+first+", not false")
				}
			}
		}
	}
	if nMulti == 0 {
		add("members", "no path handles a component with more than one vertex")
	}
	if nSelf == 0 || nNoSelf == 0 {
		add("selfloop", "no path handles a single vertex with (and one without) an edge to itself")
	}
	_ = nNone
	for k := range pr {
		pr[k] = uniq(pr[k])
	}
	return pr
}

// firstGraphShape reads MakeFirstGraph off its normalised paths: the returned map gets, for every key of the rule
// map, that rule's InitialNames() (unconditionally), and otherwise only empty sets (for names that are referenced but
// not defined). Returns what is wrong with the edges and with the shape ("" = fine).
func (c *Ctx) firstGraphShape() (edges, shape string) {
	g := c.G()
	fd := load.FuncDecl(g.Pkg("builder"), "", "MakeFirstGraph")
	if fd == nil || fd.Body == nil {
		return "MakeFirstGraph not found", "MakeFirstGraph not found"
	}
	rules := firstParam(fd)
	paths := c.pkgNorm("builder").normPaths(fd)
	if len(paths) == 0 {
		return "no path of MakeFirstGraph could be read", "no path of MakeFirstGraph could be read"
	}
	var eb, sb []string
	nEdges, nEmpty := 0, 0
	for _, p := range paths {
		G := lastReturn(p)
		if dollarRe.FindString(G) != G || G == "" {
			eb = append(eb, "the graph returned is `"+G+"`, not a map built here")
			continue
		}
		depth := 0
		loopAt := map[int]string{}
		okEdge := false
		for i, e := range p {
			switch e.Kind {
			case "loop":
				depth++
				loopAt[depth] = strings.TrimPrefix(e.Text, "range ")
			case "endloop":
				depth--
			case "set":
				if !strings.HasPrefix(e.Text, G+"[") {
					continue
				}
				k := indexTop(e.Text, "=")
				if k < 0 {
					continue
				}
				key, val := e.Text[len(G)+1:k-1], e.Text[k+1:]
				switch {
				case val == rules+"["+key+"].InitialNames()" && posKeyOf(key, loopAt) == rules:
					nEdges++
					// unconditional within the loop over the rules
					lo := i
					for lo > 0 && !(p[lo].Kind == "loop" && strings.TrimPrefix(p[lo].Text, "range ") == rules) {
						lo--
					}
					if len(p[lo:i].facts()) == 0 {
						okEdge = true
					} else {
						eb = append(eb, "the edges of a rule are stored only under `"+strings.Join(p[lo:i].facts(), "`, `")+"`")
					}
				case isEmptySetValue(val):
					nEmpty++
				default:
					sb = append(sb, "the graph gets `"+abbreviate(e.Text)+"`: out-edges must come from a defined rule's InitialNames(), every other vertex gets an empty set")
				}
			}
		}
		// a path through the loop over the rules must store the edges
		if p.evIndex("loop", 0, func(s string) bool { return s == "range "+rules }) >= 0 {
			_, hi := loopSpan(p, "range "+rules)
			lo := p.evIndex("loop", 0, func(s string) bool { return s == "range "+rules })
			if hi > lo+1 && !okEdge {
				eb = append(eb, "an iteration over the rules does not store the rule's InitialNames() as its out-edges")
			}
		} else {
			eb = append(eb, "a path does not iterate over the rules")
		}
	}
	if nEdges == 0 {
		eb = append(eb, "the first-graph is not built from every rule's InitialNames")
	}
	if nEmpty == 0 {
		sb = append(sb, "vertices that are only referenced get no (empty) entry")
	}
	return strings.Join(uniq(eb), "; "), strings.Join(uniq(sb), "; ")
}

// posKeyOf: the expression ranged over by the loop whose position variable key (#d) is.
func posKeyOf(key string, loopAt map[int]string) string {
	var d int
	if _, err := fmt.Sscanf(key, "#%d", &d); err != nil {
		return ""
	}
	return loopAt[d]
}

var emptyLitRe = regexp.MustCompile(`^[A-Za-z_][\w\.\[\]\{\}]*\{\}$`)

// isEmptySetValue: a freshly made map or an empty composite literal (of the set type or an alias of it).
func isEmptySetValue(v string) bool {
	if strings.HasPrefix(v, "make(") && wholeCall(v) {
		args := splitTop(v[len("make("):len(v)-1], ",")
		return len(args) >= 1 && len(args) <= 2
	}
	return emptyLitRe.MatchString(v)
}
