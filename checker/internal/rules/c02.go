package rules

import (
	"fmt"
	"go/ast"
	"sort"
	"strings"

	"pigeonverif/internal/absint"
	"pigeonverif/internal/load"
	"pigeonverif/internal/variants"
)

// C02 — code blocks observe the true match context (text, pos, labels).
func C02(c *Ctx) {
	r := c.R
	r.Technique = "typestate abstract interpretation (context assignments before each code-block call, label-scope depth at each child evaluation) in all 16 variants; type-resolved who-may-write scan for position/savepoint/input; scope-depth agreement between builder.writeExprCode and the runtime"
	r.Explanation = "Decides: (a) an action block runs only on the ok path of its expression, after cur.pos was set from the entry savepoint and cur.text to the slice from the entry savepoint to the current position; (b) before every predicate / state block call cur.pos must be set to the current position and cur.text emptied; (c) positions are a pure function of (input, offset): fields of position/savepoint values are stored to only in read(), p.pt as a whole only in restore() (and the initial literal), p.data never, no savepoint/position literal is fabricated, and read() advances by the decoded width, counts a column per rune and resets it after a newline; (d) compiler and interpreter agree on label scopes: for every kind the child is evaluated at the same scope depth at which builder.writeExprCode visits it (listed exception: RecoveryExpr), a label is bound in the enclosing scope on both sides, and the call stub reads the top of the variable stack; (e) a code predicate's boolean alone decides the match and neither predicate form moves the position. Not decided: that col counts runes for every byte string (needs utf8.DecodeRune semantics); label values across the optimizer's inlining."
	r.Assumptions = []string{"utf8.DecodeRune contract", "user code does not write c.pos / c.text"}
	r.Rule("C02-a", "parseActionExpr: every run(p) is preceded, after the operand evaluation and on its ok path only, by cur.pos = <entry savepoint>.position and cur.text = sliceFrom(<entry savepoint>) taken at the position current at the call")
	r.Rule("C02-b", "parseAndCodeExpr / parseNotCodeExpr / parseStateCodeExpr: before run(p), cur.pos is assigned the current position and cur.text an empty slice on every path")
	r.Rule("C02-c", "who-may-write: position.{line,col,offset} and savepoint.{rn,w} only in read(); parser.pt only in restore(); parser.data nowhere; no address of these is taken; savepoint/position composite literals only in newParser; read(): offset += w; DecodeRune(data[offset:]); store rn,w; col++; newline => line++, col = 0")
	r.Rule("C02-d", "for each kind with children: scope depth (pushArgsSet nesting) at which builder.writeExprCode visits a child equals the variable-stack depth (pushV nesting) at which the runtime evaluates it; labels are added to the enclosing scope on both sides; stubs read p.vstack[len(p.vstack)-1]")
	r.Rule("C02-f", "the matchers call read() only under a not-at-end-of-input test (C01-e under this property): a read at end of input advances the column without advancing the offset, and no restore undoes it")
	r.Rule("C02-e", "parseAndCodeExpr returns (nil, b) and parseNotCodeExpr (nil, !b) with b the block's boolean; neither calls read/restore or an evaluator")

	abs := c.allAbs()
	r.Min("semantic variants analysed", 16, len(abs))
	gDepth := c02BuilderScopes(c)
	for _, a := range abs {
		c02a(c, a)
		c02b(c, a)
		c02c(c, a.V)
		c02dRuntime(c, a, gDepth)
		c02dBalance(c, a)
		c02e(c, a)
		c01e2(c, a, "C02-f", "at end of input read() consumes nothing but still counts a column, and restore() does nothing when the offset is unchanged: the column an action sees at that offset then depends on how many attempts failed there before")
	}
	r.MinRule("C02-d", 8)
}

func c02a(c *Ctx, a *absVariant) {
	r := c.R
	res := a.Res["parseActionExpr"]
	if res == nil {
		r.Fatal("variant %s: parseActionExpr missing", a.V.Name)
		return
	}
	var bad []string
	nRun := 0
	for _, e := range res.Exits {
		evs := e.State.Ev
		for i, ev := range evs {
			if ev.Kind != "run" {
				continue
			}
			nRun++
			// find operand evaluation before
			evalIdx := -1
			for k := i - 1; k >= 0; k-- {
				if evs[k].Kind == "eval" {
					evalIdx = k
					break
				}
			}
			if evalIdx < 0 || evs[evalIdx].Args[2] != "ok" {
				bad = append(bad, a.V.Where(ev.Pos)+": action block runs without a successful operand evaluation before it ["+evString(e)+"]")
				continue
			}
			posOK, textOK := false, false
			for k := evalIdx + 1; k < i; k++ {
				switch evs[k].Kind {
				case "ctx.pos":
					posOK = evs[k].Args[0] == absint.Entry && evs[k].Args[1] == "pos"
				case "ctx.text":
					textOK = evs[k].Args[0] == "slice("+absint.Entry+"|"+ev.Pt+")"
				}
			}
			if !posOK {
				bad = append(bad, a.V.Where(ev.Pos)+": cur.pos is not the entry savepoint's position when the action runs ["+evString(e)+"]")
			}
			if !textOK {
				bad = append(bad, a.V.Where(ev.Pos)+": cur.text is not sliceFrom(entry savepoint) up to the current position when the action runs ["+evString(e)+"]")
			}
		}
		if e.Ok().IsFalse() && len(eventsOf(e, "run")) > 0 {
			bad = append(bad, a.where(e, res.Fn)+": action ran on a failing path")
		}
		if e.Ok().IsTrue() && len(eventsOf(e, "run")) != 1 {
			bad = append(bad, fmt.Sprintf("%s: action ran %d times on a success path", a.where(e, res.Fn), len(eventsOf(e, "run"))))
		}
	}
	sort.Strings(bad)
	w := a.V.Where(res.Fn.Pos())
	if len(bad) > 0 {
		r.Bad("C02-a", "T.parseActionExpr:context-from-entry-savepoint", a.V.Name, w, bad[0])
	} else {
		r.Ok("C02-a", "T.parseActionExpr:context-from-entry-savepoint", a.V.Name, w, fmt.Sprintf("%d run events on abstract paths", nRun))
	}
}

func c02b(c *Ctx, a *absVariant) {
	r := c.R
	for _, fn := range []string{"parseAndCodeExpr", "parseNotCodeExpr", "parseStateCodeExpr"} {
		res := a.Res[fn]
		if res == nil {
			continue
		}
		var bad []string
		for _, e := range res.Exits {
			evs := e.State.Ev
			for i, ev := range evs {
				if ev.Kind != "run" {
					continue
				}
				posOK, textOK := false, false
				for k := 0; k < i; k++ {
					switch evs[k].Kind {
					case "ctx.pos":
						posOK = evs[k].Args[0] == ev.Pt
					case "ctx.text":
						t := evs[k].Args[0]
						textOK = t == "slice("+ev.Pt+"|"+ev.Pt+")" || strings.HasPrefix(t, "nil(") || strings.Contains(t, "[]byte{}") || strings.Contains(t, "[:0]")
					}
				}
				if !posOK || !textOK {
					var miss []string
					if !posOK {
						miss = append(miss, "cur.pos")
					}
					if !textOK {
						miss = append(miss, "cur.text")
					}
					bad = append(bad, a.V.Where(ev.Pos)+": "+strings.Join(miss, " and ")+" not assigned before the block runs: it observes the pos/text left by the last action (or 0:0 if none ran) instead of the current position and an empty text")
				}
			}
		}
		sort.Strings(bad)
		w := a.V.Where(res.Fn.Pos())
		if len(bad) > 0 {
			r.Bad("C02-b", "T."+fn+":run:cur.pos,cur.text", a.V.Name, w, bad[0])
		} else {
			r.Ok("C02-b", "T."+fn+":run:cur.pos,cur.text", a.V.Name, w, "context assigned on every path before the block")
		}
	}
}

func c02c(c *Ctx, v *variants.Variant) {
	r := c.R
	vn := v.Name
	ws := fieldWrites(v)
	allowed := map[string]map[string]bool{
		"position.line": {"read": true}, "position.col": {"read": true}, "position.offset": {"read": true},
		"savepoint.rn": {"read": true}, "savepoint.w": {"read": true}, "savepoint.position": {},
		"parser.pt": {"restore": true, "read": true}, "parser.data": {},
		"resultTuple.end": {}, "resultTuple.v": {}, "resultTuple.b": {},
	}
	var bad []string
	n := 0
	for _, w := range ws {
		key := w.Owner + "." + w.Field
		al, tracked := allowed[key]
		if !tracked {
			continue
		}
		n++
		if key == "parser.pt" && w.Func == "read" && w.Kind != "elem" {
			// the next position as a function of the current one and the input alone (p.pt = next(p.pt, p.data)) is
			// the same accounting given a name: its body is checked, expanded, by the accounting rule of read()
			if readInstallsNextPosition(v) {
				continue
			}
			bad = append(bad, v.Where(w.Pos)+": read() replaces p.pt as a whole ("+w.Text+")")
			continue
		}
		if key == "parser.pt" && w.Func == "restore" && w.Kind == "elem" {
			bad = append(bad, v.Where(w.Pos)+": restore() edits a field of p.pt ("+w.Text+") instead of installing the savepoint")
			continue
		}
		if !al[w.Func] {
			bad = append(bad, fmt.Sprintf("%s: %s stores to %s (%s, %s); allowed writers: %v", v.Where(w.Pos), w.Func, key, w.Text, w.Kind, keysOf(al)))
		}
	}
	for tn, okFns := range map[string][]string{"savepoint": {"newParser"}, "position": {"newParser"}} {
		for fn, k := range compositeLitsOf(v, tn) {
			ok := false
			for _, f := range okFns {
				if f == fn {
					ok = true
				}
			}
			if !ok {
				bad = append(bad, fmt.Sprintf("%d composite literal(s) of type %s in %s: positions must be copies of p.pt, never fabricated", k, tn, fn))
			}
		}
	}
	sort.Strings(bad)
	if len(bad) > 0 {
		r.Bad("C02-c", "T.position/savepoint/data:who-may-write", vn, "builder/static_code.go", bad[0])
	} else {
		r.Ok("C02-c", "T.position/savepoint/data:who-may-write", vn, "builder/static_code.go", fmt.Sprintf("%d stores to tracked fields, all by their owner function", n))
	}
	// restore(): p.pt = <param>
	rs := v.Func("parser", "restore")
	if rs == nil {
		r.Fatal("variant %s: restore missing", vn)
	} else {
		param := rs.Type.Params.List[0].Names[0].Name
		okInstall, n := false, 0
		ast.Inspect(rs.Body, func(nd ast.Node) bool {
			if as, ok := nd.(*ast.AssignStmt); ok && nospace(as.Lhs[0]) == "p.pt" {
				n++
				if nospace(as.Rhs[0]) == param {
					okInstall = true
				}
			}
			return true
		})
		// the only early return is the no-op when offsets are equal
		okRet := true
		ast.Inspect(rs.Body, func(nd ast.Node) bool {
			if rt, ok := nd.(*ast.ReturnStmt); ok {
				g := guardsOf(rs.Body, rt.Pos())
				if !(len(g) == 1 && (g[0] == param+".offset==p.pt.offset" || g[0] == "p.pt.offset=="+param+".offset")) {
					okRet = false
				}
			}
			return true
		})
		r.Check(okInstall && n == 1 && okRet, "C02-c", "T.restore:installs-argument", vn, v.Where(rs.Pos()), "p.pt = "+param+" (skipped only when the offsets are equal)", fmt.Sprintf("install=%t assignments=%d early-return-ok=%t", okInstall, n, okRet))
	}
	c02Read(c, v, "C02-c")
	// the initial position: line 1, column 0, offset 0, width 0, and exactly one read() before the start rule
	np := v.Func("", "newParser")
	okInit := false
	got := ""
	if np != nil {
		ast.Inspect(np.Body, func(n ast.Node) bool {
			kv, ok := n.(*ast.KeyValueExpr)
			if !ok || nospace(kv.Key) != "pt" {
				return true
			}
			cl, ok := kv.Value.(*ast.CompositeLit)
			if !ok {
				return true
			}
			fields := map[string]string{}
			var collect func(c *ast.CompositeLit, prefix string)
			collect = func(c *ast.CompositeLit, prefix string) {
				for _, e := range c.Elts {
					if k, ok := e.(*ast.KeyValueExpr); ok {
						if inner, ok := k.Value.(*ast.CompositeLit); ok {
							collect(inner, prefix+nospace(k.Key)+".")
						} else {
							fields[prefix+nospace(k.Key)] = nospace(k.Value)
						}
					} else {
						fields[prefix+"?"] = "positional"
					}
				}
			}
			collect(cl, "")
			var ks []string
			for k, val := range fields {
				ks = append(ks, k+"="+val)
			}
			sort.Strings(ks)
			got = strings.Join(ks, ",")
			okInit = got == "position.line=1"
			return false
		})
	}
	pf := v.Func("parser", "parse")
	reads, beforeStart := 0, false
	if pf != nil {
		var readPos, evalPos ast.Node
		for _, ce := range callsIn(pf.Body) {
			if _, isLit := ce.Fun.(*ast.FuncLit); isLit {
				continue
			}
			switch callSel(ce) {
			case "read":
				reads++
				readPos = ce
			case "parseRuleWrap":
				evalPos = ce
			}
		}
		beforeStart = readPos != nil && evalPos != nil && readPos.Pos() < evalPos.Pos() && len(guardsOf(pf.Body, readPos.Pos())) == 0
	}
	// the parser works on exactly the bytes the caller passed
	okData := false
	dataWhy := ""
	if pfn := v.Func("", "Parse"); pfn != nil && np != nil {
		var bParam string
		names := []string{}
		for _, f := range pfn.Type.Params.List {
			for _, nm := range f.Names {
				names = append(names, nm.Name)
			}
		}
		if len(names) == 3 {
			bParam = names[1]
		}
		single, _ := parseForwards(c, v)
		passes := false
		for _, ce := range callsIn(pfn.Body) {
			if callName(ce) == "newParser" && len(ce.Args) == 3 && nospace(ce.Args[1]) == bParam {
				passes = true
			}
		}
		npNames := []string{}
		for _, f := range np.Type.Params.List {
			for _, nm := range f.Names {
				npNames = append(npNames, nm.Name)
			}
		}
		stored := false
		reassigned := false
		if len(npNames) == 3 {
			ast.Inspect(np.Body, func(n ast.Node) bool {
				switch x := n.(type) {
				case *ast.KeyValueExpr:
					if nospace(x.Key) == "data" && nospace(x.Value) == npNames[1] {
						stored = true
					}
				case *ast.AssignStmt:
					for _, l := range x.Lhs {
						if nospace(l) == npNames[1] {
							reassigned = true
						}
					}
				}
				return true
			})
		}
		okData = single && passes && stored && !reassigned
		dataWhy = fmt.Sprintf("Parse-is-a-single-forwarding-call=%t passes-its-slice=%t newParser-stores-it=%t slice-reassigned=%t", single, passes, stored, reassigned)
	}
	r.Check(okData, "C02-c", "T.Parse/newParser:input-is-the-callers-bytes", vn, "builder/static_code.go", "p.data is the caller's slice, unmodified", dataWhy+": offsets, lines and columns reported to code blocks would no longer refer to the caller's input")
	r.Check(okInit && reads == 1 && beforeStart, "C02-c", "T.newParser/parse:initial-position", vn, "builder/static_code.go", "pt starts at line 1, col 0, offset 0; one unconditional read() before the start rule",
		fmt.Sprintf("initial pt literal {%s}, %d read() calls in parse, before-start-rule=%t: every reported line/col/offset would be shifted", got, reads, beforeStart))
}

func keysOf(m map[string]bool) []string {
	var out []string
	for k := range m {
		out = append(out, k)
	}
	sort.Strings(out)
	return out
}

// c02Read checks the line/col/offset accounting of read() on its normalised paths: the position advances by the
// width of the previous rune, the rune decoded there and its width are stored, the column counts runes and restarts
// after a newline (which increments the line), nothing else is written to the position, and the invalid-encoding
// error is recorded exactly for a one-byte RuneError when invalid UTF-8 is not allowed.
func c02Read(c *Ctx, v *variants.Variant, rule string) {
	r := c.R
	fd := v.Func("parser", "read")
	if fd == nil {
		r.Fatal("variant %s: read missing", v.Name)
		return
	}
	paths := c.vnorm(v).without("addErr", "addErrAt").normPaths(fd)
	var bad []string
	const dec = "utf8.DecodeRune(p.data[p.pt.offset:])"
	for _, p0 := range paths {
		// what was stored into p.pt.rn / p.pt.w is what a later test of those fields reads; a position handed through a
		// helper comes back as itself
		p := make(bpath, 0, len(p0))
		val := map[string]string{}
		for _, e := range p0 {
			switch e.Kind {
			case "set":
				if e.Text == "p.pt=p.pt" {
					continue
				}
				for _, f := range []string{"p.pt.rn", "p.pt.w"} {
					if strings.HasPrefix(e.Text, f+"=") {
						val[f] = strings.TrimPrefix(e.Text, f+"=")
					}
				}
			case "+":
				ne := e
				for f, x := range val {
					ne.Text = replaceOperand(ne.Text, f, x)
				}
				e = ne
			}
			p = append(p, e)
		}
		iAdv := p.evIndex("set", 0, func(s string) bool { return s == "p.pt.offset+=p.pt.w" })
		iDec := p.evIndex("call", 0, func(s string) bool { return s == dec })
		if iAdv < 0 || iDec < 0 || iAdv > iDec {
			bad = append(bad, "the offset is not advanced by the previous width before the next rune is decoded at it")
			continue
		}
		sets := map[string]int{}
		for i, e := range p {
			if e.Kind == "set" && strings.HasPrefix(e.Text, "p.pt.") {
				sets[e.Text] = i
			}
		}
		need := []string{"p.pt.rn=res0(" + dec + ")", "p.pt.w=res1(" + dec + ")", "p.pt.col++"}
		newline := p.holds("res0(" + dec + ")=='\\n'")
		if newline {
			need = append(need, "p.pt.line++", "p.pt.col=0")
		}
		for _, n := range need {
			if _, ok := sets[n]; !ok {
				bad = append(bad, "missing `"+n+"` on the path ["+strings.Join(p.facts(), " ")+"]")
			}
		}
		if newline && sets["p.pt.col=0"] < sets["p.pt.col++"] {
			bad = append(bad, "the column is reset before it is incremented")
		}
		for s := range sets {
			okS := s == "p.pt.offset+=p.pt.w"
			for _, n := range need {
				if s == n {
					okS = true
				}
			}
			if !okS {
				bad = append(bad, "unexpected position update `"+s+"` on the path ["+strings.Join(p.facts(), " ")+"]")
			}
		}
		invalid := p.holds("res0("+dec+")==utf8.RuneError") && p.holds("res1("+dec+")==1") && p.holds("!p.allowInvalidUTF8")
		reported := p.hasCall("p.addErr(errInvalidEncoding)")
		if invalid != reported {
			bad = append(bad, fmt.Sprintf("invalid-encoding error recorded=%t on the path [%s] (expected exactly for RuneError of width 1 without AllowInvalidUTF8)", reported, strings.Join(p.facts(), " ")))
		}
		// nothing else decides: every fact of the path is about the decoded rune, its width or the option
		for _, f := range p.facts() {
			okF := true
			for _, d := range splitTop(f, "||") {
				for _, cj := range splitTop(d, "&&") {
					cj = strings.TrimPrefix(cj, "!")
					if !(strings.HasPrefix(cj, "res0("+dec+")") || strings.HasPrefix(cj, "res1("+dec+")") || cj == "p.allowInvalidUTF8") {
						okF = false
					}
				}
			}
			if !okF {
				bad = append(bad, "what read() does depends on `"+abbreviate(f)+"`: an invalid byte must be reported every time it is read (backtracking may have discarded the earlier report) and the position accounting depends on the decoded rune alone")
			}
		}
	}
	if len(paths) == 0 {
		bad = append(bad, "no paths")
	}
	r.Check(len(bad) == 0, rule, "T.read:accounting", v.Name, v.Where(fd.Pos()),
		"offset += w; decode at offset; store rune and width; col++; newline => line++, col = 0; then the invalid-encoding test", strings.Join(uniq(bad), "; "))
}

// c02BuilderScopes computes, per ast kind, the scope depth at which writeExprCode visits each child,
// and checks the label / stub rules on the builder side. Result: kind -> child selector suffix -> depth.
func c02BuilderScopes(c *Ctx) map[string]map[string]int {
	r := c.R
	g := c.G()
	if g == nil {
		return nil
	}
	bp := g.Pkg("builder")
	fd := load.FuncDecl(bp, "builder", "writeExprCode")
	if fd == nil {
		r.Fatal("anchor builder.writeExprCode not found")
		return nil
	}
	si := typeSwitchOn(fd, fd.Type.Params.List[0].Names[0].Name)
	out := map[string]map[string]int{}
	nc := c.builderNorm()
	b, xp := recvName(fd), firstParam(fd)
	// scope depth (pushArgsSet nesting) at which each child is visited, read off the normalised paths of the case
	scopeDepths := func(paths []bpath, root string) (map[string]int, string) {
		m := map[string]int{}
		problem := ""
		for _, p := range paths {
			depth := 0
			for _, e := range p {
				if e.Kind != "call" {
					continue
				}
				switch {
				case e.Text == b+".pushArgsSet()":
					depth++
				case e.Text == b+".popArgsSet()":
					depth--
				case strings.HasPrefix(e.Text, b+".writeExprCode("):
					a := strings.TrimSuffix(strings.TrimPrefix(e.Text, b+".writeExprCode("), ")")
					name := "elem"
					if strings.HasPrefix(a, root+".") && !strings.Contains(a[len(root)+1:], "[") {
						name = a[len(root)+1:]
					}
					if d, seen := m[name]; seen && d != depth {
						problem = fmt.Sprintf("child %s is visited at depths %d and %d", name, d, depth)
					}
					m[name] = depth
				case strings.HasPrefix(e.Text, b+".addArg("):
					m["$label"] = depth
				}
			}
			if depth != 0 {
				problem = fmt.Sprintf("pushArgsSet/popArgsSet unbalanced (%+d)", depth)
			}
		}
		return m, problem
	}
	for kind, cc := range si.Cases {
		m, problem := scopeDepths(nc.normBlock(fd, cc.Body), xp)
		if problem != "" {
			r.Bad("C02-d", "G.builder.writeExprCode:kind="+kind+":balanced", "", g.Where(cc.Pos()), problem)
		}
		out[kind] = m
	}
	builderOperandScopes(c, "C02-d")
	// rule level
	wrc := load.FuncDecl(bp, "builder", "writeRuleCode")
	if wrc != nil {
		okScope := false
		why := "no path"
		for _, p := range nc.normPaths(wrc) {
			var seq []string
			for _, e := range p {
				if e.Kind != "call" {
					continue
				}
				switch {
				case e.Text == b+".pushArgsSet()":
					seq = append(seq, "push")
				case e.Text == b+".popArgsSet()":
					seq = append(seq, "pop")
				case strings.HasPrefix(e.Text, b+".writeExprCode("):
					seq = append(seq, "visit")
				}
			}
			if len(seq) == 0 {
				continue // the nil-rule path
			}
			okScope = strings.Join(seq, ",") == "push,visit,pop"
			why = "sequence is " + strings.Join(seq, ",")
			if !okScope {
				break
			}
		}
		r.Check(okScope, "C02-d", "G.builder.writeRuleCode:rule-scope", "", g.Where(wrc.Pos()), "each rule's code is generated in its own scope", why)
		out["$rule"] = map[string]int{"Expr": 1}
	}
	// the scope stack primitives of the builder, on their normalised paths (argstack_n.go)
	asp := argStackProblems(c, func(recv, name string) *ast.FuncDecl { return load.FuncDecl(bp, recv, name) })
	for _, fn := range []string{"pushArgsSet", "popArgsSet", "addArg"} {
		r.Check(len(asp[fn]) == 0, "C02-d", "G.builder."+fn+":shape", "", "builder/builder.go", "push appends one empty scope, pop removes exactly the top one, addArg appends a present label to the top scope", strings.Join(asp[fn], "; ")+": label scopes of generated methods would not nest as the runtime's variable stack does")
	}
	// stubs read the top of the variable stack
	sk := c.Skel()
	_ = sk
	for _, tv := range []string{"callFuncTemplate", "callPredFuncTemplate", "callStateFuncTemplate"} {
		found := false
		for _, f := range bp.Syntax {
			ast.Inspect(f, func(n ast.Node) bool {
				vs, ok := n.(*ast.ValueSpec)
				if !ok {
					return true
				}
				for i, nm := range vs.Names {
					if nm.Name == tv && i < len(vs.Values) {
						if bl, ok := vs.Values[i].(*ast.BasicLit); ok && strings.Contains(strings.ReplaceAll(bl.Value, " ", ""), "stack:=p.vstack[len(p.vstack)-1]") && strings.Contains(bl.Value, "p.cur.%[1]s(%s)") {
							found = true
						}
					}
				}
				return true
			})
		}
		r.Check(found, "C02-d", "G.builder."+tv+":reads-top-scope", "", "builder/builder.go", "stub reads p.vstack[len(p.vstack)-1] and forwards stack[...] to the method", "stub template does not read the top of the variable stack")
	}
	return out
}

func c02dRuntime(c *Ctx, a *absVariant, gDepth map[string]map[string]int) {
	r := c.R
	vn := a.V.Name
	if gDepth == nil {
		return
	}
	// kinds with children: builder child-field suffix -> runtime child expression suffix
	type pair struct{ kind, fn, gField, tArg string }
	pairs := []pair{
		{"ActionExpr", "parseActionExpr", "Expr", ".expr"}, {"LabeledExpr", "parseLabeledExpr", "Expr", ".expr"},
		{"AndExpr", "parseAndExpr", "Expr", ".expr"}, {"NotExpr", "parseNotExpr", "Expr", ".expr"},
		{"OneOrMoreExpr", "parseOneOrMoreExpr", "Expr", ".expr"}, {"ZeroOrMoreExpr", "parseZeroOrMoreExpr", "Expr", ".expr"},
		{"ZeroOrOneExpr", "parseZeroOrOneExpr", "Expr", ".expr"}, {"ChoiceExpr", "parseChoiceExpr", "elem", ""},
		{"SeqExpr", "parseSeqExpr", "elem", ""}, {"RecoveryExpr", "parseRecoveryExpr", "Expr", ".expr"},
		{"$rule", "parseRule", "Expr", ".expr"},
	}
	exceptions := map[string]string{"RecoveryExpr": "builder scopes the guarded expression, the runtime does not: labels bound inside become visible to the enclosing map at run time, which is a superset of what the generated signatures read (confirmed by reading)"}
	for _, p := range pairs {
		res := a.Res[p.fn]
		if res == nil {
			r.Fatal("variant %s: %s missing", vn, p.fn)
			continue
		}
		gd, ok := gDepth[p.kind][p.gField]
		if !ok {
			r.Unk("C02-d", "G/T."+p.kind+":child-scope-depth", vn, "builder/builder.go:writeExprCode", "builder does not visit child "+p.gField+" of "+p.kind)
			continue
		}
		depths := map[int]bool{}
		for _, e := range res.Exits {
			for _, ev := range eventsOf(e, "eval") {
				if p.tArg == "" || strings.HasSuffix(ev.Args[1], p.tArg) {
					depths[ev.VS] = true
				}
			}
		}
		var ds []int
		for d := range depths {
			ds = append(ds, d)
		}
		sort.Ints(ds)
		w := a.V.Where(res.Fn.Pos())
		switch {
		case len(ds) == 1 && ds[0] == gd:
			r.Ok("C02-d", "G/T."+p.kind+":child-scope-depth", vn, w, fmt.Sprintf("both sides evaluate the child at scope depth +%d", gd))
		case exceptions[p.kind] != "" && len(ds) == 1 && gd == 1 && ds[0] == 0:
			r.Ok("C02-d", "G/T."+p.kind+":child-scope-depth", vn, w, "listed exception: "+exceptions[p.kind])
		default:
			r.Bad("C02-d", "G/T."+p.kind+":child-scope-depth", vn, w, fmt.Sprintf("builder visits the child at scope depth +%d, the runtime evaluates it at depth %v: generated methods would read labels from a different map than the one they are bound in", gd, ds))
		}
	}
	// a rule's expression is evaluated in the rule's own scope wherever it is evaluated: any evaluator that hands
	// <rule>.expr to the expression evaluator itself (not through parseRule) does so one scope deeper, as parseRule does
	if gd, ok := gDepth["$rule"]["Expr"]; ok {
		var bad []string
		n := 0
		for _, fn := range a.sortedNames() {
			res := a.Res[fn]
			ruleParams := map[string]bool{}
			if res.Fn.Type.Params != nil {
				for _, f := range res.Fn.Type.Params.List {
					if nospace(f.Type) == "*rule" {
						for _, nm := range f.Names {
							ruleParams[nm.Name] = true
						}
					}
				}
			}
			if len(ruleParams) == 0 {
				continue
			}
			for _, e := range res.Exits {
				for _, ev := range eventsOf(e, "eval") {
					arg := ev.Args[1]
					if !strings.HasSuffix(arg, ".expr") || !ruleParams[strings.TrimSuffix(arg, ".expr")] {
						continue
					}
					n++
					if ev.VS != gd {
						bad = append(bad, fmt.Sprintf("%s evaluates %s at scope depth +%d", fn, arg, ev.VS))
					}
				}
			}
		}
		r.Check(len(bad) == 0 && n > 0, "C02-d", "T.rule-expression:evaluated-in-the-rule's-own-scope", vn, "builder/static_code.go", fmt.Sprintf("%d evaluations of a rule's expression, each at scope depth +%d", n, gd),
			strings.Join(uniq(bad), "; ")+fmt.Sprintf(" (builder: +%d): the labels of the rule are bound into, and read from, the scope of the rule that referred to it", gd))
	}
	// a new scope starts empty: pushV installs a fresh map or reuses one proven empty; popV shortens by one
	if pv, pp := a.V.Func("parser", "pushV"), a.V.Func("parser", "popV"); pv != nil && pp != nil {
		sem := pushSemantics(c.vnorm(a.V).normPaths(pv), "vstack")
		why, grow := sem.FreshTop, sem.Grow
		shrink := popShortensByOne(c.vnorm(a.V).normPaths(pp), "vstack")
		r.Check(why == "" && grow && shrink, "C02-d", "T.pushV/popV:new-scope-is-empty", vn, a.V.Where(pv.Pos()), "push grows by one and leaves an empty map on top (fresh, or reused only when proven empty); pop shortens by one",
			fmt.Sprintf("grow=%t shrink=%t %s: labels of an earlier scope would be visible in a later one", grow, shrink, why))
	} else {
		r.Fatal("variant %s: pushV/popV missing", vn)
	}
	// label binding in the enclosing scope
	if res := a.Res["parseLabeledExpr"]; res != nil {
		param := res.Fn.Type.Params.List[0].Names[0].Name
		var bad []string
		nb := 0
		for _, e := range res.Exits {
			bs := eventsOf(e, "bind")
			if e.Ok().IsFalse() && len(bs) > 0 {
				bad = append(bad, a.where(e, res.Fn)+": label bound on a failing path")
			}
			for _, b := range bs {
				nb++
				if b.Args[0] != param+".label" || !strings.HasPrefix(b.Args[1], "child(") || b.Args[2] != "0" || b.Args[3] != "0" {
					bad = append(bad, fmt.Sprintf("%s: binds %s := %s in the map fetched at depth %s (bound at depth %s); expected the operand's value under the node's label in the enclosing scope", a.V.Where(b.Pos), b.Args[0], b.Args[1], b.Args[2], b.Args[3]))
				}
			}
			if e.Ok().IsTrue() && len(bs) == 0 {
				// legitimate only under label == ""
				if !factSaysEmpty(e.State.Facts, param+".label") {
					bad = append(bad, a.where(e, res.Fn)+": success path without binding the label")
				}
			}
		}
		if gDepth["LabeledExpr"]["$label"] != 0 {
			bad = append(bad, "builder adds the label after opening the child's scope")
		}
		sort.Strings(bad)
		w := a.V.Where(res.Fn.Pos())
		if len(bad) > 0 {
			r.Bad("C02-d", "G/T.LabeledExpr:label-in-enclosing-scope", vn, w, bad[0])
		} else {
			r.Ok("C02-d", "G/T.LabeledExpr:label-in-enclosing-scope", vn, w, fmt.Sprintf("%d bind events, all after popV into the enclosing map", nb))
		}
	}
}

func c02e(c *Ctx, a *absVariant) {
	r := c.R
	for fn, neg := range map[string]bool{"parseAndCodeExpr": false, "parseNotCodeExpr": true} {
		res := a.Res[fn]
		if res == nil {
			continue
		}
		var bad []string
		for _, e := range res.Exits {
			ok := e.Ok()
			runs := eventsOf(e, "run")
			if len(runs) != 1 {
				bad = append(bad, fmt.Sprintf("%s: block runs %d times", a.where(e, res.Fn), len(runs)))
				continue
			}
			want := "run:" + runs[0].Args[1]
			if neg {
				want = "!" + want
			}
			if !(ok.K == "bool" && ok.A == "U" && ok.B == want) {
				bad = append(bad, fmt.Sprintf("%s: result flag is %s, expected %s (the block's boolean alone decides)", a.where(e, res.Fn), ok, want))
			}
			if e.Value().K != "nil" {
				bad = append(bad, a.where(e, res.Fn)+": value is not nil")
			}
			if len(eventsOf(e, "read"))+len(eventsOf(e, "eval"))+len(eventsOf(e, "restore")) > 0 {
				bad = append(bad, a.where(e, res.Fn)+": a code predicate moves the position or evaluates an expression")
			}
		}
		sort.Strings(bad)
		w := a.V.Where(res.Fn.Pos())
		if len(bad) > 0 {
			r.Bad("C02-e", "T."+fn+":boolean-decides", a.V.Name, w, bad[0])
		} else {
			r.Ok("C02-e", "T."+fn+":boolean-decides", a.V.Name, w, fmt.Sprintf("%d exits", len(res.Exits)))
		}
	}
}

// factSaysEmpty: the path facts (keyed by source text) state that the string x is empty, in any of the usual spellings.
func factSaysEmpty(facts map[string]bool, x string) bool {
	for k, v := range facts {
		switch strings.ReplaceAll(k, " ", "") {
		case x + `!=""`, "len(" + x + ")!=0", "len(" + x + ")>0", "len(" + x + ")>=1":
			if !v {
				return true
			}
		case x + `==""`, "len(" + x + ")==0", "len(" + x + ")<1":
			if v {
				return true
			}
		}
	}
	return false
}

// c02dBalance (C02-d): every evaluator leaves the variable stack as deep as it found it, on every return. A label set
// left on the stack shifts every enclosing scope by one: code blocks of the enclosing sequence, and of every calling
// rule, then read and bind their labels in the wrong set (C01-a's stack balance under this property).
func c02dBalance(c *Ctx, a *absVariant) {
	r := c.R
	var names []string
	for fn := range a.Res {
		if strings.HasPrefix(fn, "parse") {
			names = append(names, fn)
		}
	}
	sort.Strings(names)
	for _, fn := range names {
		res := a.Res[fn]
		if res == nil || res.Fn == nil {
			continue
		}
		bad := ""
		n := 0
		for _, e := range res.Exits {
			if isMemoExit(e) {
				continue
			}
			n++
			if e.State.VS != 0 && bad == "" {
				bad = fmt.Sprintf("%s returns with the variable stack %+d deep after [%s]: the label set stays on the stack and every enclosing scope - the rest of the sequence, every calling rule - reads and binds its labels one set off", a.where(e, res.Fn), e.State.VS, evString(e))
			}
		}
		if n == 0 {
			continue
		}
		r.Check(bad == "", "C02-d", "T."+fn+":variable-stack-balanced", a.V.Name, a.V.Where(res.Fn.Pos()), fmt.Sprintf("%d abstract exits, variable stack as deep as at entry", n), bad)
	}
}

// readInstallsNextPosition: every whole-struct assignment to p.pt in read() has the form p.pt = f(p.pt, p.data) with f a
// plain function of the runtime (no receiver): the new position depends on the old one and the input only.
func readInstallsNextPosition(v *variants.Variant) bool {
	fd := v.Func("parser", "read")
	if fd == nil || fd.Body == nil {
		return false
	}
	recv := recvName(fd)
	n, ok := 0, true
	ast.Inspect(fd.Body, func(nd ast.Node) bool {
		as, isAs := nd.(*ast.AssignStmt)
		if !isAs || len(as.Lhs) != 1 || len(as.Rhs) != 1 || nospace(as.Lhs[0]) != recv+".pt" {
			return true
		}
		n++
		ce, isCall := as.Rhs[0].(*ast.CallExpr)
		if !isCall {
			ok = false
			return true
		}
		id, isID := ce.Fun.(*ast.Ident)
		if !isID || v.Func("", id.Name) == nil || len(ce.Args) != 2 {
			ok = false
			return true
		}
		args := map[string]bool{nospace(ce.Args[0]): true, nospace(ce.Args[1]): true}
		if !args[recv+".pt"] || !args[recv+".data"] {
			ok = false
		}
		return true
	})
	return ok && n > 0
}

// replaceOperand replaces the operand `field` (delimited by non-identifier characters) in a condition text.
func replaceOperand(text, field, by string) string {
	out := ""
	for {
		i := strings.Index(text, field)
		if i < 0 {
			return out + text
		}
		end := i + len(field)
		before := i == 0 || !isIdentByte(text[i-1]) && text[i-1] != '.'
		after := end == len(text) || !isIdentByte(text[end]) && text[end] != '.'
		if before && after {
			out += text[:i] + by
		} else {
			out += text[:end]
		}
		text = text[end:]
	}
}

// builderOperandScopes: operands that the runtime evaluates in one variable frame share one label scope in the
// builder (rule id given by the caller: C02-d, C04-n).
func builderOperandScopes(c *Ctx, rule string) {
	r := c.R
	g := c.G()
	if g == nil {
		return
	}
	bp := g.Pkg("builder")
	fd := load.FuncDecl(bp, "builder", "writeExprCode")
	if fd == nil {
		return
	}
	si := typeSwitchOn(fd, fd.Type.Params.List[0].Names[0].Name)
	nc := c.builderNorm()
	b, xp := recvName(fd), firstParam(fd)
	// operands that the runtime evaluates in one variable frame share one label scope in the builder: the two operands
	// of a recovery operator (the handler's code blocks may name the labels of the guarded expression; the runtime
	// pushes no frame for either), and the items of a sequence (a later item's block names an earlier item's label)
	sameScope := func(kind string, operands ...string) {
		cc := si.Cases[kind]
		if cc == nil {
			return
		}
		var bad []string
		n := 0
		for _, p := range nc.normBlock(fd, cc.Body) {
			inst, next := []int{0}, 0
			seen := map[string]int{}
			inLoopPush := false
			loopDepth := 0
			for _, e := range p {
				switch {
				case e.Kind == "loop":
					loopDepth++
				case e.Kind == "endloop":
					loopDepth--
				case e.Kind == "call" && e.Text == b+".pushArgsSet()":
					next++
					inst = append(inst, next)
					if loopDepth > 0 {
						inLoopPush = true
					}
				case e.Kind == "call" && e.Text == b+".popArgsSet()":
					if len(inst) > 1 {
						inst = inst[:len(inst)-1]
					}
				case e.Kind == "call" && strings.HasPrefix(e.Text, b+".writeExprCode("):
					a := strings.TrimSuffix(strings.TrimPrefix(e.Text, b+".writeExprCode("), ")")
					for _, op := range operands {
						if a == xp+"."+op || strings.HasPrefix(a, xp+"."+op+"[") {
							n++
							if prev, ok := seen["*"]; ok && prev != inst[len(inst)-1] {
								bad = append(bad, fmt.Sprintf("operand %s is visited in a label scope of its own", op))
							}
							seen["*"] = inst[len(inst)-1]
							if strings.HasPrefix(a, xp+"."+op+"[") && inLoopPush {
								bad = append(bad, fmt.Sprintf("each element of %s is visited in a label scope of its own", op))
							}
						}
					}
				}
			}
		}
		r.Check(len(bad) == 0 && n > 0, rule, "G.builder.writeExprCode:kind="+kind+":operands-share-one-scope", "", g.Where(cc.Pos()),
			fmt.Sprintf("the operands %v are visited within one pushArgsSet/popArgsSet bracket", operands),
			strings.Join(uniq(bad), "; ")+": the runtime evaluates them in one variable frame, so a code block of one may name a label of the other - its method then lacks that parameter and the generated parser does not compile")
	}
	sameScope("RecoveryExpr", "Expr", "RecoverExpr")
	sameScope("SeqExpr", "Exprs")
}
