package rules

import (
	"fmt"
	"go/ast"
	"go/token"
	"pigeonverif/internal/variants"
	"regexp"
	"sort"
	"strconv"
	"strings"

	"pigeonverif/internal/absint"
	"pigeonverif/internal/load"
)

// C01 — generated parsers implement PEG matching and the documented value shapes.
func C01(c *Ctx) {
	r := c.R
	r.Technique = "path-sensitive abstract interpretation (typestate over go/cfg) of the 18 parse<Kind> methods and their wrappers in all 16 semantic template variants, checked against a per-kind specification table; exhaustiveness of the dispatch switch against the builder's emitted node types"
	r.Explanation = "Decides the per-kind induction step of 'the interpreter implements PEG semantics': (a) every evaluator leaves the input position as at entry whenever it reports failure, and the four predicate kinds on every return; (b) ordered choice returns at the first successful alternative in slice order and fails only after the range is exhausted, */+ leave their loop only on child failure with one appended value per successful iteration, ? always succeeds; (c) the value returned per kind has the documented provenance (matched slice from the entry savepoint for terminals, nil for predicates and for every failure, accumulator for seq/*/+, the child's value for choice/label/?/ruleRef/recovery, the block's result for actions); (d) parseExpr dispatches exactly the node types the builder emits and the lower-casing done by the builder is paired with the run-time folding flag; (e) no terminal matcher advances at end of input; (f) the start rule is looked up by name in a table built from all rules. Not decided: rune arithmetic inside class matching (that a class denotes the set its text denotes), the front-end's decoding of class text, user code that mutates parser internals."
	r.Assumptions = []string{
		"induction hypothesis: a callee evaluator that reports failure leaves position and state store unchanged and returns nil (this is itself obligation C01-a/C01-c/C05-a of every evaluator, so the induction is closed)",
		"code blocks touch only c.state, c.globalStore and their own memory",
		"memo hits are covered by the memo-table discipline rules of C06-b",
	}
	r.Rule("C01-a", "on every path on which an evaluator returns ok=false the position is the one at entry (pt=Entry); for &, !, &{}, !{} on every return; stack depths (vstack, rstack, recoveryStack) and the inversion parity are as at entry on every return")
	r.Rule("C01-b", "choice: alternatives are evaluated in slice order, the function returns at the first ok child with nothing evaluated after it, and returns failure only outside the loop; */+: the loop is left only after a failing child; each successful child contributes exactly one appended value; + fails iff nothing was appended; ? returns true on every path")
	r.Rule("C01-c", "value provenance per kind (see DESIGN.md Appendix A): terminals sliceFrom(entry savepoint) up to the current position; predicates, state blocks and every ok=false return the literal nil; seq/*/+ the accumulator; choice/label/?/ruleRef/recovery/throw the child's value unchanged; action the result of the code block")
	r.Rule("C01-d", "the type switch of parseExpr has one case per node type the builder can emit in this variant, each calling the evaluator of that kind with the switched value, and a default that panics; the builder lower-cases literal/class members iff it emits ignoreCase:true for the same node and the runtime folds the input rune iff ignoreCase; the class matcher folds the input rune with unicode.ToLower - the function the builder folds the members with - exactly on the paths where ignoreCase holds and before every member test, and tests ranges inclusively at both ends")
	r.Rule("C01-h", "class membership is any-of over the members: inside the loops of parseCharClassMatcher over chars, ranges and Unicode classes no local is set to the value of a test or to false (a flag may only rise to true) - a flag that every member overwrites lets the last member alone decide")
	r.Rule("C01-e", "in parseAnyMatcher, parseCharClassMatcher and parseLitMatcher every call of read() is dominated by the fact 'not at end of input' (false edge of rn==utf8.RuneError && w==0 on the unfolded current rune, or true edge of cur < K with K <= 0xFFFD)")
	r.Rule("C01-f", "parse() builds the rule table from all g.rules, looks the start rule up by p.entrypoint, and reports errInvalidEntrypoint with a nil value when it is absent")
	r.Rule("C01-g", "under IgnoreCase the builder emits the lower-case image of a range, not the interval between its lower-cased end points: the runtime tests low <= fold(input) <= high, and unicode.ToLower is not monotone ([A-z]i must still match the runes between Z and a)")
	r.Rule("C01-x", "every statement of every evaluator has a transfer function in the abstract interpreter (otherwise the obligation is undecided and the check fails)")

	abs := c.allAbs()
	if len(abs) == 0 {
		r.Fatal("no variant could be analysed")
		return
	}
	r.Min("semantic variants analysed", 16, len(abs))
	for _, a := range abs {
		names := a.sortedNames()
		for _, fn := range names {
			c.undecidedExits("C01-x", a, fn)
		}
		nk := 0
		for _, k := range kindFuncs {
			if _, ok := a.Res[k]; ok {
				nk++
			} else if !(k == "parseStateCodeExpr" && !a.V.Params.HasState()) {
				r.Fatal("variant %s: evaluator %s not found", a.V.Name, k)
			}
		}
		for _, fn := range names {
			c01a(c, a, fn)
		}
		c01b(c, a)
		c01c(c, a)
		c01dDispatch(c, a)
		c01e(c, a)
		c01h(c, a.V)
		dataReaders(c, a.V, "C01-c")
		c01f(c, a)
	}
	r.MinRule("C01-a", 20)
	r.MinRule("C01-c", 18)
	c01dLowering(c)
	c01gRangeImage(c, "C01-g")
	basicLatinCaseClosure(c, "C01-d")
	basicLatinSiblingForms(c, "C01-d") // the general path folds with unicode.ToLower exactly under ignoreCase, before every member test; ranges inclusive
	builderPairingN(c, "C01-d")
}

// c01a: fail => pt=Entry, counters balanced.
func c01a(c *Ctx, a *absVariant, fn string) {
	r := c.R
	res := a.Res[fn]
	var badPt, badCnt []string
	nFail, nAll := 0, 0
	for _, e := range res.Exits {
		if isMemoExit(e) {
			continue
		}
		nAll++
		s := e.State
		ok := e.Ok()
		mustEntry := ok.IsFalse() || predicateFuncs[fn] || (ok.K == "bool" && ok.A == "U")
		if ok.IsFalse() {
			nFail++
		}
		if mustEntry && s.Pt != absint.Entry {
			badPt = append(badPt, fmt.Sprintf("%s returns ok=%s with position %s after [%s]", a.where(e, res.Fn), ok.A, s.Pt, evString(e)))
		}
		if s.VS != 0 || s.RS != 0 || s.Rec != 0 || s.Inv {
			badCnt = append(badCnt, fmt.Sprintf("%s returns with vstack%+d rstack%+d recoveryStack%+d inverted=%t after [%s]", a.where(e, res.Fn), s.VS, s.RS, s.Rec, s.Inv, evString(e)))
		}
	}
	sort.Strings(badPt)
	sort.Strings(badCnt)
	w := a.V.Where(res.Fn.Pos())
	if len(badPt) > 0 {
		r.Bad("C01-a", "T."+fn+":failure-consumes-nothing", a.V.Name, w, badPt[0])
	} else {
		r.Ok("C01-a", "T."+fn+":failure-consumes-nothing", a.V.Name, w, fmt.Sprintf("%d abstract exits, %d failing, all at the entry position", nAll, nFail))
	}
	if len(badCnt) > 0 {
		r.Bad("C01-a", "T."+fn+":stacks-balanced", a.V.Name, w, badCnt[0])
	} else {
		r.Ok("C01-a", "T."+fn+":stacks-balanced", a.V.Name, w, fmt.Sprintf("%d abstract exits balanced", nAll))
	}
}

// loopOver finds the loop that iterates over <param>.<field> in fd and reports its form.
// It returns the loop statement, the expression text denoting the current element, and a description.
func loopOver(fd *ast.FuncDecl, field string) (loop ast.Stmt, elem string, ascending bool) {
	param := ""
	if fd.Type.Params != nil && len(fd.Type.Params.List) > 0 && len(fd.Type.Params.List[0].Names) > 0 {
		param = fd.Type.Params.List[0].Names[0].Name
	}
	target := param + "." + field
	ast.Inspect(fd.Body, func(n ast.Node) bool {
		if loop != nil {
			return false
		}
		switch x := n.(type) {
		case *ast.RangeStmt:
			if exprStr(nil, x.X) == target && x.Value != nil {
				loop, elem, ascending = x, exprStr(nil, x.Value), true
				return false
			}
		case *ast.ForStmt:
			// for i := 0; i < len(target); i++ { ... target[i] ... }
			if x.Init == nil || x.Cond == nil || x.Post == nil {
				return true
			}
			as, ok := x.Init.(*ast.AssignStmt)
			if !ok || len(as.Lhs) != 1 || len(as.Rhs) != 1 {
				return true
			}
			iv := exprStr(nil, as.Lhs[0])
			cond := strings.ReplaceAll(exprStr(nil, x.Cond), " ", "")
			post, ok := x.Post.(*ast.IncDecStmt)
			if !ok {
				return true
			}
			if exprStr(nil, as.Rhs[0]) == "0" && cond == iv+"<len("+target+")" && post.Tok == token.INC && exprStr(nil, post.X) == iv {
				loop, elem, ascending = x, target+"["+iv+"]", true
				return false
			}
			if strings.Contains(cond, target) || strings.Contains(exprStr(nil, as.Rhs[0]), target) {
				loop, elem, ascending = x, target+"["+iv+"]", false
				return false
			}
		}
		return true
	})
	return
}

// loopOverN is loopOver on the normalised paths of fd: the loop in which the operands <param>.<field>[#d] are handed
// to the evaluator, whatever the loop form and however the list is named. A loop that the normal form reads as
// `range <param>.<field>` visits the list in ascending order. elem is the source text of the evaluated operand.
func loopOverN(c *Ctx, v *variants.Variant, fd *ast.FuncDecl, field string) (loop ast.Stmt, elem string, ascending bool) {
	param := firstParam(fd)
	target := param + "." + field
	nc := c.vnorm(v).without("parseExprWrap", "parseExpr", "restore", "restoreState", "cloneState", "pushV", "popV", "addErr", "addErrAt", "incChoiceAltCnt")
	for _, p := range nc.normPaths(fd) {
		var loops []pev
		for _, e := range p {
			switch e.Kind {
			case "loop":
				loops = append(loops, e)
			case "endloop":
				if len(loops) > 0 {
					loops = loops[:len(loops)-1]
				}
			case "call":
				if !strings.HasPrefix(e.Text, recvName(fd)+".parseExprWrap(") || len(loops) == 0 {
					continue
				}
				d := len(loops)
				hdr := loops[d-1]
				st, _ := hdr.Node.(ast.Stmt)
				if st == nil {
					continue
				}
				ce, _ := e.Node.(*ast.CallExpr)
				if ce == nil {
					// the call is the right-hand side of an assignment
					ast.Inspect(e.Node, func(n ast.Node) bool {
						if x, ok := n.(*ast.CallExpr); ok && ce == nil && callSel(x) == "parseExprWrap" {
							ce = x
						}
						return true
					})
				}
				if ce != nil && len(ce.Args) == 1 {
					elem = exprStr(nil, ce.Args[0])
				}
				loop = st
				ascending = hdr.Text == "range "+target && strings.HasSuffix(e.Text, fmt.Sprintf(".parseExprWrap(%s[#%d])", target, d))
				if !ascending {
					return
				}
			}
		}
	}
	if loop == nil {
		// fall back to the syntactic recogniser (reports descending loops with their element text)
		return loopOver(fd, field)
	}
	return
}

func contains(outer ast.Node, pos token.Pos) bool {
	return outer != nil && outer.Pos() <= pos && pos < outer.End()
}

func c01b(c *Ctx, a *absVariant) {
	r := c.R
	vn := a.V.Name
	// ---- choice
	if res := a.Res["parseChoiceExpr"]; res != nil {
		w := a.V.Where(res.Fn.Pos())
		loop, elem, asc := loopOverN(c, a.V, res.Fn, "alternatives")
		if loop == nil {
			r.Unk("C01-b", "T.parseChoiceExpr:slice-order", vn, w, "no loop over the alternatives slice recognised (range, or ascending index loop)")
		} else {
			r.Check(asc, "C01-b", "T.parseChoiceExpr:slice-order", vn, a.V.Where(loop.Pos()), "alternatives visited in ascending slice order", "alternatives are not visited in ascending slice order")
			var bad []string
			nOK := 0
			for _, e := range res.Exits {
				evs := eventsOf(e, "eval")
				ok := e.Ok()
				switch {
				case ok.IsTrue():
					nOK++
					if len(evs) == 0 || evs[len(evs)-1].Args[2] != "ok" {
						bad = append(bad, a.where(e, res.Fn)+": success returned although the last alternative evaluated did not succeed ["+evString(e)+"]")
						continue
					}
					for _, ev := range evs[:len(evs)-1] {
						if ev.Args[2] == "ok" {
							bad = append(bad, a.where(e, res.Fn)+": an alternative is evaluated after an earlier one already matched ["+evString(e)+"]")
						}
					}
					for _, ev := range evs {
						if ev.Args[1] != elem {
							bad = append(bad, a.where(e, res.Fn)+": evaluates "+ev.Args[1]+" instead of the loop element "+elem)
						}
					}
					if !contains(loop, e.Pos) {
						bad = append(bad, a.where(e, res.Fn)+": success return outside the loop (not at the first match)")
					}
				case ok.IsFalse():
					if contains(loop, e.Pos) {
						bad = append(bad, a.where(e, res.Fn)+": failure returned from inside the loop, before all alternatives were tried")
					}
					for _, ev := range evs {
						if ev.Args[2] == "ok" {
							bad = append(bad, a.where(e, res.Fn)+": failure returned although an alternative matched ["+evString(e)+"]")
						}
					}
				default:
					bad = append(bad, a.where(e, res.Fn)+": result flag is not determined by the alternatives ("+ok.String()+")")
				}
			}
			sort.Strings(bad)
			if len(bad) > 0 {
				r.Bad("C01-b", "T.parseChoiceExpr:first-match-commits", vn, w, bad[0])
			} else {
				r.Ok("C01-b", "T.parseChoiceExpr:first-match-commits", vn, w, fmt.Sprintf("%d exits; success only directly after the first ok alternative, failure only after the loop", len(res.Exits)))
			}
			_ = nOK
		}
	}
	// ---- sequence
	if res := a.Res["parseSeqExpr"]; res != nil {
		w := a.V.Where(res.Fn.Pos())
		loop, elem, asc := loopOverN(c, a.V, res.Fn, "exprs")
		if loop == nil {
			r.Unk("C01-b", "T.parseSeqExpr:slice-order", vn, w, "no loop over the exprs slice recognised")
		} else {
			r.Check(asc, "C01-b", "T.parseSeqExpr:slice-order", vn, a.V.Where(loop.Pos()), "items visited in ascending slice order", "items are not visited in ascending slice order")
			var bad []string
			for _, e := range res.Exits {
				evs := eventsOf(e, "eval")
				ok := e.Ok()
				nok := 0
				for _, ev := range evs {
					if ev.Args[2] == "ok" {
						nok++
					}
					if ev.Args[1] != elem {
						bad = append(bad, a.where(e, res.Fn)+": evaluates "+ev.Args[1]+" instead of the loop element "+elem)
					}
				}
				switch {
				case ok.IsTrue():
					if nok != len(evs) {
						bad = append(bad, a.where(e, res.Fn)+": sequence succeeds although an item failed ["+evString(e)+"]")
					}
					if contains(loop, e.Pos) {
						bad = append(bad, a.where(e, res.Fn)+": success returned from inside the loop, before all items matched")
					}
					if v := e.Value(); v.K != "vals" || valsCount(v) != capN(nok) {
						bad = append(bad, fmt.Sprintf("%s: %d items matched but the accumulator holds %s", a.where(e, res.Fn), nok, v))
					}
				case ok.IsFalse():
					if len(evs) == 0 || evs[len(evs)-1].Args[2] != "fail" {
						bad = append(bad, a.where(e, res.Fn)+": sequence fails without a failing item ["+evString(e)+"]")
					}
				default:
					bad = append(bad, a.where(e, res.Fn)+": result flag is not determined by the items")
				}
			}
			sort.Strings(bad)
			if len(bad) > 0 {
				r.Bad("C01-b", "T.parseSeqExpr:all-items-in-order", vn, w, bad[0])
			} else {
				r.Ok("C01-b", "T.parseSeqExpr:all-items-in-order", vn, w, fmt.Sprintf("%d exits", len(res.Exits)))
			}
		}
	}
	// ---- repetitions
	for _, fn := range []string{"parseZeroOrMoreExpr", "parseOneOrMoreExpr"} {
		res := a.Res[fn]
		if res == nil {
			continue
		}
		w := a.V.Where(res.Fn.Pos())
		var bad []string
		for _, e := range res.Exits {
			evs := eventsOf(e, "eval")
			ok := e.Ok()
			nok := 0
			for _, ev := range evs {
				if ev.Args[2] == "ok" {
					nok++
				}
			}
			if len(evs) == 0 || evs[len(evs)-1].Args[2] != "fail" {
				bad = append(bad, a.where(e, res.Fn)+": repetition left although the last iteration matched (not greedy) ["+evString(e)+"]")
				continue
			}
			for _, ev := range evs[:len(evs)-1] {
				if ev.Args[2] == "fail" {
					bad = append(bad, a.where(e, res.Fn)+": repetition continues after a failed iteration ["+evString(e)+"]")
				}
			}
			switch {
			case ok.IsTrue():
				if fn == "parseOneOrMoreExpr" && nok == 0 {
					bad = append(bad, a.where(e, res.Fn)+": + succeeds without a single match")
				}
				if v := e.Value(); !(v.K == "vals" && valsCount(v) == capN(nok)) && !(nok == 0 && v.K == "vals") {
					bad = append(bad, fmt.Sprintf("%s: %d iterations matched but the accumulator holds %s", a.where(e, res.Fn), nok, v))
				}
			case ok.IsFalse():
				if fn == "parseZeroOrMoreExpr" {
					bad = append(bad, a.where(e, res.Fn)+": * reports failure")
				} else if nok != 0 {
					bad = append(bad, a.where(e, res.Fn)+": + fails after a successful iteration")
				}
			default:
				bad = append(bad, a.where(e, res.Fn)+": result flag not determined by the iterations")
			}
		}
		sort.Strings(bad)
		if len(bad) > 0 {
			r.Bad("C01-b", "T."+fn+":greedy-loop", vn, w, bad[0])
		} else {
			r.Ok("C01-b", "T."+fn+":greedy-loop", vn, w, fmt.Sprintf("%d exits; loop left only on child failure, one value per successful iteration", len(res.Exits)))
		}
	}
	// ---- optional
	if res := a.Res["parseZeroOrOneExpr"]; res != nil {
		w := a.V.Where(res.Fn.Pos())
		var bad []string
		for _, e := range res.Exits {
			if !e.Ok().IsTrue() {
				bad = append(bad, a.where(e, res.Fn)+": ? does not succeed on every path ("+e.Ok().String()+")")
			}
			if n := len(eventsOf(e, "eval")); n != 1 {
				bad = append(bad, fmt.Sprintf("%s: ? evaluates its operand %d times", a.where(e, res.Fn), n))
			}
		}
		sort.Strings(bad)
		if len(bad) > 0 {
			r.Bad("C01-b", "T.parseZeroOrOneExpr:always-succeeds", vn, w, bad[0])
		} else {
			r.Ok("C01-b", "T.parseZeroOrOneExpr:always-succeeds", vn, w, fmt.Sprintf("%d exits", len(res.Exits)))
		}
	}
}

func valsCount(v absint.Val) int {
	switch v.A {
	case "empty":
		return 0
	case "n1":
		return 1
	case "n2":
		return 2
	}
	return 3
}

func capN(n int) int {
	if n > 3 {
		return 3
	}
	return n
}

// c01c: value provenance per kind.
func c01c(c *Ctx, a *absVariant) { valueProvenance(c, a, "C01-c", false) }

// valueProvenance is rule C01-c; with terminalsOnly it is the clause "matched values are the original bytes" of C17
// (a terminal returns the slice of the input between its entry position and the position it advanced to).
func valueProvenance(c *Ctx, a *absVariant, rule string, terminalsOnly bool) {
	r := c.R
	vn := a.V.Name
	type spec struct{ kind string } // terminal | nilalways | accum | child | action
	table := map[string]string{
		"parseLitMatcher": "terminal", "parseCharClassMatcher": "terminal", "parseAnyMatcher": "terminal",
		"parseAndExpr": "nil", "parseNotExpr": "nil", "parseAndCodeExpr": "nil", "parseNotCodeExpr": "nil", "parseStateCodeExpr": "nil",
		"parseSeqExpr": "accum", "parseZeroOrMoreExpr": "accum", "parseOneOrMoreExpr": "accum",
		"parseChoiceExpr": "child", "parseLabeledExpr": "child", "parseZeroOrOneExpr": "childOrNil", "parseRuleRefExpr": "child",
		"parseRecoveryExpr": "child", "parseThrowExpr": "child", "parseActionExpr": "action",
		"parseRule": "child", "parseRuleWrap": "child", "parseExprWrap": "child", "parseExpr": "child",
		"parseRuleMemoize": "child", "parseRuleRecursiveNoLeader": "child", "parseRuleRecursiveLeader": "childTuple",
	}
	for _, fn := range a.sortedNames() {
		res := a.Res[fn]
		kind, known := table[fn]
		if terminalsOnly && kind != "terminal" {
			continue
		}
		w := a.V.Where(res.Fn.Pos())
		if !known {
			r.Unk(rule, "T."+fn+":value", vn, w, "evaluator not in the value-provenance table")
			continue
		}
		var bad []string
		for _, e := range res.Exits {
			if isMemoExit(e) {
				continue
			}
			v, ok := e.Value(), e.Ok()
			if ok.IsFalse() {
				if v.K != "nil" {
					bad = append(bad, fmt.Sprintf("%s: failure returns %s instead of nil", a.where(e, res.Fn), v))
				}
				continue
			}
			good := false
			switch kind {
			case "terminal":
				good = v.K == "slice" && v.A == absint.Entry && v.B == e.State.Pt
			case "nil":
				good = v.K == "nil"
			case "accum":
				good = v.K == "vals" && (v.A == "empty" || strings.HasPrefix(v.B, "child@"))
			case "child", "childOrNil":
				evs := eventsOf(e, "eval")
				if v.K == "child" && len(evs) > 0 {
					// must be the value of the last successful evaluation, whose end is the current position
					good = e.State.Pt == v.A+":ok"
				}
				if kind == "childOrNil" && v.K == "nil" && len(evs) > 0 && evs[len(evs)-1].Args[2] == "fail" {
					good = true
				}
			case "action":
				good = v.K == "run"
			case "childTuple":
				good = v.K == "child" || v.K == "nil"
			}
			if !good {
				bad = append(bad, fmt.Sprintf("%s: returns %s on success (expected %s) after [%s]", a.where(e, res.Fn), v, kind, evString(e)))
			}
		}
		sort.Strings(bad)
		if len(bad) > 0 {
			r.Bad(rule, "T."+fn+":value", vn, w, bad[0])
		} else {
			r.Ok(rule, "T."+fn+":value", vn, w, "kind="+kind)
		}
	}
}

// c01dDispatch: the parseExpr type switch vs. the node types present in the variant.
func c01dDispatch(c *Ctx, a *absVariant) {
	r := c.R
	vn := a.V.Name
	fd := a.V.Func("parser", "parseExpr")
	if fd == nil {
		r.Fatal("variant %s: parseExpr not found", vn)
		return
	}
	w := a.V.Where(fd.Pos())
	var ts *ast.TypeSwitchStmt
	ast.Inspect(fd, func(n ast.Node) bool {
		if t, ok := n.(*ast.TypeSwitchStmt); ok && ts == nil {
			ts = t
		}
		return true
	})
	if ts == nil {
		r.Unk("C01-d", "T.parseExpr:dispatch", vn, w, "no type switch found")
		return
	}
	// expected node types: lower-camel of the builder kinds emitted in this variant
	want := map[string]string{}
	for _, k := range c.Skel().Kinds {
		if k.SetsGlobalState && !a.V.Params.HasState() {
			continue
		}
		lc := strings.ToLower(k.Name[:1]) + k.Name[1:]
		want[lc] = "parse" + k.Name
	}
	got := map[string]bool{}
	var bad []string
	hasDefaultPanic := false
	for _, cl := range ts.Body.List {
		cc := cl.(*ast.CaseClause)
		if cc.List == nil {
			ast.Inspect(cc, func(n ast.Node) bool {
				if ce, ok := n.(*ast.CallExpr); ok && callName(ce) == "panic" {
					hasDefaultPanic = true
				}
				return true
			})
			continue
		}
		for _, t := range cc.List {
			tn := strings.TrimPrefix(exprStr(nil, t), "*")
			got[tn] = true
			wantFn, ok := want[tn]
			if !ok {
				bad = append(bad, "case *"+tn+" is not a node type the builder emits in this variant")
				continue
			}
			calls := ""
			ast.Inspect(cc, func(n ast.Node) bool {
				if ce, ok := n.(*ast.CallExpr); ok && strings.HasPrefix(callName(ce), "p.parse") {
					calls = callName(ce)
				}
				return true
			})
			if calls != "p."+wantFn {
				bad = append(bad, "case *"+tn+" calls "+calls+" instead of p."+wantFn)
			}
		}
	}
	for tn := range want {
		if !got[tn] {
			bad = append(bad, "node type *"+tn+" emitted by the builder has no case (falls to the panicking default at parse time)")
		}
	}
	if !hasDefaultPanic {
		bad = append(bad, "no panicking default: an unknown node would be treated as a silent mismatch")
	}
	sort.Strings(bad)
	if len(bad) > 0 {
		r.Bad("C01-d", "T.parseExpr:dispatch", vn, w, strings.Join(bad, "; "))
	} else {
		r.Ok("C01-d", "T.parseExpr:dispatch", vn, w, fmt.Sprintf("%d node types dispatched", len(got)))
	}
	// runtime folding is guarded by the node's ignoreCase flag
	for fn, fld := range map[string]string{"parseLitMatcher": "ignoreCase", "parseCharClassMatcher": "ignoreCase"} {
		fd := a.V.Func("parser", fn)
		if fd == nil {
			continue
		}
		param := fd.Type.Params.List[0].Names[0].Name
		// on the normalised paths (helpers expanded, locals inlined): a rune is folded only where the node's flag is
		// known to be set
		nFold, okFold := 0, true
		for _, p := range c.vnorm(a.V).without("read", "restore", "failAt", "sliceFrom", "addErr", "addErrAt").normPaths(fd) {
			for i, e := range p {
				if (e.Kind == "call" || e.Kind == "ccall") && strings.HasPrefix(e.Text, "unicode.ToLower(") {
					nFold++
					if !p[:i].holds(param + "." + fld) {
						okFold = false
					}
				}
			}
			// the flag alone decides: no path leaves it undecided inside a compound condition
			for _, f := range p.facts() {
				if strings.Contains(f, param+"."+fld) && f != param+"."+fld && f != "!"+param+"."+fld {
					okFold = false
				}
			}
		}
		r.Check(nFold >= 1 && okFold, "C01-d", "T."+fn+":fold-iff-ignoreCase", vn, a.V.Where(fd.Pos()),
			fmt.Sprintf("%d folding sites, each under if %s.%s", nFold, param, fld), fmt.Sprintf("%d folding sites, not all guarded by exactly %s.%s", nFold, param, fld))
	}
}

// c01e: read only when not at EOF, in the three terminal matchers.
func c01e(c *Ctx, a *absVariant) {
	r := c.R
	for _, fn := range []string{"parseAnyMatcher", "parseCharClassMatcher", "parseLitMatcher"} {
		res := a.Res[fn]
		if res == nil {
			continue
		}
		w := a.V.Where(res.Fn.Pos())
		var bad []string
		n := 0
		for _, e := range res.Exits {
			for _, ev := range eventsOf(e, "read") {
				n++
				if ev.Args[0] != "notEOF" {
					bad = append(bad, a.V.Where(ev.Pos)+": read() reachable without an end-of-input test on this path (at EOF the rune is U+FFFD with width 0, so a matcher that accepts U+FFFD 'matches' the empty tail)")
				}
			}
		}
		sort.Strings(bad)
		if len(bad) > 0 {
			r.Bad("C01-e", "T."+fn+":no-read-at-EOF", a.V.Name, w, bad[0])
		} else {
			r.Ok("C01-e", "T."+fn+":no-read-at-EOF", a.V.Name, w, fmt.Sprintf("%d read events on abstract paths, all under not-EOF", n))
		}
	}
}

// c01f: entrypoint lookup in parse().
func c01f(c *Ctx, a *absVariant) {
	r := c.R
	vn := a.V.Name
	fd := a.V.Func("parser", "parse")
	brt := a.V.Func("parser", "buildRulesTable")
	if fd == nil || brt == nil {
		r.Fatal("variant %s: parse/buildRulesTable not found", vn)
		return
	}
	// buildRulesTable: range over g.rules without filter, p.rules[r.name] = r
	okTable := false
	ast.Inspect(brt, func(n ast.Node) bool {
		rs, ok := n.(*ast.RangeStmt)
		if !ok || !strings.HasSuffix(exprStr(nil, rs.X), ".rules") || rs.Value == nil {
			return true
		}
		if len(rs.Body.List) == 1 {
			if as, ok := rs.Body.List[0].(*ast.AssignStmt); ok && len(as.Lhs) == 1 {
				v := exprStr(nil, rs.Value)
				if exprStr(nil, as.Lhs[0]) == "p.rules["+v+".name]" && exprStr(nil, as.Rhs[0]) == v {
					okTable = true
				}
			}
		}
		return true
	})
	r.Check(okTable, "C01-f", "T.buildRulesTable:all-rules-by-name", vn, a.V.Where(brt.Pos()), "p.rules[r.name] = r for every rule", "the rule table is not built as name -> rule over all g.rules")
	// parse: startRule, ok := p.rules[p.entrypoint]; if !ok { addErr(errInvalidEntrypoint); return nil, ... }
	okLookup, okReject := false, false
	var startVar string
	ast.Inspect(fd, func(n ast.Node) bool {
		switch x := n.(type) {
		case *ast.AssignStmt:
			if len(x.Rhs) == 1 && exprStr(nil, x.Rhs[0]) == "p.rules[p.entrypoint]" && len(x.Lhs) == 2 {
				okLookup = true
				startVar = exprStr(nil, x.Lhs[0])
			}
		case *ast.IfStmt:
			if exprStr(nil, x.Cond) == "!ok" {
				usesErr, retNil := false, false
				ast.Inspect(x.Body, func(m ast.Node) bool {
					if id, ok := m.(*ast.Ident); ok && id.Name == "errInvalidEntrypoint" {
						usesErr = true
					}
					if rs, ok := m.(*ast.ReturnStmt); ok && len(rs.Results) == 2 && exprStr(nil, rs.Results[0]) == "nil" {
						retNil = true
					}
					return true
				})
				if usesErr && retNil {
					okReject = true
				}
			}
		}
		return true
	})
	usesStart := false
	ast.Inspect(fd, func(n ast.Node) bool {
		if ce, ok := n.(*ast.CallExpr); ok && callName(ce) == "p.parseRuleWrap" && len(ce.Args) == 1 && exprStr(nil, ce.Args[0]) == startVar {
			usesStart = true
		}
		return true
	})
	// the Entrypoint option and the default
	ep := a.V.Func("", "Entrypoint")
	np := a.V.Func("", "newParser")
	okOpt, okDef, okApply := false, false, false
	if ep != nil {
		param := ep.Type.Params.List[0].Names[0].Name
		// on the normalised paths of the option's closure: what p.entrypoint holds when the closure returns is the
		// given name, or the first rule's name exactly when the given name is empty
		var lit *ast.FuncLit
		ast.Inspect(ep.Body, func(n ast.Node) bool {
			if fl, ok := n.(*ast.FuncLit); ok && lit == nil {
				lit = fl
			}
			return true
		})
		if lit != nil {
			pp := "p"
			if len(lit.Type.Params.List) == 1 && len(lit.Type.Params.List[0].Names) == 1 {
				pp = lit.Type.Params.List[0].Names[0].Name
			}
			paths := c.vnorm(a.V).normBlock(ep, lit.Body.List)
			okOpt = len(paths) > 0
			nEmpty, nGiven := 0, 0
			for _, p := range paths {
				v, at := lastSet(p, pp+".entrypoint")
				if at < 0 {
					okOpt = false
					continue
				}
				switch {
				case p.holds("len(" + param + ")==0"):
					nEmpty++
					if v != "g.rules[0].name" {
						okOpt = false
					}
				case p.holds("len(" + param + ")>0"):
					nGiven++
					if v != param {
						okOpt = false
					}
				default:
					okOpt = false
				}
				for _, f := range p.facts() {
					if f != "len("+param+")==0" && f != "len("+param+")>0" {
						okOpt = false // something else decides which rule is the start rule
					}
				}
			}
			okOpt = okOpt && nEmpty > 0 && nGiven > 0
		}
	}
	if np != nil {
		ast.Inspect(np.Body, func(n ast.Node) bool {
			if kv, ok := n.(*ast.KeyValueExpr); ok && nospace(kv.Key) == "entrypoint" && nospace(kv.Value) == "g.rules[0].name" {
				okDef = true
			}
			return true
		})
		// options are applied after the defaults
		for _, ce := range callsIn(np.Body) {
			if callSel(ce) == "setOptions" {
				okApply = true
			}
		}
	}
	so := a.V.Func("parser", "setOptions")
	okSet := false
	if so != nil {
		ast.Inspect(so.Body, func(n ast.Node) bool {
			if rs, ok := n.(*ast.RangeStmt); ok && rs.Value != nil && len(rs.Body.List) == 1 {
				if es, ok := rs.Body.List[0].(*ast.ExprStmt); ok && nospace(es.X) == nospace(rs.Value)+"(p)" {
					okSet = true
				}
			}
			return true
		})
	}
	r.Check(okOpt && okDef && okApply && okSet, "C01-f", "T.Entrypoint:option-and-default", vn, "builder/static_code.go", "default = first rule; option stores the given name (first rule for \"\"); every option applied in order after the defaults",
		fmt.Sprintf("option=%t default=%t applied-after-defaults=%t all-options-applied=%t", okOpt, okDef, okApply, okSet))
	r.Check(okLookup && okReject && usesStart, "C01-f", "T.parse:entrypoint-lookup", vn, a.V.Where(fd.Pos()), "start rule = p.rules[p.entrypoint]; unknown name rejected with errInvalidEntrypoint and nil",
		fmt.Sprintf("lookup=%t reject=%t start-rule-used=%t", okLookup, okReject, usesStart))
}

// c01dLowering: builder lower-cases iff IgnoreCase (pairing with the runtime flag).
func c01dLowering(c *Ctx) {
	r := c.R
	g := c.G()
	if g == nil {
		return
	}
	bp := g.Pkg("builder")
	nc := c.builderNorm()
	for _, it := range []struct {
		fn   string
		keys []string
	}{
		{"writeLitMatcher", []string{"val"}},
		{"writeCharClassMatcher", []string{"chars", "ranges"}},
	} {
		fd := load.FuncDecl(bp, "builder", it.fn)
		if fd == nil {
			r.Fatal("anchor builder.%s not found", it.fn)
			continue
		}
		b, x := recvName(fd), firstParam(fd)
		var bad []string
		nLowered, nRaw, flagOK := 0, 0, false
		for _, p := range nc.normPaths(fd) {
			if p.holds(x + "==nil") {
				continue
			}
			_, kvs, _ := keyValues(emissions(p, b))
			for _, kv := range kvs {
				if kv.Key == "ignoreCase" {
					flagOK = kv.Val == x+".IgnoreCase"
					if !flagOK {
						bad = append(bad, "the ignoreCase flag is emitted from "+kv.Val)
					}
				}
				if !containsStr(it.keys, kv.Key) {
					continue
				}
				lowered := strings.Contains(kv.Val, "ToLower(")
				folded := containsStr(kv.Facts, x+".IgnoreCase")
				raw := containsStr(kv.Facts, "!"+x+".IgnoreCase")
				switch {
				case lowered && folded:
					nLowered++
				case !lowered && raw:
					nRaw++
				case lowered:
					bad = append(bad, "member of "+kv.Key+" lowered although the node does not ignore case (facts: "+strings.Join(kv.Facts, " ")+")")
				default:
					bad = append(bad, "member of "+kv.Key+" emitted raw although the node may ignore case (facts: "+strings.Join(kv.Facts, " ")+"): the runtime compares the lower-cased input with it")
				}
			}
		}
		r.Check(len(bad) == 0 && nLowered >= 1 && nRaw >= 1 && flagOK, "C01-d", "G.builder."+it.fn+":lower-iff-IgnoreCase", "", g.Where(fd.Pos()),
			fmt.Sprintf("%d lowered emissions under IgnoreCase, %d raw ones otherwise; flag emitted from the same field", nLowered, nRaw),
			fmt.Sprintf("lowered=%d raw=%d flag-from-field=%t %s", nLowered, nRaw, flagOK, strings.Join(uniq(bad), "; ")))
	}
}

// c01gRangeImage: the class matcher of the runtime tests a range as low <= fold(input) <= high, so under IgnoreCase
// the emitted ranges must denote the lower-case image of the ranges as written. Mapping the two end points one by
// one does not give that image: unicode.ToLower is not monotone ([A-z] becomes [a-z] and loses the six runes between
// Z and a; [Z-a] becomes the empty range z-a). Reported wherever the value written after `ranges:` is a case mapping
// of a single element of the node's Ranges.
func c01gRangeImage(c *Ctx, rule string) {
	r := c.R
	g := c.G()
	if g == nil {
		return
	}
	fd := load.FuncDecl(g.Pkg("builder"), "builder", "writeCharClassMatcher")
	if fd == nil {
		r.Fatal("anchor builder.writeCharClassMatcher not found")
		return
	}
	b, x := recvName(fd), firstParam(fd)
	re := regexp.MustCompile(`unicode\.(ToLower|ToUpper|ToTitle|SimpleFold)\(` + regexp.QuoteMeta(x) + `\.Ranges\[`)
	var bad []string
	nRanges := 0
	for _, p := range c.builderNorm().normPaths(fd) {
		if p.holds(x + "==nil") {
			continue
		}
		_, kvs, _ := keyValues(emissions(p, b))
		for _, kv := range kvs {
			if kv.Key != "ranges" {
				continue
			}
			nRanges++
			if re.MatchString(kv.Val) {
				bad = append(bad, "an end point is emitted as "+kv.Val+" (facts: "+strings.Join(kv.Facts, " ")+")")
			}
		}
	}
	r.Check(len(bad) == 0 && nRanges >= 1, rule, "G.builder.writeCharClassMatcher:ranges:case-image-of-a-range", "", g.Where(fd.Pos()),
		fmt.Sprintf("%d emissions of range end points, none a case mapping of a single end point", nRanges),
		fmt.Sprintf("emissions=%d %s: the lower-case image of a range is not the interval between its lower-cased end points ([A-z]i does not match '_', [Z-a]i matches nothing)", nRanges, strings.Join(uniq(bad), "; ")))
}

// c01h (C01-h): a rune is in a class if it is one of the chars, in one of the ranges or in one of the Unicode classes:
// each of the three member loops decides "some member matches". Structurally, on the normalised paths of
// parseCharClassMatcher (helpers expanded): inside a loop over chr.chars, chr.ranges or chr.classes a local may be
// set to the constant true (a flag that only rises), but not to the value of a test or to false - a flag that every
// member overwrites lets the last member alone decide ([\p{Lu}\p{Nd}] then rejects "A").
func c01h(c *Ctx, v *variants.Variant) {
	r := c.R
	fd := v.Func("parser", "parseCharClassMatcher")
	if fd == nil || fd.Body == nil {
		return
	}
	chr := firstParam(fd)
	nLoops := map[string]bool{}
	var bad []string
	for _, p := range c.vnorm(v).without("read", "restore", "failAt", "sliceFrom", "addErr", "addErrAt", "in", "out").normPaths(fd) {
		var stack []string
		var headers []string
		for _, e := range p {
			switch e.Kind {
			case "loop":
				headers = append(headers, e.Text)
				which := ""
				for _, f := range []string{"chars", "ranges", "classes"} {
					if strings.Contains(e.Text, chr+"."+f) {
						which = f
					}
				}
				stack = append(stack, which)
				if which != "" {
					nLoops[which] = true
				}
			case "endloop":
				if len(stack) > 0 {
					stack = stack[:len(stack)-1]
					headers = headers[:len(headers)-1]
				}
			case "set":
				in := ""
				for _, w := range stack {
					if w != "" {
						in = w
					}
				}
				eq := strings.Index(e.Text, "=")
				if in == "" || eq <= 0 || !strings.HasPrefix(e.Text, "$") || strings.ContainsAny(e.Text[:eq], "+-[") {
					continue
				}
				rhs := e.Text[eq+1:]
				// loop counters of the member loops themselves ($i=0, $i=$i+2) are not flags
				if _, err := strconv.Atoi(rhs); err == nil {
					continue
				}
				// a flag the loop itself stops on (`for i := 0; !found && i < n; i++ { found = test }`) only rises
				stopsOnFlag := false
				for _, h := range headers {
					if strings.Contains(h, "!"+e.Text[:eq]+"&&") || strings.Contains(h, "&&!"+e.Text[:eq]) || strings.HasSuffix(h, "!"+e.Text[:eq]) {
						stopsOnFlag = true
					}
				}
				if stopsOnFlag {
					continue
				}
				if rhs != "true" && (rhs == "false" || strings.Contains(rhs, "unicode.Is(") || strings.Contains(rhs, "==") || strings.Contains(rhs, ">=") || strings.Contains(rhs, "<=")) {
					bad = append(bad, fmt.Sprintf("%s: inside the loop over %s.%s a local is set to `%s`: every member overwrites what the one before it found, so only the last member decides", v.Where(e.Node.Pos()), chr, in, abbreviate(rhs)))
				}
			}
		}
	}
	if len(nLoops) == 0 {
		return // the general path is not part of this function (nothing to decide here; C15-a reports a missing general path)
	}
	r.Check(len(bad) == 0, "C01-h", "T.parseCharClassMatcher:membership-is-any-of-the-members", v.Name, v.Where(fd.Pos()),
		fmt.Sprintf("member loops over %v: a match of any member decides (no flag is overwritten per member)", keysOf(nLoops)), strings.Join(uniq(bad), "; "))
}
