package rules

import (
	"fmt"
	"go/ast"
	"pigeonverif/internal/variants"
	"strings"
)

// Stack discipline of the runtime's scope stacks (vstack, recoveryStack) on normalised paths.

// stackPush describes what a push function does on every path.
type stackPush struct {
	Grow     bool   // every path extends the stack by exactly one slot (append(.., nil) or a reslice by one)
	FreshTop string // "" if on every path the new top slot holds a fresh map or a map proven empty; else the reason
	TopMap   map[int]string
}

func pushSemantics(paths []bpath, stack string) stackPush {
	top := "p." + stack + "[len(p." + stack + ")-1]"
	res := stackPush{Grow: len(paths) > 0, TopMap: map[int]string{}}
	for pi, p := range paths {
		iGrow := p.evIndex("set", 0, func(s string) bool {
			return s == "p."+stack+"=append(p."+stack+",nil)" || s == "p."+stack+"=p."+stack+"[:len(p."+stack+")+1]"
		})
		appended := ""
		if iGrow < 0 {
			// growth and installation in one step: append(stack, m)
			pre := "p." + stack + "=append(p." + stack + ","
			iGrow = p.evIndex("set", 0, func(s string) bool {
				return strings.HasPrefix(s, pre) && strings.HasSuffix(s, ")") && len(splitTop(s[len(pre):len(s)-1], ",")) == 1 && !strings.HasSuffix(s, "...)")
			})
			if iGrow >= 0 {
				appended = p[iGrow].Text[len(pre) : len(p[iGrow].Text)-1]
			}
		}
		if iGrow < 0 {
			res.Grow = false
			continue
		}
		for i, e := range p {
			if i != iGrow && e.Kind == "set" && strings.HasPrefix(e.Text, "p."+stack+"=") {
				res.Grow = false // a second change of the stack's length
			}
		}
		// `t := len(S)` taken before the growth and used as the subscript of the new top afterwards: the normal form
		// spells the local as its definition, so the slot reads S[len(S)] - never a valid subscript at the point where it
		// stands, hence always the old length, which is the new top once the stack has grown by exactly one
		if stale := "p." + stack + "[len(p." + stack + ")]"; res.Grow {
			q := append(bpath{}, p...)
			for i := iGrow + 1; i < len(q); i++ {
				if strings.Contains(q[i].Text, stale) {
					q[i].Text = strings.ReplaceAll(q[i].Text, stale, top)
				}
			}
			p = q
		}
		// the top slot after the growth
		fresh := ""
		installed := appended
		for i := iGrow + 1; i < len(p); i++ {
			if p[i].Kind == "set" && strings.HasPrefix(p[i].Text, top+"=") {
				installed = strings.TrimPrefix(p[i].Text, top+"=")
			}
		}
		switch {
		case strings.HasPrefix(installed, "make(map["):
			res.TopMap[pi] = top
		case dollarRe.FindString(installed) == installed && installed != "":
			// a numbered local: its last definition before the install must be a make on this path
			v, _ := lastSet(p, installed)
			if strings.HasPrefix(v, "make(map[") {
				res.TopMap[pi] = installed
			} else {
				fresh = "the map installed at the top slot is " + v + ", not freshly allocated"
			}
		case installed == "":
			// nothing installed: legitimate only when the slot was found to hold an empty map
			after := p[iGrow:]
			if after.holds(top+"!=nil") && after.holds("len("+top+")==0") {
				res.TopMap[pi] = top
			} else {
				fresh = "returns under [" + strings.Join(after.facts(), " ") + "] without installing a fresh map or proving the reused one empty"
			}
		default:
			fresh = "the top slot receives " + installed
		}
		if fresh != "" && res.FreshTop == "" {
			res.FreshTop = fresh + ": a map left behind by an earlier push at this depth can be reused with its entries"
		}
	}
	if len(paths) == 0 {
		res.FreshTop = "no paths"
	}
	return res
}

// popShortensByOne: every path of the pop function ends with the stack resliced by one (clearing the slot before is fine).
func popShortensByOne(paths []bpath, stack string) bool {
	if len(paths) == 0 {
		return false
	}
	for _, p := range paths {
		n := 0
		for _, e := range p {
			if e.Kind == "set" && strings.HasPrefix(e.Text, "p."+stack+"=") {
				n++
				if e.Text != "p."+stack+"=p."+stack+"[:len(p."+stack+")-1]" {
					return false
				}
			}
		}
		if n != 1 {
			return false
		}
	}
	return true
}

func paramNames(fd *ast.FuncDecl) []string {
	var out []string
	if fd.Type.Params != nil {
		for _, f := range fd.Type.Params.List {
			for _, nm := range f.Names {
				out = append(out, nm.Name)
			}
		}
	}
	return out
}

// parseForwards: Parse builds a fresh parser from its own filename, bytes and options and returns what that parser's
// parse(g) returns, doing nothing else - read off its normalised paths, so `return newParser(..).parse(g)` and
// `p := newParser(..); return p.parse(g)` are the same function. The texts of the three arguments are returned.
func parseForwards(c *Ctx, v *variants.Variant) (ok bool, why string) {
	pf := v.Func("", "Parse")
	if pf == nil || pf.Body == nil {
		return false, "Parse not found"
	}
	ps := paramNames(pf)
	if len(ps) != 3 {
		return false, "Parse does not take a file name, the input and options"
	}
	paths := c.vnorm(v).without("newParser", "parse").normPaths(pf)
	if len(paths) != 1 {
		return false, fmt.Sprintf("Parse has %d paths, expected a single unconditional one", len(paths))
	}
	p := paths[0]
	alloc := "newParser(" + ps[0] + "," + ps[1] + "," + ps[2] + "...)"
	want := alloc + ".parse(g)"
	if lastReturn(p) != want {
		return false, "Parse returns " + abbreviate(lastReturn(p)) + ", expected " + want
	}
	for _, e := range p {
		switch e.Kind {
		case "call":
			if e.Text != alloc && e.Text != want {
				return false, "Parse also calls " + abbreviate(e.Text)
			}
		case "set":
			// a local that names the fresh parser is fine; the parameters are not reassigned
			for _, prm := range ps {
				if strings.HasPrefix(e.Text, prm+"=") || strings.HasPrefix(e.Text, prm+"[") {
					return false, "Parse modifies its parameter " + prm
				}
			}
			if !strings.HasPrefix(e.Text, "$") {
				return false, "Parse stores " + abbreviate(e.Text)
			}
		case "+":
			return false, "Parse depends on " + abbreviate(e.Text)
		}
	}
	return true, ""
}
