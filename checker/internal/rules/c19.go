package rules

import (
	"fmt"
	"go/ast"
	"go/token"
	"go/types"
	"sort"
	"strings"

	"golang.org/x/tools/go/packages"

	"pigeonverif/internal/load"
)

// orderReasons is the frozen table of map ranges whose order-insensitivity needs an argument beyond the
// automatic effect classes. Key: "<pkg>.<func>:range(<operand>)#<ordinal in function>". Each entry carries the
// effect signature (assignment targets and callees in the body) it was reasoned about; a changed signature
// invalidates the entry.
var orderReasons = map[string]struct{ reason, effects string }{
	"ast.optimize:range(r.ruleUsedByRules)#1": {
		"deletes the removed rule from every user set and drops user sets that became empty; the emptiness test reads only the inner map just deleted from, entries of different outer keys are independent",
		"calls=delete"},
	"ast.optimize:range(v)#1": {
		"inner loop of the user-set clean-up: deletes the removed rule from one user set and drops that set when it became empty; emptiness is tested on the set just deleted from, no other iteration reads it",
		"calls=delete"},
	"builder.findLeader:range(scc)#2": {
		"for every start vertex the candidate set is intersected with every cycle (deletes only: commutative); the early exits return constants and their condition (empty candidate set / error) is monotone under deletes, so the result is the same for every visiting order",
		"calls=FindCyclesInSCC,delete,fmt.Errorf exits=return"},
	"builder.ComputeLeftRecursives:range(graph)#1": {
		"collects the vertex list passed to StronglyConnectedComponents: the resulting partition into SCCs is independent of vertex order (Tarjan); only the order of the returned list varies, and its consumer loop treats every SCC independently (constant flag stores, leader chosen by minimum)",
		"writes=<[]string>"},
	"builder.dfs@StronglyConnectedComponents:range(edges[vertex])#1": {
		"Tarjan's DFS: the set of SCCs does not depend on the order in which successors are visited; only the order of the returned list does (see ComputeLeftRecursives)",
		"calls=closure writes=<[]map[string]struct{}>,<map[string]int>[<string>]"},
	"builder.FindCyclesInSCC:range(scc)#1": {
		"collects vertices missing from the graph for an error message on a path that is infeasible for callers in this repository (scc ⊆ keys(graph)); the list is only formatted",
		"writes=<[]string>"},
	"builder.dfs@FindCyclesInSCC:range(graph[node])#1": {
		"exhaustive enumeration of simple paths: the set of cycles found is independent of successor order; the consumer (findLeader) intersects over all cycles",
		"calls=closure writes=<[][]string>"},
}

type rangeSite struct {
	Key   string
	Pos   token.Pos
	Stmt  *ast.RangeStmt
	Pkg   *packages.Package
	Fn    string
	Outer *ast.FuncDecl
}

// mapRanges lists every `range` over a map-typed operand in the given packages (FuncLits are attributed to
// "<var>@<enclosing func>").
func mapRanges(g *load.G, suffixes []string, skipFile func(string) bool) []rangeSite {
	var out []rangeSite
	for _, sfx := range suffixes {
		p := g.Pkg(sfx)
		for _, f := range p.Syntax {
			if skipFile != nil && skipFile(g.Fset.Position(f.Pos()).Filename) {
				continue
			}
			for _, d := range f.Decls {
				fd, ok := d.(*ast.FuncDecl)
				if !ok || fd.Body == nil {
					continue
				}
				count := map[string]int{}
				var walk func(n ast.Node, fn string)
				walk = func(n ast.Node, fn string) {
					ast.Inspect(n, func(m ast.Node) bool {
						if m == nil || m == n {
							return true
						}
						switch x := m.(type) {
						case *ast.AssignStmt:
							// named closure: dfs = func(...) {...}
							if len(x.Lhs) == 1 && len(x.Rhs) == 1 {
								if fl, ok := x.Rhs[0].(*ast.FuncLit); ok {
									walk(fl.Body, nospace(x.Lhs[0])+"@"+fd.Name.Name)
									return false
								}
							}
						case *ast.FuncLit:
							walk(x.Body, "func@"+fd.Name.Name)
							return false
						case *ast.RangeStmt:
							if t := p.TypesInfo.TypeOf(x.X); t != nil {
								if _, ok := t.Underlying().(*types.Map); ok {
									k := fn + ":range(" + nospace(x.X) + ")"
									count[k]++
									out = append(out, rangeSite{Key: fmt.Sprintf("%s.%s#%d", p.Types.Name(), k, count[k]), Pos: x.Pos(), Stmt: x, Pkg: p, Fn: fn, Outer: fd})
								}
							}
						}
						return true
					})
				}
				walk(fd.Body, fd.Name.Name)
			}
		}
	}
	return out
}

// effectSignature summarises what a loop body can do, independently of how locals are named: callees other than
// builtins and other than side-effect-free functions of the package (which only build and return a fresh value), and
// assignment targets whose base is not defined inside the body (a container created in the body is fresh in every
// iteration). Variables of the enclosing function are rendered by their type, fields and package-level names by name.
func effectSignature(p *packages.Package, body *ast.BlockStmt) string {
	sig := effectSignatureD(p, body, map[*ast.FuncDecl]bool{})
	if ex := loopExits(body); ex != "" {
		if sig != "" {
			sig += " "
		}
		sig += "exits=" + ex
	}
	return sig
}

// pureLibraryPredicates: library functions that only read their arguments (usable inside a deletion predicate).
var pureLibraryPredicates = map[string]bool{"slices.Contains": true, "slices.Index": true, "strings.Contains": true, "strings.HasPrefix": true, "strings.HasSuffix": true, "strings.EqualFold": true}

// loopExits: the ways the body leaves the loop before the last element was visited (which elements were visited by
// then depends on the visiting order): `break` of this loop, `return`, `goto`. A break that ends an inner loop, switch
// or select and exits of function literals are not exits of the loop.
func loopExits(body *ast.BlockStmt) string {
	exits := map[string]bool{}
	var walk func(n ast.Node, inner int)
	walk = func(n ast.Node, inner int) {
		if n == nil {
			return
		}
		switch x := n.(type) {
		case *ast.FuncLit:
			return
		case *ast.ReturnStmt:
			exits["return"] = true
		case *ast.BranchStmt:
			switch x.Tok {
			case token.BREAK:
				if x.Label != nil || inner == 0 {
					// a labelled break leaves the labelled statement: this loop or one around it
					exits["break"] = true
				}
			case token.GOTO:
				exits["goto"] = true
			}
			return
		case *ast.ForStmt, *ast.RangeStmt, *ast.SwitchStmt, *ast.TypeSwitchStmt, *ast.SelectStmt:
			inner++
		}
		ast.Inspect(n, func(m ast.Node) bool {
			if m == n || m == nil {
				return true
			}
			walk(m, inner)
			return false
		})
	}
	for _, st := range body.List {
		walk(st, 0)
	}
	return strings.Join(keysOf(exits), ",")
}

func effectSignatureD(p *packages.Package, body *ast.BlockStmt, expanding map[*ast.FuncDecl]bool) string {
	info := p.TypesInfo
	calls, writes := map[string]bool{}, map[string]bool{}
	var enclosing *ast.FuncDecl
	for _, f := range p.Syntax {
		for _, d := range f.Decls {
			if fd, ok := d.(*ast.FuncDecl); ok && fd.Body != nil && fd.Pos() <= body.Pos() && body.End() <= fd.End() {
				enclosing = fd
			}
		}
	}
	inBody := func(obj types.Object) bool { return obj != nil && obj.Pos() >= body.Pos() && obj.Pos() < body.End() }
	baseIdent := func(e ast.Expr) *ast.Ident {
		for {
			switch x := e.(type) {
			case *ast.IndexExpr:
				e = x.X
			case *ast.SelectorExpr:
				e = x.X
			case *ast.StarExpr:
				e = x.X
			case *ast.ParenExpr:
				e = x.X
			case *ast.Ident:
				return x
			default:
				return nil
			}
		}
	}
	// render an expression with function-level variables replaced by their types
	var render func(e ast.Expr) string
	render = func(e ast.Expr) string {
		switch x := e.(type) {
		case *ast.Ident:
			if obj := info.ObjectOf(x); obj != nil {
				if v, ok := obj.(*types.Var); ok && !v.IsField() && obj.Parent() != p.Types.Scope() && obj.Pkg() == p.Types {
					return "<" + types.TypeString(v.Type(), func(*types.Package) string { return "" }) + ">"
				}
			}
			return x.Name
		case *ast.IndexExpr:
			return render(x.X) + "[" + render(x.Index) + "]"
		case *ast.SelectorExpr:
			return render(x.X) + "." + x.Sel.Name
		case *ast.StarExpr:
			return "*" + render(x.X)
		case *ast.ParenExpr:
			return render(x.X)
		}
		return nospace(e)
	}
	ast.Inspect(body, func(n ast.Node) bool {
		switch x := n.(type) {
		case *ast.CallExpr:
			switch cn := callName(x); cn {
			case "len", "cap", "append", "make", "min", "max", "string":
			case "maps.DeleteFunc":
				// deletion of the entries a predicate selects: the effect of `delete` in a loop over the map, provided
				// the predicate only reads (no call, no store outside its own locals)
				pureLit := false
				if len(x.Args) == 2 {
					if fl, ok := x.Args[1].(*ast.FuncLit); ok {
						pureLit = true
						ast.Inspect(fl.Body, func(m ast.Node) bool {
							switch y := m.(type) {
							case *ast.CallExpr:
								if n := callName(y); n != "len" && n != "cap" && !pureLibraryPredicates[n] {
									pureLit = false
								}
							case *ast.AssignStmt:
								if y.Tok != token.DEFINE {
									pureLit = false
								}
							case *ast.IncDecStmt:
								pureLit = false
							}
							return true
						})
					}
				}
				if pureLit {
					calls["delete"] = true
					return false
				}
				calls[cn] = true
			case "":
				calls["?"] = true
			default:
				if id, ok := x.Fun.(*ast.Ident); ok {
					if fn, ok := info.ObjectOf(id).(*types.Func); ok && fn.Pkg() == p.Types && enclosing != nil && fn == info.Defs[enclosing.Name] {
						// the function calling itself: the same role as a recursive closure
						calls["closure"] = true
						return true
					}
					if fn, ok := info.ObjectOf(id).(*types.Func); ok && fn.Pkg() == p.Types && sideEffectFree(p, fn.Name(), 0) {
						return true
					}
					// a small helper of the package does what its body does (`unset(m, a, b)` deletes)
					if fn, ok := info.ObjectOf(id).(*types.Func); ok && fn.Pkg() == p.Types {
						var hd *ast.FuncDecl
						for _, f := range p.Syntax {
							for _, d := range f.Decls {
								if x, ok := d.(*ast.FuncDecl); ok && x.Body != nil && x.Recv == nil && info.Defs[x.Name] == fn {
									hd = x
								}
							}
						}
						if hd != nil && !expanding[hd] && len(hd.Body.List) <= 6 {
							expanding[hd] = true
							sub := effectSignatureD(p, hd.Body, expanding)
							delete(expanding, hd)
							// only a helper that does nothing but delete map entries is read as its body
							if sub == "calls=delete" || sub == "calls=clear" || sub == "calls=clear,delete" {
								for _, c := range strings.Split(strings.TrimPrefix(sub, "calls="), ",") {
									calls[c] = true
								}
								return true
							}
							calls[cn] = true
							return true
						}
					}
					if obj := info.ObjectOf(id); obj != nil {
						if _, isVar := obj.(*types.Var); isVar {
							// call through a function-valued variable (a recursive closure): named by its role
							cn = "closure"
						}
					}
				}
				calls[cn] = true
			}
		case *ast.AssignStmt:
			for _, l := range x.Lhs {
				if id, ok := l.(*ast.Ident); ok && (id.Name == "_" || inBody(info.ObjectOf(id))) {
					continue
				}
				if b := baseIdent(l); b != nil && inBody(info.ObjectOf(b)) {
					continue
				}
				writes[render(l)] = true
			}
		case *ast.IncDecStmt:
			if b := baseIdent(x.X); b != nil && inBody(info.ObjectOf(b)) {
				return true
			}
			writes[render(x.X)] = true
		}
		return true
	})
	var parts []string
	if len(calls) > 0 {
		parts = append(parts, "calls="+strings.Join(keysOf(calls), ","))
	}
	if len(writes) > 0 {
		parts = append(parts, "writes="+strings.Join(keysOf(writes), ","))
	}
	return strings.Join(parts, " ")
}

// effectsCovered: the effects of a loop body are covered by the signature an entry was reasoned about: the same
// callees, and no store beyond the tabled ones except into scalar locals of the enclosing function (a running value
// such as a minimum kept in a local instead of being re-read from the map it is stored to).
func effectsCovered(tabled, sig string) bool {
	if tabled == sig {
		return true
	}
	parse := func(t string) (calls string, writes map[string]bool) {
		writes = map[string]bool{}
		for _, part := range strings.Fields(t) {
			switch {
			case strings.HasPrefix(part, "calls="):
				calls = strings.TrimPrefix(part, "calls=")
			case strings.HasPrefix(part, "writes="):
				for _, w := range strings.Split(strings.TrimPrefix(part, "writes="), ",") {
					writes[w] = true
				}
			case strings.HasPrefix(part, "exits="):
				// the ways out of the loop are part of what was reasoned about, like the callees
				calls += " " + part
			}
		}
		return
	}
	tc, tw := parse(tabled)
	sc, sw := parse(sig)
	if tc != sc {
		return false
	}
	for w := range sw {
		if tw[w] {
			continue
		}
		switch w {
		case "<int>", "<bool>", "<string>":
			continue
		}
		return false
	}
	return true
}

// classifyRange tries the automatic order-insensitive classes. It returns the class or "" with a reason.
func classifyRange(p *packages.Package, site rangeSite) (class string, why string) {
	rs := site.Stmt
	key, val := "", ""
	if rs.Key != nil {
		key = nospace(rs.Key)
	}
	if rs.Value != nil {
		val = nospace(rs.Value)
	}
	info := p.TypesInfo
	isConst := func(e ast.Expr) bool {
		if tv, ok := info.Types[e]; ok && tv.Value != nil {
			return true
		}
		t := nospace(e)
		return t == "struct{}{}" || t == "true" || t == "false" || t == "nil"
	}
	pure := func(e ast.Expr) bool {
		okp := true
		ast.Inspect(e, func(n ast.Node) bool {
			if ce, ok := n.(*ast.CallExpr); ok {
				switch callName(ce) {
				case "len", "cap", "string", "append", "make":
				default:
					if tv, ok := info.Types[ce.Fun]; ok && tv.IsType() {
						return true
					}
					// method value calls of pure analysis getters
					if cs := callSel(ce); cs == "InitialNames" || cs == "IsNullable" || cs == "Clone" {
						if _, isSel := ce.Fun.(*ast.SelectorExpr); isSel {
							return true
						}
					}
					okp = false
				}
			}
			return true
		})
		return okp
	}
	var stmtClass func(st ast.Stmt) (string, string)
	blockClass := func(list []ast.Stmt) (string, string) {
		classes := map[string]bool{}
		for _, st := range list {
			c, w := stmtClass(st)
			if c == "" {
				return "", w
			}
			classes[c] = true
		}
		return strings.Join(keysOf(classes), "+"), ""
	}
	stmtClass = func(st ast.Stmt) (string, string) {
		switch x := st.(type) {
		case *ast.AssignStmt:
			if x.Tok == token.DEFINE {
				for _, rh := range x.Rhs {
					if !pure(rh) {
						return "", "local definition calls " + nospace(rh)
					}
				}
				return "local", ""
			}
			if len(x.Lhs) != 1 || len(x.Rhs) != 1 || x.Tok != token.ASSIGN {
				return "", "multi/op assignment " + nospace(x.Lhs[0])
			}
			l, rhs := x.Lhs[0], x.Rhs[0]
			if !pure(rhs) {
				return "", "right-hand side of " + nospace(l) + " calls " + nospace(rhs)
			}
			// the loop's own key / value variable, or a variable defined inside the body, is fresh in every iteration
			if id, ok := l.(*ast.Ident); ok {
				if id.Name == key || id.Name == val {
					return "local", ""
				}
				if obj := info.ObjectOf(id); obj != nil && obj.Pos() >= rs.Body.Pos() && obj.Pos() < rs.Body.End() {
					return "local", ""
				}
			}
			if ix, ok := l.(*ast.IndexExpr); ok {
				if _, isMap := info.TypeOf(ix.X).Underlying().(*types.Map); isMap {
					idx := nospace(ix.Index)
					if idx == key || isConst(rhs) {
						return "insert", ""
					}
					return "", "map store " + nospace(l) + " with a key that is not the iteration key and a non-constant value (last writer wins)"
				}
				return "", "slice element store " + nospace(l)
			}
			if isConst(rhs) {
				return "const-store", ""
			}
			return "", "assignment " + nospace(l) + " = " + nospace(rhs) + " depends on the visiting order"
		case *ast.ExprStmt:
			if ce, ok := x.X.(*ast.CallExpr); ok && callName(ce) == "delete" && len(ce.Args) == 2 {
				return "delete", ""
			}
			// union into a set (maps.Copy into a map with empty-struct values): insertion, whatever the order
			if ce, ok := x.X.(*ast.CallExpr); ok && callName(ce) == "maps.Copy" && len(ce.Args) == 2 && pure(ce.Args[1]) {
				if mt, isMap := info.TypeOf(ce.Args[0]).Underlying().(*types.Map); isMap {
					if st, isStruct := mt.Elem().Underlying().(*types.Struct); isStruct && st.NumFields() == 0 {
						return "insert", ""
					}
				}
			}
			return "", "call with effects: " + nospace(x.X)
		case *ast.RangeStmt:
			return blockClass(x.Body.List)
		case *ast.IfStmt:
			if x.Init != nil {
				if as, ok := x.Init.(*ast.AssignStmt); !ok || as.Tok != token.DEFINE || !pure(as.Rhs[0]) {
					return "", "if-init with effects"
				}
			}
			if !pure(x.Cond) {
				return "", "condition calls " + nospace(x.Cond)
			}
			if bad := condReadsLoopWrites(rs, x); bad != "" {
				return "", "condition `" + nospace(x.Cond) + "` reads " + bad + ", which the loop itself modifies: the outcome depends on the visiting order"
			}
			c, w := blockClass(x.Body.List)
			if c == "" {
				return "", w
			}
			if x.Else != nil {
				if eb, ok := x.Else.(*ast.BlockStmt); ok {
					c2, w2 := blockClass(eb.List)
					if c2 == "" {
						return "", w2
					}
					c += "+" + c2
				} else {
					return "", "else-if chain"
				}
			}
			return "guarded(" + c + ")", ""
		case *ast.BranchStmt:
			if x.Tok == token.CONTINUE && x.Label == nil {
				return "skip", ""
			}
			return "", "branch " + x.Tok.String()
		case *ast.ReturnStmt:
			// an early exit that returns constants only: a search ("is there an element with ...")
			for _, e := range x.Results {
				if !isConst(e) {
					return "", "return inside the loop"
				}
			}
			return "const-return", ""
		}
		return "", fmt.Sprintf("statement %T", st)
	}
	body := rs.Body.List
	// (iv) minimum selection: if best == "" || k < best { best = k }
	if len(body) == 1 {
		if is, ok := body[0].(*ast.IfStmt); ok && is.Else == nil && len(is.Body.List) == 1 {
			if as, ok := is.Body.List[0].(*ast.AssignStmt); ok && len(as.Lhs) == 1 && nospace(as.Rhs[0]) == key {
				best := nospace(as.Lhs[0])
				cond := nospace(is.Cond)
				if cond == best+`==""||`+key+"<"+best || cond == key+"<"+best+"||"+best+`==""` {
					return "minimum-by-key", ""
				}
			}
		}
		// (vi) take the only element: `x = k; break` under a dominating len(m) <= 1
		// (iii) append to a slice that is sorted before any other use - of every element, or of the elements that pass a
		// test on the element alone (`if k != marker { s = append(s, k) }`)
		collect := body[0]
		if is, ok := collect.(*ast.IfStmt); ok && is.Init == nil && is.Else == nil && len(is.Body.List) == 1 && pure(is.Cond) {
			onlyElem := true
			ast.Inspect(is.Cond, func(n ast.Node) bool {
				if id, ok := n.(*ast.Ident); ok && id.Name != key && id.Name != val {
					if _, isConst := info.ObjectOf(id).(*types.Const); !isConst && id.Name != "true" && id.Name != "false" && id.Name != "nil" && id.Name != "len" {
						onlyElem = false
					}
				}
				return true
			})
			if onlyElem {
				collect = is.Body.List[0]
			}
		}
		if as, ok := collect.(*ast.AssignStmt); ok && len(as.Lhs) == 1 {
			s := nospace(as.Lhs[0])
			r := nospace(as.Rhs[0])
			if r == "append("+s+","+key+")" || (val != "" && r == "append("+s+","+val+")") {
				if sortedBeforeUse(site.Outer, rs, s) {
					return "collect-then-sort", ""
				}
				if f := onlyVertexListOfComponentSearch(p, site.Outer, rs, s); f != "" {
					// the partition into components does not depend on the order of the vertex list (tabled argument of
					// the search itself); the order of the returned list is the business of rule C19-d
					return "vertex-list-of-" + f, ""
				}
				return "", "appends to " + s + ", which is used before being sorted: the visiting order leaks into a sequence"
			}
		}
	}
	// `for k := range m { return k }`: the element of a map that has at most one
	if len(body) == 1 {
		if ret, ok := body[0].(*ast.ReturnStmt); ok && len(ret.Results) >= 1 && (nospace(ret.Results[0]) == key || (val != "" && nospace(ret.Results[0]) == val)) {
			gs := append(guardsOf(site.Outer.Body, rs.Pos()), factsAt(site.Outer.Body, rs.Pos())...)
			m := nospace(rs.X)
			for _, gd := range gs {
				if gd == "!(len("+m+")>1)" || gd == "len("+m+")<=1" || gd == "len("+m+")==1" {
					return "only-element", ""
				}
			}
			if onlyElementAtCallers(p, site.Outer, m) {
				return "only-element", ""
			}
			return "", "returns the first element of a map that may have several"
		}
	}
	if len(body) == 2 {
		if as, ok := body[0].(*ast.AssignStmt); ok && nospace(as.Rhs[0]) == key {
			if br, ok := body[1].(*ast.BranchStmt); ok && br.Tok == token.BREAK {
				gs := append(guardsOf(site.Outer.Body, rs.Pos()), factsAt(site.Outer.Body, rs.Pos())...)
				m := nospace(rs.X)
				for _, gd := range gs {
					if gd == "!(len("+m+")>1)" || gd == "len("+m+")<=1" || gd == "len("+m+")==1" {
						return "only-element", ""
					}
				}
				// the map is a parameter and every caller in the package passes a map it knows to have at most one element
				if onlyElementAtCallers(p, site.Outer, m) {
					return "only-element", ""
				}
				return "", "takes the first element of a map that may have several"
			}
		}
	}
	c, w := blockClass(body)
	if c != "" {
		// a guarded class whose condition reads what the body writes is order-sensitive
		if strings.Contains(c, "const-return") {
			// a search: the same constants are returned whichever element satisfies the test first, provided the loop
			// does nothing else that could be observed after the early exit
			for _, eff := range []string{"insert", "delete", "const-store"} {
				if strings.Contains(c, eff) {
					return "", "early return combined with " + eff + ": how much was done before the exit depends on the visiting order"
				}
			}
			rets := map[string]bool{}
			ast.Inspect(rs.Body, func(n ast.Node) bool {
				if _, ok := n.(*ast.FuncLit); ok {
					return false
				}
				if ret, ok := n.(*ast.ReturnStmt); ok {
					var parts []string
					for _, e := range ret.Results {
						parts = append(parts, nospace(e))
					}
					rets[strings.Join(parts, ",")] = true
				}
				return true
			})
			if len(rets) != 1 {
				return "", "several different early returns: which one is taken depends on the visiting order"
			}
			return "exists-search", ""
		}
		return c, ""
	}
	return "", w
}

// onlyElementAtCallers: m is a parameter of fd, fd is called somewhere in the package, and at every call site the
// corresponding argument is known to have at most one element (an enclosing `len(arg) <= 1`, or the else arm of
// `len(arg) > 1`).
func onlyElementAtCallers(p *packages.Package, fd *ast.FuncDecl, m string) bool {
	return onlyElementAtCallersD(p, fd, m, 0)
}

func onlyElementAtCallersD(p *packages.Package, fd *ast.FuncDecl, m string, depth int) bool {
	if fd == nil || fd.Type.Params == nil || depth > 3 {
		return false
	}
	idx, i := -1, 0
	for _, f := range fd.Type.Params.List {
		for _, nm := range f.Names {
			if nm.Name == m {
				idx = i
			}
			i++
		}
	}
	if idx < 0 {
		return false
	}
	// the parameter is not reassigned before the loop
	reassigned := false
	ast.Inspect(fd.Body, func(n ast.Node) bool {
		if as, ok := n.(*ast.AssignStmt); ok {
			for _, l := range as.Lhs {
				if nospace(l) == m {
					reassigned = true
				}
			}
		}
		return true
	})
	if reassigned {
		return false
	}
	calls := 0
	for _, f := range p.Syntax {
		for _, d := range f.Decls {
			caller, ok := d.(*ast.FuncDecl)
			if !ok || caller.Body == nil {
				continue
			}
			okAll := true
			ast.Inspect(caller.Body, func(n ast.Node) bool {
				ce, ok := n.(*ast.CallExpr)
				if !ok {
					return true
				}
				var id *ast.Ident
				switch fn := ce.Fun.(type) {
				case *ast.Ident:
					id = fn
				case *ast.SelectorExpr:
					id = fn.Sel
				}
				if id == nil || p.TypesInfo.Uses[id] != p.TypesInfo.Defs[fd.Name] || idx >= len(ce.Args) {
					return true
				}
				calls++
				arg := nospace(ce.Args[idx])
				known := false
				for _, f := range factsAt(caller.Body, ce.Pos()) {
					if f == "len("+arg+")<=1" || f == "len("+arg+")==1" || f == "len("+arg+")<2" {
						known = true
					}
				}
				// the argument is itself an unassigned parameter of the caller: the caller's callers know
				if !known && onlyElementAtCallersD(p, caller, arg, depth+1) {
					known = true
				}
				if !known {
					okAll = false
				}
				return true
			})
			if !okAll {
				return false
			}
		}
	}
	return calls > 0
}

// condReadsLoopWrites: the condition (and init) of is reads a container that the loop body writes, other than
// through an index by one of the loop's own iteration variables. Returns the offending text or "".
func condReadsLoopWrites(loop *ast.RangeStmt, is *ast.IfStmt) string {
	// bases written in the loop
	written := map[string]bool{}
	base := func(e ast.Expr) string {
		for {
			switch x := e.(type) {
			case *ast.IndexExpr:
				e = x.X
				continue
			case *ast.ParenExpr:
				e = x.X
				continue
			}
			break
		}
		return nospace(e)
	}
	iter := map[string]bool{}
	ast.Inspect(loop, func(n ast.Node) bool {
		switch x := n.(type) {
		case *ast.RangeStmt:
			if x.Key != nil {
				iter[nospace(x.Key)] = true
			}
			if x.Value != nil {
				iter[nospace(x.Value)] = true
			}
		case *ast.AssignStmt:
			if x.Tok == token.DEFINE {
				return true
			}
			for _, l := range x.Lhs {
				if _, ok := l.(*ast.IndexExpr); ok {
					written[base(l)] = true
				} else {
					written[nospace(l)] = true
				}
			}
		case *ast.CallExpr:
			if callName(x) == "delete" && len(x.Args) == 2 {
				written[base(x.Args[0])] = true
			}
		}
		return true
	})
	// the loop's own iteration variables are fresh in every iteration: assigning to them carries nothing over
	for v := range iter {
		delete(written, v)
	}
	bad := ""
	check := func(root ast.Node) {
		var stack []ast.Node
		ast.Inspect(root, func(n ast.Node) bool {
			if n == nil {
				stack = stack[:len(stack)-1]
				return true
			}
			stack = append(stack, n)
			e, ok := n.(ast.Expr)
			if !ok {
				return true
			}
			t := nospace(e)
			if !written[t] {
				return true
			}
			// allowed when the parent indexes it by an iteration variable: base[k] / base[k][…]
			if len(stack) >= 2 {
				if ix, ok := stack[len(stack)-2].(*ast.IndexExpr); ok && ix.X == e && iter[nospace(ix.Index)] {
					// but len(base[k]) after a delete from base[k] is a read of modified state
					if len(stack) >= 3 {
						if ce, ok := stack[len(stack)-3].(*ast.CallExpr); ok && callName(ce) == "len" {
							bad = nospace(ce)
							return false
						}
					}
					return false
				}
			}
			bad = t
			return false
		})
	}
	if is.Init != nil {
		check(is.Init)
	}
	check(is.Cond)
	return bad
}

// sortedBeforeUse: after loop, the first statement mentioning slice s (in the enclosing block) sorts s by a total order
// (by the elements themselves).
func sortedBeforeUse(fd *ast.FuncDecl, loop *ast.RangeStmt, s string) bool {
	var blk *ast.BlockStmt
	ast.Inspect(fd.Body, func(n ast.Node) bool {
		if b, ok := n.(*ast.BlockStmt); ok {
			for _, st := range b.List {
				if st == ast.Stmt(loop) {
					blk = b
				}
			}
		}
		return true
	})
	if blk == nil {
		return false
	}
	after := false
	for _, st := range blk.List {
		if st == ast.Stmt(loop) {
			after = true
			continue
		}
		if !after {
			continue
		}
		mentions := false
		ast.Inspect(st, func(n ast.Node) bool {
			if id, ok := n.(*ast.Ident); ok && id.Name == s {
				mentions = true
			}
			return true
		})
		if !mentions {
			continue
		}
		if es, ok := st.(*ast.ExprStmt); ok {
			if ce, ok := es.X.(*ast.CallExpr); ok && len(ce.Args) >= 1 && nospace(ce.Args[0]) == s {
				switch callName(ce) {
				case "sort.Strings", "sort.Ints", "sort.Float64s", "slices.Sort":
					// sorted by the elements themselves: equal elements are indistinguishable
					return true
				case "sort.Slice", "sort.SliceStable", "slices.SortFunc", "slices.SortStableFunc":
					// a comparator is accepted only when it is total on the collected elements: it compares the
					// elements themselves (s[i] < s[j]); any projection (a line number, a length …) can tie, and the
					// relative order of tied elements is the map's iteration order again
					if len(ce.Args) == 2 {
						if fl, ok := ce.Args[1].(*ast.FuncLit); ok && len(fl.Body.List) == 1 {
							if rs, ok := fl.Body.List[0].(*ast.ReturnStmt); ok && len(rs.Results) == 1 {
								t := nospace(rs.Results[0])
								if t == s+"[i]<"+s+"[j]" || t == s+"[i]>"+s+"[j]" || t == "a<b" || t == "cmp.Compare(a,b)" || t == "strings.Compare(a,b)" {
									return true
								}
							}
						}
					}
					return false
				}
			}
		}
		return false
	}
	return false
}

// C19 — generation is deterministic.
func C19(c *Ctx) {
	r := c.R
	r.Technique = "iteration-order insensitivity analysis: every range over a map-typed operand (go/types) in the generator packages and in the runtime template is classified by the effects of its body into commutative / idempotent classes, or must be a tabled instance whose recorded effect signature still matches; enumeration of other nondeterminism sources"
	r.Explanation = "Decides that no map iteration order can reach the output: every map range on the generation path falls into an order-insensitive class decided from the effects of its body (set/map insertion under the iteration key or with a constant value, delete, constant stores into objects selected by the key, minimum selection by key, the only element of a map with at most one entry, collect-then-sort) or is one of the tabled instances with a one-line argument and a machine-checked effect signature (Tarjan partition, exhaustive cycle enumeration, intersection with monotone early exit, …). A range whose body calls a function with side effects on shared nodes is order-sensitive. Also decided: the generator uses no clock, random source, process id, goroutine, select or reflection-based map iteration; rules are emitted by ranging over the grammar's rule slice. Not decided: determinism of golang.org/x/tools/imports (external)."
	r.Assumptions = []string{"fmt prints maps with sorted keys", "imports.Process is deterministic"}
	r.Rule("C19-a", "each range over a map in package main (generator files), ast and builder is in an automatic order-insensitive class or is a tabled instance whose effect signature is unchanged")
	r.Rule("C19-b", "no use of time, math/rand, crypto/rand, os.Getpid, go statements, select, reflect or unsafe in the generator files")
	r.Rule("C19-c", "the grammar literal and the code blocks are emitted by ranging over grammar.Rules (a slice), never over a map")
	r.Rule("C19-d", "a list that a function builds under a map range and returns unsorted (the components of StronglyConnectedComponents, the cycles of FindCyclesInSCC) is in map-iteration order: every loop over such a list is in an automatic order-insensitive class or is a tabled instance whose effect signature is unchanged - what one iteration stores is not read by another")
	r.Rule("C19-t", "runtime template: the map ranges of every variant are order-insensitive (state cloning, discarding, expected-list de-duplication followed by sort)")
	r.Rule("C19-e", "no state survives a build: no function of packages ast and builder stores into a package-level variable of its package (assignment, element or field store, ++/--, or a storing method such as Store / LoadOrStore / Put on it) - a cache or counter kept there makes what a later build in the same process writes depend on the builds before it")

	g := c.G()
	if g == nil {
		return
	}
	c19NoStateAcrossBuilds(c, g)
	isGen := func(fn string) bool { return strings.HasSuffix(fn, "/pigeon.go") || strings.HasSuffix(fn, "_test.go") }
	sites := mapRanges(g, []string{"", "ast", "builder"}, isGen)
	r.Analysed["map_ranges_generator"] = len(sites)
	seen := map[string]bool{}
	siteKeys := map[string]bool{}
	for _, s := range sites {
		siteKeys[s.Key] = true
	}
	claimed := map[string]bool{}
	// table entries whose own key names a loop with exactly the tabled effects keep that loop
	exactKeys := map[string]bool{}
	for _, s := range sites {
		if rs, ok := orderReasons[s.Key]; ok && effectsCovered(rs.effects, effectSignature(s.Pkg, s.Stmt.Body)) {
			exactKeys[s.Key] = true
		}
	}
	for _, s := range sites {
		seen[s.Key] = true
		construct := "G." + s.Key
		rs, ok := orderReasons[s.Key]
		if ok && !effectsCovered(rs.effects, effectSignature(s.Pkg, s.Stmt.Body)) {
			// the ordinal now names another loop of the function (a loop before it was added or removed): look the
			// loop up by what it does instead
			ok = false
		}
		if ok {
			claimed[s.Key] = true
		}
		if !ok {
			// the function, its closure variable or the operand was renamed: an entry of the same package that matches no
			// site under its own key and has exactly this effect signature still describes this loop
			sig := effectSignature(s.Pkg, s.Stmt.Body)
			for k, cand := range orderReasons {
				if !exactKeys[k] && !claimed[k] && strings.HasPrefix(k, s.Pkg.Types.Name()+".") && cand.effects == sig && sig != "" {
					if class, _ := classifyRange(s.Pkg, s); class == "" {
						rs, ok = cand, true
						claimed[k] = true
						seen[k] = true
						break
					}
				}
			}
		}
		if ok {
			sig := effectSignature(s.Pkg, s.Stmt.Body)
			if effectsCovered(rs.effects, sig) {
				r.Ok("C19-a", construct, "", g.Where(s.Pos), "tabled: "+rs.reason)
			} else {
				r.Bad("C19-a", construct, "", g.Where(s.Pos), "tabled as order-insensitive for the effect signature ["+rs.effects+"] but the body now has ["+sig+"]: the argument no longer covers it")
			}
			continue
		}
		class, why := classifyRange(s.Pkg, s)
		if class != "" {
			r.Ok("C19-a", construct, "", g.Where(s.Pos), "class: "+class)
		} else {
			r.Bad("C19-a", construct, "", g.Where(s.Pos), "order-sensitive or unclassified map iteration: "+why+"; effects ["+effectSignature(s.Pkg, s.Stmt.Body)+"]")
		}
	}
	var stale []string
	for k := range orderReasons {
		if !seen[k] {
			stale = append(stale, k)
		}
	}
	sort.Strings(stale)
	// an entry without a site is harmless (the loop is gone, or it was matched by signature and every remaining map
	// range has a verdict of its own above); it is reported for housekeeping only
	r.Analysed["order_table_entries_without_site"] = stale
	r.MinRule("C19-a", 10)
	// map iterators from the standard library are map ranges in disguise
	for _, sfx := range []string{"", "ast", "builder"} {
		p := g.Pkg(sfx)
		for _, fd := range load.AllFuncDecls(p) {
			if fd.Body == nil || isGen(g.Fset.Position(fd.Pos()).Filename) {
				continue
			}
			var stack []ast.Node
			n := 0
			ast.Inspect(fd.Body, func(nd ast.Node) bool {
				if nd == nil {
					stack = stack[:len(stack)-1]
					return true
				}
				stack = append(stack, nd)
				ce, ok := nd.(*ast.CallExpr)
				if !ok {
					return true
				}
				cn := callName(ce)
				if cn != "maps.Keys" && cn != "maps.Values" && cn != "maps.All" && !strings.HasSuffix(cn, ".MapRange") && !strings.HasSuffix(cn, ".MapKeys") {
					return true
				}
				n++
				construct := fmt.Sprintf("G.%s.%s:%s(%s)#%d", p.Types.Name(), fd.Name.Name, cn, nospace(ce.Args[0]), n)
				sorted := false
				for i := len(stack) - 2; i >= 0 && !sorted; i-- {
					if pc, ok := stack[i].(*ast.CallExpr); ok {
						if pn := callName(pc); pn == "slices.Sorted" || pn == "slices.SortedFunc" || pn == "slices.SortedStableFunc" {
							sorted = true
						}
					}
				}
				// an extremum or a membership test over the keys does not depend on their order
				for i := len(stack) - 2; i >= 0 && !sorted; i-- {
					if pc, ok := stack[i].(*ast.CallExpr); ok {
						switch callName(pc) {
						case "slices.Min", "slices.Max", "slices.MinFunc", "slices.MaxFunc", "slices.Contains", "len":
							sorted = true
						}
					}
				}
				// the keys collected as they come, where a tabled loop did the same (`for k := range m { ks = append(ks, k) }`
				// restated as slices.Collect(maps.Keys(m))): the tabled argument is about what is done with the list
				tabled := ""
				if !sorted && cn == "maps.Keys" {
					prefix := p.Types.Name() + "." + fd.Name.Name + ":range(" + nospace(ce.Args[0]) + ")#"
					for k, e := range orderReasons {
						if strings.HasPrefix(k, prefix) && e.effects == "writes=<[]string>" {
							tabled = e.reason
						}
					}
				}
				if tabled != "" {
					r.Ok("C19-a", construct, "", g.Where(ce.Pos()), "tabled (as the collecting range it restates): "+tabled)
				} else if sorted {
					r.Ok("C19-a", construct, "", g.Where(ce.Pos()), "map iterator consumed through slices.Sorted, an extremum or a membership test")
				} else {
					r.Bad("C19-a", construct, "", g.Where(ce.Pos()), "iterates a map in Go's random order (the result is not passed through slices.Sorted): the order can reach the generated file")
				}
				return true
			})
		}
	}
	c19Sequences(c)
	// ---- b
	var bad []string
	for _, sfx := range []string{"", "ast", "builder"} {
		p := g.Pkg(sfx)
		for _, f := range p.Syntax {
			fn := g.Fset.Position(f.Pos()).Filename
			if isGen(fn) {
				continue
			}
			for _, im := range f.Imports {
				switch strings.Trim(im.Path.Value, `"`) {
				case "time", "math/rand", "math/rand/v2", "crypto/rand", "reflect", "unsafe":
					bad = append(bad, g.Where(im.Pos())+": imports "+im.Path.Value)
				}
			}
			ast.Inspect(f, func(n ast.Node) bool {
				switch x := n.(type) {
				case *ast.GoStmt:
					bad = append(bad, g.Where(x.Pos())+": go statement")
				case *ast.SelectStmt:
					bad = append(bad, g.Where(x.Pos())+": select statement")
				case *ast.CallExpr:
					if cn := callName(x); cn == "os.Getpid" || cn == "os.Getppid" {
						bad = append(bad, g.Where(x.Pos())+": "+cn)
					}
				}
				return true
			})
		}
	}
	sort.Strings(bad)
	r.Check(len(bad) == 0, "C19-b", "G:no-other-nondeterminism-source", "", "main.go, ast/, builder/", "none", strings.Join(bad, "; "))
	// ---- c
	bp := g.Pkg("builder")
	okEmit := true
	var emitWhy []string
	for _, fn := range []string{"writeGrammar", "buildParser"} {
		fd := load.FuncDecl(bp, "builder", fn)
		if fd == nil {
			r.Fatal("anchor builder.%s not found", fn)
			continue
		}
		// on the normalised paths (helpers expanded): the per-rule writer is called for element #d of a loop over
		// <grammar>.Rules, a slice, and in no other loop
		found := false
		gp := firstParam(fd)
		if tv := bp.TypesInfo.TypeOf(fd.Type.Params.List[0].Type); tv != nil {
			if pt, ok := tv.(*types.Pointer); ok {
				if st, ok := pt.Elem().Underlying().(*types.Struct); ok {
					for k := 0; k < st.NumFields(); k++ {
						if st.Field(k).Name() == "Rules" {
							if _, isSlice := st.Field(k).Type().Underlying().(*types.Slice); !isSlice {
								okEmit = false
								emitWhy = append(emitWhy, "Grammar.Rules is not a slice")
							}
						}
					}
				}
			}
		}
		b := recvName(fd)
		for _, p := range c.builderNorm().normPaths(fd) {
			var loops []string
			for _, e := range p {
				switch e.Kind {
				case "loop":
					loops = append(loops, e.Text)
				case "endloop":
					if len(loops) > 0 {
						loops = loops[:len(loops)-1]
					}
				case "call":
					if strings.HasPrefix(e.Text, b+".writeRule(") || strings.HasPrefix(e.Text, b+".writeRuleCode(") {
						d := len(loops)
						want := fmt.Sprintf("%s.Rules[#%d])", gp, d)
						if d == 0 || loops[d-1] != "range "+gp+".Rules" || !strings.HasSuffix(e.Text, "("+want) {
							okEmit = false
							emitWhy = append(emitWhy, fn+" calls "+abbreviate(e.Text)+" outside a loop over "+gp+".Rules in slice order")
						} else {
							found = true
						}
					}
				}
			}
		}
		if !found {
			okEmit = false
			emitWhy = append(emitWhy, fn+" does not range over the rule slice")
		}
	}
	emitWhy = uniq(emitWhy)
	r.Check(okEmit, "C19-c", "G.builder:emission-in-rule-order", "", "builder/builder.go", "writeGrammar and buildParser range over grammar.Rules", strings.Join(emitWhy, "; "))
	// ---- t: runtime
	for _, v := range c.SemanticVariants() {
		var badT []string
		n := 0
		for _, fd := range v.Funcs() {
			if fd.Body == nil {
				continue
			}
			ast.Inspect(fd.Body, func(nd ast.Node) bool {
				rs, ok := nd.(*ast.RangeStmt)
				if !ok {
					return true
				}
				t := v.Info.TypeOf(rs.X)
				if t == nil {
					return true
				}
				if _, isMap := t.Underlying().(*types.Map); !isMap {
					return true
				}
				n++
				site := rangeSite{Stmt: rs, Outer: fd, Fn: fd.Name.Name}
				class, why := classifyRangeInfo(v.Info, site)
				if class == "" {
					badT = append(badT, v.Where(rs.Pos())+": "+fd.Name.Name+" ranges over map "+nospace(rs.X)+": "+why)
				}
				return true
			})
		}
		sort.Strings(badT)
		if len(badT) > 0 {
			r.Bad("C19-t", "T:map-ranges-order-insensitive", v.Name, "builder/static_code.go", badT[0])
		} else {
			r.Ok("C19-t", "T:map-ranges-order-insensitive", v.Name, "builder/static_code.go", fmt.Sprintf("%d map ranges, all in automatic classes", n))
		}
	}
}

// classifyRangeInfo is classifyRange for a bare types.Info (template variants).
func classifyRangeInfo(info *types.Info, site rangeSite) (string, string) {
	p := &packages.Package{TypesInfo: info}
	return classifyRange(p, site)
}

var sideEffectFreeCache = map[string]bool{}

// sideEffectFree: the package-level function name (no receiver) only reads its arguments and builds its result: every
// assignment target has a base defined inside the function, and it calls only builtins, sort functions on its own
// locals, or other side-effect-free functions of the package.
func sideEffectFree(p *packages.Package, name string, depth int) bool {
	key := p.PkgPath + "." + name
	if v, ok := sideEffectFreeCache[key]; ok {
		return v
	}
	if depth > 3 {
		return false
	}
	sideEffectFreeCache[key] = false // recursion is not accepted
	var fd *ast.FuncDecl
	for _, d := range load.AllFuncDecls(p) {
		if d.Recv == nil && d.Name.Name == name && d.Body != nil {
			fd = d
		}
	}
	if fd == nil {
		return false
	}
	info := p.TypesInfo
	inFn := func(obj types.Object) bool {
		if obj == nil || !(obj.Pos() >= fd.Body.Pos() && obj.Pos() < fd.Body.End()) {
			return false
		}
		return true
	}
	ok := true
	ast.Inspect(fd.Body, func(n ast.Node) bool {
		switch x := n.(type) {
		case *ast.AssignStmt:
			for _, l := range x.Lhs {
				e := l
				for {
					switch y := e.(type) {
					case *ast.IndexExpr:
						e = y.X
						continue
					case *ast.SelectorExpr:
						e = y.X
						continue
					case *ast.StarExpr:
						e = y.X
						continue
					case *ast.ParenExpr:
						e = y.X
						continue
					}
					break
				}
				id, isId := e.(*ast.Ident)
				if !isId || (id.Name != "_" && !inFn(info.ObjectOf(id))) {
					ok = false
				}
			}
		case *ast.IncDecStmt:
			if id, isId := x.X.(*ast.Ident); !isId || !inFn(info.ObjectOf(id)) {
				ok = false
			}
		case *ast.CallExpr:
			switch cn := callName(x); cn {
			case "len", "cap", "append", "make", "min", "max", "string", "new", "copy":
			case "sort.Strings", "sort.Ints", "slices.Sort":
				if id, isId := x.Args[0].(*ast.Ident); !isId || !inFn(info.ObjectOf(id)) {
					ok = false
				}
			default:
				if id, isId := x.Fun.(*ast.Ident); isId {
					if fn, isFn := info.ObjectOf(id).(*types.Func); isFn && fn.Pkg() == p.Types && sideEffectFree(p, fn.Name(), depth+1) {
						return true
					}
					if _, isType := info.ObjectOf(id).(*types.TypeName); isType {
						return true // conversion
					}
				}
				ok = false
			}
		case *ast.GoStmt, *ast.DeferStmt, *ast.SendStmt:
			ok = false
		}
		return true
	})
	sideEffectFreeCache[key] = ok
	return ok
}

// onlyVertexListOfComponentSearch: after the loop, the slice s is used only as an argument of calls to one function of
// the package for which the table holds an argument that its result, as a set, does not depend on visiting order
// (an entry "<pkg>.<closure>@<func>:…"), i.e. the component search. Returns that function's name.
func onlyVertexListOfComponentSearch(p *packages.Package, fd *ast.FuncDecl, loop *ast.RangeStmt, s string) string {
	if p.Types == nil || fd == nil {
		return ""
	}
	tabled := func(fn string) bool {
		for k := range orderReasons {
			if strings.HasPrefix(k, p.Types.Name()+".") && strings.Contains(k, "@"+fn+":") {
				return true
			}
		}
		return false
	}
	target := ""
	ok := true
	var parents []ast.Node
	ast.Inspect(fd.Body, func(n ast.Node) bool {
		if n == nil {
			parents = parents[:len(parents)-1]
			return true
		}
		parents = append(parents, n)
		id, isId := n.(*ast.Ident)
		if !isId || id.Name != s || id.Pos() < loop.End() {
			return true
		}
		// the use must be a direct argument of a call to a tabled search
		if len(parents) >= 2 {
			if ce, isCall := parents[len(parents)-2].(*ast.CallExpr); isCall {
				if fid, isF := ce.Fun.(*ast.Ident); isF && tabled(fid.Name) {
					for _, a := range ce.Args {
						if a == ast.Expr(id) {
							if target == "" || target == fid.Name {
								target = fid.Name
								return true
							}
						}
					}
				}
			}
		}
		ok = false
		return true
	})
	if !ok {
		return ""
	}
	return target
}
