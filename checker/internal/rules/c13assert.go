package rules

import (
	"fmt"
	"go/ast"
	"go/token"
	"go/types"
	"sort"
	"strings"

	"pigeonverif/internal/load"
)

// Failed type assertions (C13-o). `v, ok := x.(*T)` leaves v == nil when the assertion fails; a nil *T stored into an
// interface-typed slot is a non-nil interface holding a nil pointer, which the next visitor dereferences (the
// optimizer and the builder run outside the recover of the front-end parser: the generator dies with a Go panic
// trace). The rule: every use of v, other than a comparison with nil, is evaluated only where ok is known to hold -
//   - ok is a conjunct to its left in the same && chain;
//   - ok is (a conjunct of) the condition of an enclosing if arm or of an enclosing clause of a condition switch;
//   - an early exit `if !ok { return | continue | … }` precedes it in an enclosing block;
// and neither v nor ok is assigned between the assertion and the use.

type assertUse struct {
	pos     token.Pos
	v, ok   string
	guarded bool
	how     string
}

func c13FailedAssertions(c *Ctx, g *load.G) {
	r := c.R
	r.Rule("C13-o", "the value of a two-result type assertion to a pointer or interface type (`v, ok := x.(*T)`) is used - dereferenced, stored, passed on - only where ok is known to hold (conjunct to the left, enclosing condition, preceding early exit on !ok); comparisons of v with nil are free")
	total, sites := 0, 0
	for _, sfx := range []string{"ast", "builder", ""} {
		p := g.Pkg(sfx)
		if p == nil {
			continue
		}
		fwd := assertionForwarders(p.TypesInfo, p.Syntax)
		for _, f := range p.Syntax {
			fname := g.Fset.Position(f.Pos()).Filename
			if strings.HasSuffix(fname, "_test.go") || strings.HasSuffix(fname, "/pigeon.go") || strings.HasSuffix(fname, "generated_static_code.go") || strings.HasSuffix(fname, "generated_static_code_range_table.go") {
				continue
			}
			for _, d := range f.Decls {
				fd, ok := d.(*ast.FuncDecl)
				if !ok || fd.Body == nil {
					continue
				}
				uses := assertionUses(p.TypesInfo, fd, fwd)
				if len(uses) == 0 {
					continue
				}
				sites++
				byVar := map[string][]assertUse{}
				for _, u := range uses {
					byVar[u.v] = append(byVar[u.v], u)
				}
				names := make([]string, 0, len(byVar))
				for n := range byVar {
					names = append(names, n)
				}
				sort.Strings(names)
				for _, n := range names {
					var bad []string
					for _, u := range byVar[n] {
						total++
						if !u.guarded {
							bad = append(bad, fmt.Sprintf("%s: %s is used where %s is not known to hold: after a failed assertion it is a nil pointer (stored into an interface slot it is a non-nil interface around nil)", g.Where(u.pos), u.v, u.ok))
						}
					}
					r.Check(len(bad) == 0, "C13-o", "G."+pkgLabel(sfx)+"."+funcLabel(fd)+":"+n, "", g.Where(fd.Pos()), fmt.Sprintf("%d uses, each under the assertion's ok", len(byVar[n])), strings.Join(bad, "; "))
				}
			}
		}
	}
	r.Min("uses of values of two-result type assertions", 20, total)
	_ = sites
}

func pkgLabel(sfx string) string {
	if sfx == "" {
		return "main"
	}
	return sfx
}

func funcLabel(fd *ast.FuncDecl) string {
	if fd.Recv != nil && len(fd.Recv.List) == 1 {
		t := nospace(fd.Recv.List[0].Type)
		return strings.TrimPrefix(t, "*") + "." + fd.Name.Name
	}
	return fd.Name.Name
}

// assertionUses lists the uses of the value variable of every two-result assertion to a nil-able type in fd.
func assertionUses(info *types.Info, fd *ast.FuncDecl, forwarders map[*types.Func]types.Type) []assertUse {
	type asrt struct {
		v, ok types.Object
		at    token.Pos
	}
	var as []asrt
	ast.Inspect(fd.Body, func(n ast.Node) bool {
		st, ok := n.(*ast.AssignStmt)
		if !ok || len(st.Lhs) != 2 || len(st.Rhs) != 1 {
			return true
		}
		var asserted types.Type
		switch rhs := ast.Unparen(st.Rhs[0]).(type) {
		case *ast.TypeAssertExpr:
			if rhs.Type != nil {
				asserted = info.TypeOf(rhs.Type)
			}
		case *ast.CallExpr:
			// a helper that only forwards an assertion (`v, ok := e.(*T); return v, ok`) is one
			if id, isId := rhs.Fun.(*ast.Ident); isId {
				if fn, isFn := info.Uses[id].(*types.Func); isFn && forwarders[fn] != nil {
					asserted = forwarders[fn]
				}
			}
		}
		if asserted == nil {
			return true
		}
		vi, ok1 := st.Lhs[0].(*ast.Ident)
		oi, ok2 := st.Lhs[1].(*ast.Ident)
		if !ok1 || !ok2 || vi.Name == "_" || oi.Name == "_" {
			return true
		}
		switch asserted.Underlying().(type) {
		case *types.Pointer, *types.Interface, *types.Map, *types.Slice, *types.Signature:
		default:
			return true
		}
		vo, oo := info.ObjectOf(vi), info.ObjectOf(oi)
		if vo == nil || oo == nil {
			return true
		}
		as = append(as, asrt{vo, oo, st.End()})
		return true
	})
	if len(as) == 0 {
		return nil
	}
	// a variable asserted (or otherwise assigned) more than once: the facts about ok are about the latest assertion
	// only when nothing was assigned in between; keep the rule exact by demanding single assignment
	assigned := map[types.Object]int{}
	assignedAt := map[types.Object][]token.Pos{} // where each assignment statement ends
	ast.Inspect(fd.Body, func(n ast.Node) bool {
		switch x := n.(type) {
		case *ast.AssignStmt:
			for _, l := range x.Lhs {
				if id, ok := l.(*ast.Ident); ok {
					if o := info.ObjectOf(id); o != nil {
						assigned[o]++
						assignedAt[o] = append(assignedAt[o], x.End())
					}
				}
			}
		case *ast.IncDecStmt:
			if id, ok := x.X.(*ast.Ident); ok {
				if o := info.ObjectOf(id); o != nil {
					assigned[o]++
				}
			}
		case *ast.UnaryExpr:
			if x.Op == token.AND {
				if id, ok := ast.Unparen(x.X).(*ast.Ident); ok {
					if o := info.ObjectOf(id); o != nil {
						assigned[o] += 2 // address taken: may be written anywhere
					}
				}
			}
		}
		return true
	})
	var out []assertUse
	for _, a := range as {
		// the value variable is assigned by its assertion only; the ok variable may be shared by several assertions
		// (`prev, ok := …; if !ok {…}; cur, ok := …`): a test of ok speaks about this assertion when the latest
		// assignment of ok before the test is this one
		stable := assigned[a.v] == 1 && len(assignedAt[a.ok]) == assigned[a.ok]
		epoch := func(at token.Pos) bool {
			latest := token.NoPos
			for _, e := range assignedAt[a.ok] {
				if e <= at && e > latest {
					latest = e
				}
			}
			return latest == a.at
		}
		// parents for the use-site classification
		var stack []ast.Node
		ast.Inspect(fd.Body, func(n ast.Node) bool {
			if n == nil {
				stack = stack[:len(stack)-1]
				return true
			}
			stack = append(stack, n)
			id, isId := n.(*ast.Ident)
			if !isId || info.Uses[id] != a.v || id.Pos() < a.at {
				return true
			}
			// comparison with nil
			if len(stack) >= 2 {
				if be, ok := stack[len(stack)-2].(*ast.BinaryExpr); ok && (be.Op == token.EQL || be.Op == token.NEQ) {
					if isNilIdent(be.X) || isNilIdent(be.Y) {
						return true
					}
				}
			}
			// handed on together with its ok (`return v, ok`): the caller is under the same rule
			if len(stack) >= 2 {
				if rs, ok := stack[len(stack)-2].(*ast.ReturnStmt); ok && len(rs.Results) == 2 && rs.Results[0] == ast.Expr(id) {
					if oid, isId := rs.Results[1].(*ast.Ident); isId && info.Uses[oid] == a.ok {
						return true
					}
				}
			}
			u := assertUse{pos: id.Pos(), v: a.v.Name(), ok: a.ok.Name()}
			if stable {
				u.guarded = okHolds(info, fd, stack, id, a.ok, epoch)
			}
			out = append(out, u)
			return true
		})
	}
	return out
}

func isNilIdent(e ast.Expr) bool {
	id, ok := ast.Unparen(e).(*ast.Ident)
	return ok && id.Name == "nil"
}

// okHolds: is the assertion's ok known to hold where the identifier use is evaluated?
func okHolds(info *types.Info, fd *ast.FuncDecl, stack []ast.Node, use *ast.Ident, okObj types.Object, epoch func(token.Pos) bool) bool {
	isOk := func(e ast.Expr) bool {
		id, ok := ast.Unparen(e).(*ast.Ident)
		return ok && info.Uses[id] == okObj && epoch(id.Pos())
	}
	// a conjunct to the left in an enclosing && chain
	for i := len(stack) - 2; i >= 0; i-- {
		be, ok := stack[i].(*ast.BinaryExpr)
		if !ok {
			if _, isExpr := stack[i].(ast.Expr); !isExpr {
				break
			}
			continue
		}
		if be.Op != token.LAND {
			continue
		}
		if be.Y.Pos() <= use.Pos() && use.Pos() < be.Y.End() {
			for _, cj := range conjuncts(be.X) {
				if isOk(cj) {
					return true
				}
			}
		}
	}
	// `!ok || use`: the right operand is evaluated only when ok holds
	for i := len(stack) - 2; i >= 0; i-- {
		be, ok := stack[i].(*ast.BinaryExpr)
		if !ok || be.Op != token.LOR {
			continue
		}
		if be.Y.Pos() <= use.Pos() && use.Pos() < be.Y.End() {
			for _, dj := range disjuncts(be.X) {
				if ue, ok := ast.Unparen(dj).(*ast.UnaryExpr); ok && ue.Op == token.NOT && isOk(ue.X) {
					return true
				}
			}
		}
	}
	// dominating facts, with ok rendered by a reserved name
	leaf := func(e ast.Expr) string {
		if isOk(e) {
			return "\x00ok"
		}
		return nospace(e)
	}
	for _, f := range factsAtLeaf(fd, use.Pos(), leaf) {
		for _, cj := range splitTop(f, "&&") {
			cj = strings.TrimSpace(cj)
			for strings.HasPrefix(cj, "(") && strings.HasSuffix(cj, ")") && balancedParens(cj[1:len(cj)-1]) {
				cj = cj[1 : len(cj)-1]
			}
			if cj == "\x00ok" {
				return true
			}
		}
	}
	return false
}

func conjuncts(e ast.Expr) []ast.Expr {
	e = ast.Unparen(e)
	if be, ok := e.(*ast.BinaryExpr); ok && be.Op == token.LAND {
		return append(conjuncts(be.X), conjuncts(be.Y)...)
	}
	return []ast.Expr{e}
}

func disjuncts(e ast.Expr) []ast.Expr {
	e = ast.Unparen(e)
	if be, ok := e.(*ast.BinaryExpr); ok && be.Op == token.LOR {
		return append(disjuncts(be.X), disjuncts(be.Y)...)
	}
	return []ast.Expr{e}
}

// assertionForwarders: the functions of the package whose whole body is `v, ok := <param>.(T); return v, ok`.
func assertionForwarders(info *types.Info, files []*ast.File) map[*types.Func]types.Type {
	out := map[*types.Func]types.Type{}
	for _, f := range files {
		for _, d := range f.Decls {
			fd, ok := d.(*ast.FuncDecl)
			if !ok || fd.Body == nil || fd.Recv != nil || len(fd.Body.List) != 2 {
				continue
			}
			as, ok1 := fd.Body.List[0].(*ast.AssignStmt)
			rs, ok2 := fd.Body.List[1].(*ast.ReturnStmt)
			if !ok1 || !ok2 || len(as.Lhs) != 2 || len(as.Rhs) != 1 || len(rs.Results) != 2 {
				continue
			}
			ta, ok := ast.Unparen(as.Rhs[0]).(*ast.TypeAssertExpr)
			if !ok || ta.Type == nil || nospace(as.Lhs[0]) != nospace(rs.Results[0]) || nospace(as.Lhs[1]) != nospace(rs.Results[1]) {
				continue
			}
			if fn, ok := info.Defs[fd.Name].(*types.Func); ok {
				out[fn] = info.TypeOf(ta.Type)
			}
		}
	}
	return out
}
