package rules

// C09-k — inlining keeps labels in their scope. A rule's labels live in the rule's own scope: the builder opens a
// scope per rule (writeRuleCode) and the runtime a frame per rule evaluation (parseRule). When -optimize-grammar replaces
// a reference by a clone of the rule's expression, a label the rule binds outside any action of its own lands in the
// scope of the referring rule: it shadows (or, before the repair of F30, duplicates) a label of the same name there and
// is handed to the referring rule's code blocks. `A <- x:C B { return x, nil }; B <- x:"b"; C <- "c"` returns "c"
// without the flag and "b" with it (finding F31).

import (
	"go/ast"
	"strings"

	"pigeonverif/internal/load"
)

func optimizerInlineKeepsLabelScope(c *Ctx, g *load.G, rule string) {
	r := c.R
	r.Rule(rule, "inlining keeps labels in their scope: on the path of optimizeRule that replaces a reference by a clone of the referenced rule's expression, a condition in force says that the expression binds no label of its own scope (a test through a function that looks for *LabeledExpr nodes), or the clone is wrapped in a node that opens a scope - otherwise the labels of the inlined rule shadow those of the referring rule and reach its code blocks")
	ap := g.Pkg("ast")
	fd := load.FuncDecl(ap, "grammarOptimizer", "optimizeRule")
	if fd == nil {
		r.Fatal("anchor ast.grammarOptimizer.optimizeRule not found")
		return
	}
	// functions of the package that look at label nodes
	looksAtLabels := map[string]bool{}
	for _, h := range load.AllFuncDecls(ap) {
		if h.Body == nil || h == fd || h.Name.Name == "cloneExpr" || h.Name.Name == "Walk" {
			continue
		}
		found := false
		ast.Inspect(h.Body, func(n ast.Node) bool {
			switch x := n.(type) {
			case *ast.TypeAssertExpr:
				if x.Type != nil && nospace(x.Type) == "*LabeledExpr" {
					found = true
				}
			case *ast.CaseClause:
				for _, e := range x.List {
					if nospace(e) == "*LabeledExpr" {
						found = true
					}
				}
			}
			return true
		})
		if found && h.Recv == nil {
			looksAtLabels[h.Name.Name] = true
		}
	}
	n := 0
	var bad []string
	for _, p := range c.astNorm().normPaths(fd) {
		ci := p.evIndex("call", 0, func(s string) bool { return strings.HasPrefix(s, "cloneExpr(") })
		if ci < 0 {
			continue
		}
		n++
		guarded := false
		for _, f := range p[:ci].facts() {
			for name := range looksAtLabels {
				if strings.Contains(f, name+"(") {
					guarded = true
				}
			}
		}
		// the clone handed back inside a scoping node
		for _, e := range p[ci:] {
			if e.Kind == "return" && (strings.Contains(e.Text, "&ActionExpr{") || strings.Contains(e.Text, "&LabeledExpr{")) {
				guarded = true
			}
		}
		if !guarded {
			bad = append(bad, "a reference is replaced by the bare clone of the rule's expression under ["+abbreviate(strings.Join(p[:ci].facts(), " "))+"]")
		}
	}
	if n == 0 {
		r.Unk(rule, "G.ast.optimizeRule:inlining-keeps-label-scope", "", g.Where(fd.Pos()), "no path of optimizeRule clones a rule")
		return
	}
	r.Check(len(bad) == 0, rule, "G.ast.optimizeRule:inlining-keeps-label-scope", "", g.Where(fd.Pos()), "a rule that binds labels in its own scope is not inlined bare",
		strings.Join(uniq(bad), "; ")+": nothing on the path looks for labels in the inlined expression, so a label bound by the inlined rule outside an action of its own enters the scope of the referring rule")
}
