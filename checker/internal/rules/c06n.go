package rules

// C06-n — a memo entry remembers the evaluation, not its context. The table is keyed by (expression, offset); visits
// that share a key differ in their context - the start of the enclosing rule, the labels earlier items of the sequence
// bound, the state store, the handlers in force. What an entry stores is therefore the outcome of the evaluation itself:
// the value and flag the evaluator returned and the position reached. A field filled from the variable stack, the state
// store, the rule stack, the recovery stack or the error list replays, on a hit, the context of the *first* visit over
// that of the current one (seed C06-agent20: a snapshot of the whole label frame stored with each entry and written
// back on a hit overwrites the labels the current pass has bound).

import (
	"fmt"
	"go/ast"
	"go/types"
	"strings"

	"pigeonverif/internal/variants"
)

func c06MemoEntryIsTheEvaluation(c *Ctx, v *variants.Variant) {
	r := c.R
	r.Rule("C06-n", "a memo entry remembers the evaluation, not its context: every value stored into a field of the memo tuple is a result of the evaluator call of the function (value, flag), the parser position or a savepoint, a constant, a field of another tuple, or a parameter - never something read from the variable stack, the state store, the rule, recovery or error lists, which differ between the visits that share the key (expression, offset)")
	if v.Pkg == nil {
		return
	}
	tupleObj := v.Pkg.Scope().Lookup("resultTuple")
	if tupleObj == nil {
		return // optimized variant without left recursion: no memo table
	}
	isTuple := func(t types.Type) bool {
		if t == nil {
			return false
		}
		if p, ok := t.(*types.Pointer); ok {
			t = p.Elem()
		}
		n, ok := t.(*types.Named)
		return ok && n.Obj() == tupleObj
	}
	n := 0
	var bad []string
	for _, fd := range v.Funcs() {
		if fd.Body == nil {
			continue
		}
		// results of evaluator calls and savepoints of this function
		fromEval := map[types.Object]bool{}
		ast.Inspect(fd.Body, func(nd ast.Node) bool {
			as, ok := nd.(*ast.AssignStmt)
			if !ok || len(as.Rhs) != 1 {
				return true
			}
			rhs := stripParens(as.Rhs[0])
			ok2 := false
			if ce, isCall := rhs.(*ast.CallExpr); isCall {
				switch callSel(ce) {
				case "parseExpr", "parseExprWrap", "parseRule", "parseRuleWrap", "parseRuleMemoize", "parseRuleRecursiveLeader", "getMemoized":
					ok2 = true
				}
			}
			if s := nospace(rhs); s == "p.pt" || strings.HasPrefix(s, "p.pt.") {
				ok2 = true
			}
			if ok2 {
				for _, l := range as.Lhs {
					if id, isId := l.(*ast.Ident); isId {
						if o := v.Info.ObjectOf(id); o != nil {
							fromEval[o] = true
						}
					}
				}
			}
			return true
		})
		allowed := func(e ast.Expr) bool {
			e = stripParens(e)
			if tv, ok := v.Info.Types[e]; ok && (tv.Value != nil || tv.IsNil()) {
				return true
			}
			switch x := e.(type) {
			case *ast.Ident:
				o := v.Info.ObjectOf(x)
				if o == nil {
					return false
				}
				if fromEval[o] || x.Name == "true" || x.Name == "false" || x.Name == "nil" {
					return true
				}
				// a parameter of the function, or a local that holds a tuple or a savepoint
				if vr, ok := o.(*types.Var); ok {
					if fd.Type.Params != nil {
						for _, f := range fd.Type.Params.List {
							for _, nm := range f.Names {
								if v.Info.ObjectOf(nm) == o {
									return true
								}
							}
						}
					}
					if isTuple(vr.Type()) || namedOf(vr.Type()) == "savepoint" {
						return true
					}
				}
			case *ast.SelectorExpr:
				if s := nospace(x); s == "p.pt" || strings.HasPrefix(s, "p.pt.") {
					return true
				}
				if isTuple(v.Info.TypeOf(x.X)) {
					return true
				}
			case *ast.CompositeLit:
				return isTuple(v.Info.TypeOf(x)) || namedOf(v.Info.TypeOf(x)) == "savepoint"
			}
			return false
		}
		ast.Inspect(fd.Body, func(nd ast.Node) bool {
			switch x := nd.(type) {
			case *ast.CompositeLit:
				if !isTuple(v.Info.TypeOf(x)) {
					return true
				}
				for _, el := range x.Elts {
					val := el
					if kv, ok := el.(*ast.KeyValueExpr); ok {
						val = kv.Value
					}
					n++
					if !allowed(val) {
						bad = append(bad, fmt.Sprintf("%s: %s stores %s in a memo tuple", v.Where(x.Pos()), fd.Name.Name, abbreviate(nospace(val))))
					}
				}
			case *ast.AssignStmt:
				for i, l := range x.Lhs {
					sel, ok := l.(*ast.SelectorExpr)
					if !ok || !isTuple(v.Info.TypeOf(sel.X)) || len(x.Lhs) != len(x.Rhs) {
						continue
					}
					n++
					if !allowed(x.Rhs[i]) {
						bad = append(bad, fmt.Sprintf("%s: %s stores %s in field %s of a memo tuple", v.Where(x.Pos()), fd.Name.Name, abbreviate(nospace(x.Rhs[i])), sel.Sel.Name))
					}
				}
			}
			return true
		})
	}
	if n == 0 {
		r.Ok("C06-n", "T.memo:entry-is-the-evaluation", v.Name, "builder/static_code.go", "this variant builds no memo tuple")
		return
	}
	r.Check(len(bad) == 0, "C06-n", "T.memo:entry-is-the-evaluation", v.Name, "builder/static_code.go", fmt.Sprintf("%d stores into memo tuples, each a result of the evaluation, a position, a constant or a copy", n),
		strings.Join(uniq(bad), "; ")+": on a memo hit the entry replays what it stored - taken from the context of the first visit, it overrides the labels, state or handlers of the current one, so Memoize changes what code blocks see")
}
