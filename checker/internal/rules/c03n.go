package rules

import (
	"fmt"
	"go/ast"
	"go/token"
	"go/types"
	"regexp"
	"sort"
	"strconv"
	"strings"

	"pigeonverif/internal/load"
)

// Rules about ast.CharClassMatcher.parse on normalised paths (nform.go): what one iteration of the reading loop does
// with the runes it reads, independently of how the loop is written (switch or if chain, helpers, variable names).

type classParse struct {
	fd        *ast.FuncDecl
	recv      string
	readLoop  *ast.ForStmt
	readFd    *ast.FuncDecl // the function that holds the reading loop (parse, or a helper it delegates to)
	extract   ast.Stmt      // the loop that separates single members from ranges (range or counted loop)
	extBody   []ast.Stmt
	extractFd *ast.FuncDecl
	classes   string // the container Unicode class names are appended to, as written in readFd's normal form
	extChars  string // the containers of the extraction loop that end up in recv.Chars / recv.Ranges
	extRanges string
	iter      []bpath // normalised paths of one iteration of the reading loop
	first     string  // text of the first rune read in an iteration
	second    string  // text of the rune read after a backslash
	chars     string  // the container plain members are appended to
}

var resReadRe = regexp.MustCompile(`^(nth\d+\()?res0\((\$\d+)\.ReadRune\(\)\)\)?$`)

// resultField: helper (called from parse, directly) delivers its i-th result into which field of the receiver?
// Returns, for the helper's own naming, local name -> receiver field.
func (cp *classParse) resultFields(g *load.G, helper *ast.FuncDecl) map[string]string {
	out := map[string]string{}
	if helper == cp.fd {
		return out
	}
	ap := g.Pkg("ast")
	// the call in parse and its targets
	var targets []string
	ast.Inspect(cp.fd.Body, func(n ast.Node) bool {
		as, ok := n.(*ast.AssignStmt)
		if !ok || len(as.Rhs) != 1 {
			return true
		}
		ce, ok := as.Rhs[0].(*ast.CallExpr)
		if !ok {
			return true
		}
		var id *ast.Ident
		switch f := ce.Fun.(type) {
		case *ast.Ident:
			id = f
		case *ast.SelectorExpr:
			id = f.Sel
		}
		if id == nil || ap.TypesInfo.Uses[id] != ap.TypesInfo.Defs[helper.Name] {
			return true
		}
		for _, l := range as.Lhs {
			targets = append(targets, nospace(l))
		}
		return true
	})
	// a local target that is stored into a field afterwards
	for i, tg := range targets {
		if strings.HasPrefix(tg, cp.recv+".") {
			targets[i] = strings.TrimPrefix(tg, cp.recv+".")
			continue
		}
		field := ""
		ast.Inspect(cp.fd.Body, func(n ast.Node) bool {
			if as, ok := n.(*ast.AssignStmt); ok && len(as.Lhs) == len(as.Rhs) {
				for k := range as.Lhs {
					if nospace(as.Rhs[k]) == tg && strings.HasPrefix(nospace(as.Lhs[k]), cp.recv+".") {
						field = strings.TrimPrefix(nospace(as.Lhs[k]), cp.recv+".")
					}
				}
			}
			return true
		})
		targets[i] = field
	}
	// the helper's results by position: named results, or the identifiers every return statement gives
	var names []string
	if helper.Type.Results != nil {
		for _, f := range helper.Type.Results.List {
			for _, nm := range f.Names {
				names = append(names, nm.Name)
			}
		}
	}
	if len(names) == 0 {
		for _, rs := range returnsOf(helper) {
			for i, rv := range rs.Results {
				for len(names) <= i {
					names = append(names, "")
				}
				if id, ok := rv.(*ast.Ident); ok {
					names[i] = id.Name
				}
			}
		}
	}
	for i, nm := range names {
		if i < len(targets) && nm != "" && targets[i] != "" {
			out[nm] = targets[i]
		}
	}
	return out
}

func (c *Ctx) classParse() *classParse {
	g := c.G()
	if g == nil {
		return nil
	}
	ap := g.Pkg("ast")
	fd := load.FuncDecl(ap, "CharClassMatcher", "parse")
	if fd == nil || fd.Body == nil {
		c.R.Fatal("anchor ast.CharClassMatcher.parse not found")
		return nil
	}
	cp := &classParse{fd: fd, recv: recvName(fd)}
	// the two loops, in parse or in the helpers it delegates to, in call order
	helpers := map[types.Object]*ast.FuncDecl{}
	for _, h := range withHelpers(ap, fd) {
		helpers[ap.TypesInfo.Defs[h.Name]] = h
	}
	var visit func(f *ast.FuncDecl, depth int)
	visit = func(f *ast.FuncDecl, depth int) {
		for _, st := range f.Body.List {
			if ls, ok := st.(*ast.LabeledStmt); ok {
				st = ls.Stmt
			}
			switch x := st.(type) {
			case *ast.ForStmt:
				reads := false
				for _, ce := range callsIn(x.Body) {
					if callSel(ce) == "ReadRune" {
						reads = true
					}
				}
				if x.Cond == nil && cp.readLoop == nil && reads {
					cp.readLoop, cp.readFd = x, f
					continue
				}
				if cp.readLoop != nil && x.Cond != nil {
					cp.extract, cp.extBody, cp.extractFd = x, x.Body.List, f
				}
				continue
			case *ast.RangeStmt:
				if cp.readLoop != nil {
					cp.extract, cp.extBody, cp.extractFd = x, x.Body.List, f
				}
				continue
			}
			if depth < 3 {
				// in evaluation order: an argument is computed before the call it is passed to
				calls := callsIn(st)
				sort.SliceStable(calls, func(i, j int) bool { return calls[i].End() < calls[j].End() })
				for _, ce := range calls {
					var id *ast.Ident
					switch fn := ce.Fun.(type) {
					case *ast.Ident:
						id = fn
					case *ast.SelectorExpr:
						id = fn.Sel
					}
					if id != nil {
						if h := helpers[ap.TypesInfo.Uses[id]]; h != nil && h != f {
							visit(h, depth+1)
						}
					}
				}
			}
		}
	}
	visit(fd, 0)
	if cp.readLoop == nil || cp.extract == nil {
		return cp
	}
	// the containers, in the naming of the function that holds each loop
	var readNames, extNames map[string]string
	cp.iter, readNames = c.astNorm().normBlockNamed(cp.readFd, cp.readLoop.Body.List)
	_, extNames = c.astNorm().normBlockNamed(cp.extractFd, cp.extBody)
	cp.classes = cp.recv + ".UnicodeClasses"
	for local, field := range cp.resultFields(g, cp.readFd) {
		if field == "UnicodeClasses" && readNames[local] != "" {
			cp.classes = readNames[local]
		}
	}
	cp.extChars, cp.extRanges = cp.recv+".Chars", cp.recv+".Ranges"
	for local, field := range cp.resultFields(g, cp.extractFd) {
		if extNames[local] == "" {
			continue
		}
		switch field {
		case "Chars":
			cp.extChars = extNames[local]
		case "Ranges":
			cp.extRanges = extNames[local]
		}
	}
	// carrier locals of the extraction function itself: members collected in locals that are stored into the node's
	// fields once the loop is done (`singles, ranges := c.Chars, c.Ranges; for … { … }; c.Chars, c.Ranges = singles, ranges`)
	ast.Inspect(cp.extractFd.Body, func(n ast.Node) bool {
		as, ok := n.(*ast.AssignStmt)
		if !ok || len(as.Lhs) != len(as.Rhs) || as.Pos() < cp.extract.End() {
			return true
		}
		for k := range as.Lhs {
			id, isLocal := as.Rhs[k].(*ast.Ident)
			if !isLocal || extNames[id.Name] == "" {
				continue
			}
			switch nospace(as.Lhs[k]) {
			case cp.recv + ".Chars":
				cp.extChars = extNames[id.Name]
			case cp.recv + ".Ranges":
				cp.extRanges = extNames[id.Name]
			}
		}
		return true
	})
	// the first rune: the value of the first ReadRune of the iteration; the escape letter: the second one, read under
	// first == '\\'; the members' container: where a non-backslash first rune is appended
	for _, p := range cp.iter {
		for _, e := range p {
			if e.Kind == "set" {
				if i := strings.Index(e.Text, "="); i > 0 && resReadRe.MatchString(e.Text[i+1:]) {
					v := e.Text[i+1:]
					if cp.first == "" && !strings.HasPrefix(v, "nth") {
						cp.first = v
					}
					if cp.second == "" && strings.HasPrefix(v, "nth2(") {
						cp.second = v
					}
				}
			}
		}
	}
	for _, p := range cp.iter {
		if cp.first != "" && p.holds(cp.first+`!='\\'`) {
			for _, e := range p {
				if e.Kind == "set" && strings.HasSuffix(e.Text, ","+cp.first+")") && strings.Contains(e.Text, "=append(") {
					cp.chars = e.Text[:strings.Index(e.Text, "=")]
				}
			}
		}
	}
	return cp
}

// escapePaths: the iteration paths taken for the escape letter ch (after a backslash).
func (cp *classParse) escapePaths(ch string) []bpath {
	var out []bpath
	lit := "'" + ch + "'"
	if ch == "\\" {
		lit = `'\\'`
	}
	for _, p := range cp.iter {
		if !p.holds(cp.first + `=='\\'`) {
			continue
		}
		for _, f := range p.facts() {
			// the fact selecting this letter: second == 'ch', alone or as one disjunct of a case list
			for _, d := range splitTop(f, "||") {
				if d == cp.second+"=="+lit {
					out = append(out, p)
				}
			}
		}
	}
	return out
}

func (p bpath) countSets(prefix string) int {
	n := 0
	for _, e := range p {
		if e.Kind == "set" && strings.HasPrefix(e.Text, prefix) {
			n++
		}
	}
	return n
}

func (p bpath) hasCall(prefix string) bool {
	for _, e := range p {
		if (e.Kind == "call" || e.Kind == "ccall") && strings.HasPrefix(e.Text, prefix) {
			return true
		}
	}
	return false
}

var forHdrRe = regexp.MustCompile(`^for ;(\$\d+)(<|>|<=|>=)(\$\d+|\d+);(\$\d+)(\+\+|--)$`)

// loopCounts returns the iteration counts of the counting loops on the path (`for v := a; v < b; v++` and
// `for v := a; v > b; v--`, bounds read from the values last set before the loop).
func loopCounts(p bpath) []int {
	var out []int
	val := func(name string, before int) (int, bool) {
		if n, err := strconv.Atoi(name); err == nil {
			return n, true
		}
		for i := before - 1; i >= 0; i-- {
			if p[i].Kind == "set" && strings.HasPrefix(p[i].Text, name+"=") {
				n, err := strconv.Atoi(strings.Trim(strings.TrimPrefix(p[i].Text, name+"="), "()"))
				return n, err == nil
			}
		}
		return 0, false
	}
	for i, e := range p {
		if e.Kind != "loop" {
			continue
		}
		// `for range n` over an integer: n iterations
		if rest := strings.TrimPrefix(e.Text, "range "); rest != e.Text {
			rest = strings.Trim(rest, "()")
			if n, ok := val(rest, i); ok && (dollarRe.FindString(rest) == rest || isDigits(rest)) {
				out = append(out, n)
			}
			continue
		}
		m := forHdrRe.FindStringSubmatch(e.Text)
		if m == nil || m[1] != m[4] {
			continue
		}
		a, ok1 := val(m[1], i)
		b, ok2 := val(m[3], i)
		if !ok1 || !ok2 {
			continue
		}
		switch {
		case m[2] == "<" && m[5] == "++":
			out = append(out, b-a)
		case m[2] == "<=" && m[5] == "++":
			out = append(out, b-a+1)
		case m[2] == ">" && m[5] == "--":
			out = append(out, a-b)
		case m[2] == ">=" && m[5] == "--":
			out = append(out, a-b+1)
		}
	}
	return out
}

// classEscapeOwnCase (C03-c): the class-specific escape \ch is decoded to the character itself: the iteration that
// reads it stores exactly that rune and does not hand it to strconv.UnquoteChar.
func classEscapeOwnCase(c *Ctx, ch string) (bool, string) {
	cp := c.classParse()
	if cp == nil || cp.first == "" || cp.second == "" || cp.chars == "" {
		return false, "the reading loop of CharClassMatcher.parse was not recognised (first rune, escape letter, member list)"
	}
	ps := cp.escapePaths(ch)
	if len(ps) == 0 {
		return false, "the grammar accepts the class escape \\" + ch + " but parse() has no case appending that character: it falls to strconv.UnquoteChar, which rejects it and yields U+0000"
	}
	for _, p := range ps {
		if p.hasCall("strconv.UnquoteChar(") {
			return false, "the class escape \\" + ch + " is handed to strconv.UnquoteChar, which rejects it and yields U+0000"
		}
		if p.countSets(cp.chars+"=append("+cp.chars+","+cp.second+")") != 1 || p.countSets(cp.chars+"=append(") != 1 {
			return false, "the class escape \\" + ch + " does not store exactly the escaped character"
		}
	}
	return true, ""
}

// classEscapeDigits (C03-c): number of further runes consumed after the escape letter.
func classEscapeDigits(c *Ctx, letter string) (int, bool) {
	cp := c.classParse()
	if cp == nil || cp.second == "" {
		return 0, false
	}
	ps := cp.escapePaths(letter)
	if len(ps) == 0 {
		return 0, false
	}
	got := -1
	for _, p := range ps {
		cs := loopCounts(p)
		if len(cs) != 1 {
			return 0, false
		}
		if got >= 0 && got != cs[0] {
			return 0, false
		}
		got = cs[0]
	}
	return got, true
}

// classKeepsEveryRuneN (C03-e / C17-e).
func classKeepsEveryRuneN(c *Ctx, rule string) {
	r := c.R
	g := c.G()
	cp := c.classParse()
	if cp == nil {
		return
	}
	if cp.readLoop == nil || cp.extract == nil {
		r.Unk(rule, "G.ast.CharClassMatcher.parse:loops", "", g.Where(cp.fd.Pos()), "reading loop or extraction loop not found")
		return
	}
	var bad []string
	n := 0
	for _, p := range cp.iter {
		// an iteration that could not read a rune leaves the loop
		gotRune := true
		for _, f := range p.facts() {
			if strings.Contains(f, "res2(") && strings.HasSuffix(f, "!=nil") && !strings.Contains(f, "||") && !strings.Contains(f, "nth") {
				gotRune = false
			}
		}
		if !gotRune {
			continue
		}
		n++
		k := 0
		for _, e := range p {
			if e.Kind == "set" && (strings.Contains(e.Text, "=append(") && (cp.chars != "" && strings.HasPrefix(e.Text, cp.chars+"=append(") || strings.HasPrefix(e.Text, cp.classes+"=append("))) {
				k++
			}
		}
		switch {
		case k == 0:
			bad = append(bad, "an iteration that read a rune stores nothing on the path ["+abbreviate(strings.Join(p.facts(), " "))+"]: that member is silently dropped from the class")
		case k != 1:
			bad = append(bad, fmt.Sprintf("one member of the class text stores %d members on the path [%s]: the class gains a member that was not written", k, abbreviate(strings.Join(p.facts(), " "))))
		}
	}
	if n == 0 {
		bad = append(bad, "no path of the reading loop analysed")
	}
	r.Check(len(bad) == 0, rule, "G.ast.CharClassMatcher.parse:reading-loop-keeps-every-rune", "", g.Where(cp.readLoop.Pos()), fmt.Sprintf("%d paths, each stores exactly one member", n), strings.Join(uniq(bad), "; "))
	// scratch accumulators (a bytes.Buffer or strings.Builder that collects the runes of one member): what an iteration
	// reads back from one must be what that iteration wrote, not what an earlier member left behind
	nobj, sbad := scratchBuffersClean(cp.iter)
	r.Check(len(sbad) == 0, rule, "G.ast.CharClassMatcher.parse:scratch-buffer-clean-per-member", "", g.Where(cp.readLoop.Pos()), fmt.Sprintf("%d scratch buffers over %d iteration paths: each is reset (or new) before the first write of an iteration, or left reset by every iteration", nobj, len(cp.iter)), strings.Join(uniq(sbad), "; "))
	bad = nil
	paths := c.astNorm().normBlock(cp.extractFd, cp.extBody)
	for _, p := range paths {
		if p.countSets(cp.extChars+"=append(")+p.countSets(cp.extRanges+"=append(") == 0 {
			bad = append(bad, "the extraction loop stores nothing on the path ["+strings.Join(p.facts(), " ")+"]")
		}
	}
	r.Check(len(bad) == 0 && len(paths) > 0, rule, "G.ast.CharClassMatcher.parse:extraction-loop-keeps-every-rune", "", g.Where(cp.extract.Pos()), fmt.Sprintf("%d paths, each appends to Chars or Ranges", len(paths)), strings.Join(uniq(bad), "; "))
}

// classFlagsN: IgnoreCase is exactly "the text ends in i"; Inverted tests the first character after the brackets
// (and the i suffix, when present) were removed; both unconditionally.
func classFlagsN(c *Ctx, rule string) {
	r := c.R
	g := c.G()
	cp := c.classParse()
	if cp == nil {
		return
	}
	paths := c.astNorm().normPaths(cp.fd)
	var bad []string
	val := cp.recv + ".Val"
	// "the text ends in i", in either spelling
	suffixForms := []string{`strings.HasSuffix(` + val + `,"i")`, "len(" + val + ")>0&&" + val + "[len(" + val + ")-1]=='i'", `res1(strings.CutSuffix(` + val + `,"i"))`}
	isSuffix := func(s string) bool { return s == suffixForms[0] || s == suffixForms[1] || s == suffixForms[2] }
	// the text without the suffix, computed in one step
	trimmed := []string{`res0(strings.CutSuffix(` + val + `,"i"))`, `strings.TrimSuffix(` + val + `,"i")`}
	saysSuffix := func(p bpath, neg bool) bool {
		for _, f := range p.facts() {
			for _, sf := range suffixForms {
				if f == canonText(sf, neg) {
					return true
				}
			}
		}
		return false
	}
	for _, p := range paths {
		ic, i1 := lastSet(p, cp.recv+".IgnoreCase")
		if i1 < 0 || !isSuffix(ic) {
			bad = append(bad, "IgnoreCase is "+ic+", expected strings.HasSuffix("+val+`,"i")`)
			continue
		}
		// every path stores the test itself (a path that skipped the store was reported above): the flag depends on
		// nothing else
		inv, i2 := lastSet(p, cp.recv+".Inverted")
		// the text whose first character is tested: Val without the i suffix (iff IgnoreCase) and without the brackets
		base := val
		if p.holds(cp.recv+".IgnoreCase") || saysSuffix(p, false) {
			base = "(" + val + "[:len(" + val + ")-1])"
		}
		want1 := base + "[1:len(" + base + ")-1]"
		wantInv := "(" + want1 + ")[0]=='^'"
		empty := p.holds("len(" + minParens(want1) + ")==0")
		// the same with the suffix removed by one library call (no branch on the suffix)
		if !p.holds(cp.recv+".IgnoreCase") && !saysSuffix(p, false) && !saysSuffix(p, true) && !p.holds("!"+cp.recv+".IgnoreCase") {
			for _, tr := range trimmed {
				w1 := tr + "[1:len(" + tr + ")-1]"
				if strings.Contains(inv, tr) || p.holds("len("+w1+")==0") || p.holds("len("+w1+")>0") {
					want1 = w1
					wantInv = w1 + "[0]=='^'"
					empty = p.holds("len(" + w1 + ")==0")
				}
			}
		}
		if i2 < 0 {
			if !empty {
				bad = append(bad, "Inverted is not set on a path with a non-empty class text ["+abbreviate(strings.Join(p.facts(), " "))+"]")
			}
			continue // the class text ended before (empty class): nothing to invert
		}
		// "starts with ^", by the library: the prefix test (which is false for the empty text, so no emptiness test is needed)
		w1 := minParens(want1)
		byLib := inv == `res1(strings.CutPrefix(`+w1+`,"^"))` || inv == `strings.HasPrefix(`+w1+`,"^")`
		if !(minParens(inv) == minParens(wantInv) || (inv == "false" && empty) || byLib) {
			bad = append(bad, "Inverted is "+abbreviate(inv)+", expected the test of the first character after the brackets ("+wantInv+")")
		}
	}
	if len(paths) == 0 {
		bad = append(bad, "no paths")
	}
	r.Check(len(bad) == 0, rule, "G.ast.CharClassMatcher.parse:i-suffix-and-^-prefix", "", g.Where(cp.fd.Pos()), "IgnoreCase = has suffix i; Inverted = starts with ^ (after removing the brackets)", strings.Join(uniq(bad), "; "))
}

func isDigits(s string) bool {
	if s == "" {
		return false
	}
	for _, r := range s {
		if r < '0' || r > '9' {
			return false
		}
	}
	return true
}

var bufCallRe = regexp.MustCompile(`^((?:\$\d+|[A-Za-z_]\w*)(?:\.[A-Za-z_]\w*)*)\.(Reset|Truncate|Write|WriteRune|WriteString|WriteByte|String|Bytes|Len)\((.*)\)$`)

// scratchBuffersClean: over the paths of one loop iteration, every buffer object (receiver of Write* calls) that is
// read back (String/Bytes) is clean when the iteration starts writing to it: either the path resets it (Reset,
// Truncate(0)) or declares it before its first write, or every iteration path leaves it reset (then it is clean at the
// start of every iteration, by induction from the empty buffer declared before the loop).
func scratchBuffersClean(iter []bpath) (int, []string) {
	type use struct {
		needsClean bool // first write/read of the path comes before any reset
		endsClean  bool // last event of the buffer on the path is a reset (or the path does not touch it)
		where      string
	}
	objs := map[string]bool{}
	for _, p := range iter {
		for _, e := range p {
			if e.Kind == "call" {
				if m := bufCallRe.FindStringSubmatch(e.Text); m != nil && strings.HasPrefix(m[2], "Write") {
					objs[m[1]] = true
				}
			}
		}
	}
	var bad []string
	var names []string
	for o := range objs {
		names = append(names, o)
	}
	sort.Strings(names)
	n := 0
	for _, o := range names {
		var uses []use
		read := false
		for _, p := range iter {
			u := use{endsClean: true}
			clean, touched := false, false
			for _, e := range p {
				switch e.Kind {
				case "set":
					if strings.HasPrefix(e.Text, o+"=") {
						clean, touched = true, false
						u.endsClean = true
					}
				case "call":
					m := bufCallRe.FindStringSubmatch(e.Text)
					if m == nil || m[1] != o {
						continue
					}
					switch {
					case m[2] == "Reset", m[2] == "Truncate" && m[3] == "0":
						clean = true
						u.endsClean = true
					case m[2] == "Len":
					default:
						if m[2] == "String" || m[2] == "Bytes" {
							read = true
						}
						if !clean && !touched {
							u.needsClean = true
							u.where = abbreviate(strings.Join(p.facts(), " "))
						}
						if strings.HasPrefix(m[2], "Write") {
							touched = true
							u.endsClean = false
						}
					}
				}
			}
			uses = append(uses, u)
		}
		if !read {
			continue // written only (an output stream, not a scratch accumulator read back by the loop)
		}
		n++
		allEndClean := true
		for _, u := range uses {
			if !u.endsClean {
				allEndClean = false
			}
		}
		if allEndClean {
			continue
		}
		for _, u := range uses {
			if u.needsClean {
				bad = append(bad, "buffer "+o+" is written and read back on the path ["+u.where+"] without being reset first, and other iterations leave their runes in it: the member read there begins with the leftovers of an earlier escape")
			}
		}
	}
	return n, bad
}

// classDashN (C03-k): in the extraction loop a dash opens a range exactly when a member precedes it and a member
// follows it in the list being walked - `[a-]`, `[-a]` and `[\\pL_-]` keep the dash as a plain member. The list walked
// is the decoded member list; a bound taken from anything else (the class text, whose escapes and non-ASCII members
// are longer than one element) moves the last-position test.
func classDashN(c *Ctx, rule string) {
	r := c.R
	g := c.G()
	cp := c.classParse()
	if cp == nil || cp.extract == nil {
		return
	}
	paths, names := c.astNorm().normBlockNamed(cp.extractFd, cp.extBody)
	named := func(e ast.Expr) string {
		if id, isId := e.(*ast.Ident); isId && names[id.Name] != "" {
			return names[id.Name]
		}
		return nospace(e)
	}
	// the list walked and the position in it: a range loop (position #1) or an index loop `for i := …; i < len(L); i++`
	list, idx := "", ""
	switch x := cp.extract.(type) {
	case *ast.RangeStmt:
		list, idx = named(x.X), "#1"
	case *ast.ForStmt:
		if be, ok := x.Cond.(*ast.BinaryExpr); ok && be.Op == token.LSS {
			if ce, ok := be.Y.(*ast.CallExpr); ok && callName(ce) == "len" && len(ce.Args) == 1 {
				// the counter of such a loop is the position #1 in the normal form, as for a range loop
				list, idx = named(ce.Args[0]), "#1"
			}
		}
	}
	if list == "" || idx == "" {
		r.Unk(rule, "G.ast.CharClassMatcher.parse:dash-opens-a-range-only-between-members", "", g.Where(cp.extract.Pos()), "the extraction loop is neither a range loop over the member list nor an index loop bounded by its length")
		return
	}
	elem := list + "[" + idx + "]"
	notLast := map[string]bool{idx + "<len(" + list + ")-1": true, idx + "+1<len(" + list + ")": true, idx + "!=len(" + list + ")-1": true, idx + "+1!=len(" + list + ")": true}
	// the locals the loop updates where it appends to the range list (the "just closed a range" flag of the state
	// machine, or an index of the last range end): an opening path must consult one of them - a dash directly after a
	// range would otherwise take the member *before* that range as the low end of a new one ([_a-z-.])
	dollar := regexp.MustCompile(`\$\d+`)
	rangeLocals := map[string]bool{}
	for _, p := range paths {
		appends := false
		for _, e := range p {
			if e.Kind == "set" && strings.HasPrefix(e.Text, cp.extRanges+"=append(") {
				appends = true
			}
		}
		if !appends {
			continue
		}
		for _, e := range p {
			if e.Kind == "set" {
				if k := strings.Index(e.Text, "="); k > 0 && dollar.MatchString(e.Text[:k]) && dollar.FindString(e.Text[:k]) == e.Text[:k] {
					rangeLocals[e.Text[:k]] = true
				}
			}
		}
	}
	delete(rangeLocals, list)
	delete(rangeLocals, cp.extChars)
	delete(rangeLocals, cp.extRanges)
	var bad []string
	n := 0
	for _, p := range paths {
		// a path that opens a range: it moves the last plain member into the range list
		// (it appends to the range list and takes the last plain member back out of the plain list)
		appends, shortens := false, false
		for _, e := range p {
			if e.Kind != "set" {
				continue
			}
			if strings.HasPrefix(e.Text, cp.extRanges+"=append(") {
				appends = true
			}
			if strings.HasPrefix(e.Text, cp.extChars+"="+cp.extChars+"[:") {
				shortens = true
			}
		}
		opens := appends && shortens
		if !opens {
			continue
		}
		n++
		dash, last, some := false, false, false
		for _, f := range p.facts() {
			switch {
			case f == elem+"=='-'":
				dash = true
			case notLast[f]:
				last = true
			case f == "len("+cp.extChars+")>0" || f == "len("+cp.extChars+")!=0" || f == "len("+cp.extChars+")>=1":
				some = true
			case strings.HasPrefix(f, "$") || strings.HasPrefix(f, "!$"):
				// the state flags of the loop (inside a range, just closed a range)
			case strings.HasPrefix(f, idx+"<") || strings.HasPrefix(f, idx+"+1<") || strings.HasPrefix(f, idx+"!=") || strings.HasPrefix(f, idx+"+1!="):
				bad = append(bad, "a range is opened under `"+f+"`: the last-position test of a dash must be taken against the list being walked ("+list+"), whose elements are the decoded members")
			default:
				bad = append(bad, "a range is opened under the further condition `"+f+"`")
			}
		}
		afterRange := false
		for _, f := range p.facts() {
			for _, tok := range dollar.FindAllString(f, -1) {
				if rangeLocals[tok] {
					afterRange = true
				}
			}
		}
		if !afterRange {
			bad = append(bad, "a range is opened without consulting what the loop records when it completes a range: a dash directly after a range takes the member before that range as the low end of a new one ([_a-z-.] reads as the range '_'-'.')")
		}
		if !dash {
			bad = append(bad, "a range is opened by a member that is not tested to be a dash")
		}
		if !last {
			bad = append(bad, "a range is opened without the test that a member follows the dash in "+list+" (a trailing dash is a plain member)")
		}
		if !some {
			bad = append(bad, "a range is opened without the test that a plain member precedes the dash")
		}
	}
	if n == 0 {
		bad = append(bad, "no path of the extraction loop opens a range")
	}
	r.Check(len(bad) == 0, rule, "G.ast.CharClassMatcher.parse:dash-opens-a-range-only-between-members", "", g.Where(cp.extract.Pos()), fmt.Sprintf("%d range-opening paths: member is '-', a plain member precedes, a member follows in %s", n, list), strings.Join(uniq(bad), "; "))
}
