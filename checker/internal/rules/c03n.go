package rules

import (
	"fmt"
	"go/ast"
	"regexp"
	"strconv"
	"strings"

	"pigeonverif/internal/load"
)

// Rules about ast.CharClassMatcher.parse on normalised paths (nform.go): what one iteration of the reading loop does
// with the runes it reads, independently of how the loop is written (switch or if chain, helpers, variable names).

type classParse struct {
	fd       *ast.FuncDecl
	recv     string
	readLoop *ast.ForStmt
	extract  *ast.RangeStmt
	iter     []bpath // normalised paths of one iteration of the reading loop
	first    string  // text of the first rune read in an iteration
	second   string  // text of the rune read after a backslash
	chars    string  // the container plain members are appended to
}

var resReadRe = regexp.MustCompile(`^(nth\d+\()?res0\((\$\d+)\.ReadRune\(\)\)\)?$`)

func (c *Ctx) classParse() *classParse {
	g := c.G()
	if g == nil {
		return nil
	}
	fd := load.FuncDecl(g.Pkg("ast"), "CharClassMatcher", "parse")
	if fd == nil || fd.Body == nil {
		c.R.Fatal("anchor ast.CharClassMatcher.parse not found")
		return nil
	}
	cp := &classParse{fd: fd, recv: recvName(fd)}
	for _, st := range fd.Body.List {
		if ls, ok := st.(*ast.LabeledStmt); ok {
			st = ls.Stmt
		}
		switch x := st.(type) {
		case *ast.ForStmt:
			if x.Cond == nil && cp.readLoop == nil {
				cp.readLoop = x
			}
		case *ast.RangeStmt:
			cp.extract = x
		}
	}
	if cp.readLoop == nil || cp.extract == nil {
		return cp
	}
	cp.iter = c.astNorm().normBlock(fd, cp.readLoop.Body.List)
	// the first rune: the value of the first ReadRune of the iteration; the escape letter: the second one, read under
	// first == '\\'; the members' container: where a non-backslash first rune is appended
	for _, p := range cp.iter {
		for _, e := range p {
			if e.Kind == "set" {
				if i := strings.Index(e.Text, "="); i > 0 && resReadRe.MatchString(e.Text[i+1:]) {
					v := e.Text[i+1:]
					if cp.first == "" && !strings.HasPrefix(v, "nth") {
						cp.first = v
					}
					if cp.second == "" && strings.HasPrefix(v, "nth2(") {
						cp.second = v
					}
				}
			}
		}
	}
	for _, p := range cp.iter {
		if cp.first != "" && p.holds(cp.first+`!='\\'`) {
			for _, e := range p {
				if e.Kind == "set" && strings.HasSuffix(e.Text, ","+cp.first+")") && strings.Contains(e.Text, "=append(") {
					cp.chars = e.Text[:strings.Index(e.Text, "=")]
				}
			}
		}
	}
	return cp
}

// escapePaths: the iteration paths taken for the escape letter ch (after a backslash).
func (cp *classParse) escapePaths(ch string) []bpath {
	var out []bpath
	lit := "'" + ch + "'"
	if ch == "\\" {
		lit = `'\\'`
	}
	for _, p := range cp.iter {
		if !p.holds(cp.first + `=='\\'`) {
			continue
		}
		for _, f := range p.facts() {
			// the fact selecting this letter: second == 'ch', alone or as one disjunct of a case list
			for _, d := range splitTop(f, "||") {
				if d == cp.second+"=="+lit {
					out = append(out, p)
				}
			}
		}
	}
	return out
}

func (p bpath) countSets(prefix string) int {
	n := 0
	for _, e := range p {
		if e.Kind == "set" && strings.HasPrefix(e.Text, prefix) {
			n++
		}
	}
	return n
}

func (p bpath) hasCall(prefix string) bool {
	for _, e := range p {
		if (e.Kind == "call" || e.Kind == "ccall") && strings.HasPrefix(e.Text, prefix) {
			return true
		}
	}
	return false
}

var forHdrRe = regexp.MustCompile(`^for ;(\$\d+)(<|>|<=|>=)(\$\d+|\d+);(\$\d+)(\+\+|--)$`)

// loopCounts returns the iteration counts of the counting loops on the path (`for v := a; v < b; v++` and
// `for v := a; v > b; v--`, bounds read from the values last set before the loop).
func loopCounts(p bpath) []int {
	var out []int
	val := func(name string, before int) (int, bool) {
		if n, err := strconv.Atoi(name); err == nil {
			return n, true
		}
		for i := before - 1; i >= 0; i-- {
			if p[i].Kind == "set" && strings.HasPrefix(p[i].Text, name+"=") {
				n, err := strconv.Atoi(strings.Trim(strings.TrimPrefix(p[i].Text, name+"="), "()"))
				return n, err == nil
			}
		}
		return 0, false
	}
	for i, e := range p {
		if e.Kind != "loop" {
			continue
		}
		m := forHdrRe.FindStringSubmatch(e.Text)
		if m == nil || m[1] != m[4] {
			continue
		}
		a, ok1 := val(m[1], i)
		b, ok2 := val(m[3], i)
		if !ok1 || !ok2 {
			continue
		}
		switch {
		case m[2] == "<" && m[5] == "++":
			out = append(out, b-a)
		case m[2] == "<=" && m[5] == "++":
			out = append(out, b-a+1)
		case m[2] == ">" && m[5] == "--":
			out = append(out, a-b)
		case m[2] == ">=" && m[5] == "--":
			out = append(out, a-b+1)
		}
	}
	return out
}

// classEscapeOwnCase (C03-c): the class-specific escape \ch is decoded to the character itself: the iteration that
// reads it stores exactly that rune and does not hand it to strconv.UnquoteChar.
func classEscapeOwnCase(c *Ctx, ch string) (bool, string) {
	cp := c.classParse()
	if cp == nil || cp.first == "" || cp.second == "" || cp.chars == "" {
		return false, "the reading loop of CharClassMatcher.parse was not recognised (first rune, escape letter, member list)"
	}
	ps := cp.escapePaths(ch)
	if len(ps) == 0 {
		return false, "the grammar accepts the class escape \\" + ch + " but parse() has no case appending that character: it falls to strconv.UnquoteChar, which rejects it and yields U+0000"
	}
	for _, p := range ps {
		if p.hasCall("strconv.UnquoteChar(") {
			return false, "the class escape \\" + ch + " is handed to strconv.UnquoteChar, which rejects it and yields U+0000"
		}
		if p.countSets(cp.chars+"=append("+cp.chars+","+cp.second+")") != 1 || p.countSets(cp.chars+"=append(") != 1 {
			return false, "the class escape \\" + ch + " does not store exactly the escaped character"
		}
	}
	return true, ""
}

// classEscapeDigits (C03-c): number of further runes consumed after the escape letter.
func classEscapeDigits(c *Ctx, letter string) (int, bool) {
	cp := c.classParse()
	if cp == nil || cp.second == "" {
		return 0, false
	}
	ps := cp.escapePaths(letter)
	if len(ps) == 0 {
		return 0, false
	}
	got := -1
	for _, p := range ps {
		cs := loopCounts(p)
		if len(cs) != 1 {
			return 0, false
		}
		if got >= 0 && got != cs[0] {
			return 0, false
		}
		got = cs[0]
	}
	return got, true
}

// classKeepsEveryRuneN (C03-e / C17-e).
func classKeepsEveryRuneN(c *Ctx, rule string) {
	r := c.R
	g := c.G()
	cp := c.classParse()
	if cp == nil {
		return
	}
	if cp.readLoop == nil || cp.extract == nil {
		r.Unk(rule, "G.ast.CharClassMatcher.parse:loops", "", g.Where(cp.fd.Pos()), "reading loop or extraction loop not found")
		return
	}
	var bad []string
	n := 0
	for _, p := range cp.iter {
		// an iteration that could not read a rune leaves the loop
		gotRune := true
		for _, f := range p.facts() {
			if strings.Contains(f, "res2(") && strings.HasSuffix(f, "!=nil") && !strings.Contains(f, "||") && !strings.Contains(f, "nth") {
				gotRune = false
			}
		}
		if !gotRune {
			continue
		}
		n++
		k := 0
		for _, e := range p {
			if e.Kind == "set" && (strings.Contains(e.Text, "=append(") && (cp.chars != "" && strings.HasPrefix(e.Text, cp.chars+"=append(") || strings.HasPrefix(e.Text, cp.recv+".UnicodeClasses=append("))) {
				k++
			}
		}
		switch {
		case k == 0:
			bad = append(bad, "an iteration that read a rune stores nothing on the path ["+abbreviate(strings.Join(p.facts(), " "))+"]: that member is silently dropped from the class")
		case k != 1:
			bad = append(bad, fmt.Sprintf("one member of the class text stores %d members on the path [%s]: the class gains a member that was not written", k, abbreviate(strings.Join(p.facts(), " "))))
		}
	}
	if n == 0 {
		bad = append(bad, "no path of the reading loop analysed")
	}
	r.Check(len(bad) == 0, rule, "G.ast.CharClassMatcher.parse:reading-loop-keeps-every-rune", "", g.Where(cp.readLoop.Pos()), fmt.Sprintf("%d paths, each stores exactly one member", n), strings.Join(uniq(bad), "; "))
	bad = nil
	paths := c.astNorm().normBlock(cp.fd, cp.extract.Body.List)
	for _, p := range paths {
		if p.countSets(cp.recv+".Chars=append(")+p.countSets(cp.recv+".Ranges=append(") == 0 {
			bad = append(bad, "the extraction loop stores nothing on the path ["+strings.Join(p.facts(), " ")+"]")
		}
	}
	r.Check(len(bad) == 0 && len(paths) > 0, rule, "G.ast.CharClassMatcher.parse:extraction-loop-keeps-every-rune", "", g.Where(cp.extract.Pos()), fmt.Sprintf("%d paths, each appends to Chars or Ranges", len(paths)), strings.Join(uniq(bad), "; "))
}

// classFlagsN: IgnoreCase is exactly "the text ends in i"; Inverted tests the first character after the brackets
// (and the i suffix, when present) were removed; both unconditionally.
func classFlagsN(c *Ctx, rule string) {
	r := c.R
	g := c.G()
	cp := c.classParse()
	if cp == nil {
		return
	}
	paths := c.astNorm().normPaths(cp.fd)
	var bad []string
	val := cp.recv + ".Val"
	for _, p := range paths {
		ic, i1 := lastSet(p, cp.recv+".IgnoreCase")
		if i1 < 0 || ic != `strings.HasSuffix(`+val+`,"i")` {
			bad = append(bad, "IgnoreCase is "+ic+", expected strings.HasSuffix("+val+`,"i")`)
			continue
		}
		for _, f := range p[:i1].facts() {
			bad = append(bad, "IgnoreCase is set only under `"+f+"`")
		}
		inv, i2 := lastSet(p, cp.recv+".Inverted")
		if i2 < 0 {
			continue // the class text ended before (empty class): nothing to invert
		}
		// the text whose first character is tested: Val without the i suffix (iff IgnoreCase) and without the brackets
		base := val
		if p.holds(cp.recv+".IgnoreCase") || p.holds(`strings.HasSuffix(`+val+`,"i")`) {
			base = "(" + val + "[:len(" + val + ")-1])"
		}
		want1 := base + "[1:len(" + base + ")-1]"
		wantInv := "(" + want1 + ")[0]=='^'"
		if minParens(inv) != minParens(wantInv) {
			bad = append(bad, "Inverted is "+abbreviate(inv)+", expected the test of the first character after the brackets ("+wantInv+")")
		}
		for _, f := range p[:i2].facts() {
			okf := f == cp.recv+".IgnoreCase" || f == "!"+cp.recv+".IgnoreCase" || strings.HasPrefix(f, "len(") && strings.HasSuffix(f, ">0") ||
				f == `strings.HasSuffix(`+val+`,"i")` || f == `!strings.HasSuffix(`+val+`,"i")`
			if !okf {
				bad = append(bad, "Inverted is set only under `"+abbreviate(f)+"`")
			}
		}
	}
	if len(paths) == 0 {
		bad = append(bad, "no paths")
	}
	r.Check(len(bad) == 0, rule, "G.ast.CharClassMatcher.parse:i-suffix-and-^-prefix", "", g.Where(cp.fd.Pos()), "IgnoreCase = has suffix i; Inverted = starts with ^ (after removing the brackets)", strings.Join(uniq(bad), "; "))
}
