package rules

import (
	"fmt"
	"go/ast"
	"sort"
	"strings"
)

// Two versions of a function are equivalent in normal form when, for every assignment of truth values to the
// conditions they test, each has exactly one path and the two paths perform the same events (calls, stores, loops,
// returns) in the same order. This is how "an if-else chain" and "a condition switch with the cases in another order"
// are recognised as the same decision.
func funcsEquivalentNF(a, b *ast.FuncDecl) (bool, string) {
	if a == nil || b == nil || a.Body == nil || b.Body == nil {
		return false, "declaration missing"
	}
	nc := newNctx(nil)
	pa, pb := nc.normPaths(a), nc.normPaths(b)
	if len(pa) == 0 || len(pb) == 0 {
		return false, "no paths"
	}
	atomSet := map[string]bool{}
	for _, ps := range [][]bpath{pa, pb} {
		for _, p := range ps {
			for _, f := range p.facts() {
				for _, d := range splitTop(f, "||") {
					d = strings.TrimPrefix(d, "!")
					if strings.HasPrefix(d, "(") && strings.HasSuffix(d, ")") {
						d = d[1 : len(d)-1]
					}
					atomSet[canonText(d, false)] = true
				}
			}
		}
	}
	// an atom and its negated spelling (x!=y / x==y) are one atom
	var atoms []string
	for at := range atomSet {
		neg := canonText(at, true)
		if atomSet[neg] && neg < at {
			continue
		}
		atoms = append(atoms, at)
	}
	sort.Strings(atoms)
	if len(atoms) > 8 {
		return false, fmt.Sprintf("%d conditions: too many to tabulate", len(atoms))
	}
	events := func(p bpath) string {
		ren := map[string]string{}
		var out []string
		for _, e := range p {
			if e.Kind == "+" {
				continue
			}
			t := dollarRe.ReplaceAllStringFunc(e.Text, func(m string) string {
				if _, ok := ren[m]; !ok {
					ren[m] = fmt.Sprintf("$v%d", len(ren)+1)
				}
				return ren[m]
			})
			out = append(out, e.Kind+" "+t)
		}
		return strings.Join(out, " ; ")
	}
	consistent := func(ps []bpath, sigma map[string]bool) ([]bpath, bool) {
		var out []bpath
		for _, p := range ps {
			ok := true
			for _, f := range p.facts() {
				v, known := evalFact(f, atoms, sigma)
				if !known {
					return nil, false
				}
				if !v {
					ok = false
				}
			}
			if ok {
				out = append(out, p)
			}
		}
		return out, true
	}
	for mask := 0; mask < 1<<len(atoms); mask++ {
		sigma := map[string]bool{}
		for i, at := range atoms {
			sigma[at] = mask&(1<<i) != 0
		}
		ca, oka := consistent(pa, sigma)
		cb, okb := consistent(pb, sigma)
		if !oka || !okb {
			return false, "a condition is not a combination of the tabulated tests"
		}
		ea, eb := map[string]bool{}, map[string]bool{}
		for _, p := range ca {
			ea[events(p)] = true
		}
		for _, p := range cb {
			eb[events(p)] = true
		}
		if len(ea) != len(eb) {
			return false, "under " + describeSigma(atoms, sigma) + " the two versions do different things"
		}
		for k := range ea {
			if !eb[k] {
				return false, "under " + describeSigma(atoms, sigma) + " the two versions do different things"
			}
		}
	}
	return true, fmt.Sprintf("%d conditions tabulated, same events under every assignment", len(atoms))
}

// evalFact evaluates a (canonical) fact over the atoms; an atom may appear as itself or as its canonical negation.
func evalFact(f string, atoms []string, sigma map[string]bool) (val, known bool) {
	res := false
	for _, d := range splitTop(f, "||") {
		if strings.HasPrefix(d, "(") && strings.HasSuffix(d, ")") {
			d = d[1 : len(d)-1]
		}
		all := true
		for _, cj := range splitTop(d, "&&") {
			v, ok := false, false
			for _, at := range atoms {
				switch cj {
				case at:
					v, ok = sigma[at], true
				case canonText(at, true):
					v, ok = !sigma[at], true
				}
			}
			if !ok {
				return false, false
			}
			if !v {
				all = false
			}
		}
		if all {
			res = true
		}
	}
	return res, true
}
