package rules

import (
	"fmt"
	"go/ast"
	"go/parser"
	"go/token"
	"os"
	"strings"
	"testing"
)

// TestDbgPaths prints the structured paths of DBG_FUNC in DBG_FILE (debug aid; skipped unless DBG_FILE is set).
func TestDbgPaths(t *testing.T) {
	file, fn := os.Getenv("DBG_FILE"), os.Getenv("DBG_FUNC")
	if file == "" {
		t.Skip()
	}
	fset := token.NewFileSet()
	f, err := parser.ParseFile(fset, file, nil, 0)
	if err != nil {
		t.Fatal(err)
	}
	for _, d := range f.Decls {
		fd, ok := d.(*ast.FuncDecl)
		if !ok || fd.Name.Name != fn {
			continue
		}
		var body *ast.BlockStmt = fd.Body
		if os.Getenv("DBG_LOOP") != "" {
			ast.Inspect(fd.Body, func(n ast.Node) bool {
				if fs, ok := n.(*ast.ForStmt); ok && fs.Cond == nil && body == fd.Body {
					body = fs.Body
				}
				return true
			})
		}
		if os.Getenv("DBG_NORM") != "" {
			var decls []*ast.FuncDecl
			for _, d2 := range f.Decls {
				if x, ok := d2.(*ast.FuncDecl); ok {
					decls = append(decls, x)
				}
			}
			if rt := os.Getenv("DBG_RECV"); rt != "" && (fd.Recv == nil || nospace(fd.Recv.List[0].Type) != rt) {
				continue
			}
			if tc := os.Getenv("DBG_TCASE"); tc != "" {
				si := typeSwitchOn(fd, firstParam(fd))
				if cc := si.Cases[tc]; cc != nil {
					for _, p := range newNctx(decls).normBlock(fd, cc.Body) {
						fmt.Println(p.String())
					}
				}
				continue
			}
			if os.Getenv("DBG_FUNCLIT") != "" {
				var fl *ast.FuncLit
				ast.Inspect(fd.Body, func(n ast.Node) bool {
					if x, ok := n.(*ast.FuncLit); ok && fl == nil {
						fl = x
					}
					return true
				})
				ps, multi := newNctx(decls).without("addErr", "addErrAt").normBlockNamed(fd, fl.Body.List)
				fmt.Println(multi)
				for _, p := range ps {
					fmt.Println(p.String())
				}
				continue
			}
			if os.Getenv("DBG_LOOP") != "" {
				var lb *ast.BlockStmt
				ast.Inspect(fd.Body, func(n ast.Node) bool {
					if fs, ok := n.(*ast.ForStmt); ok && fs.Cond == nil && lb == nil {
						lb = fs.Body
					}
					return true
				})
				ncl := newNctx(decls)
				if w := os.Getenv("DBG_WITHOUT"); w != "" {
					ncl = ncl.without(strings.Split(w, ",")...)
				}
				for _, p := range ncl.normBlock(fd, lb.List) {
					fmt.Println(p.String())
				}
				continue
			}
			nc := newNctx(decls)
			if w := os.Getenv("DBG_WITHOUT"); w != "" {
				nc = nc.without(strings.Split(w, ",")...)
			}
			for _, p := range nc.normPaths(fd) {
				fmt.Println(p.String())
			}
			continue
		}
		for _, p := range enumPaths(body) {
			fmt.Println(p.String())
		}
	}
}
