package rules

import (
	"fmt"
	"go/ast"
	"go/parser"
	"go/token"
	"os"
	"testing"
)

// TestDbgPaths prints the structured paths of DBG_FUNC in DBG_FILE (debug aid; skipped unless DBG_FILE is set).
func TestDbgPaths(t *testing.T) {
	file, fn := os.Getenv("DBG_FILE"), os.Getenv("DBG_FUNC")
	if file == "" {
		t.Skip()
	}
	fset := token.NewFileSet()
	f, err := parser.ParseFile(fset, file, nil, 0)
	if err != nil {
		t.Fatal(err)
	}
	for _, d := range f.Decls {
		fd, ok := d.(*ast.FuncDecl)
		if !ok || fd.Name.Name != fn {
			continue
		}
		var body *ast.BlockStmt = fd.Body
		if os.Getenv("DBG_LOOP") != "" {
			ast.Inspect(fd.Body, func(n ast.Node) bool {
				if fs, ok := n.(*ast.ForStmt); ok && fs.Cond == nil && body == fd.Body {
					body = fs.Body
				}
				return true
			})
		}
		for _, p := range enumPaths(body) {
			fmt.Println(p.String())
		}
	}
}
