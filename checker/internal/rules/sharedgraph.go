package rules

import (
	"fmt"
	"go/ast"
	"go/token"
	"go/types"
	"sort"

	"golang.org/x/tools/go/packages"

	"pigeonverif/internal/load"
)

// The first-invocation graph is computed once (MakeFirstGraph) and then consulted for every strongly connected
// component in turn: ComputeLeftRecursives reads it for the self-loop test, findLeader and FindCyclesInSCC for every
// vertex of every component. Whoever receives it must therefore leave it as it is: a consumer that deletes or adds
// vertices or edges changes what the components handled later look like (a rule loses its self-loop and is not
// marked; a later component "is not in the graph").
//
// sharedGraphReadOnly follows the graph (every local of root whose type is a map of maps) through call arguments
// into parameters, through `x := g`, `x := g[k]` and `for _, x := range g` into aliases of the graph and of its
// adjacency sets, and through functions that return their parameter; it reports every store into an alias
// (`g[k] = …`, `g[k][j] = …`, `delete(g, …)`, `delete(g[k], …)`, `clear(g)`) outside the function that built it.
// Returns the number of (function, alias) pairs followed.
func sharedGraphReadOnly(g *load.G, p *packages.Package, root *ast.FuncDecl) (int, []string) {
	info := p.TypesInfo
	decls := map[types.Object]*ast.FuncDecl{}
	for _, f := range p.Syntax {
		for _, d := range f.Decls {
			if x, ok := d.(*ast.FuncDecl); ok && x.Body != nil {
				if o := info.Defs[x.Name]; o != nil {
					decls[o] = x
				}
			}
		}
	}
	isGraph := func(t types.Type) bool {
		m, ok := t.Underlying().(*types.Map)
		if !ok {
			return false
		}
		_, ok = m.Elem().Underlying().(*types.Map)
		return ok
	}
	calleeOf := func(ce *ast.CallExpr) *ast.FuncDecl {
		var id *ast.Ident
		switch f := ce.Fun.(type) {
		case *ast.Ident:
			id = f
		case *ast.SelectorExpr:
			id = f.Sel
		}
		if id == nil {
			return nil
		}
		return decls[info.Uses[id]]
	}
	paramObjs := func(fd *ast.FuncDecl) []types.Object {
		var out []types.Object
		if fd.Type.Params != nil {
			for _, f := range fd.Type.Params.List {
				if len(f.Names) == 0 {
					out = append(out, nil)
				}
				for _, n := range f.Names {
					out = append(out, info.Defs[n])
				}
			}
		}
		return out
	}
	// alias sets per function: object -> level (1 = the graph, 2 = one adjacency set of it)
	tainted := map[*ast.FuncDecl]map[types.Object]int{}
	built := map[types.Object]bool{} // locals of root that root builds itself (make / literal): root may fill them
	var work []*ast.FuncDecl
	taint := func(fd *ast.FuncDecl, o types.Object, level int) {
		if o == nil {
			return
		}
		if tainted[fd] == nil {
			tainted[fd] = map[types.Object]int{}
		}
		if old, ok := tainted[fd][o]; !ok || level < old {
			tainted[fd][o] = level
			work = append(work, fd)
		}
	}
	// level of an expression in fd: 0 = not an alias
	var levelOf func(fd *ast.FuncDecl, e ast.Expr) int
	// returnsParam: which parameters (by index) a function may return as its first result
	returnsParam := func(fd *ast.FuncDecl) map[int]bool {
		out := map[int]bool{}
		ps := paramObjs(fd)
		ast.Inspect(fd.Body, func(n ast.Node) bool {
			if _, ok := n.(*ast.FuncLit); ok {
				return false
			}
			if rs, ok := n.(*ast.ReturnStmt); ok && len(rs.Results) > 0 {
				if id, ok := ast.Unparen(rs.Results[0]).(*ast.Ident); ok {
					for i, po := range ps {
						if po != nil && info.Uses[id] == po {
							out[i] = true
						}
					}
				}
			}
			return true
		})
		return out
	}
	levelOf = func(fd *ast.FuncDecl, e ast.Expr) int {
		switch x := ast.Unparen(e).(type) {
		case *ast.Ident:
			if o := info.Uses[x]; o != nil {
				return tainted[fd][o]
			}
			if o := info.Defs[x]; o != nil {
				return tainted[fd][o]
			}
		case *ast.IndexExpr:
			if l := levelOf(fd, x.X); l == 1 {
				return 2
			}
		case *ast.CallExpr:
			if cd := calleeOf(x); cd != nil {
				for i := range returnsParam(cd) {
					if i < len(x.Args) {
						if l := levelOf(fd, x.Args[i]); l > 0 {
							return l
						}
					}
				}
			}
		}
		return 0
	}
	// seed: the graph-typed locals of root
	ast.Inspect(root.Body, func(n ast.Node) bool {
		as, ok := n.(*ast.AssignStmt)
		if !ok || as.Tok != token.DEFINE {
			return true
		}
		for i, l := range as.Lhs {
			id, ok := l.(*ast.Ident)
			if !ok {
				continue
			}
			o := info.Defs[id]
			if o == nil || !isGraph(o.Type()) {
				continue
			}
			taint(root, o, 1)
			if len(as.Lhs) == len(as.Rhs) {
				switch r := ast.Unparen(as.Rhs[i]).(type) {
				case *ast.CompositeLit:
					built[o] = true
				case *ast.CallExpr:
					if fid, ok := r.Fun.(*ast.Ident); ok && fid.Name == "make" {
						built[o] = true
					}
				}
			}
		}
		return true
	})
	for len(work) > 0 {
		fd := work[0]
		work = work[1:]
		ast.Inspect(fd.Body, func(n ast.Node) bool {
			switch x := n.(type) {
			case *ast.AssignStmt:
				if len(x.Lhs) == len(x.Rhs) {
					for i, l := range x.Lhs {
						if id, ok := l.(*ast.Ident); ok {
							if lv := levelOf(fd, x.Rhs[i]); lv > 0 {
								o := info.Defs[id]
								if o == nil {
									o = info.Uses[id]
								}
								taint(fd, o, lv)
							}
						}
					}
				}
			case *ast.ValueSpec:
				if len(x.Names) == len(x.Values) {
					for i, id := range x.Names {
						if lv := levelOf(fd, x.Values[i]); lv > 0 {
							taint(fd, info.Defs[id], lv)
						}
					}
				}
			case *ast.RangeStmt:
				if levelOf(fd, x.X) == 1 && x.Value != nil {
					if id, ok := x.Value.(*ast.Ident); ok {
						o := info.Defs[id]
						if o == nil {
							o = info.Uses[id]
						}
						taint(fd, o, 2)
					}
				}
			case *ast.CallExpr:
				if cd := calleeOf(x); cd != nil {
					ps := paramObjs(cd)
					for i, a := range x.Args {
						if lv := levelOf(fd, a); lv > 0 && i < len(ps) {
							taint(cd, ps[i], lv)
						}
					}
				}
			}
			return true
		})
	}
	// stores into an alias
	var bad []string
	n := 0
	var fds []*ast.FuncDecl
	for fd := range tainted {
		fds = append(fds, fd)
	}
	sort.Slice(fds, func(i, j int) bool { return fds[i].Pos() < fds[j].Pos() })
	baseLevel := func(fd *ast.FuncDecl, e ast.Expr) (int, types.Object) {
		for {
			switch x := ast.Unparen(e).(type) {
			case *ast.IndexExpr:
				e = x.X
				continue
			case *ast.Ident:
				o := info.Uses[x]
				if o == nil {
					o = info.Defs[x]
				}
				return tainted[fd][o], o
			}
			return 0, nil
		}
	}
	for _, fd := range fds {
		n += len(tainted[fd])
		report := func(pos token.Pos, what string, o types.Object) {
			if fd == root && built[o] {
				return
			}
			bad = append(bad, fmt.Sprintf("%s: %s %s, an alias of the first-invocation graph that the caller keeps using for the components handled later", g.Where(pos), fd.Name.Name, what))
		}
		ast.Inspect(fd.Body, func(nd ast.Node) bool {
			switch x := nd.(type) {
			case *ast.AssignStmt:
				for _, l := range x.Lhs {
					if ix, ok := ast.Unparen(l).(*ast.IndexExpr); ok {
						if lv, o := baseLevel(fd, ix); lv > 0 {
							report(x.Pos(), "stores into "+nospace(l), o)
						}
					}
				}
			case *ast.IncDecStmt:
				if ix, ok := ast.Unparen(x.X).(*ast.IndexExpr); ok {
					if lv, o := baseLevel(fd, ix); lv > 0 {
						report(x.Pos(), "stores into "+nospace(x.X), o)
					}
				}
			case *ast.CallExpr:
				if id, ok := x.Fun.(*ast.Ident); ok && (id.Name == "delete" || id.Name == "clear") && len(x.Args) > 0 {
					if _, isBuiltin := info.Uses[id].(*types.Builtin); isBuiltin {
						if lv, o := baseLevel(fd, x.Args[0]); lv > 0 {
							report(x.Pos(), id.Name+"s from "+nospace(x.Args[0]), o)
						}
					}
				}
				if sel, ok := x.Fun.(*ast.SelectorExpr); ok && len(x.Args) > 0 {
					if pk, ok := sel.X.(*ast.Ident); ok {
						if pn, ok := info.Uses[pk].(*types.PkgName); ok && pn.Imported().Path() == "maps" && (sel.Sel.Name == "Copy" || sel.Sel.Name == "DeleteFunc") {
							if lv, o := baseLevel(fd, x.Args[0]); lv > 0 {
								report(x.Pos(), "maps."+sel.Sel.Name+" into "+nospace(x.Args[0]), o)
							}
						}
					}
				}
			}
			return true
		})
	}
	sort.Strings(bad)
	return n, bad
}
