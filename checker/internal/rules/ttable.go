package rules

import (
	"fmt"
	"go/ast"
	"go/parser"
	"go/token"
	"sort"
	"strings"
)

// Truth tables over normalised paths: the boolean a function returns, as a function of a few named atoms (the results
// of the calls it makes on its operands), read off its paths. Two functions with the same table compute the same
// result from the same operand results, however the computation is spelled (early returns, a flag variable with
// break, `a || b`, nested ifs).

// evalBool evaluates a boolean expression text over atoms under an assignment; ok=false if the text is not a boolean
// combination of the atoms and the constants.
func evalBool(text string, atoms []string, sigma map[string]bool) (val bool, ok bool) {
	// replace atoms by placeholders, longest first
	order := append([]string{}, atoms...)
	sort.Slice(order, func(i, j int) bool { return len(order[i]) > len(order[j]) })
	names := map[string]string{}
	s := text
	for i, a := range order {
		ph := fmt.Sprintf("ATOM%d_", i)
		names[ph] = a
		s = strings.ReplaceAll(s, a, ph)
	}
	e, err := parser.ParseExpr(s)
	if err != nil {
		return false, false
	}
	var ev func(e ast.Expr) (bool, bool)
	ev = func(e ast.Expr) (bool, bool) {
		switch x := e.(type) {
		case *ast.ParenExpr:
			return ev(x.X)
		case *ast.Ident:
			switch x.Name {
			case "true":
				return true, true
			case "false":
				return false, true
			}
			if a, ok := names[x.Name]; ok {
				return sigma[a], true
			}
			return false, false
		case *ast.UnaryExpr:
			if x.Op == token.NOT {
				v, ok := ev(x.X)
				return !v, ok
			}
		case *ast.BinaryExpr:
			l, ok1 := ev(x.X)
			switch x.Op {
			case token.LAND:
				if ok1 && !l {
					return false, true
				}
				r, ok2 := ev(x.Y)
				return l && r, ok1 && ok2
			case token.LOR:
				if ok1 && l {
					return true, true
				}
				r, ok2 := ev(x.Y)
				return l || r, ok1 && ok2
			case token.EQL, token.NEQ:
				r, ok2 := ev(x.Y)
				if ok1 && ok2 {
					return (l == r) == (x.Op == token.EQL), true
				}
			}
		}
		return false, false
	}
	return ev(e)
}

type ttResult struct {
	Rows     map[string]string // assignment ("A=1,B=0") -> "true" | "false" | "<text>" (not boolean over the atoms)
	Problems []string
}

func sigmaKey(atoms []string, sigma map[string]bool) string {
	var parts []string
	for i, a := range atoms {
		_ = a
		parts = append(parts, fmt.Sprintf("%c=%d", 'A'+i, map[bool]int{false: 0, true: 1}[sigma[atoms[i]]]))
	}
	return strings.Join(parts, ",")
}

// truthTable computes, for every assignment of the atoms, the value returned by the paths consistent with it.
// resultOf extracts the returned boolean text of a path ("" = the path does not return a value). Facts that are not
// boolean combinations of the atoms are reported unless ignore accepts them.
func truthTable(paths []bpath, atoms []string, resultOf func(p bpath) string, ignore func(fact string) bool) ttResult {
	res := ttResult{Rows: map[string]string{}}
	n := len(atoms)
	seenProblem := map[string]bool{}
	problem := func(s string) {
		if !seenProblem[s] {
			seenProblem[s] = true
			res.Problems = append(res.Problems, s)
		}
	}
	for mask := 0; mask < 1<<n; mask++ {
		sigma := map[string]bool{}
		for i, a := range atoms {
			sigma[a] = mask&(1<<i) != 0
		}
		key := sigmaKey(atoms, sigma)
		vals := map[string]bool{}
		for _, p := range paths {
			consistent := true
			for _, f := range p.facts() {
				v, ok := evalBool(f, atoms, sigma)
				if !ok {
					if ignore == nil || !ignore(f) {
						problem("the result depends on `" + f + "`")
					}
					continue
				}
				if !v {
					consistent = false
				}
			}
			if !consistent {
				continue
			}
			rt := resultOf(p)
			if rt == "" {
				problem("a path returns no value")
				continue
			}
			if v, ok := evalBool(rt, atoms, sigma); ok {
				vals[fmt.Sprint(v)] = true
			} else {
				vals["<"+rt+">"] = true
			}
		}
		switch len(vals) {
		case 0:
			res.Rows[key] = "<no path>"
		case 1:
			for v := range vals {
				res.Rows[key] = v
			}
		default:
			var vs []string
			for v := range vals {
				vs = append(vs, v)
			}
			sort.Strings(vs)
			res.Rows[key] = "<ambiguous " + strings.Join(vs, "|") + ">"
		}
	}
	sort.Strings(res.Problems)
	return res
}

// expectTable compares a truth table with the boolean function f over the atoms; returns the differing rows.
func expectTable(tt ttResult, atoms []string, f func(sigma map[string]bool) bool) []string {
	var bad []string
	n := len(atoms)
	for mask := 0; mask < 1<<n; mask++ {
		sigma := map[string]bool{}
		for i, a := range atoms {
			sigma[a] = mask&(1<<i) != 0
		}
		key := sigmaKey(atoms, sigma)
		want := fmt.Sprint(f(sigma))
		if got := tt.Rows[key]; got != want {
			bad = append(bad, fmt.Sprintf("for %s the result is %s, expected %s", describeSigma(atoms, sigma), got, want))
		}
	}
	return bad
}

func describeSigma(atoms []string, sigma map[string]bool) string {
	var parts []string
	for _, a := range atoms {
		parts = append(parts, fmt.Sprintf("%s=%t", a, sigma[a]))
	}
	if len(parts) == 0 {
		return "every input"
	}
	return strings.Join(parts, ", ")
}

// lastReturn returns the text of the path's return event ("" if none).
func lastReturn(p bpath) string {
	for i := len(p) - 1; i >= 0; i-- {
		if p[i].Kind == "return" {
			return p[i].Text
		}
	}
	return ""
}

// lastSet returns the value last stored into target on the path ("" if none) and the event index.
func lastSet(p bpath, target string) (string, int) {
	for i := len(p) - 1; i >= 0; i-- {
		if p[i].Kind == "set" && strings.HasPrefix(p[i].Text, target+"=") {
			return strings.TrimPrefix(p[i].Text, target+"="), i
		}
	}
	return "", -1
}
