package rules

import (
	"fmt"
	"sort"
	"strconv"
	"strings"
)

// Sets of integers as sorted disjoint closed intervals: enough to decide what a chain of comparisons of one value
// against constants accepts.

type ivl struct{ lo, hi int64 }
type ivset []ivl

func (s ivset) norm() ivset {
	var t ivset
	for _, x := range s {
		if x.lo <= x.hi {
			t = append(t, x)
		}
	}
	sort.Slice(t, func(i, j int) bool { return t[i].lo < t[j].lo })
	var out ivset
	for _, x := range t {
		if n := len(out); n > 0 && x.lo <= out[n-1].hi+1 {
			if x.hi > out[n-1].hi {
				out[n-1].hi = x.hi
			}
			continue
		}
		out = append(out, x)
	}
	return out
}

func (s ivset) union(t ivset) ivset { return append(append(ivset{}, s...), t...).norm() }

func (s ivset) intersect(t ivset) ivset {
	var out ivset
	for _, a := range s {
		for _, b := range t {
			lo, hi := a.lo, a.hi
			if b.lo > lo {
				lo = b.lo
			}
			if b.hi < hi {
				hi = b.hi
			}
			if lo <= hi {
				out = append(out, ivl{lo, hi})
			}
		}
	}
	return out.norm()
}

func (s ivset) complement(univ ivl) ivset {
	var out ivset
	cur := univ.lo
	for _, x := range s.norm() {
		if x.lo > cur {
			out = append(out, ivl{cur, x.lo - 1})
		}
		if x.hi+1 > cur {
			cur = x.hi + 1
		}
	}
	if cur <= univ.hi {
		out = append(out, ivl{cur, univ.hi})
	}
	return out.norm()
}

func (s ivset) String() string {
	var parts []string
	for _, x := range s.norm() {
		if x.lo == x.hi {
			parts = append(parts, fmt.Sprintf("U+%04X", x.lo))
		} else {
			parts = append(parts, fmt.Sprintf("U+%04X..U+%04X", x.lo, x.hi))
		}
	}
	if len(parts) == 0 {
		return "nothing"
	}
	return strings.Join(parts, ", ")
}

func (s ivset) equal(t ivset) bool {
	a, b := s.norm(), t.norm()
	if len(a) != len(b) {
		return false
	}
	for i := range a {
		if a[i] != b[i] {
			return false
		}
	}
	return true
}

// intConst reads an integer constant of a normal-form text: a literal, or one of the named limits.
func intConst(s string) (int64, bool) {
	switch s {
	case "unicode.MaxRune", "utf8.MaxRune":
		return 0x10FFFF, true
	case "math.MaxInt32":
		return 1<<31 - 1, true
	}
	s = strings.ReplaceAll(s, "_", "")
	if v, err := strconv.ParseInt(s, 0, 64); err == nil {
		return v, true
	}
	if len(s) >= 3 && s[0] == '\'' {
		if r, _, _, err := strconv.UnquoteChar(s[1:len(s)-1], '\''); err == nil {
			return int64(r), true
		}
	}
	return 0, false
}

// atomSet: the values of v (within univ) that satisfy a comparison atom `v op C` (canonical: constant on the right);
// ok=false if the atom is not such a comparison of v.
func atomSet(atom, v string, univ ivl) (ivset, bool) {
	for _, op := range []string{"<=", ">=", "==", "!=", "<", ">"} {
		if !strings.HasPrefix(atom, v+op) {
			continue
		}
		c, ok := intConst(atom[len(v)+len(op):])
		if !ok {
			return nil, false
		}
		switch op {
		case "<":
			return ivset{{univ.lo, c - 1}}.intersect(ivset{univ}), true
		case "<=":
			return ivset{{univ.lo, c}}.intersect(ivset{univ}), true
		case ">":
			return ivset{{c + 1, univ.hi}}.intersect(ivset{univ}), true
		case ">=":
			return ivset{{c, univ.hi}}.intersect(ivset{univ}), true
		case "==":
			return ivset{{c, c}}.intersect(ivset{univ}), true
		case "!=":
			return ivset{{c, c}}.complement(univ), true
		}
	}
	return nil, false
}
