package rules

import (
	"fmt"
	"go/ast"
	"go/token"
)

// Lexical scoping for the normal form. nform.go names locals by their identifier text; two variables of one function
// that share a name because the inner one shadows the outer one (`nullable := false; for … { if nullable := f(); …`)
// must not be taken for one variable. deshadow resolves the identifiers of a function body against its block scopes
// (no type information needed) and gives every declaration that shadows a live declaration of the same function a
// name of its own (`nullable·1`); lname returns the name to use for an identifier.

var shadowNames = map[*ast.Ident]string{}
var deshadowed = map[*ast.BlockStmt]bool{}

// lname: the name of a local in the normal form.
func lname(id *ast.Ident) string {
	if id == nil {
		return ""
	}
	if n, ok := shadowNames[id]; ok {
		return n
	}
	return id.Name
}

type shScope struct {
	parent *shScope
	names  map[string]string // declared name -> name in the normal form
}

func (s *shScope) lookup(n string) (string, bool) {
	for c := s; c != nil; c = c.parent {
		if v, ok := c.names[n]; ok {
			return v, true
		}
	}
	return "", false
}

type shadower struct {
	counter map[string]int
}

func deshadow(fd *ast.FuncDecl) {
	if fd == nil || fd.Body == nil || deshadowed[fd.Body] {
		return
	}
	deshadowed[fd.Body] = true
	sh := &shadower{counter: map[string]int{}}
	top := &shScope{names: map[string]string{}}
	declFields := func(sc *shScope, fl *ast.FieldList) {
		if fl == nil {
			return
		}
		for _, f := range fl.List {
			for _, nm := range f.Names {
				sh.declare(sc, nm)
			}
		}
	}
	declFields(top, fd.Recv)
	declFields(top, fd.Type.Params)
	declFields(top, fd.Type.Results)
	sh.block(top, fd.Body.List)
}

// declare introduces id in scope sc; a name that is already live in an enclosing scope gets a fresh normal-form name.
func (sh *shadower) declare(sc *shScope, id *ast.Ident) {
	if id == nil || id.Name == "_" {
		return
	}
	if _, here := sc.names[id.Name]; here {
		// redeclaration in the same scope (`a, err := …` with err already declared here): the same variable
		if n := sc.names[id.Name]; n != id.Name {
			shadowNames[id] = n
		}
		return
	}
	name := id.Name
	if sc.parent != nil {
		if _, live := sc.parent.lookup(id.Name); live {
			sh.counter[id.Name]++
			name = fmt.Sprintf("%s·%d", id.Name, sh.counter[id.Name])
			shadowNames[id] = name
		}
	}
	sc.names[id.Name] = name
}

func (sh *shadower) use(sc *shScope, id *ast.Ident) {
	if id == nil {
		return
	}
	if n, ok := sc.lookup(id.Name); ok && n != id.Name {
		shadowNames[id] = n
	}
}

func (sh *shadower) expr(sc *shScope, e ast.Expr) {
	if e == nil {
		return
	}
	ast.Inspect(e, func(n ast.Node) bool {
		switch x := n.(type) {
		case *ast.Ident:
			sh.use(sc, x)
		case *ast.SelectorExpr:
			sh.expr(sc, x.X)
			return false // the selected name is a field or method, not a local
		case *ast.KeyValueExpr:
			// a key that is a bare identifier may be a struct field name: leave it; map keys that are locals shadowed
			// by an inner declaration are out of reach of this approximation
			if _, isIdent := x.Key.(*ast.Ident); !isIdent {
				sh.expr(sc, x.Key)
			}
			sh.expr(sc, x.Value)
			return false
		case *ast.FuncLit:
			inner := &shScope{parent: sc, names: map[string]string{}}
			if x.Type.Params != nil {
				for _, f := range x.Type.Params.List {
					for _, nm := range f.Names {
						sh.declare(inner, nm)
					}
				}
			}
			if x.Type.Results != nil {
				for _, f := range x.Type.Results.List {
					for _, nm := range f.Names {
						sh.declare(inner, nm)
					}
				}
			}
			sh.block(inner, x.Body.List)
			return false
		}
		return true
	})
}

func (sh *shadower) block(sc *shScope, list []ast.Stmt) {
	for _, s := range list {
		sh.stmt(sc, s)
	}
}

func (sh *shadower) stmt(sc *shScope, s ast.Stmt) {
	switch x := s.(type) {
	case nil:
	case *ast.BlockStmt:
		sh.block(&shScope{parent: sc, names: map[string]string{}}, x.List)
	case *ast.LabeledStmt:
		sh.stmt(sc, x.Stmt)
	case *ast.ExprStmt:
		sh.expr(sc, x.X)
	case *ast.SendStmt:
		sh.expr(sc, x.Chan)
		sh.expr(sc, x.Value)
	case *ast.IncDecStmt:
		sh.expr(sc, x.X)
	case *ast.GoStmt:
		sh.expr(sc, x.Call)
	case *ast.DeferStmt:
		sh.expr(sc, x.Call)
	case *ast.ReturnStmt:
		for _, r := range x.Results {
			sh.expr(sc, r)
		}
	case *ast.AssignStmt:
		for _, r := range x.Rhs {
			sh.expr(sc, r)
		}
		for _, l := range x.Lhs {
			if id, ok := l.(*ast.Ident); ok && x.Tok == token.DEFINE {
				sh.declare(sc, id)
			} else {
				sh.expr(sc, l)
			}
		}
	case *ast.DeclStmt:
		if gd, ok := x.Decl.(*ast.GenDecl); ok {
			for _, sp := range gd.Specs {
				if vs, ok := sp.(*ast.ValueSpec); ok {
					for _, v := range vs.Values {
						sh.expr(sc, v)
					}
					for _, nm := range vs.Names {
						sh.declare(sc, nm)
					}
				}
			}
		}
	case *ast.IfStmt:
		inner := &shScope{parent: sc, names: map[string]string{}}
		sh.stmt(inner, x.Init)
		sh.expr(inner, x.Cond)
		sh.block(&shScope{parent: inner, names: map[string]string{}}, x.Body.List)
		switch el := x.Else.(type) {
		case *ast.BlockStmt:
			sh.block(&shScope{parent: inner, names: map[string]string{}}, el.List)
		case *ast.IfStmt:
			sh.stmt(inner, el)
		}
	case *ast.ForStmt:
		inner := &shScope{parent: sc, names: map[string]string{}}
		sh.stmt(inner, x.Init)
		sh.expr(inner, x.Cond)
		sh.stmt(inner, x.Post)
		sh.block(&shScope{parent: inner, names: map[string]string{}}, x.Body.List)
	case *ast.RangeStmt:
		sh.expr(sc, x.X)
		inner := &shScope{parent: sc, names: map[string]string{}}
		for _, kv := range []ast.Expr{x.Key, x.Value} {
			if id, ok := kv.(*ast.Ident); ok && x.Tok == token.DEFINE {
				sh.declare(inner, id)
			} else if kv != nil {
				sh.expr(sc, kv)
			}
		}
		sh.block(&shScope{parent: inner, names: map[string]string{}}, x.Body.List)
	case *ast.SwitchStmt:
		inner := &shScope{parent: sc, names: map[string]string{}}
		sh.stmt(inner, x.Init)
		sh.expr(inner, x.Tag)
		for _, cl := range x.Body.List {
			cc := cl.(*ast.CaseClause)
			for _, e := range cc.List {
				sh.expr(inner, e)
			}
			sh.block(&shScope{parent: inner, names: map[string]string{}}, cc.Body)
		}
	case *ast.TypeSwitchStmt:
		inner := &shScope{parent: sc, names: map[string]string{}}
		sh.stmt(inner, x.Init)
		// `switch v := x.(type)`: v is bound per clause by the enumerator (substituted by the switched value): the
		// switched expression is resolved, the symbol keeps its name
		switch a := x.Assign.(type) {
		case *ast.AssignStmt:
			for _, r := range a.Rhs {
				sh.expr(inner, r)
			}
		case *ast.ExprStmt:
			sh.expr(inner, a.X)
		}
		for _, cl := range x.Body.List {
			cc := cl.(*ast.CaseClause)
			sh.block(&shScope{parent: inner, names: map[string]string{}}, cc.Body)
		}
	case *ast.SelectStmt:
		for _, cl := range x.Body.List {
			cc := cl.(*ast.CommClause)
			inner := &shScope{parent: sc, names: map[string]string{}}
			sh.stmt(inner, cc.Comm)
			sh.block(inner, cc.Body)
		}
	}
}
