package rules

import (
	"go/ast"
	"go/token"
	"regexp"
	"strings"

	"golang.org/x/tools/go/packages"

	"pigeonverif/internal/load"
)

// staticCodePipeline (C04-e): what writeStaticCode does with the template, read off its normalised paths (helpers
// expanded, locals inlined): the text parsed is staticCode; it is executed into a buffer; the result is split into
// lines; a line is kept exactly when the directive-line pattern does not match it, with the trailing-directive
// pattern cut off and a newline added; the kept lines - and nothing of the raw result - are written with writeln;
// the range-table helper follows exactly when a class needed it. The two patterns are the ones the checker's own
// instantiation uses, in the same roles.
func staticCodePipeline(c *Ctx, g *load.G) {
	r := c.R
	bp := g.Pkg("builder")
	fd := load.FuncDecl(bp, "builder", "writeStaticCode")
	if fd == nil {
		r.Fatal("anchor builder.writeStaticCode not found")
		return
	}
	src := c.Src()
	b := recvName(fd)
	where := g.Where(fd.Pos())
	// package-level pattern variables read as their initialiser
	resolve := func(s string) string {
		if v := pkgVarInitText(bp, s); v != "" {
			return v
		}
		return s
	}
	var pipe, tpl, tail []string
	nDone := 0
	// the builder flag that says "the emitted grammar names a Unicode class": the boolean field the class writer sets
	// (whatever it is called)
	rtField := "rangeTable"
	if wc := load.FuncDecl(g.Pkg("builder"), "builder", "writeCharClassMatcher"); wc != nil {
		wb := recvName(wc)
		for _, h := range withHelpers(g.Pkg("builder"), wc, "writeExpr", "writeExprCode") {
			ast.Inspect(h.Body, func(n ast.Node) bool {
				if as, ok := n.(*ast.AssignStmt); ok && len(as.Lhs) == 1 && len(as.Rhs) == 1 && nospace(as.Rhs[0]) == "true" {
					if sel, ok := as.Lhs[0].(*ast.SelectorExpr); ok && nospace(sel.X) == wb {
						rtField = sel.Sel.Name
					}
				}
				return true
			})
		}
	}
	execRe := regexp.MustCompile(`^(.*)\.Execute\((\$[0-9]+|&\$[0-9]+),`)
	for _, p := range c.builderNorm().normPaths(fd) {
		if p.hasCall("panic(") {
			continue // aborted: no output
		}
		nDone++
		// parse and execute
		iExec := p.evIndex("call", 0, func(s string) bool { return execRe.MatchString(s) })
		if iExec < 0 {
			pipe = append(pipe, "the template is not executed into a buffer")
			continue
		}
		m := execRe.FindStringSubmatch(p[iExec].Text)
		if !strings.Contains(m[1], ".Parse(staticCode)") {
			tpl = append(tpl, "the executed template is "+abbreviate(m[1])+", not the parsed staticCode text")
		}
		execBuf := strings.TrimPrefix(m[2], "&")
		// split of the executed text
		split := `strings.Split(` + execBuf + `.String(),"\n")`
		iSplit := p.evIndex("call", iExec, func(s string) bool { return s == split })
		elem := split + "[#1]"
		if iSplit < 0 {
			// the same lines as an iterator: `for line := range strings.SplitSeq(text, "\n")`
			seq := `strings.SplitSeq(` + execBuf + `.String(),"\n")`
			if k := p.evIndex("call", iExec, func(s string) bool { return s == seq }); k >= 0 {
				iSplit, split, elem = k, seq, "#1"
			}
		}
		if iSplit < 0 {
			pipe = append(pipe, "the executed text is not split into lines (`"+split+"`)")
			continue
		}
		iLoop := p.evIndex("loop", iSplit, func(s string) bool { return s == "range "+split })
		if iLoop < 0 {
			pipe = append(pipe, "no loop over the lines of the executed text")
			continue
		}
		_, hi := loopSpan(p, p[iLoop].Text)
		// inside the loop: kept or dropped
		var wrote string
		matchFact := ""
		for _, e := range p[iLoop:hi] {
			switch e.Kind {
			case "+":
				if strings.HasSuffix(e.Text, ".MatchString("+elem+")") {
					matchFact = e.Text
				} else if strings.Contains(e.Text, ".WriteString(") && strings.HasSuffix(e.Text, "==nil") {
					// the write into the in-memory buffer succeeded (the other side aborts)
				} else {
					tail = append(tail, "keeping a line depends on `"+abbreviate(e.Text)+"`")
				}
			case "call":
				if i := strings.Index(e.Text, ".WriteString("); i > 0 && dollarRe.FindString(e.Text[:i]) == e.Text[:i] {
					wrote = e.Text
				}
			}
		}
		if matchFact != "" {
			neg := strings.HasPrefix(matchFact, "!")
			pat := resolve(strings.TrimSuffix(strings.TrimPrefix(matchFact, "!"), ".MatchString("+elem+")"))
			if src != nil && pat != "regexp.MustCompile(`"+src.ReStrip+"`)" {
				pipe = append(pipe, "lines are selected with "+pat+", the checker drops lines with `"+src.ReStrip+"`")
			}
			if neg != (wrote != "") {
				tail = append(tail, "a line is kept when the directive-line pattern matches it, or dropped when it does not")
			}
			if wrote != "" {
				i := strings.Index(wrote, ".WriteString(")
				outBuf := wrote[:i]
				arg := strings.TrimSuffix(wrote[i+len(".WriteString("):], ")")
				okArg := false
				if strings.HasSuffix(arg, `+"\n"`) {
					inner := strings.TrimSuffix(arg, `+"\n"`)
					if k := strings.Index(inner, ".ReplaceAllString("); k > 0 && strings.HasSuffix(inner, ".ReplaceAllString("+elem+`,"")`) {
						pat2 := resolve(inner[:k])
						okArg = true
						if src != nil && pat2 != "regexp.MustCompile(`"+src.ReLineEnd+"`)" {
							pipe = append(pipe, "trailing directives are cut with "+pat2+", the checker uses `"+src.ReLineEnd+"`")
						}
					}
				}
				if !okArg {
					tail = append(tail, "a kept line is written as "+abbreviate(arg)+", expected the line without its trailing directive comment plus a newline")
				}
				// the buffer that collects the kept lines does not still hold the raw text
				if outBuf == execBuf {
					// (String() copies the text out: the buffer may be reset as soon as the text was taken)
					iTaken := p.evIndex("call", iExec, func(s string) bool { return s == execBuf+".String()" })
					if iTaken < 0 || iTaken > iSplit {
						iTaken = iSplit
					}
					if p.evIndex("call", iTaken, func(s string) bool { return s == execBuf+".Reset()" }) < 0 || p.evIndex("call", iTaken, func(s string) bool { return s == execBuf+".Reset()" }) > iLoop {
						tail = append(tail, "the kept lines are appended to the buffer that still holds the raw template text")
					}
				}
				// the collected text is what gets written
				if p.evIndex("call", hi, func(s string) bool { return s == b+".writeln("+outBuf+".String())" }) < 0 {
					tail = append(tail, "the cleaned template text is never written: the output lacks the whole runtime")
				}
			}
		} else if hi > iLoop+1 && wrote != "" {
			tail = append(tail, "lines are kept without testing the directive-line pattern")
		}
		// after the loop: exactly one write of the runtime, the helper under b.rangeTable
		nW, helper := 0, false
		for _, e := range p[hi:] {
			if e.Kind == "call" && strings.HasPrefix(e.Text, b+".write") {
				if e.Text == b+".writeln(rangeTable0)" {
					helper = true
				} else {
					nW++
				}
			}
		}
		if nW != 1 {
			tail = append(tail, "the runtime is not written exactly once after the lines were selected")
		}
		if helper != p.holds(b+"."+rtField) || (!helper && !p.holds("!"+b+"."+rtField)) {
			tail = append(tail, "the rangeTable helper is not written exactly under "+b+".rangeTable (classes: []*unicode.RangeTable{rangeTable(..)} needs it; without classes it is dead code vet rejects)")
		}
		for _, f := range p[hi:].facts() {
			if f != b+"."+rtField && f != "!"+b+"."+rtField {
				tail = append(tail, "writing the runtime depends on `"+abbreviate(f)+"`")
			}
		}
	}
	if nDone == 0 {
		pipe = append(pipe, "no path of writeStaticCode could be read")
	}
	// some path must keep a line and some path must drop one
	r.Check(len(pipe) == 0, "C04-e", "G.builder.writeStaticCode:pipeline", "", where, "parse → execute → split → strip → write, as reproduced by the checker", strings.Join(uniq(pipe), "; ")+"; the checker's instantiation may no longer be pigeon's")
	r.Check(len(tpl) == 0 && nDone > 0, "C04-e", "G.builder.writeStaticCode:template=staticCode", "", where, "template text is the staticCode variable", strings.Join(uniq(tpl), "; "))
	r.Check(len(tail) == 0 && nDone > 0, "C04-e", "G.builder.writeStaticCode:keeps-code-lines-and-writes-them", "", where, "keeps non-directive lines, writes the runtime, appends rangeTable0 iff b.rangeTable", strings.Join(uniq(tail), "; "))
}

// pkgVarInitText: the (blank-free) initialiser of a package-level variable, "" if name is not one.
func pkgVarInitText(p *packages.Package, name string) string {
	if p == nil || !token.IsIdentifier(name) {
		return ""
	}
	for _, f := range p.Syntax {
		for _, d := range f.Decls {
			gd, ok := d.(*ast.GenDecl)
			if !ok || gd.Tok != token.VAR {
				continue
			}
			for _, sp := range gd.Specs {
				vs, ok := sp.(*ast.ValueSpec)
				if !ok {
					continue
				}
				for i, n := range vs.Names {
					if n.Name == name && i < len(vs.Values) {
						return nospaceLit(vs.Values[i])
					}
				}
			}
		}
	}
	return ""
}
