package rules

import (
	"go/ast"
	"go/token"
	"go/types"
	"strconv"
	"strings"

	"golang.org/x/tools/go/packages"
)

// The command-line flags of the tool, however they are declared: `v := fs.Bool("name", def, usage)` (the value is
// *v) or `fs.BoolVar(&x, "name", def, usage)` / `fs.Var(&x, "name", usage)` with x a variable or a field of an options
// struct (the value is x). Rules about "which flag decides what" ask this model instead of variable names.
type flagModel struct {
	p       *packages.Package
	ptrVar  map[types.Object]string // variable holding a pointer to the value -> flag name
	valVar  map[types.Object]string // variable or struct field holding the value -> flag name
	Default map[string]string       // flag name -> default (source text), "" for Var-style flags
	Kind    map[string]string       // flag name -> Bool / String / Var ...
}

func newFlagModel(p *packages.Package, skip func(file string) bool) *flagModel {
	m := &flagModel{p: p, ptrVar: map[types.Object]string{}, valVar: map[types.Object]string{}, Default: map[string]string{}, Kind: map[string]string{}}
	lit := func(e ast.Expr) (string, bool) {
		if bl, ok := e.(*ast.BasicLit); ok && bl.Kind == token.STRING {
			if v, err := strconv.Unquote(bl.Value); err == nil {
				return v, true
			}
		}
		return "", false
	}
	target := func(e ast.Expr) types.Object {
		ue, ok := e.(*ast.UnaryExpr)
		if !ok || ue.Op != token.AND {
			return nil
		}
		switch x := ue.X.(type) {
		case *ast.Ident:
			return p.TypesInfo.Uses[x]
		case *ast.SelectorExpr:
			if sel := p.TypesInfo.Selections[x]; sel != nil {
				return sel.Obj()
			}
		}
		return nil
	}
	for i, f := range p.Syntax {
		if skip != nil && i < len(p.CompiledGoFiles) && skip(p.CompiledGoFiles[i]) {
			continue
		}
		ast.Inspect(f, func(n ast.Node) bool {
			switch x := n.(type) {
			case *ast.AssignStmt:
				if len(x.Lhs) == 1 && len(x.Rhs) == 1 {
					m.define(x.Lhs[0], x.Rhs[0], lit)
				}
			case *ast.ValueSpec:
				for k, nm := range x.Names {
					if k < len(x.Values) {
						m.define(nm, x.Values[k], lit)
					}
				}
			case *ast.CallExpr:
				sel, ok := x.Fun.(*ast.SelectorExpr)
				if !ok {
					return true
				}
				kind := strings.TrimSuffix(sel.Sel.Name, "Var")
				switch {
				case strings.HasSuffix(sel.Sel.Name, "Var") && sel.Sel.Name != "Var" && len(x.Args) == 4:
					if name, ok := lit(x.Args[1]); ok {
						if o := target(x.Args[0]); o != nil {
							m.valVar[o] = name
							m.Default[name] = nospace(x.Args[2])
							m.Kind[name] = kind
						}
					}
				case sel.Sel.Name == "Var" && len(x.Args) == 3:
					if name, ok := lit(x.Args[1]); ok {
						if o := target(x.Args[0]); o != nil {
							m.valVar[o] = name
							m.Kind[name] = "Var"
						}
					}
				}
			}
			return true
		})
	}
	return m
}

func (m *flagModel) define(lhs ast.Expr, rhs ast.Expr, lit func(ast.Expr) (string, bool)) {
	ce, ok := rhs.(*ast.CallExpr)
	if !ok || len(ce.Args) != 3 {
		return
	}
	sel, ok := ce.Fun.(*ast.SelectorExpr)
	if !ok {
		return
	}
	switch sel.Sel.Name {
	case "Bool", "String", "Int", "Uint", "Int64", "Uint64", "Float64", "Duration":
	default:
		return
	}
	name, ok := lit(ce.Args[0])
	if !ok {
		return
	}
	id, ok := lhs.(*ast.Ident)
	if !ok {
		return
	}
	o := m.p.TypesInfo.Defs[id]
	if o == nil {
		o = m.p.TypesInfo.Uses[id]
	}
	if o == nil {
		return
	}
	m.ptrVar[o] = name
	m.Default[name] = nospace(ce.Args[1])
	m.Kind[name] = sel.Sel.Name
}

// flagOf: the flag whose value e denotes ("" if none): *v, x, or s.f.
func (m *flagModel) flagOf(e ast.Expr) string {
	switch x := stripParens(e).(type) {
	case *ast.StarExpr:
		if id, ok := stripParens(x.X).(*ast.Ident); ok {
			return m.ptrVar[m.p.TypesInfo.Uses[id]]
		}
	case *ast.Ident:
		return m.valVar[m.p.TypesInfo.Uses[x]]
	case *ast.SelectorExpr:
		if sel := m.p.TypesInfo.Selections[x]; sel != nil {
			return m.valVar[sel.Obj()]
		}
	}
	return ""
}

// leaf renders a leaf of a condition with flag values written `-name`, so that facts read the same whichever way the
// flags are declared.
func (m *flagModel) leaf(e ast.Expr) string {
	if f := m.flagOf(e); f != "" {
		return "-" + f
	}
	switch x := e.(type) {
	case *ast.UnaryExpr:
		if x.Op == token.NOT {
			return "!" + m.leaf(x.X)
		}
	case *ast.ParenExpr:
		return "(" + m.leaf(x.X) + ")"
	}
	return nospace(e)
}

// mentionsFlag: e contains the value of the named flag.
func (m *flagModel) mentionsFlag(e ast.Node, name string) bool {
	found := false
	ast.Inspect(e, func(n ast.Node) bool {
		if x, ok := n.(ast.Expr); ok && m.flagOf(x) == name {
			found = true
		}
		return !found
	})
	return found
}

// names lists the flags.
func (m *flagModel) names() []string {
	seen := map[string]bool{}
	var out []string
	for _, mp := range []map[types.Object]string{m.ptrVar, m.valVar} {
		for _, n := range mp {
			if !seen[n] {
				seen[n] = true
				out = append(out, n)
			}
		}
	}
	return out
}
