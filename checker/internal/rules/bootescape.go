package rules

import (
	"fmt"
	"go/ast"
	"go/token"
	"strings"

	"pigeonverif/internal/load"
)

// Numeric escapes in the hand-written scanner (C20-m). The scanner validates \ooo, \xhh, \uhhhh and \Uhhhhhhhh by
// accumulating the digits into a number and comparing it with the largest value of that escape form (255 for the
// byte forms). The generated front-end accepts exactly the digit counts and digit sets the grammar rules spell out and
// computes no number at all; the two agree on which escapes are valid only if the number the scanner compares is the
// value the digits denote: digit by digit `x = x*B + d`, with B the radix the same loop admits digits of (`d >= B`
// rejects). A shift by a fixed width, or a radix other than the digit radix, is right for one escape form and wrong
// for another (\101 read with 4 bits per digit is 257 > 255: the scanner rejects an escape the grammar accepts).
func bootstrapEscapeRadix(c *Ctx, rule string) {
	r := c.R
	g := c.G()
	if g == nil {
		return
	}
	bp := g.Pkg("bootstrap")
	if bp == nil {
		r.Fatal("%s: package bootstrap not loaded", rule)
		return
	}
	n := 0
	for _, fd := range load.AllFuncDecls(bp) {
		if fd.Body == nil {
			continue
		}
		ast.Inspect(fd.Body, func(nd ast.Node) bool {
			var body *ast.BlockStmt
			switch l := nd.(type) {
			case *ast.ForStmt:
				body = l.Body
			case *ast.RangeStmt:
				body = l.Body
			default:
				return true
			}
			loop := struct {
				Body *ast.BlockStmt
				pos  token.Pos
			}{body, nd.Pos()}
			// the digit test of this loop: `d >= B` (or `B <= d`) with d defined in the loop from digitVal
			digit, radix := "", ""
			ast.Inspect(loop.Body, func(m ast.Node) bool {
				as, ok := m.(*ast.AssignStmt)
				if !ok || len(as.Lhs) != 1 || len(as.Rhs) != 1 {
					return true
				}
				if strings.Contains(nospace(as.Rhs[0]), "digitVal(") {
					if id, ok := as.Lhs[0].(*ast.Ident); ok {
						digit = id.Name
					}
				}
				return true
			})
			if digit == "" {
				return true
			}
			ast.Inspect(loop.Body, func(m ast.Node) bool {
				be, ok := m.(*ast.BinaryExpr)
				if !ok {
					return true
				}
				switch {
				case be.Op == token.GEQ && nospace(be.X) == digit:
					radix = nospace(be.Y)
				case be.Op == token.LEQ && nospace(be.Y) == digit:
					radix = nospace(be.X)
				}
				return true
			})
			// the accumulator: a variable assigned in the loop from itself and the digit
			var bad []string
			acc := 0
			ast.Inspect(loop.Body, func(m ast.Node) bool {
				as, ok := m.(*ast.AssignStmt)
				if !ok || len(as.Lhs) != 1 || len(as.Rhs) != 1 {
					return true
				}
				x := nospace(as.Lhs[0])
				rhs := nospace(as.Rhs[0])
				if x == digit || !mentionsIdent(as.Rhs[0], x) && as.Tok == token.ASSIGN || as.Tok == token.DEFINE {
					return true
				}
				if !mentionsIdent(as.Rhs[0], digit) && !(as.Tok == token.MUL_ASSIGN) {
					return true
				}
				acc++
				okForm := false
				switch as.Tok {
				case token.ASSIGN:
					okForm = radix != "" && (rhs == x+"*"+radix+"+"+digit || rhs == digit+"+"+x+"*"+radix || rhs == radix+"*"+x+"+"+digit)
				case token.MUL_ASSIGN:
					okForm = radix != "" && rhs == radix
				case token.ADD_ASSIGN:
					okForm = rhs == digit
				}
				if !okForm {
					bad = append(bad, fmt.Sprintf("%s: `%s %s %s` is not the positional value of the digits in the radix the loop admits digits of (%s): the number compared with the largest value of the escape form is not the value the escape denotes", g.Where(as.Pos()), x, as.Tok, rhs, firstOr([]string{radix}, "no digit test found")))
				}
				return true
			})
			if acc == 0 {
				return true
			}
			n++
			r.Check(len(bad) == 0 && radix != "", rule, "G.bootstrap."+funcLabel(fd)+":escape-value-is-positional-in-the-digit-radix", "", g.Where(loop.pos),
				fmt.Sprintf("the escape value is accumulated as x*%s + digit, digits are admitted below %s", radix, radix), strings.Join(bad, "; "))
			return true
		})
	}
	r.Min("digit loops of the hand-written scanner", 1, n)
}

func mentionsIdent(e ast.Expr, name string) bool {
	found := false
	ast.Inspect(e, func(n ast.Node) bool {
		if id, ok := n.(*ast.Ident); ok && id.Name == name {
			found = true
		}
		return !found
	})
	return found
}
