package rules

// C13-r — the front-end does not evaluate a recursive operand twice at one position.
//
// pigeon parses grammars with a generated PEG parser that runs without memoisation unless -cache is given. An ordered
// choice two of whose alternatives start with the same rule reference R evaluates R a second time at the same position
// when the first alternative fails behind it. When R leads back to the rule that holds the choice (a parenthesised
// expression), every nesting level doubles the work: n nested groups cost 2^n evaluations, and pigeon does not come back
// on a grammar text of a few dozen parentheses (finding F29).

import (
	"fmt"
	"go/ast"
	"sort"
	"strings"

	"pigeonverif/internal/load"
)

func c13Reevaluation(c *Ctx, g *load.G) {
	r := c.R
	r.Rule("C13-r", "no ordered choice of the front-end grammar starts two alternatives with the same rule reference R when R leads back to the rule that holds the choice and the earlier alternative can fail behind R: without memoisation (the default of the -cache flag) R is evaluated again at the same position on every level of nesting, 2^n evaluations for n nested groups - pigeon does not terminate in practice on a short grammar text")
	root := g.Pkg("")
	if root == nil {
		r.Unk("C13-r", "A.pigeon.go:grammar-literal", "", "", "root package not loaded")
		return
	}
	refs := ruleRefsOfLiteral(root)
	l := &layoutCtx{root: root, exprs: map[string]ast.Expr{}, layout: map[string]bool{}}
	for n := range refs {
		l.exprs[n] = ruleExprOfLiteral(root, n)
	}
	s := &specCtx{layoutCtx: l, root: root, methods: map[string]*ast.FuncDecl{}, errOf: map[string]string{}}
	// the parser runs without memoisation by default
	cacheDefault := ""
	if mf := load.FuncDecl(root, "", "main"); mf != nil {
		for _, ce := range callsIn(mf.Body) {
			if strings.HasSuffix(nospace(ce.Fun), ".Bool") && len(ce.Args) >= 2 && nospace(ce.Args[0]) == `"cache"` {
				cacheDefault = nospace(ce.Args[1])
			}
		}
	}
	if cacheDefault == "true" {
		r.Ok("C13-r", "A.pigeon.go:front-end-memoised-by-default", "", "main.go", "the front-end runs with memoisation by default: repeated evaluations at one position are answered from the table")
		return
	}
	reach := func(from string) map[string]bool {
		seen := map[string]bool{}
		var walk func(n string)
		walk = func(n string) {
			for _, x := range refs[n] {
				if !seen[x] {
					seen[x] = true
					walk(x)
				}
			}
		}
		walk(from)
		return seen
	}
	// head: the rule the alternative evaluates first (through actions, labels, the first consuming item of a sequence);
	// tailCanFail: something that can fail follows it inside the alternative
	var head func(cl *ast.CompositeLit) (string, bool)
	head = func(cl *ast.CompositeLit) (string, bool) {
		if cl == nil {
			return "", false
		}
		switch l.kind(cl) {
		case "ruleRefExpr":
			return s.refName(cl), false
		case "actionExpr", "labeledExpr":
			return head(l.child(cl))
		case "seqExpr":
			items := l.list(cl, "exprs")
			for i, it := range items {
				if l.consumesNothing(it, map[string]bool{}) {
					continue
				}
				h, tf := head(it)
				for _, nx := range items[i+1:] {
					if s.canFail(nx) {
						tf = true
					}
				}
				return h, tf
			}
		}
		return "", false
	}
	names := make([]string, 0, len(refs))
	for n := range refs {
		names = append(names, n)
	}
	sort.Strings(names)
	nChoices := 0
	for _, rn := range names {
		e := unwrapLit(l.exprs[rn])
		if e == nil {
			continue
		}
		for _, ch := range nodesOfType(root, e, "choiceExpr") {
			nChoices++
			alts := l.list(ch, "alternatives")
			type hd struct {
				name string
				tail bool
			}
			var hs []hd
			for _, a := range alts {
				h, tf := head(a)
				hs = append(hs, hd{h, tf})
			}
			reported := map[string]bool{}
			for i := range hs {
				for j := i + 1; j < len(hs); j++ {
					R := hs[i].name
					if R == "" || R != hs[j].name || !hs[i].tail || reported[R] {
						continue
					}
					if R != rn && !reach(R)[rn] {
						continue // evaluated twice, but the cost does not multiply with nesting
					}
					reported[R] = true
					r.Bad("C13-r", fmt.Sprintf("A.pigeon.go:%s:alternatives %d and %d both start with %s", rn, i+1, j+1, R), "", "pigeon.go",
						fmt.Sprintf("rule %s: alternative %d evaluates %s and can fail behind it, alternative %d evaluates %s again at the same position, and %s leads back to %s: every level of nesting doubles the work (the front-end runs without memoisation unless -cache is given)", rn, i+1, R, j+1, R, R, rn))
				}
			}
		}
	}
	r.Analysed["C13-r ordered choices of the front-end grammar"] = nChoices
	r.Min("C13-r ordered choices of the front-end grammar", 10, nChoices)
	if r.CountRule("C13-r") == 0 {
		r.Ok("C13-r", "A.pigeon.go:no-recursive-operand-evaluated-twice", "", "pigeon.go", fmt.Sprintf("%d ordered choices, none starts two alternatives with the same recursive reference", nChoices))
	}
}
