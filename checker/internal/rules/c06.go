package rules

import (
	"fmt"
	"go/ast"
	"go/token"
	"go/types"
	"sort"
	"strings"

	"pigeonverif/internal/absint"
	"pigeonverif/internal/load"
	"pigeonverif/internal/variants"
)

var debugHelpers = map[string]bool{"in": true, "out": true, "print": true, "printIndent": true}

// C06 — Memoize, Debug and Statistics never change results; Memoize bounds the work.
func C06(c *Ctx) {
	r := c.R
	r.Technique = "slice non-interference (syntactic guard positions + type-resolved who-may-read/write) for the debug and statistics slices; typestate abstract interpretation of the memo-table discipline (key = savepoint before the evaluation, end = position after, same guard at get and set) in the 8 non-optimized variants"
	r.Explanation = "Decides completely that Debug and Statistics cannot influence results: every read of p.debug is the condition of an if (or the right operand of `x && p.debug` there) whose body only calls the printing helpers with side-effect-free arguments, the helpers write only p.depth, p.depth is read only by them; the statistics fields are written only by incChoiceAltCnt / the Statistics option and read by nothing that feeds a result, ExprCnt is read only in the budget comparison. Decides the memo-table discipline that makes each (node, offset) be evaluated at most once outside left-recursive rules: a tuple is stored under the savepoint loaded before the evaluation of the same node, with the evaluation's value and flag and the position loaded after it; lookups are keyed by the current offset and the node; the guard at the lookup and at the store is the same expression; a hit restores the stored end and returns the stored value and flag; a stored failing tuple ends where it started. Not decided: that replaying a memoised result equals re-evaluating (needs purity of code blocks: the property's hypothesis); the expected-set bookkeeping on memo hits."
	r.Assumptions = []string{"code blocks are pure functions of text, pos and labels (hypothesis of the property)", "fmt / strings helpers have no side effects beyond stdout"}
	r.Rule("C06-a", "every occurrence of p.debug is (i) the whole condition of an if, (ii) the right operand of `x && p.debug` as the whole condition, or (iii) `!p.debug` guarding an early return inside print; the guarded body consists only of (deferred) calls to in/out/print/printIndent/fmt.Printf whose arguments call nothing but fmt.Sprintf, strings.Join, strings.Repeat, string(), sliceFrom and the helpers themselves")
	r.Rule("C06-a2", "the debug helpers write only p.depth; p.depth and p.debug are read only inside the helpers / guard positions; p.debug is assigned only by the Debug option")
	r.Rule("C06-b", "memo discipline in parseExprWrap and parseRuleMemoize: on every path with a store, the key is the savepoint current when the evaluation of the same node started, the tuple holds that evaluation's value and flag and the position current right after it; every evaluation on the memoize path is preceded by a lookup miss and followed by a store; a hit restores tuple.end and returns tuple.v, tuple.b; failing tuples end at their key")
	r.Rule("C06-b2", "getMemoized reads p.memo[p.pt.offset][node]; setMemoized writes p.memo[<savepoint>.offset][node] = tuple; p.memo has no other writer; lookup and store in parseExprWrap are guarded by the same expression")
	r.Rule("C06-c", "ChoiceAltCnt / choiceNoMatch / Stats are touched only by incChoiceAltCnt, the Statistics option and newParser; incChoiceAltCnt returns nothing; ExprCnt is read only in `p.ExprCnt > p.maxExprCnt` and incremented only in parseExpr")
	r.Rule("C06-d", "with LeftRecursion: under Memoize a left-recursive rule is never routed through the rule memo (a memoised first failure would be replayed on every growth step), and expression memoisation is off inside such rules")
	r.Rule("C06-e", "an expression is answered from the memo table only if what its evaluation does is determined by the node and the offset: a kind whose evaluator stores into the label scope of its caller (a labelled expression binds its label there) or runs a code block on that scope without evaluating an operand of its own first (the code predicates: the labels they read were bound by an enclosing sequence that may have started elsewhere) is excluded from the lookup in parseExprWrap")
	r.Rule("C06-f", "errList.add appends every error it is given: which errors are reported does not depend on how many were recorded before (re-evaluations add duplicates that only dedupe removes, so a cap or filter in add makes the result depend on Memoize)")
	r.Rule("C06-j", "an evaluator's outcome is a function of (node, offset): every parser field a parse<Kind> routine reads in a branch condition is configuration (not stored into while expressions are evaluated), the position, the expression budget, the rule being evaluated or the handler stack - a mode flag or depth counter maintained by enclosing evaluators makes the remembered result of one context wrong in another")
	r.Rule("C06-k", "no expression memo inside left-recursive rules (C08-b under this property): the lookup and the store of parseExprWrap are both guarded by `not leftRecursive` of the rule on top of the rule stack - every member of a recursive group, not only the leader; a remembered result of a non-leader member would be replayed against an older seed")
	r.Rule("C06-i", "no method of the error list drops a recorded error (stores into the list append; the de-duplication runs once, when the list is returned): an error dropped after a lookahead or a failed attempt is reported again only if its code block runs again, which a memo hit prevents")
	r.Rule("C06-h", "a memo entry that is found is the answer: in parseExprWrap and parseRuleMemoize every path on which the lookup succeeded returns without evaluating, and every path that evaluates after a lookup assumes exactly that the lookup missed - no further condition decides whether a hit is used (a hit ignored under some condition re-evaluates the expression at that offset every time: the bound of one evaluation per expression and offset is lost)")
	r.Rule("C06-w", "configuration flags are assigned only by their option function (and newParser defaults): memoize, debug, recover, allowInvalidUTF8, maxExprCnt, entrypoint")

	r.Rule("C06-m", "what a parse records or decides reads the rule stack at its top only (the rule whose expression is being evaluated, which the node determines): the other entries are the call path, which an answer from the memo table does not reproduce - an error prefix or a statistics key built from enclosing rules differs between a first evaluation and its replay")
	r.Rule("C06-l", "a memo entry does not outlive the errors of its evaluation: where the error list is cut back to a snapshot the entries made since are invalidated (C11-i under this property, finding F28) - otherwise Memoize(true) loses code-block errors of rules evaluated inside a discarded growth attempt")
	abs := c.allAbs()
	r.Min("semantic variants analysed", 16, len(abs))
	n := 0
	for _, a := range abs {
		c06w(c, a.V)
		c06RuleStackTopOnly(c, a.V)
		c06MemoEntryIsTheEvaluation(c, a.V)
		rolledBackErrorsVsMemo(c, a.V, "C06-l")
		if a.V.Params.Optimize {
			// debug / memoize / statistics code must be absent
			var found []string
			for _, sym := range []string{"p.debug", "p.memoize", "incChoiceAltCnt", "func Debug(", "func Memoize(", "func Statistics("} {
				if strings.Contains(a.V.Text, sym) {
					found = append(found, sym)
				}
			}
			r.Check(len(found) == 0, "C06-a", "T:optimized-variant-has-no-debug/memo/stats-code", a.V.Name, "builder/static_code.go", "absent", "present: "+strings.Join(found, ","))
			continue
		}
		n++
		c06a(c, a.V)
		c06b(c, a)
		c06c(c, a.V)
		c06d(c, a)
		c06e(c, a.V)
		c06h(c, a.V)
		errListKeepsAll(c, a.V, "C06-f")
		errListMethodsKeepErrors(c, a.V, "C06-i")
		c06j(c, a.V)
		if a.V.Params.LeftRecursion {
			memoOffInLeftRecursiveRules(c, a.V, "C06-k")
		}
	}
	r.Min("non-optimized variants", 8, n)
}

func c06a(c *Ctx, v *variants.Variant) {
	r := c.R
	vn := v.Name
	var bad []string
	nUses := 0
	pureCallees := map[string]bool{"fmt.Sprintf": true, "strings.Join": true, "strings.Repeat": true, "string": true, "len": true, "p.sliceFrom": true,
		"p.in": true, "p.out": true, "p.print": true, "p.printIndent": true}
	bodyCallees := map[string]bool{"p.in": true, "p.out": true, "p.print": true, "p.printIndent": true, "fmt.Printf": true}
	checkArgs := func(fn string, ce *ast.CallExpr) {
		for _, a := range ce.Args {
			ast.Inspect(a, func(n ast.Node) bool {
				switch x := n.(type) {
				case *ast.CallExpr:
					if !pureCallees[callName(x)] {
						bad = append(bad, v.Where(x.Pos())+": debug output argument calls "+callName(x)+" in "+fn)
					}
				case *ast.UnaryExpr:
					if x.Op.String() == "<-" {
						bad = append(bad, v.Where(x.Pos())+": channel receive in debug argument")
					}
				case *ast.FuncLit:
					bad = append(bad, v.Where(x.Pos())+": function literal in debug argument")
				}
				return true
			})
		}
	}
	checkBody := func(fn string, body *ast.BlockStmt) {
		for _, st := range body.List {
			var ce *ast.CallExpr
			switch x := st.(type) {
			case *ast.ExprStmt:
				ce, _ = x.X.(*ast.CallExpr)
			case *ast.DeferStmt:
				ce = x.Call
			case *ast.AssignStmt:
				// a local of the guarded block, defined from a side-effect-free expression, names a value for the output
				if x.Tok == token.DEFINE {
					pure := true
					for _, rh := range x.Rhs {
						ast.Inspect(rh, func(n ast.Node) bool {
							switch y := n.(type) {
							case *ast.CallExpr:
								if !pureCallees[callName(y)] {
									pure = false
								}
							case *ast.UnaryExpr:
								if y.Op == token.ARROW || y.Op == token.AND {
									pure = false
								}
							case *ast.FuncLit:
								pure = false
							}
							return true
						})
					}
					if pure {
						continue
					}
				}
			}
			if ce == nil || !bodyCallees[callName(ce)] {
				bad = append(bad, v.Where(st.Pos())+": statement under a debug guard in "+fn+" is not a call of a printing helper: results would depend on Debug")
				continue
			}
			checkArgs(fn, ce)
		}
	}
	for _, fd := range v.Funcs() {
		if fd.Body == nil {
			continue
		}
		fn := fd.Name.Name
		// collect every p.debug selector and its role
		roles := map[*ast.SelectorExpr]bool{}
		ast.Inspect(fd.Body, func(n ast.Node) bool {
			is, ok := n.(*ast.IfStmt)
			if !ok {
				return true
			}
			cond := is.Cond
			if pe, ok := cond.(*ast.ParenExpr); ok {
				cond = pe.X
			}
			mark := func(e ast.Expr) bool {
				if s, ok := e.(*ast.SelectorExpr); ok && nospace(s) == "p.debug" {
					roles[s] = true
					return true
				}
				return false
			}
			switch x := cond.(type) {
			case *ast.SelectorExpr:
				if mark(x) {
					if is.Else != nil {
						bad = append(bad, v.Where(is.Pos())+": debug guard with an else arm in "+fn)
					}
					checkBody(fn, is.Body)
				}
			case *ast.BinaryExpr:
				if x.Op.String() == "&&" && mark(x.Y) {
					if is.Else != nil {
						bad = append(bad, v.Where(is.Pos())+": debug guard with an else arm in "+fn)
					}
					checkBody(fn, is.Body)
				}
			case *ast.UnaryExpr:
				if x.Op.String() == "!" && fn == "print" && mark(x.X) {
					// early return of the unchanged argument
					ok := len(is.Body.List) == 1
					if ok {
						_, ok = is.Body.List[0].(*ast.ReturnStmt)
					}
					if !ok {
						bad = append(bad, v.Where(is.Pos())+": !p.debug guard in print is not a plain early return")
					}
				}
			}
			return true
		})
		ast.Inspect(fd.Body, func(n ast.Node) bool {
			if s, ok := n.(*ast.SelectorExpr); ok && nospace(s) == "p.debug" {
				nUses++
				if !roles[s] {
					// assignment target in the option is fine
					if fn == "Debug" {
						return true
					}
					bad = append(bad, v.Where(s.Pos())+": p.debug read outside a guard position in "+fn)
				}
			}
			return true
		})
	}
	sort.Strings(bad)
	if len(bad) > 0 {
		r.Bad("C06-a", "T.debug:guard-positions-only", vn, "builder/static_code.go", bad[0])
	} else {
		r.Ok("C06-a", "T.debug:guard-positions-only", vn, "builder/static_code.go", fmt.Sprintf("%d occurrences of p.debug, all in guard positions over printing-only bodies", nUses))
	}
	// helpers' effects and readers of depth
	var bad2 []string
	for _, w := range fieldWrites(v) {
		if debugHelpers[w.Func] && !(w.Owner == "parser" && w.Field == "depth") {
			bad2 = append(bad2, v.Where(w.Pos)+": debug helper "+w.Func+" stores to "+w.Owner+"."+w.Field)
		}
		if w.Owner == "parser" && w.Field == "depth" && !debugHelpers[w.Func] {
			bad2 = append(bad2, v.Where(w.Pos)+": p.depth written in "+w.Func)
		}
		if w.Owner == "parser" && w.Field == "debug" && w.Func != "Debug" {
			bad2 = append(bad2, v.Where(w.Pos)+": p.debug written in "+w.Func)
		}
	}
	for _, fd := range v.Funcs() {
		if fd.Body == nil || debugHelpers[fd.Name.Name] {
			continue
		}
		ast.Inspect(fd.Body, func(n ast.Node) bool {
			if s, ok := n.(*ast.SelectorExpr); ok && nospace(s) == "p.depth" {
				bad2 = append(bad2, v.Where(s.Pos())+": p.depth used in "+fd.Name.Name)
			}
			return true
		})
		// helpers called outside guard positions must be harmless: their results must not be used
	}
	// helper bodies: may call only fmt.Printf / strings.Repeat / each other
	for h := range debugHelpers {
		fd := v.Func("parser", h)
		if fd == nil {
			bad2 = append(bad2, "helper "+h+" missing")
			continue
		}
		for _, ce := range callsIn(fd.Body) {
			cn := callName(ce)
			if !(cn == "fmt.Printf" || cn == "strings.Repeat" || (strings.HasPrefix(cn, "p.") && debugHelpers[strings.TrimPrefix(cn, "p.")])) {
				bad2 = append(bad2, v.Where(ce.Pos())+": debug helper "+h+" calls "+cn)
			}
		}
	}
	sort.Strings(bad2)
	if len(bad2) > 0 {
		r.Bad("C06-a2", "T.debug:helpers-write-only-depth", vn, "builder/static_code.go", bad2[0])
	} else {
		r.Ok("C06-a2", "T.debug:helpers-write-only-depth", vn, "builder/static_code.go", "in/out/print/printIndent touch only p.depth and stdout")
	}
}

func c06b(c *Ctx, a *absVariant) {
	r := c.R
	v := a.V
	vn := v.Name
	for _, fn := range []string{"parseExprWrap", "parseRuleMemoize"} {
		res := a.Res[fn]
		if res == nil {
			r.Fatal("variant %s: %s missing", vn, fn)
			continue
		}
		var bad []string
		nStore, nHit := 0, 0
		for _, e := range res.Exits {
			evs := e.State.Ev
			gets, sets, evals := eventsOf(e, "getMemo"), eventsOf(e, "setMemo"), eventsOf(e, "eval")
			if isMemoExit(e) {
				nHit++
				// hit: restore(end of the looked-up tuple), return its v and b
				if len(gets) != 1 || len(evals) != 0 || e.Value().String() != "unk(memo.v)" || e.Ok().B != "memo.b" {
					bad = append(bad, a.where(e, res.Fn)+": memo hit does not return the stored value and flag after restoring the stored end ["+evString(e)+"]")
				}
				continue
			}
			if len(gets) == 0 && len(sets) == 0 {
				continue // memoize off on this path
			}
			if len(evals) != 1 || len(gets) != 1 || len(sets) != 1 {
				bad = append(bad, fmt.Sprintf("%s: on the memoize path: %d lookups, %d evaluations, %d stores (expected 1/1/1) [%s]", a.where(e, res.Fn), len(gets), len(evals), len(sets), evString(e)))
				continue
			}
			nStore++
			// order get < eval < set and nothing moving the position in between
			idx := map[string]int{}
			for i, ev := range evs {
				switch ev.Kind {
				case "getMemo", "eval", "setMemo":
					idx[ev.Kind] = i
				case "read", "restore", "run":
					bad = append(bad, a.V.Where(ev.Pos)+": "+ev.Kind+" on the memoize path of "+fn)
				}
			}
			if !(idx["getMemo"] < idx["eval"] && idx["eval"] < idx["setMemo"]) {
				bad = append(bad, a.where(e, res.Fn)+": lookup / evaluation / store out of order ["+evString(e)+"]")
				continue
			}
			get, ev, set := gets[0], evals[0], sets[0]
			key, tup := set.Vals[0], set.Vals[1]
			okEval := ev.Args[2] == "ok"
			if get.Args[0] != ev.Args[1] || set.Args[1] != ev.Args[1] {
				bad = append(bad, fmt.Sprintf("%s: lookup node %s, evaluated node %s, stored node %s differ", a.V.Where(set.Pos), get.Args[0], ev.Args[1], set.Args[1]))
			}
			// the key is the savepoint taken where the evaluation started, or the offset read from that savepoint
			if !((key.K == "sp" || (key.K == "spfield" && key.B == "offset")) && key.A == ev.Pt) {
				bad = append(bad, fmt.Sprintf("%s: store is keyed by savepoint %s but the evaluation started at %s (key must be loaded before the evaluation)", a.V.Where(set.Pos), key, ev.Pt))
			}
			if get.Args[1] != ev.Pt {
				bad = append(bad, a.V.Where(get.Pos)+": lookup happens at a different position than the evaluation start")
			}
			end := tup.F["end"]
			wantEnd := ev.Pt
			if okEval {
				wantEnd = ev.Args[3] + ":ok"
			}
			if tup.K != "tuple" || end.K != "sp" || end.A != wantEnd || end.A != set.Pt {
				bad = append(bad, fmt.Sprintf("%s: stored end is %s, expected the position right after the evaluation (%s)", a.V.Where(set.Pos), end, wantEnd))
			}
			b := tup.F["b"]
			if (okEval && !b.IsTrue()) || (!okEval && !b.IsFalse()) {
				bad = append(bad, fmt.Sprintf("%s: stored flag %s is not the evaluation's result", a.V.Where(set.Pos), b))
			}
			vv := tup.F["v"]
			if okEval && !(vv.K == "child" && vv.A == ev.Args[3]) || !okEval && vv.K != "nil" {
				bad = append(bad, fmt.Sprintf("%s: stored value %s is not the evaluation's value", a.V.Where(set.Pos), vv))
			}
			if !okEval && end.A != key.A {
				bad = append(bad, a.V.Where(set.Pos)+": a failing tuple must end at its key")
			}
			// returned values are the evaluation's
			if okEval != e.Ok().IsTrue() {
				bad = append(bad, a.where(e, res.Fn)+": returned flag differs from the evaluation's")
			}
		}
		sort.Strings(bad)
		w := v.Where(res.Fn.Pos())
		if len(bad) > 0 {
			r.Bad("C06-b", "T."+fn+":memo-discipline", vn, w, bad[0])
		} else if nStore == 0 || nHit == 0 {
			r.Bad("C06-b", "T."+fn+":memo-discipline", vn, w, fmt.Sprintf("no memoize path found (%d store paths, %d hit paths): Memoize would not bound the work", nStore, nHit))
		} else {
			r.Ok("C06-b", "T."+fn+":memo-discipline", vn, w, fmt.Sprintf("%d store paths, %d hit paths", nStore, nHit))
		}
	}
	// same guard at lookup and store in parseExprWrap: the conditions in force at the two calls are the same, and they
	// include p.memoize - itself, or a local that is only ever p.memoize or false (memoization switched off for some nodes)
	fd := v.Func("parser", "parseExprWrap")
	var gGet, gSet []string
	for _, ce := range callsIn(fd.Body) {
		switch callSel(ce) {
		case "getMemoized":
			gGet = factsAt(fd.Body, ce.Pos())
		case "setMemoized":
			gSet = factsAt(fd.Body, ce.Pos())
		}
	}
	impliesMemoize := func(gs []string) bool {
		for _, gd := range gs {
			if gd == "p.memoize" {
				return true
			}
			if token.IsIdentifier(gd) {
				okDefs, n := true, 0
				ast.Inspect(fd.Body, func(nd ast.Node) bool {
					if as, ok := nd.(*ast.AssignStmt); ok {
						for k, l := range as.Lhs {
							if nospace(l) == gd && k < len(as.Rhs) {
								n++
								// the local is the option itself, or a conjunction one of whose members is the option
								rhs := nospace(as.Rhs[k])
								has := rhs == "false"
								for _, cj := range splitTop(minParens(rhs), "&&") {
									if minParens(cj) == "p.memoize" {
										has = true
									}
								}
								if !has {
									okDefs = false
								}
							}
						}
					}
					return true
				})
				if okDefs && n > 0 {
					return true
				}
			}
		}
		return false
	}
	splitAll := func(gs []string) []string {
		var out []string
		for _, gd := range gs {
			out = append(out, splitTop(gd, "&&")...)
		}
		sort.Strings(out)
		return out
	}
	gGet, gSet = splitAll(gGet), splitAll(gSet)
	r.Check(len(gGet) >= 1 && strings.Join(gGet, ";") == strings.Join(gSet, ";") && impliesMemoize(gGet), "C06-b2", "T.parseExprWrap:same-guard-at-get-and-set", vn, v.Where(fd.Pos()),
		"both under `"+strings.Join(gGet, ";")+"`", "lookup under ["+strings.Join(gGet, ";")+"], store under ["+strings.Join(gSet, ";")+"]")
	// table accessors
	gm, sm := v.Func("parser", "getMemoized"), v.Func("parser", "setMemoized")
	if gm == nil || sm == nil {
		r.Fatal("variant %s: memo accessors missing", vn)
		return
	}
	node := gm.Type.Params.List[0].Names[0].Name
	okG1, okG2 := false, false
	ast.Inspect(gm.Body, func(n ast.Node) bool {
		if ix, ok := n.(*ast.IndexExpr); ok {
			t := nospace(ix)
			if t == "p.memo[p.pt.offset]" {
				okG1 = true
			}
			if strings.HasSuffix(t, "["+node+"]") {
				okG2 = true
			}
		}
		return true
	})
	r.Check(okG1 && okG2, "C06-b2", "T.getMemoized:keyed-by-current-offset-and-node", vn, v.Where(gm.Pos()), "p.memo[p.pt.offset][node]", fmt.Sprintf("offset-key=%t node-key=%t", okG1, okG2))
	var sp []string
	for _, f := range sm.Type.Params.List {
		for _, nm := range f.Names {
			sp = append(sp, nm.Name)
		}
	}
	okS1, okS2 := false, false
	if len(sp) == 3 {
		ast.Inspect(sm.Body, func(n ast.Node) bool {
			switch x := n.(type) {
			case *ast.IndexExpr:
				if nospace(x) == "p.memo["+sp[0]+".offset]" {
					okS1 = true
				}
				// the caller hands over the offset itself (an int): what it is the offset of is decided at the call
				// sites by the memo-discipline rule (C06-b)
				if nospace(x) == "p.memo["+sp[0]+"]" && nospace(sm.Type.Params.List[0].Type) == "int" {
					okS1 = true
				}
			case *ast.AssignStmt:
				if strings.HasSuffix(nospace(x.Lhs[0]), "["+sp[1]+"]") && nospace(x.Rhs[0]) == sp[2] {
					okS2 = true
				}
			}
			return true
		})
	}
	r.Check(okS1 && okS2, "C06-b2", "T.setMemoized:stores-under-savepoint-offset-and-node", vn, v.Where(sm.Pos()), "p.memo[pt.offset][node] = tuple", fmt.Sprintf("offset-key=%t store=%t", okS1, okS2))
	memoTableTotal(c, v, "C06-b2")
	// every expression evaluation passes the memo: parseExpr has parseExprWrap as its only caller
	var pc []string
	for _, f := range v.Funcs() {
		if f.Body == nil {
			continue
		}
		for _, ce := range callsIn(f.Body) {
			if callSel(ce) == "parseExpr" && f.Name.Name != "parseExprWrap" {
				pc = append(pc, f.Name.Name+" ("+v.Where(ce.Pos())+")")
			}
		}
	}
	sort.Strings(pc)
	r.Check(len(pc) == 0, "C06-b2", "T.parseExpr:only-called-through-the-memo-wrapper", vn, "builder/static_code.go", "parseExprWrap is the only caller", "parseExpr is called directly from "+strings.Join(pc, ", ")+": those evaluations are neither looked up nor stored, so with Memoize(true) an (expression, offset) pair can be evaluated many times")
	var ws []string
	for _, w := range fieldWrites(v) {
		if w.Owner == "parser" && w.Field == "memo" && w.Func != "setMemoized" {
			ws = append(ws, w.Func)
		}
	}
	r.Check(len(ws) == 0, "C06-b2", "T.parser.memo:writers", vn, "builder/static_code.go", "setMemoized only", "also written in "+strings.Join(ws, ","))
	_ = absint.Entry
}

func c06c(c *Ctx, v *variants.Variant) {
	r := c.R
	vn := v.Name
	var bad []string
	allowed := map[string]map[string]bool{
		"ChoiceAltCnt":  {"incChoiceAltCnt": true, "Statistics": true, "newParser": true},
		"choiceNoMatch": {"incChoiceAltCnt": true, "Statistics": true},
		"Stats":         {"Statistics": true, "newParser": true},
		"ExprCnt":       {"parseExpr": true},
	}
	for _, fd := range v.Funcs() {
		if fd.Body == nil {
			continue
		}
		fn := fd.Name.Name
		ast.Inspect(fd.Body, func(n ast.Node) bool {
			s, ok := n.(*ast.SelectorExpr)
			if !ok {
				return true
			}
			al, tracked := allowed[s.Sel.Name]
			if !tracked {
				return true
			}
			if !strings.HasPrefix(nospace(s), "p.") && !strings.HasPrefix(nospace(s), "stats.") {
				return true
			}
			if !al[fn] {
				bad = append(bad, v.Where(s.Pos())+": statistics field "+s.Sel.Name+" used in "+fn)
			}
			return true
		})
	}
	// ExprCnt: only `p.ExprCnt++` and `p.ExprCnt > p.maxExprCnt`
	if pe := v.Func("parser", "parseExpr"); pe != nil {
		ast.Inspect(pe.Body, func(n ast.Node) bool {
			s, ok := n.(*ast.SelectorExpr)
			if !ok || s.Sel.Name != "ExprCnt" {
				return true
			}
			g := false
			ast.Inspect(pe.Body, func(m ast.Node) bool {
				switch x := m.(type) {
				case *ast.IncDecStmt:
					if x.X == ast.Expr(s) {
						g = true
					}
				case *ast.BinaryExpr:
					if x.X == ast.Expr(s) && nospace(x) == "p.ExprCnt>p.maxExprCnt" {
						g = true
					}
				}
				return true
			})
			if !g {
				bad = append(bad, v.Where(s.Pos())+": ExprCnt used outside the increment and the budget comparison")
			}
			return true
		})
	}
	if ic := v.Func("parser", "incChoiceAltCnt"); ic != nil {
		if ic.Type.Results != nil && len(ic.Type.Results.List) > 0 {
			bad = append(bad, v.Where(ic.Pos())+": incChoiceAltCnt returns a value")
		}
		for _, w := range fieldWrites(v) {
			if w.Func == "incChoiceAltCnt" && !(w.Field == "ChoiceAltCnt") {
				bad = append(bad, v.Where(w.Pos)+": incChoiceAltCnt stores to "+w.Owner+"."+w.Field)
			}
		}
	} else {
		bad = append(bad, "incChoiceAltCnt missing")
	}
	sort.Strings(bad)
	if len(bad) > 0 {
		r.Bad("C06-c", "T.statistics:write-only-slice", vn, "builder/static_code.go", bad[0])
	} else {
		r.Ok("C06-c", "T.statistics:write-only-slice", vn, "builder/static_code.go", "statistics fields confined to incChoiceAltCnt, Statistics, newParser; ExprCnt read only by the budget test")
	}
}

// c06w: configuration flags have their option as only writer.
func c06w(c *Ctx, v *variants.Variant) {
	r := c.R
	owners := map[string]map[string]bool{
		"memoize": {"Memoize": true}, "debug": {"Debug": true}, "recover": {"Recover": true}, "allowInvalidUTF8": {"AllowInvalidUTF8": true},
		"maxExprCnt": {"MaxExpressions": true, "newParser": true}, "entrypoint": {"Entrypoint": true},
	}
	var bad []string
	for _, w := range fieldWrites(v) {
		if w.Owner != "parser" {
			continue
		}
		if al, ok := owners[w.Field]; ok && !al[w.Func] {
			bad = append(bad, v.Where(w.Pos)+": p."+w.Field+" written in "+w.Func)
		}
	}
	sort.Strings(bad)
	if len(bad) > 0 {
		r.Bad("C06-w", "T.config-flags:writers", v.Name, "builder/static_code.go", bad[0])
	} else {
		r.Ok("C06-w", "T.config-flags:writers", v.Name, "builder/static_code.go", "each flag assigned only by its option")
	}
}

// c06d: Memoize must not change how left-recursive rules are evaluated.
func c06d(c *Ctx, a *absVariant) {
	r := c.R
	v := a.V
	if !v.Params.LeftRecursion {
		return
	}
	res := a.Res["parseRuleWrap"]
	if res == nil {
		return
	}
	var bad []string
	for _, e := range res.Exits {
		for _, ev := range eventsOf(e, "eval") {
			if ev.Args[0] != "parseRuleMemoize" {
				continue
			}
			okFact := false
			for f, val := range ev.Facts {
				if val && strings.Contains(strings.ReplaceAll(f, " ", ""), "!rule.leftRecursive") {
					okFact = true
				}
				if !val && strings.ReplaceAll(f, " ", "") == "rule.leftRecursive" {
					okFact = true
				}
			}
			if !okFact {
				bad = append(bad, v.Where(ev.Pos)+": parseRuleMemoize is reachable for a left-recursive rule (no !rule.leftRecursive on the path): under Memoize(true) the rule's first failing result would be replayed on every growth step")
			}
		}
	}
	sort.Strings(bad)
	if len(bad) > 0 {
		r.Bad("C06-d", "T.parseRuleWrap:memo-not-for-left-recursive-rules", v.Name, v.Where(res.Fn.Pos()), bad[0])
	} else {
		r.Ok("C06-d", "T.parseRuleWrap:memo-not-for-left-recursive-rules", v.Name, v.Where(res.Fn.Pos()), "rule memo only under !rule.leftRecursive")
	}
}

// memoTableTotal: the memo table is a total store. setMemoized stores the tuple on every path (conditions may only
// create the missing maps) and getMemoized reports a miss only when the table or the per-offset map is empty and
// otherwise returns the map's own answer. Callers - the packrat wrappers and, above all, the growth loop of a
// left-recursive leader, which overwrites the failure seed with each larger result - rely on "what was set is what is got".
func memoTableTotal(c *Ctx, v *variants.Variant, rule string) {
	r := c.R
	vn := v.Name
	gm, sm := v.Func("parser", "getMemoized"), v.Func("parser", "setMemoized")
	if gm == nil || sm == nil || gm.Body == nil || sm.Body == nil {
		return
	}
	var sp []string
	for _, f := range sm.Type.Params.List {
		for _, nm := range f.Names {
			sp = append(sp, nm.Name)
		}
	}
	if len(sp) != 3 {
		r.Unk(rule, "T.setMemoized:stores-on-every-path", vn, v.Where(sm.Pos()), "unexpected parameter list")
		return
	}
	var bad []string
	paths := enumPaths(sm.Body)
	for _, p := range paths {
		for _, gd := range p.guards() {
			t := gd[1:]
			if strings.Contains(t, sp[2]) || !(strings.HasSuffix(t, "==nil") || strings.HasSuffix(t, "!=nil") || strings.HasPrefix(t, "len(") && (strings.HasSuffix(t, ")==0") || strings.HasSuffix(t, ")>0"))) {
				bad = append(bad, "the store depends on `"+t+"`: a result that is not stored is evaluated again (C06 bound) and a left-recursive leader keeps its failure seed instead of the grown result")
			}
		}
		stored := false
		for _, e := range p {
			if as, ok := e.Node.(*ast.AssignStmt); ok && e.Kind == "assign" && len(as.Lhs) == 1 && strings.HasSuffix(nospace(as.Lhs[0]), "["+sp[1]+"]") && nospace(as.Rhs[0]) == sp[2] {
				stored = true
			}
		}
		if !stored {
			bad = append(bad, "a path ["+strings.Join(p.guards(), " ")+"] returns without storing the tuple")
		}
	}
	r.Check(len(bad) == 0 && len(paths) > 0, rule, "T.setMemoized:stores-on-every-path", vn, v.Where(sm.Pos()), fmt.Sprintf("%d paths, each ends with the store; conditions only create missing maps", len(paths)), strings.Join(uniq(bad), "; "))
	bad = nil
	node := firstParam(gm)
	npaths := c.vnorm(v).normPaths(gm)
	paths = nil
	nHit := 0
	for _, p := range npaths {
		paths = append(paths, p)
		ret := lastReturn(p)
		parts := splitTop(ret, ",")
		if p[len(p)-1].Kind != "return" || len(parts) != 2 {
			bad = append(bad, "a path does not return a tuple and a flag")
			continue
		}
		if dollarRe.FindString(parts[1]) == parts[1] {
			// a named result that was never assigned on this path holds its zero value
			if v, _ := lastSet(p, parts[1]); v == "zero" {
				parts[1] = "zero"
			}
		}
		// a fact about the table, one of its rows or the entry itself: "absent" (empty, nil, not found) or "present"
		absent := func(f string) bool {
			if strings.HasPrefix(f, "!ok(") && strings.HasSuffix(f, ")") {
				return true
			}
			return (strings.HasPrefix(f, "len(") && strings.HasSuffix(f, ")==0")) || strings.HasSuffix(f, "==nil")
		}
		present := func(f string) bool {
			if strings.HasPrefix(f, "ok(") && strings.HasSuffix(f, ")") {
				return true
			}
			return (strings.HasPrefix(f, "len(") && strings.HasSuffix(f, ")>0")) || strings.HasSuffix(f, "!=nil")
		}
		if parts[1] == "false" || parts[1] == "zero" {
			// a miss: must be justified by a fact that says the table, the row or the entry is absent (every
			// disjunct of a disjunction must say so)
			just := false
			for _, f := range p.facts() {
				all := true
				for _, d := range splitTop(f, "||") {
					if !absent(d) {
						all = false
					}
				}
				if all {
					just = true
				}
			}
			if !just {
				bad = append(bad, "a miss is reported on the path ["+strings.Join(p.facts(), " ")+"] although nothing was found absent")
			}
			continue
		}
		nHit++
		// the answer of the map lookup itself: X[node] with the flag of that lookup (or true where the path knows it)
		flagOK := parts[1] == "ok("+parts[0]+")" || (parts[1] == "true" && p.holds("ok("+parts[0]+")"))
		if !(strings.HasSuffix(parts[0], "["+node+"]") && flagOK) {
			bad = append(bad, "the hit path returns "+ret+", not the result of the map lookup by node")
		}
		for _, f := range p.facts() {
			if !present(f) && !absent(f) {
				bad = append(bad, "the lookup depends on `"+f+"`")
			}
		}
	}
	if nHit == 0 {
		bad = append(bad, "no path returns the stored tuple")
	}
	r.Check(len(bad) == 0, rule, "T.getMemoized:returns-what-was-stored", vn, v.Where(gm.Pos()), fmt.Sprintf("%d paths: misses only for an empty table, otherwise the map's answer", len(paths)), strings.Join(uniq(bad), "; "))
}

// c06e: kinds that may not be served from the memo table (rule C06-e).
func c06e(c *Ctx, v *variants.Variant) {
	r := c.R
	vn := v.Name
	pw := v.Func("parser", "parseExprWrap")
	pe := v.Func("parser", "parseExpr")
	if pw == nil || pe == nil {
		r.Fatal("variant %s: parseExprWrap / parseExpr missing", vn)
		return
	}
	// the evaluator of every kind, from the dispatch in parseExpr
	si := typeSwitchOn(pe, firstParam(pe))
	nc := c.vnorm(v).without("parseExprWrap", "parseExpr", "pushV", "popV", "restore", "restoreState", "cloneState", "addErr", "addErrAt", "failAt", "read", "sliceFrom")
	var scoped []string
	reason := map[string]string{}
	for kind, cc := range si.Cases {
		var ev *ast.FuncDecl
		for _, ce := range callsIn(cc) {
			if f := v.Func("parser", callSel(ce)); f != nil && strings.HasPrefix(callSel(ce), "parse") {
				ev = f
			}
		}
		if ev == nil {
			continue
		}
		rv := recvName(ev)
		for _, p0 := range nc.normPaths(ev) {
			p := substAliases(p0, func(s string) bool { return strings.HasPrefix(s, rv+".vstack[") })
			depth := 0
			evaluated := false
			for _, e := range p {
				switch {
				case e.Kind == "call" && e.Text == rv+".pushV()":
					depth++
				case e.Kind == "call" && e.Text == rv+".popV()":
					depth--
				case e.Kind == "call" && strings.HasPrefix(e.Text, rv+".parseExprWrap("):
					evaluated = true
				case e.Kind == "set" && strings.HasPrefix(e.Text, rv+".vstack[len("+rv+".vstack)-1][") && depth == 0:
					reason[kind] = "binds a label in the scope of its caller"
				case e.Kind == "call" && strings.HasSuffix(e.Text, ".run("+rv+")") && depth == 0 && !evaluated:
					// a code block run on the caller's scope; state blocks (no boolean result) are outside C06's grammars
					if res := ev.Type.Results; res != nil {
						for _, e2 := range p {
							if e2.Kind == "set" && strings.Contains(e2.Text, "=res1("+e.Text+")") || e2.Kind == "set" && strings.Contains(e2.Text, "=res0("+e.Text+")") {
								if strings.Contains(p.String(), "res1("+e.Text+")") {
									reason[kind] = "runs a predicate block that reads the labels of its caller's scope"
								}
							}
						}
					}
				}
			}
		}
		if reason[kind] != "" {
			scoped = append(scoped, kind)
		}
	}
	sort.Strings(scoped)
	if len(scoped) == 0 {
		r.Fatal("variant %s: no evaluator that binds or reads its caller's label scope was recognised (anchor lost)", vn)
		return
	}
	// the lookup in parseExprWrap: which kinds are excluded where getMemoized is called
	x := firstParam(pw)
	var lookup *ast.CallExpr
	for _, ce := range callsIn(pw.Body) {
		if callSel(ce) == "getMemoized" {
			lookup = ce
		}
	}
	if lookup == nil {
		r.Fatal("variant %s: parseExprWrap has no memo lookup", vn)
		return
	}
	facts := factsAt(pw.Body, lookup.Pos())
	switched := map[string]bool{}
	ast.Inspect(pw.Body, func(n ast.Node) bool {
		if ts, ok := n.(*ast.TypeSwitchStmt); ok && ts.End() < lookup.Pos() && typeSwitchOperand(ts) == x {
			for _, cl := range ts.Body.List {
				for _, t := range cl.(*ast.CaseClause).List {
					switched[strings.TrimPrefix(nospace(t), "*")] = true
				}
			}
		}
		return true
	})
	for _, kind := range scoped {
		excluded := switched[kind]
		for _, f := range facts {
			if f == "!ok("+x+".(*"+kind+"))" {
				excluded = true
			}
		}
		r.Check(excluded, "C06-e", "T.parseExprWrap:memo-excludes="+kind, vn, v.Where(lookup.Pos()), "not answered from the memo table",
			"*"+kind+" "+reason[kind]+", but a memo hit in parseExprWrap skips its evaluation: under Memoize(true) the label stays unbound / the predicate's first answer is replayed for other label values, so results differ from the default options")
	}
}

// typeSwitchOperand: the expression text a type switch switches on.
func typeSwitchOperand(ts *ast.TypeSwitchStmt) string {
	var e ast.Expr
	switch a := ts.Assign.(type) {
	case *ast.ExprStmt:
		e = a.X
	case *ast.AssignStmt:
		if len(a.Rhs) == 1 {
			e = a.Rhs[0]
		}
	}
	if ta, ok := e.(*ast.TypeAssertExpr); ok {
		return nospace(ta.X)
	}
	return ""
}

// c06h (C06-h): a found memo entry is used unconditionally.
func c06h(c *Ctx, v *variants.Variant) {
	r := c.R
	for _, it := range []struct{ fn, eval string }{{"parseExprWrap", "parseExpr"}, {"parseRuleMemoize", "parseRule"}} {
		fd := v.Func("parser", it.fn)
		if fd == nil {
			continue
		}
		rv := recvName(fd)
		paths := c.vnorm(v).without(it.eval, "restore", "getMemoized", "setMemoized", "printIndent", "sliceFrom", "pushV", "popV").normPaths(fd)
		var bad []string
		nLook := 0
		for _, p := range paths {
			iLook := p.evIndex("call", 0, func(t string) bool { return strings.HasPrefix(t, rv+".getMemoized(") })
			if iLook < 0 {
				continue
			}
			nLook++
			hit := "res1(" + p[iLook].Text + ")"
			iEval := p.evIndex("call", iLook, func(t string) bool { return strings.HasPrefix(t, rv+"."+it.eval+"(") })
			after := p[iLook:]
			switch {
			case after.holds(hit) && iEval >= 0:
				bad = append(bad, "a path evaluates although the lookup succeeded ["+abbreviate(strings.Join(after.facts(), " "))+"]")
			case iEval >= 0 && !after.holds("!"+hit):
				bad = append(bad, "whether a found entry is used depends on more than the lookup: the evaluation runs under ["+abbreviate(strings.Join(p[iLook:iEval].facts(), " "))+"], not exactly when the lookup missed")
			case iEval < 0 && !after.holds(hit):
				bad = append(bad, "a path neither uses a found entry nor evaluates ["+abbreviate(strings.Join(after.facts(), " "))+"]")
			}
		}
		if nLook == 0 {
			bad = append(bad, "no path with a memo lookup found")
		}
		r.Check(len(bad) == 0, "C06-h", "T."+it.fn+":found-entry-is-the-answer", v.Name, v.Where(fd.Pos()), fmt.Sprintf("%d paths with a lookup: a hit returns without evaluating, an evaluation assumes exactly a miss", nLook), strings.Join(uniq(bad), "; "))
	}
}

// c06j (C06-j): what an evaluator yields is a function of (node, offset). The memo table remembers results by that
// key, so an evaluator must not branch on parser state that changes in the course of a parse - a counter that says
// "inside a predicate", a flag set by an enclosing evaluator - unless that state is part of what the property allows to
// matter: the position, the expression budget, and the handler stack of throw/recover (outside the hypothesis of this
// property). Configuration is fine: a field no function stores into besides newParser and the option constructors.
// The rule: every parser field an evaluator reads in a branch condition is configuration or one of those three.
func c06j(c *Ctx, v *variants.Variant) {
	r := c.R
	// option constructors: functions that return the Option type
	isConfigWriter := map[string]bool{"newParser": true}
	for _, fd := range v.Funcs() {
		if fd.Recv == nil && fd.Type.Results != nil && len(fd.Type.Results.List) == 1 && nospace(fd.Type.Results.List[0].Type) == "Option" {
			isConfigWriter[fd.Name.Name] = true
		}
	}
	// the functions that run while expressions are evaluated: the evaluators and everything they call (the set-up of
	// a parse - rule table, first read - happens before and is configuration as far as an evaluator can tell)
	isEvaluator := func(fd *ast.FuncDecl) bool {
		return fd.Recv != nil && fd.Body != nil && strings.HasPrefix(fd.Name.Name, "parse") && load.RecvName(fd) == "parser" &&
			fd.Type.Results != nil && fd.Type.Results.NumFields() == 2 && nospace(fd.Type.Results.List[len(fd.Type.Results.List)-1].Type) == "bool"
	}
	byName := map[string]*ast.FuncDecl{}
	for _, fd := range v.Funcs() {
		byName[fd.Name.Name] = fd
	}
	during := map[string]bool{}
	var mark func(fd *ast.FuncDecl)
	mark = func(fd *ast.FuncDecl) {
		if fd == nil || fd.Body == nil || during[fd.Name.Name] {
			return
		}
		during[fd.Name.Name] = true
		for _, ce := range callsIn(fd.Body) {
			cn := callSel(ce)
			if cn == "" {
				cn = callName(ce)
			}
			mark(byName[cn])
		}
	}
	for _, fd := range v.Funcs() {
		if isEvaluator(fd) {
			mark(fd)
		}
	}
	mutable := map[string]string{}
	for _, w := range fieldWrites(v) {
		if w.Owner == "parser" && !isConfigWriter[w.Func] && during[w.Func] {
			if _, ok := mutable[w.Field]; !ok {
				mutable[w.Field] = w.Func
			}
		}
	}
	allowed := map[string]string{"pt": "the position", "ExprCnt": "the expression budget", "Stats": "the expression budget", "recoveryStack": "the handler stack (throw/recover: outside this property's hypothesis)",
		"rstack": "the rule being evaluated (every expression node belongs to exactly one rule, so the top of the rule stack is a function of the node)"}
	nEval, nReads := 0, 0
	var bad []string
	for _, fd := range v.Funcs() {
		if fd.Recv == nil || fd.Body == nil || !strings.HasPrefix(fd.Name.Name, "parse") || load.RecvName(fd) != "parser" {
			continue
		}
		if fd.Type.Results == nil || fd.Type.Results.NumFields() != 2 || nospace(fd.Type.Results.List[len(fd.Type.Results.List)-1].Type) != "bool" {
			continue // evaluators return (value, matched)
		}
		recv := recvName(fd)
		nEval++
		// locals that hold (something computed from) such a field: `keep := p.mode == 0` … `if keep {`
		readsMode := func(e ast.Expr, tainted map[string]bool) string {
			found := ""
			ast.Inspect(e, func(n ast.Node) bool {
				switch x := n.(type) {
				case *ast.FuncLit:
					return false
				case *ast.Ident:
					if tainted[x.Name] && found == "" {
						found = x.Name
					}
				case *ast.SelectorExpr:
					if id, ok := x.X.(*ast.Ident); ok && id.Name == recv {
						if s := v.Info.Selections[x]; s != nil && s.Kind() == types.FieldVal {
							if _, isMut := mutable[x.Sel.Name]; isMut && allowed[x.Sel.Name] == "" && found == "" {
								found = recv + "." + x.Sel.Name
							}
						}
					}
				}
				return true
			})
			return found
		}
		tainted := map[string]bool{}
		taintOf := map[string]string{}
		for changed := true; changed; {
			changed = false
			ast.Inspect(fd.Body, func(n ast.Node) bool {
				as, ok := n.(*ast.AssignStmt)
				if !ok || len(as.Lhs) != len(as.Rhs) {
					return true
				}
				for i, l := range as.Lhs {
					id, ok := l.(*ast.Ident)
					if !ok || tainted[id.Name] {
						continue
					}
					if src := readsMode(as.Rhs[i], tainted); src != "" {
						tainted[id.Name] = true
						if t, ok := taintOf[src]; ok {
							taintOf[id.Name] = t
						} else {
							taintOf[id.Name] = src
						}
						changed = true
					}
				}
				return true
			})
		}
		scan := func(cond ast.Expr) {
			if cond != nil {
				ast.Inspect(cond, func(n ast.Node) bool {
					if id, ok := n.(*ast.Ident); ok && tainted[id.Name] {
						f := strings.TrimPrefix(taintOf[id.Name], recv+".")
						bad = append(bad, fmt.Sprintf("%s: %s branches on %s, computed from %s.%s, which %s stores into during the parse", v.Where(id.Pos()), fd.Name.Name, id.Name, recv, f, mutable[f]))
					}
					return true
				})
			}
			if cond == nil {
				return
			}
			ast.Inspect(cond, func(n ast.Node) bool {
				se, ok := n.(*ast.SelectorExpr)
				if !ok {
					return true
				}
				if id, ok := se.X.(*ast.Ident); !ok || id.Name != recv {
					return true
				}
				if s := v.Info.Selections[se]; s == nil || s.Kind() != types.FieldVal {
					return true
				}
				nReads++
				f := se.Sel.Name
				if w, isMut := mutable[f]; isMut && allowed[f] == "" {
					bad = append(bad, fmt.Sprintf("%s: %s branches on %s.%s, which %s stores into during the parse", v.Where(se.Pos()), fd.Name.Name, recv, f, w))
				}
				return true
			})
		}
		ast.Inspect(fd.Body, func(n ast.Node) bool {
			switch x := n.(type) {
			case *ast.FuncLit:
				return false
			case *ast.IfStmt:
				scan(x.Cond)
			case *ast.ForStmt:
				scan(x.Cond)
			case *ast.SwitchStmt:
				scan(x.Tag)
			case *ast.CaseClause:
				for _, e := range x.List {
					scan(e)
				}
			}
			return true
		})
	}
	sort.Strings(bad)
	r.Check(len(bad) == 0 && nEval >= 15, "C06-j", "T:evaluators-branch-on-node-position-and-configuration-only", v.Name, "builder/static_code.go",
		fmt.Sprintf("%d evaluators, %d parser fields read in branch conditions: configuration, position, budget or handler stack", nEval, nReads),
		strings.Join(uniq(bad), "; ")+": the outcome of an evaluation then depends on where it was started from, but the memo table answers by (node, offset) - with Memoize(true) a result computed in one context is replayed in another")
}

// c06RuleStackTopOnly (C06-m): every read of p.rstack is len(p.rstack), p.rstack[len(p.rstack)-1] (also through a
// local defined once as len(p.rstack) or len(p.rstack)-1), the append that pushes or the reslice that pops; a plain
// function that is handed the stack is held to the same for its parameter.
func c06RuleStackTopOnly(c *Ctx, v *variants.Variant) {
	r := c.R
	var bad []string
	n := 0
	var check func(fd *ast.FuncDecl, S string, depth int)
	check = func(fd *ast.FuncDecl, S string, depth int) {
		topLocals := map[string]bool{}
		lenLocals := map[string]bool{}
		defs := map[string]int{}
		ast.Inspect(fd.Body, func(nd ast.Node) bool {
			if as, ok := nd.(*ast.AssignStmt); ok && len(as.Lhs) == len(as.Rhs) {
				for k, l := range as.Lhs {
					if id, ok := l.(*ast.Ident); ok {
						defs[id.Name]++
						switch nospace(as.Rhs[k]) {
						case "len(" + S + ")-1":
							topLocals[id.Name] = true
						case "len(" + S + ")":
							lenLocals[id.Name] = true
						}
					}
				}
			}
			return true
		})
		isTop := func(ix string) bool {
			if ix == "len("+S+")-1" || topLocals[ix] && defs[ix] == 1 {
				return true
			}
			nm := strings.TrimSuffix(ix, "-1")
			return nm != ix && lenLocals[nm] && defs[nm] == 1
		}
		var stack []ast.Node
		ast.Inspect(fd.Body, func(nd ast.Node) bool {
			if nd == nil {
				stack = stack[:len(stack)-1]
				return true
			}
			stack = append(stack, nd)
			e, ok := nd.(ast.Expr)
			if !ok || nospace(e) != S || len(stack) < 2 {
				return true
			}
			if _, isSel := stack[len(stack)-2].(*ast.SelectorExpr); isSel && strings.Contains(S, ".") {
				return true // the identifier inside the selector itself
			}
			n++
			okUse := false
			switch par := stack[len(stack)-2].(type) {
			case *ast.CallExpr:
				fn := callName(par)
				okUse = fn == "len" || fn == "append" && len(par.Args) == 2 && par.Args[0] == e
				if !okUse && depth < 2 {
					// handed to a plain function of the runtime: its parameter is the stack there
					if id, isId := par.Fun.(*ast.Ident); isId {
						if callee := v.Func("", id.Name); callee != nil && callee.Body != nil {
							for k, a := range par.Args {
								if a != e {
									continue
								}
								if pn := paramNames(callee); k < len(pn) {
									check(callee, pn[k], depth+1)
									okUse = true
								}
							}
						}
					}
				}
			case *ast.IndexExpr:
				okUse = par.X == e && isTop(nospace(par.Index))
			case *ast.SliceExpr:
				okUse = par.X == e && par.Low == nil && par.High != nil && isTop(nospace(par.High))
			case *ast.AssignStmt:
				okUse = len(par.Lhs) == 1 && par.Lhs[0] == e
			}
			if !okUse {
				bad = append(bad, fmt.Sprintf("%s: %s reads the rule stack other than at its top (%T)", v.Where(e.Pos()), fd.Name.Name, stack[len(stack)-2]))
			}
			return true
		})
	}
	for _, fd := range v.Funcs() {
		if fd.Body != nil {
			check(fd, "p.rstack", 0)
		}
	}
	r.Check(len(bad) == 0 && n >= 4, "C06-m", "T.rstack:read-at-the-top-only", v.Name, "builder/static_code.go", fmt.Sprintf("%d uses of p.rstack: length, top element, push, pop", n), strings.Join(uniq(bad), "; ")+": the entries below the top are the call path of this evaluation; a memo hit replays the result without them, so what was derived from them (an error prefix naming an enclosing rule) differs between Memoize on and off")
}
