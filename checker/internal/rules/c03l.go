package rules

// C03-l — layout never swallows a recovery marker. `//{label}` opens the recovery clause of an expression; written
// with `//` it would read as a single-line comment wherever layout is admitted, so the grammar refuses `//{` where it
// reads a comment. The rule follows that refusal structurally: a rule is *unguarded* when it contains the literal "//"
// or a reference to an unguarded rule that is not directly preceded, in its sequence, by the predicate !"//{"; the
// layout rules `__` and `_` must not be unguarded. (A guard that was moved from the comment rule to one of its users
// and a new user that forgot it - seed C03-agent19 - leaves a recovery clause on a line of its own to be skipped as a
// comment: the expression silently loses its recovery, or a valid grammar is rejected.)

import (
	"fmt"
	"go/ast"
	"sort"
	"strings"

	"golang.org/x/tools/go/packages"
)

func c03RecoveryMarkerNotLayout(c *Ctx, root *packages.Package) {
	r := c.R
	r.Rule("C03-l", "layout never swallows a recovery marker: a rule of the front-end grammar that reads `//` (a single-line comment), or refers to such a rule, without the predicate !\"//{\" directly in front of it is unguarded; the layout rules `__` and `_` are not unguarded - otherwise a recovery clause `//{label} expr` that follows layout is skipped as a comment")
	refs := ruleRefsOfLiteral(root)
	l := &layoutCtx{root: root, exprs: map[string]ast.Expr{}, layout: map[string]bool{}}
	for n := range refs {
		l.exprs[n] = ruleExprOfLiteral(root, n)
	}
	if _, ok := refs["__"]; !ok {
		r.Unk("C03-l", "A.pigeon.go:recovery-marker-is-not-layout", "", "pigeon.go", "rule __ not found in the grammar literal")
		return
	}
	isGuard := func(cl *ast.CompositeLit) bool {
		if l.kind(cl) != "notExpr" {
			return false
		}
		for _, lm := range nodesOfType(root, cl, "litMatcher") {
			if v, ok := litField(root, lm, "val"); ok && strings.HasPrefix(v, "//{") {
				return true
			}
		}
		return false
	}
	unguarded := map[string]string{} // rule -> why
	// occurrences of an opener (the literal "//" or a reference to an unguarded rule) that have no guard directly before
	var scan func(cl *ast.CompositeLit, guarded bool, opener func(*ast.CompositeLit) string) string
	scan = func(cl *ast.CompositeLit, guarded bool, opener func(*ast.CompositeLit) string) string {
		if cl == nil {
			return ""
		}
		if why := opener(cl); why != "" {
			if guarded {
				return ""
			}
			return why
		}
		switch l.kind(cl) {
		case "seqExpr":
			g := guarded
			for _, it := range l.list(cl, "exprs") {
				if isGuard(it) {
					g = true
					continue
				}
				if k := l.kind(it); k == "andExpr" || k == "notExpr" || k == "andCodeExpr" || k == "notCodeExpr" || k == "stateCodeExpr" {
					continue // another predicate between the guard and the item keeps the position
				}
				if why := scan(it, g, opener); why != "" {
					return why
				}
				g = false // the guard speaks about the position it stands at
			}
			return ""
		case "choiceExpr":
			for _, a := range l.list(cl, "alternatives") {
				if why := scan(a, guarded, opener); why != "" {
					return why
				}
			}
			return ""
		case "andExpr", "notExpr":
			return "" // look-ahead consumes nothing
		}
		if ch := l.child(cl); ch != nil {
			// a repetition re-enters its operand at later positions, where the guard in front of it said nothing
			g := guarded
			if k := l.kind(cl); k == "zeroOrMoreExpr" || k == "oneOrMoreExpr" {
				g = false
			}
			return scan(ch, g, opener)
		}
		return ""
	}
	names := make([]string, 0, len(refs))
	for n := range refs {
		names = append(names, n)
	}
	sort.Strings(names)
	opener := func(cl *ast.CompositeLit) string {
		switch l.kind(cl) {
		case "litMatcher":
			if v, ok := litField(root, cl, "val"); ok && strings.HasPrefix(v, "//") && !strings.HasPrefix(v, "//{") {
				return "reads \"" + v + "\""
			}
		case "ruleRefExpr":
			n, _ := litField(root, cl, "name")
			if why, ok := unguarded[n]; ok {
				_ = why
				return "refers to " + n
			}
		}
		return ""
	}
	for changed := true; changed; {
		changed = false
		for _, n := range names {
			if _, ok := unguarded[n]; ok {
				continue
			}
			if why := scan(unwrapLit(l.exprs[n]), false, opener); why != "" {
				unguarded[n] = why
				changed = true
			}
		}
	}
	var chain []string
	for _, lay := range []string{"__", "_"} {
		if why, ok := unguarded[lay]; ok {
			// spell the chain out
			cur, seen := lay, map[string]bool{}
			path := []string{lay}
			for strings.HasPrefix(why, "refers to ") && !seen[cur] {
				seen[cur] = true
				cur = strings.TrimPrefix(why, "refers to ")
				path = append(path, cur)
				why = unguarded[cur]
			}
			chain = append(chain, strings.Join(path, " -> ")+" ("+why+")")
		}
	}
	r.Analysed["C03-l rules of the grammar literal"] = len(names)
	r.Check(len(chain) == 0, "C03-l", "A.pigeon.go:recovery-marker-is-not-layout", "", "pigeon.go",
		fmt.Sprintf("%d rules; no layout rule reaches a comment opener without the !\"//{\" refusal in front of it", len(names)),
		"layout reads `//` without refusing `//{` first: "+strings.Join(chain, "; ")+" - a recovery clause on a line of its own (`expr\\n    //{label} recover`) is skipped as a comment: the expression loses its recovery without a diagnostic, or the grammar is rejected")
}
