package rules

import (
	"go/ast"
	"go/token"
	"go/types"

	"golang.org/x/tools/go/packages"
)

// Where a value comes from, across the helpers of one package: a local with a single definition stands for that
// definition, a parameter for the corresponding argument at every call site of the function in the package, a
// variadic parameter spread (`opts...`) for the variadic arguments of every call site. Rules about "which flag
// reaches which call" use this so that moving a phase of main into a function of its own changes nothing.

type origin struct {
	Expr ast.Expr
	Fd   *ast.FuncDecl // the function the expression is written in
}

type flowCtx struct {
	p     *packages.Package
	decls map[types.Object]*ast.FuncDecl
	skip  func(file string) bool
}

func newFlow(p *packages.Package, skip func(string) bool) *flowCtx {
	f := &flowCtx{p: p, decls: map[types.Object]*ast.FuncDecl{}, skip: skip}
	for i, sf := range p.Syntax {
		if skip != nil && i < len(p.CompiledGoFiles) && skip(p.CompiledGoFiles[i]) {
			continue
		}
		for _, d := range sf.Decls {
			if fd, ok := d.(*ast.FuncDecl); ok && fd.Body != nil {
				if o := p.TypesInfo.Defs[fd.Name]; o != nil {
					f.decls[o] = fd
				}
			}
		}
	}
	return f
}

// callSites lists the calls of fd in the package with the function that contains each.
func (f *flowCtx) callSites(fd *ast.FuncDecl) []struct {
	Call *ast.CallExpr
	In   *ast.FuncDecl
} {
	var out []struct {
		Call *ast.CallExpr
		In   *ast.FuncDecl
	}
	self := f.p.TypesInfo.Defs[fd.Name]
	for _, caller := range f.decls {
		ast.Inspect(caller.Body, func(n ast.Node) bool {
			ce, ok := n.(*ast.CallExpr)
			if !ok {
				return true
			}
			var id *ast.Ident
			switch fn := ce.Fun.(type) {
			case *ast.Ident:
				id = fn
			case *ast.SelectorExpr:
				id = fn.Sel
			}
			if id != nil && f.p.TypesInfo.Uses[id] == self {
				out = append(out, struct {
					Call *ast.CallExpr
					In   *ast.FuncDecl
				}{ce, caller})
			}
			return true
		})
	}
	return out
}

func paramIndex(fd *ast.FuncDecl, obj types.Object, info *types.Info) (idx int, variadic bool) {
	i := 0
	if fd.Type.Params == nil {
		return -1, false
	}
	for _, fl := range fd.Type.Params.List {
		_, isVar := fl.Type.(*ast.Ellipsis)
		for _, nm := range fl.Names {
			if info.Defs[nm] == obj {
				return i, isVar
			}
			i++
		}
	}
	return -1, false
}

// origins resolves e (written in fd) to the expressions its value comes from.
func (f *flowCtx) origins(e ast.Expr, fd *ast.FuncDecl, depth int) []origin {
	if depth > 6 {
		return []origin{{e, fd}}
	}
	info := f.p.TypesInfo
	switch x := e.(type) {
	case *ast.ParenExpr:
		return f.origins(x.X, fd, depth)
	case *ast.Ident:
		obj := info.Uses[x]
		v, ok := obj.(*types.Var)
		if !ok || v.IsField() || v.Parent() == f.p.Types.Scope() {
			return []origin{{e, fd}}
		}
		if idx, _ := paramIndex(fd, obj, info); idx >= 0 {
			var out []origin
			for _, cs := range f.callSites(fd) {
				if idx < len(cs.Call.Args) {
					out = append(out, f.origins(cs.Call.Args[idx], cs.In, depth+1)...)
				}
			}
			if len(out) == 0 {
				return []origin{{e, fd}}
			}
			return out
		}
		// a local with exactly one definition
		var def ast.Expr
		n := 0
		ast.Inspect(fd.Body, func(nd ast.Node) bool {
			switch s := nd.(type) {
			case *ast.AssignStmt:
				for i, l := range s.Lhs {
					if id, ok := l.(*ast.Ident); ok && (info.Defs[id] == obj || info.Uses[id] == obj) {
						n++
						if len(s.Rhs) == len(s.Lhs) {
							def = s.Rhs[i]
						} else {
							def = nil
						}
					}
				}
			case *ast.ValueSpec:
				for i, nm := range s.Names {
					if info.Defs[nm] == obj {
						n++
						if i < len(s.Values) {
							def = s.Values[i]
						}
					}
				}
			case *ast.IncDecStmt:
				if id, ok := s.X.(*ast.Ident); ok && info.Uses[id] == obj {
					n += 2
				}
			case *ast.UnaryExpr:
				if s.Op == token.AND {
					if id, ok := s.X.(*ast.Ident); ok && info.Uses[id] == obj {
						n += 2 // address taken: may be written elsewhere
					}
				}
			}
			return true
		})
		if n == 1 && def != nil {
			return f.origins(def, fd, depth+1)
		}
		return []origin{{e, fd}}
	}
	return []origin{{e, fd}}
}

// variadicOrigins resolves the arguments of ce (in fd) from position from on, following `xs...` spreads of a variadic
// parameter to the call sites of the enclosing function.
func (f *flowCtx) variadicOrigins(ce *ast.CallExpr, fd *ast.FuncDecl, from, depth int) []origin {
	var out []origin
	info := f.p.TypesInfo
	if ce.Ellipsis.IsValid() && len(ce.Args) > 0 && depth < 6 {
		last := ce.Args[len(ce.Args)-1]
		for i := from; i < len(ce.Args)-1; i++ {
			out = append(out, f.origins(ce.Args[i], fd, depth)...)
		}
		if id, ok := last.(*ast.Ident); ok {
			if idx, isVar := paramIndex(fd, info.Uses[id], info); idx >= 0 && isVar {
				for _, cs := range f.callSites(fd) {
					out = append(out, f.variadicOrigins(cs.Call, cs.In, idx, depth+1)...)
				}
				return out
			}
		}
		// a slice built in place and spread: its elements
		for _, o := range f.origins(last, fd, depth) {
			if cl, ok := o.Expr.(*ast.CompositeLit); ok {
				for _, el := range cl.Elts {
					out = append(out, f.origins(el, o.Fd, depth+1)...)
				}
			} else {
				out = append(out, o)
			}
		}
		return out
	}
	for i := from; i < len(ce.Args); i++ {
		out = append(out, f.origins(ce.Args[i], fd, depth)...)
	}
	return out
}
