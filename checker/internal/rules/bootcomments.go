package rules

import (
	"fmt"
	"go/ast"
	"regexp"
	"strings"

	"pigeonverif/internal/load"
)

// bootstrapComments (C20-i): comments and the hand-written front-end.
//
// pigeon.peg makes comments part of the layout: `/*` … up to the first `*/`, and `//` … up to the line end. The
// hand-written scanner produces comment tokens; as long as the hand-written parser never names those tokens a
// comment outside a code block is simply not in the subset the bootstrap front-end understands (the parser rejects
// the token), and how the scanner delimits it is immaterial. As soon as the parser names them (to skip them as
// layout) the two front-ends must delimit a comment alike, otherwise the text after the place where one of them
// believes the comment ended is parsed by that one only. The rule therefore reads: either no function of the
// hand-written parser refers to a comment token, or the scanner's comment loop ends a multi-line comment exactly at
// `*/` - the "previous rune was *" flag that arms the closing test is cleared by every rune other than `*`.
func bootstrapComments(c *Ctx, rule string) {
	r := c.R
	g := c.G()
	if g == nil {
		return
	}
	bp := g.Pkg("bootstrap")
	if bp == nil {
		r.Fatal("package bootstrap not loaded")
		return
	}
	fd := load.FuncDecl(bp, "Scanner", "scanComment")
	if fd == nil || fd.Body == nil {
		r.Fatal("anchor bootstrap.Scanner.scanComment not found")
		return
	}
	// the token ids a comment is reported as
	ids := map[string]bool{}
	ast.Inspect(fd.Body, func(n ast.Node) bool {
		if rs, ok := n.(*ast.ReturnStmt); ok && len(rs.Results) >= 1 {
			if id, ok := rs.Results[0].(*ast.Ident); ok {
				ids[id.Name] = true
			}
		}
		return true
	})
	if len(ids) == 0 {
		r.Unk(rule, "A.bootstrap:comments-delimited-as-in-the-grammar", "", g.Where(fd.Pos()), "scanComment returns no token id")
		return
	}
	// does the parser name them?
	var named []string
	for _, d := range load.AllFuncDecls(bp) {
		if d.Body == nil || load.RecvName(d) != "Parser" {
			continue
		}
		if strings.HasSuffix(g.Fset.Position(d.Pos()).Filename, "_test.go") {
			continue
		}
		ast.Inspect(d.Body, func(n ast.Node) bool {
			if id, ok := n.(*ast.Ident); ok && ids[id.Name] {
				named = append(named, fmt.Sprintf("%s in Parser.%s (%s)", id.Name, d.Name.Name, g.Where(id.Pos())))
			}
			return true
		})
	}
	if len(named) == 0 {
		r.Ok(rule, "A.bootstrap:comments-delimited-as-in-the-grammar", "", g.Where(fd.Pos()), fmt.Sprintf("the hand-written parser names none of the comment tokens %v: a comment outside a code block is outside the subset it accepts", keysOf(ids)))
		return
	}
	// the parser admits comments: the scanner must delimit them like the grammar
	s := recvName(fd)
	paths := c.pkgNorm("bootstrap").without("read", "errorf").normPaths(fd)
	if len(paths) == 0 {
		r.Unk(rule, "A.bootstrap:comments-delimited-as-in-the-grammar", "", g.Where(fd.Pos()), "no path of scanComment could be read")
		return
	}
	cur := s + ".cur"
	flagRe := regexp.MustCompile(`^\$\d+$`)
	// the flag: a bare boolean local assumed true on a path that returns from inside the loop on a '/'
	flag := ""
	for _, p := range paths {
		lo := p.evIndex("loop", 0, func(string) bool { return true })
		if lo < 0 || lastReturn(p) == "" {
			continue
		}
		seg := p[lo:]
		if !seg.holds(cur + "=='/'") {
			continue
		}
		for _, f := range seg.facts() {
			if flagRe.MatchString(f) {
				flag = f
			}
		}
	}
	var bad []string
	nIter := 0
	if flag == "" {
		bad = append(bad, "no path ends a comment on a '/' under a flag set by the preceding '*'")
	}
	for _, p := range paths {
		lo := p.evIndex("loop", 0, func(string) bool { return true })
		if lo < 0 {
			continue
		}
		hi := -1
		for j := lo + 1; j < len(p); j++ {
			if p[j].Kind == "endloop" {
				hi = j
				break
			}
		}
		if hi < 0 {
			continue // the path leaves the function from inside the loop
		}
		nIter++
		seg := p[lo+1 : hi]
		star := seg.holds(cur + "=='*'")
		cleared, set := seg.holds("!"+flag), false // (a path that knows the flag to be unset has nothing to clear)
		for _, e := range seg {
			if e.Kind == "set" && e.Text == "set"+flag+"=false" || e.Text == flag+"=false" {
				cleared = true
			}
			if e.Kind == "set" && (e.Text == flag+"=true" || e.Text == "set"+flag+"=true") {
				set = true
			}
			if e.Kind == "set" && strings.HasPrefix(strings.TrimPrefix(e.Text, "set"), flag+"=") && strings.Contains(e.Text, cur+"=='*'") {
				cleared = true // recomputed from the current rune in every iteration
			}
		}
		if !star && !cleared && flag != "" {
			bad = append(bad, "an iteration that reads a rune other than '*' ["+abbreviate(strings.Join(seg.facts(), " "))+"] leaves the closing flag as it was: after any '*' the next '/' ends the comment, however far away")
		}
		if !star && set {
			bad = append(bad, "the closing flag is set by a rune other than '*'")
		}
	}
	if nIter == 0 {
		bad = append(bad, "no iteration of the comment loop could be read")
	}
	r.Check(len(bad) == 0, rule, "A.bootstrap:comments-delimited-as-in-the-grammar", "", g.Where(fd.Pos()),
		"the parser skips comment tokens and the scanner ends a multi-line comment exactly at */",
		"the hand-written parser treats comment tokens as layout ("+strings.Join(uniq(named), "; ")+"), so both front-ends must delimit comments alike (pigeon.peg: MultiLineComment ends at the first */); in Scanner.scanComment "+strings.Join(uniq(bad), "; ")+": `A = B /* x* / 'c' */ D` is read as `B 'c'* / D`… by the hand-written front-end and as `B D` by the generated one")
}
