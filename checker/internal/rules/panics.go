package rules

import (
	"fmt"
	"go/ast"
	"sort"
	"strings"
)

// Panic discipline of the runtime (C11-h, C16-e).
//
// Parse reports what goes wrong as error values; the runtime raises panics of its own at three places only - the
// expression budget and the two "impossible grammar literal" sites (the default of the dispatch in parseExpr, a rule
// reference without a name) - and relies on the deferred handler of parse() to turn the budget panic into the final
// error. Two rules follow:
//
//	(1) the panic sites of the runtime are exactly these three (plus the class-name lookup that runs at package initialisation); a panic anywhere else is an outcome Parse does not
//	    deliver as an error (it escapes under Recover(false), and see (2));
//	(2) nothing the deferred handler calls can panic: a panic raised while the handler runs is not recovered by
//	    anybody, so Parse neither returns nor reports the budget error.
func runtimePanicDiscipline(c *Ctx, rule string) {
	r := c.R
	nSites := 0
	for _, v := range c.SemanticVariants() {
		byName := map[string][]*ast.FuncDecl{}
		for _, f := range v.Funcs() {
			if f.Body != nil {
				byName[f.Name.Name] = append(byName[f.Name.Name], f)
			}
		}
		panicsIn := func(n ast.Node) []*ast.CallExpr {
			var out []*ast.CallExpr
			ast.Inspect(n, func(m ast.Node) bool {
				if ce, ok := m.(*ast.CallExpr); ok {
					if id, ok := ce.Fun.(*ast.Ident); ok && id.Name == "panic" {
						out = append(out, ce)
					}
				}
				return true
			})
			return out
		}
		// ---- (1) closed set of panic sites
		var bad []string
		for _, f := range v.Funcs() {
			if f.Body == nil {
				continue
			}
			sites := panicsIn(f.Body)
			if len(sites) == 0 {
				continue
			}
			for _, ce := range sites {
				nSites++
				arg := ""
				if len(ce.Args) == 1 {
					arg = nospace(ce.Args[0])
				}
				ok := false
				switch f.Name.Name {
				case "parseExpr":
					// the budget, or the default clause of the dispatch
					if arg == "errMaxExprCnt" {
						ok = true
					} else {
						ast.Inspect(f.Body, func(m ast.Node) bool {
							if cc, isCC := m.(*ast.CaseClause); isCC && cc.List == nil && cc.Pos() <= ce.Pos() && ce.End() <= cc.End() {
								ok = true
							}
							return true
						})
					}
				case "rangeTable":
					// resolves a Unicode class name while the grammar literal is initialised (C04-d: every accepted name
					// resolves); not part of a parse as long as no function of the runtime calls it
					ok = true
					for _, g := range v.Funcs() {
						if g.Body == nil {
							continue
						}
						ast.Inspect(g.Body, func(m ast.Node) bool {
							if c2, isCall := m.(*ast.CallExpr); isCall {
								if id, isId := c2.Fun.(*ast.Ident); isId && id.Name == "rangeTable" {
									ok = false
								}
							}
							return true
						})
					}
				case "parseRuleRefExpr":
					// a reference without a name: the builder never emits one
					// (a local that holds the name reads as the name)
					nameLocals := map[string]bool{}
					ast.Inspect(f.Body, func(m ast.Node) bool {
						if as, isAs := m.(*ast.AssignStmt); isAs && len(as.Lhs) == 1 && len(as.Rhs) == 1 {
							if se, isSel := as.Rhs[0].(*ast.SelectorExpr); isSel && se.Sel.Name == "name" {
								nameLocals[nospace(as.Lhs[0])] = true
							}
						}
						return true
					})
					for _, gd := range guardsOf(f.Body, ce.Pos()) {
						if strings.HasSuffix(gd, `.name==""`) || strings.HasPrefix(gd, `len(`) && strings.HasSuffix(gd, `.name)==0`) {
							ok = true
						}
						if strings.HasSuffix(gd, `==""`) && nameLocals[strings.TrimSuffix(gd, `==""`)] {
							ok = true
						}
						if strings.HasPrefix(gd, "len(") && strings.HasSuffix(gd, ")==0") && nameLocals[gd[4:len(gd)-4]] {
							ok = true
						}
					}
				}
				if !ok {
					bad = append(bad, fmt.Sprintf("%s raises panic(%s) at %s", f.Name.Name, abbreviate(arg), v.Where(ce.Pos())))
				}
			}
		}
		sort.Strings(bad)
		r.Check(len(bad) == 0, rule, "T:panic-sites-closed-set", v.Name, "builder/static_code.go", "the runtime panics only for the expression budget, the default of the dispatch and a nameless rule reference",
			strings.Join(uniq(bad), "; ")+": Parse reports failures as error values; a panic of the runtime's own escapes under Recover(false), and one raised while the recover handler records an error is recovered by nobody")
		// ---- (2) the handler cannot panic
		pf := v.Func("parser", "parse")
		if pf == nil {
			r.Fatal("variant %s: parse missing", v.Name)
			continue
		}
		var handler ast.Node
		ast.Inspect(pf.Body, func(m ast.Node) bool {
			ds, ok := m.(*ast.DeferStmt)
			if !ok {
				return true
			}
			callsRecover := func(n ast.Node) bool {
				found := false
				ast.Inspect(n, func(k ast.Node) bool {
					if ce, ok := k.(*ast.CallExpr); ok {
						if id, ok := ce.Fun.(*ast.Ident); ok && id.Name == "recover" {
							found = true
						}
					}
					return !found
				})
				return found
			}
			if fl, ok := ds.Call.Fun.(*ast.FuncLit); ok && callsRecover(fl.Body) {
				handler = fl.Body
			} else {
				name := ""
				switch x := ds.Call.Fun.(type) {
				case *ast.Ident:
					name = x.Name
				case *ast.SelectorExpr:
					name = x.Sel.Name
				}
				for _, f := range byName[name] {
					if callsRecover(f.Body) {
						handler = f.Body
					}
				}
			}
			return true
		})
		if handler == nil {
			r.Unk(rule, "T.parse:recover-handler-cannot-panic", v.Name, v.Where(pf.Pos()), "no deferred function calling recover() found in parse()")
			continue
		}
		reached := map[string]bool{}
		var visit func(n ast.Node)
		visit = func(n ast.Node) {
			ast.Inspect(n, func(m ast.Node) bool {
				ce, ok := m.(*ast.CallExpr)
				if !ok {
					return true
				}
				name := ""
				switch x := ce.Fun.(type) {
				case *ast.Ident:
					name = x.Name
				case *ast.SelectorExpr:
					name = x.Sel.Name
				}
				if name == "" || reached[name] {
					return true
				}
				if fs, ok := byName[name]; ok {
					reached[name] = true
					for _, f := range fs {
						visit(f.Body)
					}
				}
				return true
			})
		}
		visit(handler)
		var bad2 []string
		if len(panicsIn(handler)) > 0 {
			bad2 = append(bad2, "the handler itself calls panic")
		}
		var names []string
		for name := range reached {
			names = append(names, name)
			for _, f := range byName[name] {
				for _, ce := range panicsIn(f.Body) {
					bad2 = append(bad2, fmt.Sprintf("%s, which the handler reaches, raises a panic at %s", name, v.Where(ce.Pos())))
				}
			}
		}
		sort.Strings(names)
		sort.Strings(bad2)
		r.Check(len(bad2) == 0 && len(names) >= 2, rule, "T.parse:recover-handler-cannot-panic", v.Name, v.Where(pf.Pos()), fmt.Sprintf("no panic in the %d functions the handler reaches (%s)", len(names), strings.Join(names, ", ")),
			strings.Join(uniq(bad2), "; ")+": a panic raised while the deferred handler runs is not recovered, so Parse does not return and the error being recorded (the expression budget, a code block's panic) is lost")
	}
	r.Min("panic sites of the runtime", 24, nSites)
}
