package rules

import (
	"fmt"
	"go/ast"
	"go/parser"
	"go/token"
	"strconv"
	"strings"

	"pigeonverif/internal/load"
)

// Drain loops (C13-k). A loop that runs "while something is left" - its condition has a conjunct len(x) > 0,
// len(x) != 0 or x != "" for a local x - terminates only if every trip round the loop makes x shorter. The rule
// demands, on every path of the body that reaches the back edge (falling off the end or through `continue`), an
// assignment of x to a proper part of itself: x = x[c:] with a constant c >= 1, x = x[n:] under a fact n > 0 /
// n >= 1, x = x[:len(x)-c], the tail of strings.Cut / CutPrefix style calls on x, or the same in the post statement.
// Anything else (x re-read from somewhere, x assigned from another variable) is not a progress argument: the loop
// may spin on an input on which the other source does not move (pigeon must terminate on every argument list and
// grammar text).

type drainFinding struct {
	pos token.Pos
	msg string
}

func drainVar(cond ast.Expr) string {
	var found string
	var visit func(e ast.Expr)
	visit = func(e ast.Expr) {
		switch x := e.(type) {
		case *ast.ParenExpr:
			visit(x.X)
		case *ast.BinaryExpr:
			if x.Op == token.LAND {
				visit(x.X)
				visit(x.Y)
				return
			}
			l, r := nospace(x.X), nospace(x.Y)
			isLen := func(s string) string {
				if strings.HasPrefix(s, "len(") && strings.HasSuffix(s, ")") {
					in := s[4 : len(s)-1]
					if token.IsIdentifier(in) {
						return in
					}
				}
				return ""
			}
			switch {
			case isLen(l) != "" && ((x.Op == token.GTR && r == "0") || (x.Op == token.NEQ && r == "0") || (x.Op == token.GEQ && r == "1")):
				found = isLen(l)
			case isLen(r) != "" && ((x.Op == token.LSS && l == "0") || (x.Op == token.NEQ && l == "0") || (x.Op == token.LEQ && l == "1")):
				found = isLen(r)
			case x.Op == token.NEQ && r == `""` && token.IsIdentifier(l):
				found = l
			case x.Op == token.NEQ && l == `""` && token.IsIdentifier(r):
				found = r
			}
		}
	}
	visit(cond)
	return found
}

// shrinks: the assignment makes x a proper part of itself (facts: the conditions known where it stands).
func shrinks(as *ast.AssignStmt, x string, facts []string) bool {
	for i, l := range as.Lhs {
		if nospace(l) != x {
			continue
		}
		var rhs ast.Expr
		if len(as.Rhs) == len(as.Lhs) {
			rhs = as.Rhs[i]
		} else if len(as.Rhs) == 1 {
			// tuple result: _, x, _ = strings.Cut(x, sep) (position 1) / x, ok = strings.CutPrefix(x, p) under ok
			if ce, ok := as.Rhs[0].(*ast.CallExpr); ok && len(ce.Args) >= 1 && nospace(ce.Args[0]) == x {
				if cn := callName(ce); cn == "strings.Cut" && i == 1 || cn == "bytes.Cut" && i == 1 {
					return true
				}
			}
			return false
		}
		se, ok := rhs.(*ast.SliceExpr)
		if !ok || nospace(se.X) != x || se.Slice3 {
			return false
		}
		positive := func(e ast.Expr) bool {
			t := nospace(e)
			if n, err := strconv.Atoi(t); err == nil {
				return n >= 1
			}
			for _, f := range facts {
				if f == t+">0" || f == t+">=1" || f == "0<"+t || f == t+"!=0" && false {
					return true
				}
			}
			// i+c with a constant c >= 1 and i known not to be negative
			if be, ok := e.(*ast.BinaryExpr); ok && be.Op == token.ADD {
				if n, err := strconv.Atoi(nospace(be.Y)); err == nil && n >= 1 {
					it := nospace(be.X)
					for _, f := range facts {
						if f == it+">=0" || f == it+">-1" || f == it+"!=-1" {
							return true
						}
					}
				}
			}
			return false
		}
		if se.Low != nil && se.High == nil && positive(se.Low) {
			return true
		}
		if se.Low == nil && se.High != nil {
			if be, ok := se.High.(*ast.BinaryExpr); ok && be.Op == token.SUB && nospace(be.X) == "len("+x+")" && positive(be.Y) {
				return true
			}
		}
		return false
	}
	return false
}

func drainLoopFindings(body *ast.BlockStmt) (n int, out []drainFinding) {
	ast.Inspect(body, func(m ast.Node) bool {
		fs, ok := m.(*ast.ForStmt)
		if !ok || fs.Cond == nil {
			return true
		}
		x := drainVar(fs.Cond)
		if x == "" {
			return true
		}
		n++
		if as, ok := fs.Post.(*ast.AssignStmt); ok && shrinks(as, x, nil) {
			return true
		}
		for _, p := range enumPaths(fs.Body) {
			// how does the path end?
			exits := false
			if len(p) > 0 {
				last := p[len(p)-1]
				if last.Kind == "return" || (last.Kind == "branch" && strings.HasPrefix(last.Text, "break")) || (last.Kind == "branch" && strings.HasPrefix(last.Text, "goto")) {
					exits = true
				}
				if last.Kind == "call" && (strings.HasPrefix(last.Text, "panic(") || strings.HasPrefix(last.Text, "os.Exit(")) {
					exits = true
				}
			}
			if exits {
				continue
			}
			depth, ok := 0, false
			var facts []string
			for _, e := range p {
				switch e.Kind {
				case "loop":
					depth++
				case "endloop":
					depth--
				case "+":
					if depth == 0 {
						facts = append(facts, e.Text)
					}
				case "assign":
					if as, isAs := e.Node.(*ast.AssignStmt); isAs && depth == 0 && shrinks(as, x, facts) {
						ok = true
					}
				}
			}
			if !ok {
				out = append(out, drainFinding{fs.Pos(), fmt.Sprintf("the loop runs while %s is not empty, but on the path [%s] through its body %s is not assigned a proper part of itself: nothing guarantees that the loop ends", x, abbreviate(strings.Join(p.guards(), " ")), x)})
				break
			}
		}
		return true
	})
	return
}

const drainControlSrc = `package p
func spin(args []string, next func([]string) []string) int {
	n := 0
	for len(args) > 0 {
		rest := next(args)
		n++
		args = rest
	}
	return n
}
func fine(args []string) int {
	n := 0
	for len(args) > 0 {
		if args[0] == "" {
			args = args[1:]
			continue
		}
		n++
		args = args[1:]
	}
	return n
}`

func c13DrainLoops(c *Ctx, g *load.G) {
	r := c.R
	// the rule must fire on the control snippet on every run (the pinned tree has no loop of this kind)
	cf, err := parser.ParseFile(token.NewFileSet(), "control.go", drainControlSrc, 0)
	ctrl := false
	if err == nil {
		for _, d := range cf.Decls {
			if fd, ok := d.(*ast.FuncDecl); ok {
				n, fs := drainLoopFindings(fd.Body)
				switch fd.Name.Name {
				case "spin":
					ctrl = n == 1 && len(fs) == 1
				case "fine":
					ctrl = ctrl && n == 1 && len(fs) == 0
				}
			}
		}
	}
	if !ctrl {
		r.Fatal("C13-k: the drain-loop rule does not behave on its control example")
	}
	total := 0
	var bad []string
	for _, sfx := range []string{"", "ast", "builder"} {
		p := g.Pkg(sfx)
		for _, fd := range load.AllFuncDecls(p) {
			if fd.Body == nil {
				continue
			}
			fn := g.Fset.Position(fd.Pos()).Filename
			if strings.HasSuffix(fn, "_test.go") || strings.HasSuffix(fn, "/pigeon.go") {
				continue
			}
			n, fs := drainLoopFindings(fd.Body)
			total += n
			for _, f := range fs {
				bad = append(bad, g.Where(f.pos)+" ("+fd.Name.Name+"): "+f.msg)
			}
		}
	}
	r.Analysed["drain_loops"] = total
	r.Check(len(bad) == 0, "C13-k", "G:drain-loops-make-progress", "", "main.go, ast/, builder/", fmt.Sprintf("%d loops of the form `for len(x) > 0`, each shortening x on every trip (control example reported as expected)", total), strings.Join(bad, "; "))
}
