package rules

import (
	"fmt"
	"go/ast"
	"sort"
	"strings"

	"pigeonverif/internal/absint"
	"pigeonverif/internal/variants"
)

// C12 — a failed parse reports the farthest failure position and the exact expected set.
func C12(c *Ctx) {
	r := c.R
	r.Technique = "typestate abstract interpretation of the three terminal matchers (one failAt per outcome, polarity, position, label) and of the inversion parity in all 16 variants; AST/ordering rules on failAt and on the message synthesis in parse()"
	r.Explanation = "Decides: (a) every path of parseAnyMatcher / parseLitMatcher / parseCharClassMatcher reports its outcome to failAt exactly once, with fail=true polarity on success and fail=false on failure (the flag is compared with the inversion state), at the position of the entry savepoint and with the node's own label; no other function reports; (b) the inversion flag is toggled only in parseNotExpr, exactly around the operand evaluation, and is back to its entry parity on every return of every evaluator; (c) the synthetic 'no match found' error is added only when the parse failed and no error was recorded, at maxFailPos, from the de-duplicated expected list sorted before use with EOF appended last; (d) failAt keeps the farthest offset: earlier offsets are ignored, a later one replaces the position and truncates the list, the ! prefix is added iff inverted. (e) a result answered from the memo table must come with the failure reports of the remembered evaluation (C12-f: it does not, in parseExprWrap and parseRuleMemoize under Memoize(true) and in the leader routine of a left-recursive rule with default options - finding F20); (f) the reported position is one the parser computed (C12-g: the initial value is a literal that is wrong for an input starting with a line break - finding F21). Not decided: the global induction that the reported offset is the maximum over a whole backtracking run."
	r.Assumptions = []string{"sort.Strings sorts", "terminal matchers are the only source of expected labels by construction of the grammar literal"}
	r.Rule("C12-a", "each abstract path of a terminal matcher contains exactly one failAt; its first argument is true iff the path returns ok=true; its position is the entry savepoint's; its label is the node's own label field (\".\" for the any matcher)")
	r.Rule("C12-a2", "failAt is called only from the three terminal matchers")
	r.Rule("C12-b", "maxFailInvertExpected is written only in parseNotExpr, toggled immediately before and after the operand evaluation; every evaluator returns with the entry parity")
	r.Rule("C12-c", "the 'no match found' error is added under !ok && len(*p.errs)==0 at p.maxFailPos; the expected list comes from a map filled from p.maxFailExpected (dedup), \"!.\" is replaced by a trailing \"EOF\", and sort.Strings precedes listJoin/addErrAt")
	r.Rule("C12-d", "failAt acts only when fail == p.maxFailInvertExpected; returns on an earlier offset; on a later offset replaces maxFailPos and truncates maxFailExpected; prefixes ! iff inverted; appends the label; nobody else writes maxFailPos/maxFailExpected")

	r.Rule("C12-f", "what a remembered evaluation reported to failAt is reported again when its result is answered from the memo table: a path of parseExprWrap, parseRuleMemoize or parseRuleRecursiveLeader that returns a looked-up tuple without evaluating reaches no failAt, so the failures of the terminals inside are missing from the farthest-failure record whenever the first evaluation ran under the other polarity of a ! predicate (or was the only one to reach that offset)")
	r.Rule("C12-g", "the position reported for the farthest failure is one the parser computed: maxFailPos is assigned from the position handed to failAt only, and its initial value is the position of the first rune as read() computes it - a literal line 1, column 1 is wrong for an input that starts with a line break (read() puts that rune at line 2, column 0), and failAt never replaces it for a failure at offset 0")
	r.Rule("C12-e", "the label a terminal reports is the terminal as written: builder.writeLitMatcher / writeCharClassMatcher emit `want:` from the node's own text (the quoted literal value as written plus the i suffix; the class text) - see C01-d for the pairing table")
	builderPairingN(c, "C12-e", "writeLitMatcher")
	builderPairingN(c, "C12-e", "writeCharClassMatcher")
	abs := c.allAbs()
	r.Min("semantic variants analysed", 16, len(abs))
	for _, a := range abs {
		c12a(c, a)
		c12b(c, a)
		c12c(c, a.V)
		c12d(c, a.V)
		c12MemoHits(c, a.V)
		c12InitialPosition(c, a.V)
	}
	r.MinRule("C12-a", 3)
}

func c12a(c *Ctx, a *absVariant) {
	r := c.R
	vn := a.V.Name
	for _, fn := range []string{"parseAnyMatcher", "parseLitMatcher", "parseCharClassMatcher"} {
		res := a.Res[fn]
		if res == nil {
			r.Fatal("variant %s: %s missing", vn, fn)
			continue
		}
		param := res.Fn.Type.Params.List[0].Names[0].Name
		wantLabel := map[string][]string{"parseAnyMatcher": {`"."`}, "parseLitMatcher": {param + ".want"}, "parseCharClassMatcher": {param + ".val"}}[fn]
		var bad []string
		nPaths := 0
		for _, e := range res.Exits {
			nPaths++
			fs := eventsOf(e, "failAt")
			if len(fs) != 1 {
				bad = append(bad, fmt.Sprintf("%s: path reports %d times to failAt [%s]", a.where(e, res.Fn), len(fs), evString(e)))
				continue
			}
			f := fs[0]
			ok := e.Ok()
			pol := map[bool]string{true: "T", false: "F"}[ok.IsTrue()]
			if !ok.IsTrue() && !ok.IsFalse() {
				bad = append(bad, a.where(e, res.Fn)+": result flag unknown")
				continue
			}
			if f.Args[0] != pol {
				bad = append(bad, fmt.Sprintf("%s: path returning ok=%s reports failAt(%s, …): wrong polarity", a.V.Where(f.Pos), ok.A, f.Args[0]))
			}
			if f.Args[1] != absint.Entry {
				bad = append(bad, fmt.Sprintf("%s: failAt position is %s, not the start of the terminal (entry savepoint)", a.V.Where(f.Pos), f.Args[1]))
			}
			if f.Args[2] != wantLabel[0] {
				bad = append(bad, fmt.Sprintf("%s: failAt label is %s, expected %s", a.V.Where(f.Pos), f.Args[2], wantLabel[0]))
			}
		}
		sort.Strings(bad)
		w := a.V.Where(res.Fn.Pos())
		if len(bad) > 0 {
			r.Bad("C12-a", "T."+fn+":reports-every-outcome", vn, w, bad[0])
		} else {
			r.Ok("C12-a", "T."+fn+":reports-every-outcome", vn, w, fmt.Sprintf("%d abstract paths, one failAt each with matching polarity, entry position, own label", nPaths))
		}
	}
	// who calls failAt: the terminal matchers, or helpers that are themselves called only from them
	terminals := map[string]bool{"parseAnyMatcher": true, "parseLitMatcher": true, "parseCharClassMatcher": true}
	callersOf := func(name string) []string {
		var out []string
		for _, fd := range a.V.Funcs() {
			if fd.Body == nil {
				continue
			}
			for _, ce := range callsIn(fd.Body) {
				if callSel(ce) == name {
					out = append(out, fd.Name.Name)
				}
			}
		}
		return out
	}
	var others []string
	var visit func(fn string, depth int) bool
	visit = func(fn string, depth int) bool {
		if terminals[fn] {
			return true
		}
		if depth > 3 {
			return false
		}
		cs := callersOf(fn)
		if len(cs) == 0 {
			return false
		}
		for _, c2 := range cs {
			if !visit(c2, depth+1) {
				return false
			}
		}
		return true
	}
	for _, fn := range callersOf("failAt") {
		if !visit(fn, 0) {
			others = append(others, fn)
		}
	}
	r.Check(len(others) == 0, "C12-a2", "T.failAt:callers", vn, "builder/static_code.go", "only the terminal matchers (directly or through helpers used by them alone)", "failAt also reachable from "+strings.Join(others, ","))
}

func c12b(c *Ctx, a *absVariant) {
	r := c.R
	vn := a.V.Name
	// writers of maxFailInvertExpected: every write is a toggle (x = !x), the address is never taken, and it sits in
	// parseNotExpr or in a helper that is not an evaluator itself (the abstract interpreter follows helpers, with
	// literal mode flags bound: what parseNotExpr and every other evaluator does with the flag is decided below)
	var writers, badW []string
	evaluators := map[string]bool{}
	for _, n := range a.sortedNames() {
		evaluators[n] = true
	}
	for _, fd := range a.V.Funcs() {
		ast.Inspect(fd, func(n ast.Node) bool {
			switch x := n.(type) {
			case *ast.AssignStmt:
				for i, l := range x.Lhs {
					if strings.HasSuffix(nospace(l), ".maxFailInvertExpected") {
						writers = append(writers, fd.Name.Name)
						if i >= len(x.Rhs) || nospace(x.Rhs[i]) != "!"+nospace(l) {
							badW = append(badW, fd.Name.Name+" assigns "+nospace(x.Rhs[0])+" (not a toggle)")
						}
						if evaluators[fd.Name.Name] && fd.Name.Name != "parseNotExpr" {
							badW = append(badW, "written in the evaluator "+fd.Name.Name)
						}
					}
				}
			case *ast.UnaryExpr:
				if x.Op.String() == "&" && strings.HasSuffix(nospace(x.X), ".maxFailInvertExpected") {
					badW = append(badW, fd.Name.Name+" takes its address")
				}
			}
			return true
		})
	}
	sort.Strings(writers)
	if len(writers)%2 != 0 || len(writers) == 0 {
		badW = append(badW, fmt.Sprintf("%d writes (toggles come in pairs)", len(writers)))
	}
	// no evaluator other than parseNotExpr inverts at all
	for _, fn := range a.sortedNames() {
		if fn == "parseNotExpr" {
			continue
		}
		for _, e := range a.Res[fn].Exits {
			for _, ev := range e.State.Ev {
				if ev.Kind == "invert" {
					badW = append(badW, fn+" inverts the expectation")
				}
			}
		}
	}
	r.Check(len(badW) == 0, "C12-b", "T.maxFailInvertExpected:writers", vn, "builder/static_code.go", "toggles only, in pairs, reached from parseNotExpr alone", "written in ["+strings.Join(writers, ",")+"]: "+strings.Join(uniq(badW), "; "))
	res := a.Res["parseNotExpr"]
	if res == nil {
		return
	}
	var bad []string
	for _, e := range res.Exits {
		seq := []string{}
		for _, ev := range e.State.Ev {
			if ev.Kind == "invert" || ev.Kind == "eval" || ev.Kind == "run" || ev.Kind == "read" {
				seq = append(seq, ev.Kind)
			}
		}
		if strings.Join(seq, ",") != "invert,eval,invert" {
			bad = append(bad, a.where(e, res.Fn)+": inversion is not scoped to the operand evaluation: ["+strings.Join(seq, ",")+"]")
		}
		if e.State.Inv {
			bad = append(bad, a.where(e, res.Fn)+": returns with inverted parity")
		}
	}
	sort.Strings(bad)
	w := a.V.Where(res.Fn.Pos())
	if len(bad) > 0 {
		r.Bad("C12-b", "T.parseNotExpr:inversion-scoped", vn, w, bad[0])
	} else {
		r.Ok("C12-b", "T.parseNotExpr:inversion-scoped", vn, w, "invert, evaluate, invert on every path")
	}
	// every evaluator returns with entry parity
	var badPar []string
	for _, fn := range a.sortedNames() {
		for _, e := range a.Res[fn].Exits {
			if e.State.Inv {
				badPar = append(badPar, fn)
				break
			}
		}
	}
	r.Check(len(badPar) == 0, "C12-b", "T.evaluators:entry-parity-at-return", vn, "builder/static_code.go", fmt.Sprintf("%d evaluators", len(a.Res)), "returns with flipped parity: "+strings.Join(badPar, ","))
}

func c12c(c *Ctx, v *variants.Variant) {
	r := c.R
	vn := v.Name
	fd := v.Func("parser", "parse")
	if fd == nil {
		r.Fatal("variant %s: parse not found", vn)
		return
	}
	w := v.Where(fd.Pos())
	// on the normalised paths of parse (helpers expanded): where the 'no match found' error is recorded
	// only the top-level statement of parse that leads to the error is enumerated (parse as a whole has thousands of paths)
	holder := map[string]bool{}
	for _, f := range v.Funcs() {
		if f.Body == nil {
			continue
		}
		ast.Inspect(f.Body, func(n ast.Node) bool {
			if bl, ok := n.(*ast.BasicLit); ok && strings.Contains(bl.Value, "no match found") {
				holder[f.Name.Name] = true
			}
			return true
		})
	}
	var stmt ast.Stmt
	for _, st := range fd.Body.List {
		found := false
		ast.Inspect(st, func(n ast.Node) bool {
			switch x := n.(type) {
			case *ast.BasicLit:
				if strings.Contains(x.Value, "no match found") {
					found = true
				}
			case *ast.CallExpr:
				if holder[callSel(x)] && callSel(x) != fd.Name.Name {
					found = true
				}
			}
			return true
		})
		if found {
			stmt = st
		}
	}
	if stmt == nil {
		r.Bad("C12-c", "T.parse:no-match-error", vn, w, "no addErrAt call carrying the 'no match found' message")
		return
	}
	paths := c.vnorm(v).without("addErrAt", "addErr").normBlock(fd, []ast.Stmt{stmt})
	var bad []string
	n := 0
	for _, p := range paths {
		iErr := p.evIndex("call", 0, func(t string) bool {
			return strings.HasPrefix(t, "p.addErrAt(") && strings.Contains(t, "no match found")
		})
		if iErr < 0 {
			continue
		}
		n++
		args := splitTop(strings.TrimSuffix(strings.TrimPrefix(p[iErr].Text, "p.addErrAt("), ")"), ",")
		if len(args) != 3 {
			bad = append(bad, "unexpected arguments of addErrAt")
			continue
		}
		list := args[2]
		if args[1] != "p.maxFailPos" {
			bad = append(bad, "position argument is "+args[1]+", not p.maxFailPos")
		}
		if !strings.Contains(args[0], "listJoin("+list+",") {
			bad = append(bad, "message is not listJoin of the expected list "+list)
		}
		// guards: the start rule failed and no other error was recorded
		before := p[:iErr]
		noErrs := before.holds("len(*p.errs)==0")
		failed := false
		// … including what the statements before this one established by leaving early (`if ok { return … }`)
		dominating := factsAt(fd.Body, stmt.Pos())
		for _, f := range dominating {
			for _, cj := range splitTop(f, "&&") {
				if cj == "len(*p.errs)==0" {
					noErrs = true
				}
			}
		}
		for _, f := range append(append([]string{}, dominating...), before.facts()...) {
			if strings.HasPrefix(f, "!") && (dollarRe.MatchString(f) || strings.Contains(f, "res1(") || strings.Contains(f, "ok")) && !strings.Contains(f, "p.debug") && !strings.Contains(f, "p.recover") && !strings.Contains(f, "ok(") {
				failed = true
			}
		}
		if !noErrs || !failed {
			bad = append(bad, "the error is recorded under ["+strings.Join(before.facts(), " ")+"], expected: the start rule failed and the error list is empty")
		}
		// pipeline on this path, in order
		iFill := -1
		setVar := ""
		for i, e := range before {
			if e.Kind == "set" && strings.HasSuffix(e.Text, "[p.maxFailExpected[#1]]=struct{}{}") {
				iFill = i
				setVar = e.Text[:strings.Index(e.Text, "[")]
			}
		}
		iLoop := before.evIndex("loop", iFill+1, func(t string) bool { return setVar != "" && t == "range "+setVar })
		iList := before.evIndex("set", 0, func(t string) bool { return setVar != "" && strings.HasPrefix(t, list+"=append("+list+",#") })
		iSort := before.evIndex("call", 0, func(t string) bool { return t == "sort.Strings("+list+")" })
		iEOF := before.evIndex("set", 0, func(t string) bool { return t == list+"=append("+list+",\"EOF\")" })
		hasEOFMark := setVar != "" && before.holds("ok("+setVar+"[\"!.\"])")
		noEOFMark := setVar != "" && before.holds("!ok("+setVar+"[\"!.\"])")
		iDel := before.evIndex("call", 0, func(t string) bool { return t == "delete("+setVar+",\"!.\")" })
		// the marker itself never enters the list: it was deleted from the set before the list is built, it is known to
		// be absent, or the loop skips it
		skipPath, guarded := false, false
		if iLoop >= 0 {
			_, hi := loopSpan(before[iLoop:], before[iLoop].Text)
			body := before[iLoop : iLoop+hi]
			skipPath = body.holds(`#1=="!."`) && iList < 0
			guarded = body.holds(`#1!="!."`)
		}
		knownAbsentBeforeLoop := iLoop >= 0 && before[:iLoop].holds("!ok("+setVar+"[\"!.\"])")
		excluded := (iDel > iFill && iLoop >= 0 && iDel < iLoop) || guarded || skipPath || knownAbsentBeforeLoop
		if iFill < 0 {
			// the same list by the slices idiom: copy, sort, compact (adjacent duplicates of a sorted list are all
			// duplicates), find the marker by binary search in the sorted list, cut it out and append EOF
			if probs, isIdiom := expectedListBySlices(before, list); isIdiom {
				bad = append(bad, probs...)
				continue
			}
		}
		switch {
		case iFill < 0:
			bad = append(bad, "the expected labels are not de-duplicated through a set")
		case iLoop < 0 || (iList < iLoop && !skipPath):
			bad = append(bad, "the list is not built from the de-duplicated set")
		case iSort < iLoop || (iList >= 0 && iSort < iList):
			bad = append(bad, "the expected list reaches the message before sort.Strings (map iteration order would leak into the error text)")
		case !excluded:
			bad = append(bad, "the end-of-input marker \"!.\" must be removed from the set before the list is built and appended as EOF after sorting")
		case hasEOFMark && !(iEOF > iSort):
			bad = append(bad, "the end-of-input marker \"!.\" must be removed from the set before the list is built and appended as EOF after sorting")
		case !hasEOFMark && iEOF >= 0:
			bad = append(bad, "EOF is reported although the end-of-input marker was not among the failures")
		case !hasEOFMark && !noEOFMark:
			bad = append(bad, "the error is built without testing whether the end-of-input marker is among the failures")
		}
	}
	if n == 0 {
		r.Bad("C12-c", "T.parse:no-match-error", vn, w, "no addErrAt call carrying the 'no match found' message")
		return
	}
	bad = uniq(bad)
	if len(bad) > 0 {
		r.Bad("C12-c", "T.parse:no-match-error", vn, w, strings.Join(bad, "; "))
	} else {
		r.Ok("C12-c", "T.parse:no-match-error", vn, w, fmt.Sprintf("%d paths: recorded iff the start rule failed without errors; dedup → sort → EOF last → listJoin at p.maxFailPos", n))
	}
}

func c12d(c *Ctx, v *variants.Variant) {
	r := c.R
	vn := v.Name
	fd := v.Func("parser", "failAt")
	if fd == nil {
		r.Fatal("variant %s: failAt not found", vn)
		return
	}
	names := paramNames(fd)
	if len(names) != 3 {
		r.Unk("C12-d", "T.failAt:shape", vn, v.Where(fd.Pos()), "unexpected parameter list")
		return
	}
	fail, pos := names[0], names[1]
	paths, multi := c.vnorm(v).normPathsNamed(fd)
	want := names[2]
	if w, ok := multi[want]; ok {
		want = w
	}
	var bad []string
	nRecord := 0
	for _, p := range paths {
		sets := func(prefix string) []string {
			var out []string
			for _, e := range p {
				if e.Kind == "set" && strings.HasPrefix(e.Text, prefix) {
					out = append(out, e.Text)
				}
			}
			return out
		}
		all := append(sets("p.maxFailPos"), sets("p.maxFailExpected")...)
		relevant := p.holds(fail + "==p.maxFailInvertExpected")
		switch {
		case p.holds(fail + "!=p.maxFailInvertExpected"):
			if len(all) > 0 {
				bad = append(bad, "a result that does not count (fail != invert) changes the farthest-failure record")
			}
			continue
		case !relevant:
			// `if fail != invert || pos.offset < max.offset { return }`: a path taken exactly when the result does not
			// count or lies before the farthest position, on which nothing is recorded
			excluded := false
			for _, f := range p.facts() {
				ds := splitTop(f, "||")
				if len(ds) < 2 {
					continue
				}
				all2 := true
				for _, d := range ds {
					d = minParens(d)
					if d != fail+"!=p.maxFailInvertExpected" && d != "p.maxFailInvertExpected!="+fail && d != pos+".offset<p.maxFailPos.offset" && d != "p.maxFailPos.offset>"+pos+".offset" {
						all2 = false
					}
				}
				if all2 {
					excluded = true
				}
			}
			if excluded && len(all) == 0 {
				continue
			}
			bad = append(bad, "a path does not compare "+fail+" with p.maxFailInvertExpected")
			continue
		}
		earlier := p.holds(pos + ".offset<p.maxFailPos.offset")
		farther := p.holds(pos + ".offset>p.maxFailPos.offset")
		if earlier {
			if len(all) > 0 {
				bad = append(bad, "a failure before the farthest position changes the record")
			}
			continue
		}
		nRecord++
		iApp := p.evIndex("set", 0, func(t string) bool { return strings.HasPrefix(t, "p.maxFailExpected=append(p.maxFailExpected,") })
		if iApp < 0 {
			bad = append(bad, "a counted failure at or beyond the farthest position is not appended to the expected list")
			continue
		}
		iPos := p.evIndex("set", 0, func(t string) bool { return t == "p.maxFailPos="+pos })
		iTrunc := p.evIndex("set", 0, func(t string) bool { return t == "p.maxFailExpected=p.maxFailExpected[:0]" })
		if farther {
			if iPos < 0 || iTrunc < 0 || iPos > iApp || iTrunc > iApp {
				bad = append(bad, "a failure beyond the farthest position must replace the position and empty the list before it is appended")
			}
		} else {
			if iPos >= 0 || iTrunc >= 0 {
				bad = append(bad, "the record is reset although the failure is not beyond the farthest position")
			}
			// not beyond: it must be at the farthest position (an earlier failure is not part of the expected set)
			if !(p.holds(pos+".offset>=p.maxFailPos.offset") || p.holds(pos+".offset==p.maxFailPos.offset")) {
				bad = append(bad, "a failure is appended without excluding positions before the farthest one (facts: "+strings.Join(p.facts(), " ")+")")
			}
		}
		// the label: prefixed with ! exactly inside a negative predicate
		appended := strings.TrimSuffix(strings.TrimPrefix(p[iApp].Text, "p.maxFailExpected=append(p.maxFailExpected,"), ")")
		marked := false
		for _, e := range p[:iApp] {
			if e.Kind == "set" && e.Text == want+`="!"+`+want {
				marked = true
			}
		}
		if strings.HasPrefix(appended, `"!"+`) {
			marked = true
			appended = strings.TrimPrefix(appended, `"!"+`)
		}
		if appended != want && appended != names[2] {
			bad = append(bad, "what is appended is "+appended+", not the label of the terminal")
		}
		if marked != p.holds("p.maxFailInvertExpected") {
			bad = append(bad, fmt.Sprintf("the label is marked with ! = %t on a path with [%s]", marked, strings.Join(p.facts(), " ")))
		}
	}
	if nRecord == 0 {
		bad = append(bad, "no path records a failure")
	}
	bad = uniq(bad)
	sort.Strings(bad)
	if len(bad) > 0 {
		r.Bad("C12-d", "T.failAt:shape", vn, v.Where(fd.Pos()), strings.Join(bad, "; "))
	} else {
		r.Ok("C12-d", "T.failAt:shape", vn, v.Where(fd.Pos()), "farthest-failure bookkeeping as specified")
	}
	// writers of maxFailPos / maxFailExpected
	var others []string
	for _, f := range v.Funcs() {
		if f.Name.Name == "failAt" {
			continue
		}
		ast.Inspect(f, func(n ast.Node) bool {
			if as, ok := n.(*ast.AssignStmt); ok {
				for _, l := range as.Lhs {
					t := nospace(l)
					if strings.Contains(t, ".maxFailPos") || strings.Contains(t, ".maxFailExpected") {
						others = append(others, f.Name.Name)
					}
				}
			}
			return true
		})
	}
	r.Check(len(others) == 0, "C12-d", "T.maxFail*:writers", vn, "builder/static_code.go", "only failAt (and the newParser literal)", "also written in "+strings.Join(others, ","))
}

// expectedListBySlices recognises copy → sort → compact → marker handling on a path (events before the error is
// recorded) and reports what is missing; isIdiom=false when the list is not built this way at all.
func expectedListBySlices(before bpath, list string) (probs []string, isIdiom bool) {
	src := "p.maxFailExpected"
	iCopy := before.evIndex("set", 0, func(t string) bool {
		return t == list+"=slices.Clone("+src+")" || t == list+"=append([]string{},"+src+"...)" || t == list+"=append([]string(nil),"+src+"...)"
	})
	if iCopy < 0 {
		return nil, false
	}
	isIdiom = true
	iSort := before.evIndex("call", iCopy, func(t string) bool { return t == "slices.Sort("+list+")" || t == "sort.Strings("+list+")" })
	iCompact := before.evIndex("set", iCopy, func(t string) bool { return t == list+"=slices.Compact("+list+")" })
	switch {
	case iSort < 0:
		probs = append(probs, "the copy of the expected labels is not sorted")
		return
	case iCompact < iSort:
		probs = append(probs, "the expected labels are not de-duplicated (slices.Compact must follow the sort: it only removes adjacent duplicates)")
		return
	}
	search := "slices.BinarySearch(" + list + `,"!.")`
	found, absent := before[iCompact:].holds("res1("+search+")") || before[iCompact:].holds("slices.Contains("+list+`,"!.")`), before[iCompact:].holds("!res1("+search+")") || before[iCompact:].holds("!slices.Contains("+list+`,"!.")`)
	cut := list + "=append(slices.Delete(" + list + ",res0(" + search + "),res0(" + search + `)+1),"EOF")`
	iCut := before.evIndex("set", iCompact, func(t string) bool { return t == cut })
	// nothing else rearranges the list after it was sorted and compacted
	for i := iCompact + 1; i < len(before); i++ {
		e := before[i]
		if e.Kind == "set" && strings.HasPrefix(e.Text, list+"=") && i != iCut {
			probs = append(probs, "the list is modified after it was sorted and de-duplicated: "+abbreviate(e.Text))
		}
	}
	switch {
	case !found && !absent:
		probs = append(probs, "the error is built without testing whether the end-of-input marker is among the failures")
	case found && iCut < 0:
		probs = append(probs, "the end-of-input marker \"!.\" must be removed from the list and appended as EOF after sorting")
	case absent && iCut >= 0:
		probs = append(probs, "EOF is reported although the end-of-input marker was not among the failures")
	}
	return
}

// c12MemoHits (C12-f).
func c12MemoHits(c *Ctx, v *variants.Variant) {
	r := c.R
	for _, fn := range []string{"parseExprWrap", "parseRuleMemoize", "parseRuleRecursiveLeader"} {
		fd := v.Func("parser", fn)
		if fd == nil {
			continue // not part of this variant
		}
		nHit, nSilent := 0, 0
		for _, p := range c.vnorm(v).without("read", "restore", "failAt", "sliceFrom", "in", "out", "addErr", "addErrAt", "getMemoized", "setMemoized", "parseRule", "parseExpr", "cloneState", "restoreState", "printIndent").normPaths(fd) {
			iGet := p.evIndex("call", 0, func(s string) bool { return strings.Contains(s, ".getMemoized(") })
			if iGet < 0 || lastReturn(p) == "" {
				continue
			}
			evaluates := p.evIndex("call", iGet, func(s string) bool { return strings.Contains(s, ".parseRule(") || strings.Contains(s, ".parseExpr(") }) >= 0
			if evaluates {
				continue
			}
			nHit++
			replays := p.evIndex("call", iGet, func(s string) bool { return strings.Contains(s, ".failAt(") || strings.Contains(s, "Fail") }) >= 0
			if !replays {
				nSilent++
			}
		}
		if nHit == 0 {
			continue // no path answers from the table (optimized variants)
		}
		r.Check(nSilent == 0, "C12-f", "T."+fn+":memo-hit-reports-failures", v.Name, v.Where(fd.Pos()), fmt.Sprintf("%d paths answer from the table, each reporting the remembered failures", nHit),
			fmt.Sprintf("%d of %d paths that answer from the memo table reach no failAt: `S <- !(T \"x\") T \"y\"; T <- \"a\" \"b\"` on `ac` reports `1:2 (1): expected \"b\"` by default and `1:1 (0): expected !\"a\"` with Memoize(true)", nSilent, nHit))
	}
}

// c12InitialPosition (C12-g).
func c12InitialPosition(c *Ctx, v *variants.Variant) {
	r := c.R
	np := v.Func("", "newParser")
	if np == nil {
		r.Fatal("variant %s: newParser missing", v.Name)
		return
	}
	literal := ""
	ast.Inspect(np.Body, func(n ast.Node) bool {
		if kv, ok := n.(*ast.KeyValueExpr); ok && nospace(kv.Key) == "maxFailPos" {
			if _, isLit := kv.Value.(*ast.CompositeLit); isLit {
				literal = nospace(kv.Value)
			}
		}
		return true
	})
	// does failAt replace the position for a failure at the same offset when nothing was recorded yet? (then the
	// initial value never reaches the message)
	r.Check(literal == "", "C12-g", "T.newParser:initial-failure-position", v.Name, v.Where(np.Pos()), "the initial farthest-failure position is computed, not a literal",
		"maxFailPos starts as the literal "+literal+" and failAt replaces it only for a strictly greater offset: a failure at offset 0 is reported at line 1, column 1 although read() places a leading line break at line 2, column 0 (`S <- \"a\" \"b\"` on \"\\nb\" reports 1:1 (0), on \"a\\nb\" 2:0 (1))")
}
