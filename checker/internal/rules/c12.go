package rules

import (
	"fmt"
	"go/ast"
	"sort"
	"strings"

	"pigeonverif/internal/absint"
	"pigeonverif/internal/variants"
)

// C12 — a failed parse reports the farthest failure position and the exact expected set.
func C12(c *Ctx) {
	r := c.R
	r.Technique = "typestate abstract interpretation of the three terminal matchers (one failAt per outcome, polarity, position, label) and of the inversion parity in all 16 variants; AST/ordering rules on failAt and on the message synthesis in parse()"
	r.Explanation = "Decides: (a) every path of parseAnyMatcher / parseLitMatcher / parseCharClassMatcher reports its outcome to failAt exactly once, with fail=true polarity on success and fail=false on failure (the flag is compared with the inversion state), at the position of the entry savepoint and with the node's own label; no other function reports; (b) the inversion flag is toggled only in parseNotExpr, exactly around the operand evaluation, and is back to its entry parity on every return of every evaluator; (c) the synthetic 'no match found' error is added only when the parse failed and no error was recorded, at maxFailPos, from the de-duplicated expected list sorted before use with EOF appended last; (d) failAt keeps the farthest offset: earlier offsets are ignored, a later one replaces the position and truncates the list, the ! prefix is added iff inverted. Not decided: the global induction that the reported offset is the maximum over a whole backtracking run; memo-hit paths (failAt bookkeeping is skipped on hits)."
	r.Assumptions = []string{"sort.Strings sorts", "terminal matchers are the only source of expected labels by construction of the grammar literal"}
	r.Rule("C12-a", "each abstract path of a terminal matcher contains exactly one failAt; its first argument is true iff the path returns ok=true; its position is the entry savepoint's; its label is the node's own label field (\".\" for the any matcher)")
	r.Rule("C12-a2", "failAt is called only from the three terminal matchers")
	r.Rule("C12-b", "maxFailInvertExpected is written only in parseNotExpr, toggled immediately before and after the operand evaluation; every evaluator returns with the entry parity")
	r.Rule("C12-c", "the 'no match found' error is added under !ok && len(*p.errs)==0 at p.maxFailPos; the expected list comes from a map filled from p.maxFailExpected (dedup), \"!.\" is replaced by a trailing \"EOF\", and sort.Strings precedes listJoin/addErrAt")
	r.Rule("C12-d", "failAt acts only when fail == p.maxFailInvertExpected; returns on an earlier offset; on a later offset replaces maxFailPos and truncates maxFailExpected; prefixes ! iff inverted; appends the label; nobody else writes maxFailPos/maxFailExpected")

	abs := c.allAbs()
	r.Min("semantic variants analysed", 16, len(abs))
	for _, a := range abs {
		c12a(c, a)
		c12b(c, a)
		c12c(c, a.V)
		c12d(c, a.V)
	}
	r.MinRule("C12-a", 3)
}

func c12a(c *Ctx, a *absVariant) {
	r := c.R
	vn := a.V.Name
	for _, fn := range []string{"parseAnyMatcher", "parseLitMatcher", "parseCharClassMatcher"} {
		res := a.Res[fn]
		if res == nil {
			r.Fatal("variant %s: %s missing", vn, fn)
			continue
		}
		param := res.Fn.Type.Params.List[0].Names[0].Name
		wantLabel := map[string][]string{"parseAnyMatcher": {`"."`}, "parseLitMatcher": {param + ".want"}, "parseCharClassMatcher": {param + ".val"}}[fn]
		var bad []string
		nPaths := 0
		for _, e := range res.Exits {
			nPaths++
			fs := eventsOf(e, "failAt")
			if len(fs) != 1 {
				bad = append(bad, fmt.Sprintf("%s: path reports %d times to failAt [%s]", a.where(e, res.Fn), len(fs), evString(e)))
				continue
			}
			f := fs[0]
			ok := e.Ok()
			pol := map[bool]string{true: "T", false: "F"}[ok.IsTrue()]
			if !ok.IsTrue() && !ok.IsFalse() {
				bad = append(bad, a.where(e, res.Fn)+": result flag unknown")
				continue
			}
			if f.Args[0] != pol {
				bad = append(bad, fmt.Sprintf("%s: path returning ok=%s reports failAt(%s, …): wrong polarity", a.V.Where(f.Pos), ok.A, f.Args[0]))
			}
			if f.Args[1] != absint.Entry {
				bad = append(bad, fmt.Sprintf("%s: failAt position is %s, not the start of the terminal (entry savepoint)", a.V.Where(f.Pos), f.Args[1]))
			}
			if f.Args[2] != wantLabel[0] {
				bad = append(bad, fmt.Sprintf("%s: failAt label is %s, expected %s", a.V.Where(f.Pos), f.Args[2], wantLabel[0]))
			}
		}
		sort.Strings(bad)
		w := a.V.Where(res.Fn.Pos())
		if len(bad) > 0 {
			r.Bad("C12-a", "T."+fn+":reports-every-outcome", vn, w, bad[0])
		} else {
			r.Ok("C12-a", "T."+fn+":reports-every-outcome", vn, w, fmt.Sprintf("%d abstract paths, one failAt each with matching polarity, entry position, own label", nPaths))
		}
	}
	// who calls failAt: the terminal matchers, or helpers that are themselves called only from them
	terminals := map[string]bool{"parseAnyMatcher": true, "parseLitMatcher": true, "parseCharClassMatcher": true}
	callersOf := func(name string) []string {
		var out []string
		for _, fd := range a.V.Funcs() {
			if fd.Body == nil {
				continue
			}
			for _, ce := range callsIn(fd.Body) {
				if callSel(ce) == name {
					out = append(out, fd.Name.Name)
				}
			}
		}
		return out
	}
	var others []string
	var visit func(fn string, depth int) bool
	visit = func(fn string, depth int) bool {
		if terminals[fn] {
			return true
		}
		if depth > 3 {
			return false
		}
		cs := callersOf(fn)
		if len(cs) == 0 {
			return false
		}
		for _, c2 := range cs {
			if !visit(c2, depth+1) {
				return false
			}
		}
		return true
	}
	for _, fn := range callersOf("failAt") {
		if !visit(fn, 0) {
			others = append(others, fn)
		}
	}
	r.Check(len(others) == 0, "C12-a2", "T.failAt:callers", vn, "builder/static_code.go", "only the terminal matchers (directly or through helpers used by them alone)", "failAt also reachable from "+strings.Join(others, ","))
}

func c12b(c *Ctx, a *absVariant) {
	r := c.R
	vn := a.V.Name
	// writers of maxFailInvertExpected
	var writers []string
	for _, fd := range a.V.Funcs() {
		ast.Inspect(fd, func(n ast.Node) bool {
			switch x := n.(type) {
			case *ast.AssignStmt:
				for _, l := range x.Lhs {
					if strings.HasSuffix(nospace(l), ".maxFailInvertExpected") {
						writers = append(writers, fd.Name.Name)
					}
				}
			case *ast.UnaryExpr:
				if x.Op.String() == "&" && strings.HasSuffix(nospace(x.X), ".maxFailInvertExpected") {
					writers = append(writers, fd.Name.Name+"(address taken)")
				}
			}
			return true
		})
	}
	sort.Strings(writers)
	r.Check(strings.Join(writers, ",") == "parseNotExpr,parseNotExpr", "C12-b", "T.maxFailInvertExpected:writers", vn, "builder/static_code.go", "two toggles in parseNotExpr", "written in ["+strings.Join(writers, ",")+"]")
	res := a.Res["parseNotExpr"]
	if res == nil {
		return
	}
	var bad []string
	for _, e := range res.Exits {
		seq := []string{}
		for _, ev := range e.State.Ev {
			if ev.Kind == "invert" || ev.Kind == "eval" || ev.Kind == "run" || ev.Kind == "read" {
				seq = append(seq, ev.Kind)
			}
		}
		if strings.Join(seq, ",") != "invert,eval,invert" {
			bad = append(bad, a.where(e, res.Fn)+": inversion is not scoped to the operand evaluation: ["+strings.Join(seq, ",")+"]")
		}
		if e.State.Inv {
			bad = append(bad, a.where(e, res.Fn)+": returns with inverted parity")
		}
	}
	sort.Strings(bad)
	w := a.V.Where(res.Fn.Pos())
	if len(bad) > 0 {
		r.Bad("C12-b", "T.parseNotExpr:inversion-scoped", vn, w, bad[0])
	} else {
		r.Ok("C12-b", "T.parseNotExpr:inversion-scoped", vn, w, "invert, evaluate, invert on every path")
	}
	// every evaluator returns with entry parity
	var badPar []string
	for _, fn := range a.sortedNames() {
		for _, e := range a.Res[fn].Exits {
			if e.State.Inv {
				badPar = append(badPar, fn)
				break
			}
		}
	}
	r.Check(len(badPar) == 0, "C12-b", "T.evaluators:entry-parity-at-return", vn, "builder/static_code.go", fmt.Sprintf("%d evaluators", len(a.Res)), "returns with flipped parity: "+strings.Join(badPar, ","))
}

func c12c(c *Ctx, v *variants.Variant) {
	r := c.R
	vn := v.Name
	fd := v.Func("parser", "parse")
	if fd == nil {
		r.Fatal("variant %s: parse not found", vn)
		return
	}
	var call *ast.CallExpr
	for _, ce := range callsIn(fd) {
		if callSel(ce) == "addErrAt" && len(ce.Args) == 3 && strings.Contains(nospace(ce.Args[0]), "nomatchfound") {
			call = ce
		}
	}
	w := v.Where(fd.Pos())
	if call == nil {
		r.Bad("C12-c", "T.parse:no-match-error", vn, w, "no addErrAt call carrying the 'no match found' message")
		return
	}
	var bad []string
	g := guardsOf(fd.Body, call.Pos())
	gs := strings.Join(g, " ; ")
	if !(len(g) == 2 && g[0] == "!ok" && g[1] == "len(*p.errs)==0") {
		bad = append(bad, "guards are ["+gs+"], expected !ok ; len(*p.errs)==0")
	}
	if nospace(call.Args[1]) != "p.maxFailPos" {
		bad = append(bad, "position argument is "+nospace(call.Args[1])+", not p.maxFailPos")
	}
	listVar := nospace(call.Args[2])
	if !strings.Contains(nospace(call.Args[0]), "listJoin("+listVar+",") {
		bad = append(bad, "message is not listJoin of the expected list "+listVar)
	}
	// ordering inside the enclosing block
	var blk *ast.BlockStmt
	ast.Inspect(fd.Body, func(n ast.Node) bool {
		if b, ok := n.(*ast.BlockStmt); ok && contains(b, call.Pos()) {
			blk = b
		}
		return true
	})
	mapVar := ""
	stage := 0 // 0 start, 1 map filled from maxFailExpected, 2 "!." removed, 3 list filled from map, 4 sorted, 5 EOF appended
	for _, st := range blk.List {
		switch x := st.(type) {
		case *ast.RangeStmt:
			src := nospace(x.X)
			if src == "p.maxFailExpected" && stage == 0 {
				// body: m[v] = struct{}{}
				if as, ok := x.Body.List[0].(*ast.AssignStmt); ok {
					if ix, ok := as.Lhs[0].(*ast.IndexExpr); ok && nospace(ix.Index) == nospace(x.Value) {
						mapVar = nospace(ix.X)
						stage = 1
					}
				}
			} else if src == mapVar && stage >= 1 && stage <= 2 {
				if as, ok := x.Body.List[0].(*ast.AssignStmt); ok && nospace(as.Lhs[0]) == listVar && nospace(as.Rhs[0]) == "append("+listVar+","+nospace(x.Key)+")" {
					stage = 3
				}
			}
		case *ast.IfStmt:
			t := nospace(x.Cond)
			if stage == 1 && strings.Contains(t, mapVar+`["!."]`) {
				del := false
				for _, ce := range callsIn(x.Body) {
					if callName(ce) == "delete" && nospace(ce.Args[0]) == mapVar && nospace(ce.Args[1]) == `"!."` {
						del = true
					}
				}
				if del {
					stage = 2
				}
			}
			if stage == 4 {
				for _, ce := range callsIn(x.Body) {
					if callName(ce) == "append" && len(ce.Args) == 2 && nospace(ce.Args[1]) == `"EOF"` {
						stage = 5
					}
				}
			}
		case *ast.ExprStmt:
			if ce, ok := x.X.(*ast.CallExpr); ok {
				if callName(ce) == "sort.Strings" && nospace(ce.Args[0]) == listVar && stage == 3 {
					stage = 4
				}
				if ce == call && stage < 4 {
					bad = append(bad, "the expected list reaches the message before sort.Strings (map iteration order would leak into the error text)")
				}
			}
		}
	}
	if stage != 5 {
		bad = append(bad, fmt.Sprintf("pipeline incomplete (reached stage %d of: dedup map, !. removal, list from map, sort, EOF last)", stage))
	}
	sort.Strings(bad)
	if len(bad) > 0 {
		r.Bad("C12-c", "T.parse:no-match-error", vn, v.Where(call.Pos()), strings.Join(bad, "; "))
	} else {
		r.Ok("C12-c", "T.parse:no-match-error", vn, v.Where(call.Pos()), "guards "+gs+"; dedup → sort → EOF last → listJoin at p.maxFailPos")
	}
}

func c12d(c *Ctx, v *variants.Variant) {
	r := c.R
	vn := v.Name
	fd := v.Func("parser", "failAt")
	if fd == nil {
		r.Fatal("variant %s: failAt not found", vn)
		return
	}
	ps := fd.Type.Params.List
	var names []string
	for _, f := range ps {
		for _, n := range f.Names {
			names = append(names, n.Name)
		}
	}
	if len(names) != 3 {
		r.Unk("C12-d", "T.failAt:shape", vn, v.Where(fd.Pos()), "unexpected parameter list")
		return
	}
	fail, pos, want := names[0], names[1], names[2]
	var bad []string
	if len(fd.Body.List) != 1 {
		bad = append(bad, "body is not a single guarded block")
	}
	var earlyReturn, replace, truncate, prefix, appendOK bool
	ast.Inspect(fd.Body, func(n ast.Node) bool {
		switch x := n.(type) {
		case *ast.ReturnStmt:
			g := guardsOf(fd.Body, x.Pos())
			if len(g) == 2 && (g[1] == pos+".offset<p.maxFailPos.offset" || g[1] == "p.maxFailPos.offset>"+pos+".offset") {
				earlyReturn = true
			} else {
				bad = append(bad, "return under ["+strings.Join(g, ";")+"]")
			}
		case *ast.AssignStmt:
			l, rr := nospace(x.Lhs[0]), nospace(x.Rhs[0])
			g := guardsOf(fd.Body, x.Pos())
			later := len(g) == 2 && (g[1] == pos+".offset>p.maxFailPos.offset" || g[1] == "p.maxFailPos.offset<"+pos+".offset")
			switch {
			case l == "p.maxFailPos":
				if rr == pos && later {
					replace = true
				} else {
					bad = append(bad, "p.maxFailPos = "+rr+" under ["+strings.Join(g, ";")+"]")
				}
			case l == "p.maxFailExpected" && rr == "p.maxFailExpected[:0]":
				if later {
					truncate = true
				} else {
					bad = append(bad, "list truncated under ["+strings.Join(g, ";")+"]")
				}
			case l == "p.maxFailExpected" && rr == "append(p.maxFailExpected,"+want+")":
				if len(g) == 1 {
					appendOK = true
				} else {
					bad = append(bad, "label appended under ["+strings.Join(g, ";")+"]")
				}
			case l == want:
				if rr == `"!"+`+want && len(g) == 2 && g[1] == "p.maxFailInvertExpected" {
					prefix = true
				} else {
					bad = append(bad, want+" = "+rr+" under ["+strings.Join(g, ";")+"]")
				}
			default:
				bad = append(bad, "unexpected assignment "+l+" = "+rr)
			}
			if len(g) == 0 || (g[0] != fail+"==p.maxFailInvertExpected" && g[0] != "p.maxFailInvertExpected=="+fail) {
				bad = append(bad, "statement not under "+fail+" == p.maxFailInvertExpected")
			}
		}
		return true
	})
	if !(earlyReturn && replace && truncate && prefix && appendOK) {
		bad = append(bad, fmt.Sprintf("missing step: earlier-offset return=%t replace=%t truncate=%t !prefix=%t append=%t", earlyReturn, replace, truncate, prefix, appendOK))
	}
	sort.Strings(bad)
	if len(bad) > 0 {
		r.Bad("C12-d", "T.failAt:shape", vn, v.Where(fd.Pos()), strings.Join(bad, "; "))
	} else {
		r.Ok("C12-d", "T.failAt:shape", vn, v.Where(fd.Pos()), "farthest-failure bookkeeping as specified")
	}
	// writers of maxFailPos / maxFailExpected
	var others []string
	for _, f := range v.Funcs() {
		if f.Name.Name == "failAt" {
			continue
		}
		ast.Inspect(f, func(n ast.Node) bool {
			if as, ok := n.(*ast.AssignStmt); ok {
				for _, l := range as.Lhs {
					t := nospace(l)
					if strings.Contains(t, ".maxFailPos") || strings.Contains(t, ".maxFailExpected") {
						others = append(others, f.Name.Name)
					}
				}
			}
			return true
		})
	}
	r.Check(len(others) == 0, "C12-d", "T.maxFail*:writers", vn, "builder/static_code.go", "only failAt (and the newParser literal)", "also written in "+strings.Join(others, ","))
}
