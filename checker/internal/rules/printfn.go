package rules

import (
	"fmt"
	"go/ast"
	"go/constant"
	"go/types"
	"sort"
	"strings"

	"pigeonverif/internal/variants"
)

// printfArgs (C04-a, quick tier): the verbs of every constant fmt format in a runtime variant agree in number and in
// kind with the arguments (what `go vet` reports as "format %t has arg x of wrong type int"); the thorough tier runs
// go vet itself on every variant. Only the fmt functions are modelled; a format that is not a constant is skipped.
func printfArgs(v *variants.Variant) (checked int, bad []string) {
	fmtIndex := map[string]int{"Sprintf": 0, "Printf": 0, "Errorf": 0, "Fprintf": 1, "Appendf": 1}
	errType := types.Universe.Lookup("error").Type().Underlying().(*types.Interface)
	var stringer *types.Interface
	{
		sig := types.NewSignatureType(nil, nil, nil, nil, types.NewTuple(types.NewVar(0, nil, "", types.Typ[types.String])), false)
		stringer = types.NewInterfaceType([]*types.Func{types.NewFunc(0, nil, "String", sig)}, nil).Complete()
	}
	basicInfo := func(t types.Type) types.BasicInfo {
		if b, ok := t.Underlying().(*types.Basic); ok {
			return b.Info()
		}
		return 0
	}
	isBytes := func(t types.Type) bool {
		if s, ok := t.Underlying().(*types.Slice); ok {
			if b, ok := s.Elem().Underlying().(*types.Basic); ok && b.Kind() == types.Byte {
				return true
			}
		}
		return false
	}
	okFor := func(verb byte, t types.Type) bool {
		if t == nil {
			return true
		}
		if _, isIface := t.Underlying().(*types.Interface); isIface {
			return true // dynamic type unknown
		}
		formatter := types.Implements(t, errType) || types.Implements(t, stringer) || types.Implements(types.NewPointer(t), stringer)
		bi := basicInfo(t)
		switch verb {
		case 'v', 'T', 'p':
			return true
		case 't':
			return bi&types.IsBoolean != 0
		case 'd', 'b', 'o', 'O', 'c', 'U':
			return bi&types.IsInteger != 0
		case 'x', 'X':
			return bi&(types.IsInteger|types.IsFloat|types.IsString) != 0 || isBytes(t) || formatter
		case 'e', 'E', 'f', 'F', 'g', 'G':
			return bi&(types.IsFloat|types.IsComplex) != 0
		case 's':
			return bi&types.IsString != 0 || isBytes(t) || formatter
		case 'q':
			return bi&(types.IsString|types.IsInteger) != 0 || isBytes(t) || formatter
		case 'w':
			return types.Implements(t, errType)
		}
		return true
	}
	for _, fd := range v.Funcs() {
		if fd.Body == nil {
			continue
		}
		ast.Inspect(fd.Body, func(n ast.Node) bool {
			ce, ok := n.(*ast.CallExpr)
			if !ok {
				return true
			}
			sel, ok := ce.Fun.(*ast.SelectorExpr)
			if !ok {
				return true
			}
			pk, ok := sel.X.(*ast.Ident)
			if !ok {
				return true
			}
			pn, ok := v.Info.Uses[pk].(*types.PkgName)
			if !ok || pn.Imported().Path() != "fmt" {
				return true
			}
			fi, ok := fmtIndex[sel.Sel.Name]
			if !ok || len(ce.Args) <= fi || ce.Ellipsis.IsValid() {
				return true
			}
			tv, ok := v.Info.Types[ce.Args[fi]]
			if !ok || tv.Value == nil || tv.Value.Kind() != constant.String {
				return true
			}
			format := constant.StringVal(tv.Value)
			args := ce.Args[fi+1:]
			checked++
			ai := 0
			for i := 0; i < len(format); i++ {
				if format[i] != '%' {
					continue
				}
				i++
				// flags, width, precision (a `*` consumes an integer argument); explicit indexes are not modelled
				explicit := false
				for i < len(format) && strings.ContainsRune("+-# 0123456789.*[]", rune(format[i])) {
					if format[i] == '*' {
						ai++
					}
					if format[i] == '[' {
						explicit = true
					}
					i++
				}
				if i >= len(format) {
					bad = append(bad, fmt.Sprintf("%s: %s: format %q ends in an incomplete verb", v.Where(ce.Pos()), fd.Name.Name, format))
					break
				}
				if format[i] == '%' {
					continue
				}
				if explicit {
					return true
				}
				if ai >= len(args) {
					bad = append(bad, fmt.Sprintf("%s: %s: format %q reads more arguments than the %d given", v.Where(ce.Pos()), fd.Name.Name, format, len(args)))
					return true
				}
				if t := v.Info.TypeOf(args[ai]); !okFor(format[i], t) {
					bad = append(bad, fmt.Sprintf("%s: %s: format %q has verb %%%c for argument %s of type %s (go vet rejects the generated parser)", v.Where(ce.Pos()), fd.Name.Name, format, format[i], nospace(args[ai]), t))
				}
				ai++
			}
			if ai < len(args) {
				bad = append(bad, fmt.Sprintf("%s: %s: format %q leaves %d argument(s) unused", v.Where(ce.Pos()), fd.Name.Name, format, len(args)-ai))
			}
			return true
		})
	}
	sort.Strings(bad)
	return checked, bad
}
