package rules

import (
	"fmt"
	"go/ast"
	"go/token"
	"go/types"

	"golang.org/x/tools/go/packages"
	"pigeonverif/internal/load"
	"regexp"
	"sort"
	"strings"

	"pigeonverif/internal/absint"
	"pigeonverif/internal/variants"
)

// leaderFinalAttempt checks that parseRuleRecursiveLeader returns in the parser state recorded with the result it returns.
func leaderFinalAttempt(c *Ctx, a *absVariant, rule string) {
	r := c.R
	res := a.Res["parseRuleRecursiveLeader"]
	if res == nil {
		return
	}
	var bad []string
	n := 0
	for _, e := range res.Exits {
		if isMemoExit(e) {
			continue
		}
		n++
		var lr *absint.Val
		for o, v := range e.State.Env {
			if o.Name() == "lastResult" && v.K == "tuple" {
				vv := v
				lr = &vv
			}
		}
		if lr == nil {
			bad = append(bad, a.where(e, res.Fn)+": no tracked lastResult tuple at return")
			continue
		}
		s := e.State
		if s.Pt != lr.F["end"].A || s.Er != lr.F["$er"].A || (a.V.Params.HasState() && s.St != lr.F["$st"].A) {
			bad = append(bad, fmt.Sprintf("%s: returns with pt=%s st=%s errs=%s but the returned result was recorded at pt=%s st=%s errs=%s: something of the final, non-extending attempt is retained [%s]", a.where(e, res.Fn), s.Pt, s.St, s.Er, lr.F["end"].A, lr.F["$st"].A, lr.F["$er"].A, evString(e)))
		}
		if e.Value().String() != lr.F["v"].String() || e.Ok().String() != lr.F["b"].String() {
			bad = append(bad, a.where(e, res.Fn)+": returned value/flag are not those of lastResult")
		}
		// the final memo entry is lastResult under the start mark
		sets := eventsOf(e, "setMemo")
		if len(sets) == 0 {
			bad = append(bad, a.where(e, res.Fn)+": result not memoised at return")
		} else {
			last := sets[len(sets)-1]
			if last.Vals[0].A != absint.Entry {
				bad = append(bad, a.V.Where(last.Pos)+": final memo entry is not keyed by the start position")
			}
		}
	}
	sort.Strings(bad)
	w := a.V.Where(res.Fn.Pos())
	if len(bad) > 0 {
		r.Bad(rule, "T.parseRuleRecursiveLeader:final-attempt-discarded", a.V.Name, w, bad[0])
	} else {
		r.Ok(rule, "T.parseRuleRecursiveLeader:final-attempt-discarded", a.V.Name, w, fmt.Sprintf("%d exits: position, store and error list equal those recorded with the returned result", n))
	}
}

// C08 — left-recursive rules parse as the left-associative iteration they denote.
func C08(c *Ctx) {
	r := c.R
	r.Technique = "typestate abstract interpretation of the seed-growing loop (position, state store, error list at return = those recorded with the returned result) and of the rule dispatch in the 8 LeftRecursion variants; guard agreement in parseExprWrap"
	r.Explanation = "Termination and longest match over all operand shapes are behavioural and not decided. Decided: (a) nothing of the final, non-extending growth attempt is retained: on every return of the leader routine the position, the state store and the error list are exactly those recorded when the returned result was accepted, the result is memoised under the start position, and a memo hit restores the stored end; (b) expression memoisation is disabled inside left-recursive rules consistently (same guard at lookup and store, derived from the rule on top of the rule stack); (c) dispatch: leader rules go to the leader routine, other left-recursive rules are evaluated plainly (never through the rule memo), in every LeftRecursion variant; (d) the growth loop continues only when the attempt succeeded and (after the seed) ended strictly beyond the previous end; (e) every left-recursive group gets a leader, a single-rule component counts as a group exactly when the rule references itself (C08-g), and - recorded as finding F19 - the leader is fixed at generation time by name although which rule has to grow the seed depends on where the component is entered (C08-h). Equivalence with -optimize-parser is C10."
	r.Assumptions = []string{"induction hypothesis on parseRule"}
	r.Rule("C08-a", "every non-memo return of parseRuleRecursiveLeader has pt = lastResult.end, state store and *p.errs as when lastResult was recorded; returns lastResult.v, lastResult.b; the memo table is total (setMemoized stores on every path, getMemoized returns what was stored), so each growth step replaces the seed; last setMemoized is keyed by the start mark")
	r.Rule("C08-a2", "the error list is append-only between the snapshot and the rollback of the leader loop: errList.add appends on its only path and no other method stores into the list (the loop snapshots the list as a slice header; an insertion in the middle rewrites the shared backing array, so re-installing the header keeps an error of the discarded attempt and drops a legitimate one)")
	r.Rule("C08-b", "parseExprWrap (LeftRecursion, not Optimize): isLeftRecursion := p.rstack[top].leftRecursive and both memo guards are `p.memoize && !isLeftRecursion`")
	r.Rule("C08-c", "parseRuleWrap: leader routine iff rule.leader (within left-recursive or memoised dispatch); parseRuleMemoize only when !rule.leftRecursive; each path evaluates the rule exactly once; parseRuleRecursiveNoLeader is parseRule")
	r.Rule("C08-d", "the growth loop breaks unless ok && (depth == 0 || endMark.offset > lastResult.end.offset); lastResult/lastErrors are updated and the position reset to the start mark only on the continuing path")

	r.Rule("C08-e", "every left-recursive group gets a leader: ComputeLeftRecursives sets Leader on the rule findLeader returns for an SCC with more than one rule and on the rule itself for a self-loop - in the same branches that set LeftRecursive - otherwise the runtime evaluates the cycle plainly and recurses without end")
	c08Leaders(c)
	r.Rule("C08-g", "a component of the first-graph with a single rule is a left-recursive group exactly when the rule references itself: every loop over the components returned by StronglyConnectedComponents that tells components apart by their size also consults the self-loop graph[v][v] (the leader must lie on every cycle, direct ones included)")
	sccSelfLoops(c, "C08-g")
	r.Rule("C08-h", "the rule that grows the seed is the one through which a component is entered: when more than one rule lies on every cycle of a component, a leader fixed at generation time (findLeader returns the candidate with the smallest name) is the wrong one for every use that enters the component through another candidate - the outer, non-leader rule then receives the fully grown inner result and cannot extend it")
	c08StaticLeader(c)
	r.Rule("C08-f", "the first-invocation graph is read-only for its consumers: no function that receives the graph built by MakeFirstGraph (findLeader, FindCyclesInSCC, reduceGraph, the component search) stores into it or into one of its adjacency sets - ComputeLeftRecursives consults the same graph for every component in turn")
	firstGraphReadOnly(c, "C08-f")
	r.Rule("C08-i", "what the final, non-extending growth attempt did is discarded as a whole: where the error list is cut back to the snapshot, the memo entries made since the snapshot are invalidated too (C11-i under this property, finding F28)")
	abs := c.allAbs()
	n := 0
	for _, a := range abs {
		v := a.V
		vn := v.Name
		if !v.Params.LeftRecursion {
			var found []string
			for _, sym := range []string{"parseRuleRecursiveLeader", "leftRecursive", "ruleWithExpsStack"} {
				if strings.Contains(v.Text, sym) {
					found = append(found, sym)
				}
			}
			r.Check(len(found) == 0, "C08-c", "T:no-left-recursion-code", vn, "builder/static_code.go", "absent", "present without LeftRecursion: "+strings.Join(found, ","))
			continue
		}
		n++
		c.undecidedExits("C08-a", a, "parseRuleRecursiveLeader")
		leaderFinalAttempt(c, a, "C08-a")
		memoTableTotal(c, v, "C08-a")
		// the leader rolls the error list back by re-installing an earlier slice header: that is a rollback only
		// while errors are recorded by appending (C06-f / C11-b under this property)
		errListKeepsAll(c, v, "C08-a2")
		errListMethodsKeepErrors(c, v, "C08-a2")
		rolledBackErrorsVsMemo(c, v, "C08-i")
		// ---- b
		if !v.Params.Optimize {
			memoOffInLeftRecursiveRules(c, v, "C08-b")
		}
		// ---- c
		if res := a.Res["parseRuleWrap"]; res != nil {
			var bad []string
			for _, e := range res.Exits {
				evs := eventsOf(e, "eval")
				if len(evs) != 1 {
					bad = append(bad, fmt.Sprintf("%s: the rule is evaluated %d times on one path", a.where(e, res.Fn), len(evs)))
					continue
				}
				callee := evs[0].Args[0]
				f := evs[0].Facts
				leader, lk := f["rule.leader"]
				switch callee {
				case "parseRuleRecursiveLeader":
					if !lk || !leader {
						bad = append(bad, a.V.Where(evs[0].Pos)+": leader routine reached without rule.leader being established")
					}
				case "parseRuleMemoize":
					// the path must know the rule is not left-recursive (directly, or as a conjunct of the guard it passed)
					if lr, ok := f["rule.leftRecursive"]; !ok || lr {
						bad = append(bad, a.V.Where(evs[0].Pos)+": rule memo used without establishing !rule.leftRecursive")
					}
					fallthrough
				default:
					if lk && leader {
						bad = append(bad, a.V.Where(evs[0].Pos)+": a leader rule is dispatched to "+callee)
					}
				}
				if lr, ok := f["rule.leftRecursive"]; ok && lr && callee == "parseRuleMemoize" {
					bad = append(bad, a.V.Where(evs[0].Pos)+": left-recursive rule sent through the rule memo")
				}
			}
			sort.Strings(bad)
			w := v.Where(res.Fn.Pos())
			if len(bad) > 0 {
				r.Bad("C08-c", "T.parseRuleWrap:dispatch", vn, w, bad[0])
			} else {
				r.Ok("C08-c", "T.parseRuleWrap:dispatch", vn, w, fmt.Sprintf("%d exits", len(res.Exits)))
			}
		}
		if res := a.Res["parseRuleRecursiveNoLeader"]; res != nil {
			ok := true
			for _, e := range res.Exits {
				evs := eventsOf(e, "eval")
				if len(evs) != 1 || evs[0].Args[0] != "parseRule" || len(e.State.Ev) != 1 {
					ok = false
				}
			}
			r.Check(ok, "C08-c", "T.parseRuleRecursiveNoLeader:plain", vn, v.Where(res.Fn.Pos()), "evaluates parseRule and nothing else", "does more than evaluating parseRule")
		}
		// ---- d
		c08d(c, a)
	}
	r.Min("LeftRecursion variants", 8, n)
	// the flags the runtime dispatches on are the ones the analysis computed, for every rule
	builderPairingN(c, "C08-c", "writeRule")
}

func c08d(c *Ctx, a *absVariant) {
	r := c.R
	v := a.V
	fd := v.Func("parser", "parseRuleRecursiveLeader")
	if fd == nil {
		r.Fatal("variant %s: leader missing", v.Name)
		return
	}
	const construct = "T.parseRuleRecursiveLeader:strict-growth"
	var loop *ast.ForStmt
	ast.Inspect(fd.Body, func(n ast.Node) bool {
		if f, ok := n.(*ast.ForStmt); ok && loop == nil {
			loop = f
		}
		return true
	})
	if loop == nil || loop.Cond != nil {
		r.Unk("C08-d", construct, v.Name, v.Where(fd.Pos()), "growth loop not found in the expected `for { … break … }` form")
		return
	}
	rv := recvName(fd)
	// one iteration of the loop on its normalised paths: what it assumes (facts), what it stores, how it ends
	paths, loopNames := c.vnorm(v).without("parseRule", "cloneState", "restoreState", "setMemoized", "getMemoized", "restore", "printIndent", "sliceFrom", "addErr", "addErrAt").normBlockNamed(fd, loop.Body.List)
	if len(paths) == 0 {
		r.Unk("C08-d", construct, v.Name, v.Where(loop.Pos()), "the body of the growth loop could not be enumerated")
		return
	}
	leaves := func(p bpath) bool {
		for _, e := range p {
			if e.Kind == "branch" && strings.HasPrefix(e.Text, "break") || e.Kind == "return" {
				return true
			}
		}
		return false
	}
	// the roles, from what the continuing iterations do: the attempt (second result of the rule evaluation), the
	// depth counter (incremented), the best result so far (a resultTuple stored from the attempt)
	okText, depthVar, lastVar, errsVar := "", "", "", ""
	for _, p := range paths {
		for _, e := range p {
			if e.Kind == "call" && strings.HasPrefix(e.Text, rv+".parseRule(") {
				okText = "res1(" + e.Text + ")"
			}
		}
		if leaves(p) {
			continue
		}
		for _, e := range p {
			if e.Kind != "set" {
				continue
			}
			switch {
			case dollarRe.MatchString(e.Text) && (strings.HasSuffix(e.Text, "++") || strings.HasSuffix(e.Text, "+=1")):
				depthVar = dollarRe.FindString(e.Text)
			case strings.Contains(e.Text, "=resultTuple{"):
				lastVar = e.Text[:strings.Index(e.Text, "=")]
			case strings.HasSuffix(e.Text, "=*"+rv+".errs"):
				errsVar = e.Text[:strings.Index(e.Text, "=")]
			}
		}
	}
	// the depth may be counted by the loop statement itself: `for depth := 0; ; depth++`
	if depthVar == "" {
		if id, ok := loop.Post.(*ast.IncDecStmt); ok && id.Tok == token.INC {
			if nm, ok := id.X.(*ast.Ident); ok {
				// the counter of a `for i := 0; …; i++` loop is the position #1 of the normal form
				depthVar = "#1"
				if as, ok := loop.Init.(*ast.AssignStmt); !ok || len(as.Lhs) != 1 || nospace(as.Lhs[0]) != nm.Name || nospace(as.Rhs[0]) != "0" {
					depthVar = nm.Name
					if loopNames[nm.Name] != "" {
						depthVar = loopNames[nm.Name]
					}
				}
			}
		}
	}
	var bad []string
	if okText == "" || depthVar == "" || lastVar == "" {
		bad = append(bad, fmt.Sprintf("roles not recognised on the continuing iterations (attempt=%q depth=%q best-result=%q): a continuing iteration must store the attempt as the new best result and count the depth", okText, depthVar, lastVar))
	} else {
		// the three questions an iteration asks, in any spelling
		const aOK, aFirst, aGrow = "OKATTEMPT", "FIRSTROUND", "GREWBEYOND"
		growPos := regexp.MustCompile(`^(.+)\.offset>` + regexp.QuoteMeta(lastVar) + `\.end\.offset$|^` + regexp.QuoteMeta(lastVar) + `\.end\.offset<(.+)\.offset$`)
		growNeg := regexp.MustCompile(`^(.+)\.offset<=` + regexp.QuoteMeta(lastVar) + `\.end\.offset$|^` + regexp.QuoteMeta(lastVar) + `\.end\.offset>=(.+)\.offset$`)
		atomOf := func(t string) (string, bool) {
			switch {
			case t == okText:
				return aOK, true
			case t == "!"+okText:
				return "!" + aOK, true
			case t == depthVar+"==0", t == depthVar+"<=0", t == depthVar+"<1":
				return aFirst, true
			case t == depthVar+"!=0", t == depthVar+">0", t == depthVar+">=1":
				return "!" + aFirst, true
			case growPos.MatchString(t):
				return aGrow, true
			case growNeg.MatchString(t):
				return "!" + aGrow, true
			}
			return "", false
		}
		var rewrite func(f string) (string, bool)
		rewrite = func(f string) (string, bool) {
			if ds := splitTop(f, "||"); len(ds) > 1 {
				var out []string
				for _, d := range ds {
					t, ok := rewrite(d)
					if !ok {
						return "", false
					}
					out = append(out, "("+t+")")
				}
				return strings.Join(out, "||"), true
			}
			if cs := splitTop(f, "&&"); len(cs) > 1 {
				var out []string
				for _, d := range cs {
					t, ok := rewrite(d)
					if !ok {
						return "", false
					}
					out = append(out, "("+t+")")
				}
				return strings.Join(out, "&&"), true
			}
			if strings.HasPrefix(f, "(") && strings.HasSuffix(f, ")") && wholeParen(f) {
				return rewrite(f[1 : len(f)-1])
			}
			return atomOf(f)
		}
		atoms := []string{aOK, aFirst, aGrow}
		type row struct{ cont, leave bool }
		table := map[string]*row{}
		for mask := 0; mask < 8; mask++ {
			sigma := map[string]bool{aOK: mask&1 != 0, aFirst: mask&2 != 0, aGrow: mask&4 != 0}
			rw := &row{}
			table[sigmaKey(atoms, sigma)] = rw
			for _, p := range paths {
				consistent := true
				for _, f := range p.facts() {
					t, ok := rewrite(f)
					if !ok {
						if f != rv+".debug" && f != "!"+rv+".debug" {
							bad = append(bad, "whether the loop continues depends on `"+abbreviate(f)+"`")
						}
						continue
					}
					if val, ok := evalBool(t, atoms, sigma); ok && !val {
						consistent = false
					}
				}
				if consistent {
					if leaves(p) {
						rw.leave = true
					} else {
						rw.cont = true
					}
				}
			}
			want := sigma[aOK] && (sigma[aFirst] || sigma[aGrow])
			switch {
			case rw.cont && !want:
				bad = append(bad, "the loop continues for "+describeSigma([]string{"attempt succeeded", "first round", "ended beyond the previous end"}, map[string]bool{"attempt succeeded": sigma[aOK], "first round": sigma[aFirst], "ended beyond the previous end": sigma[aGrow]})+": it must stop unless the attempt succeeded and (after the first round) ended strictly beyond the previous end")
			case !rw.cont && want:
				bad = append(bad, "the loop stops for "+describeSigma([]string{"attempt succeeded", "first round", "ended beyond the previous end"}, map[string]bool{"attempt succeeded": sigma[aOK], "first round": sigma[aFirst], "ended beyond the previous end": sigma[aGrow]})+": a longer match is not taken")
			case rw.cont && rw.leave:
				bad = append(bad, "continuing and leaving are both possible for the same answers")
			}
		}
		// what the two kinds of iteration store
		for _, p := range paths {
			sets := p.texts("set")
			calls := p.texts("call")
			if leaves(p) {
				for _, st := range sets {
					if strings.HasPrefix(st, lastVar+"=") || (errsVar != "" && strings.HasPrefix(st, errsVar+"=")) {
						bad = append(bad, "an iteration that leaves the loop updates the best result ("+abbreviate(st)+")")
					}
				}
				continue
			}
			okStore, okErrs, okRestore := false, errsVar == "", false
			for _, st := range sets {
				if strings.HasPrefix(st, lastVar+"=resultTuple{") {
					els := splitTop(strings.TrimSuffix(strings.TrimPrefix(st, lastVar+"=resultTuple{"), "}"), ",")
					for i, el := range els {
						if k := indexTop(el, ":"); k > 0 {
							els[i] = el[k+1:]
						}
					}
					okStore = len(els) == 3 && strings.HasPrefix(els[0], "res0("+rv+".parseRule(") && els[1] == okText
				}
				if errsVar != "" && st == errsVar+"=*"+rv+".errs" {
					okErrs = true
				}
			}
			for _, cl := range calls {
				if strings.HasPrefix(cl, rv+".restore(") {
					okRestore = true
				}
			}
			if !okStore {
				bad = append(bad, "a continuing iteration does not store (value, ok, end) of the attempt as the new best result")
			}
			if !okErrs || errsVar == "" {
				bad = append(bad, "a continuing iteration does not take a snapshot of the error list")
			}
			if !okRestore {
				bad = append(bad, "a continuing iteration does not reset the position to the start mark before the next attempt")
			}
		}
	}
	bad = uniq(bad)
	sort.Strings(bad)
	if len(bad) > 0 {
		r.Bad("C08-d", construct, v.Name, v.Where(loop.Pos()), strings.Join(bad, "; "))
	} else {
		r.Ok("C08-d", construct, v.Name, v.Where(loop.Pos()), fmt.Sprintf("%d iteration paths: continues exactly on success with (first round or strictly larger end offset); only then are result and error snapshot updated (offsets are bounded by len(data))", len(paths)))
	}
}

// wholeParen: the text is one parenthesised expression.
func wholeParen(s string) bool {
	depth := 0
	for i := 0; i < len(s); i++ {
		switch s[i] {
		case '(':
			depth++
		case ')':
			depth--
			if depth == 0 && i != len(s)-1 {
				return false
			}
		}
	}
	return depth == 0
}

// c08Leaders (C08-e).
func c08Leaders(c *Ctx) {
	r := c.R
	g := c.G()
	if g == nil {
		return
	}
	cl := load.FuncDecl(g.Pkg("builder"), "", "ComputeLeftRecursives")
	if cl == nil || cl.Body == nil {
		r.Fatal("anchor builder.ComputeLeftRecursives not found")
		return
	}
	lr := c.leftRecMarks()
	bad := append(append([]string{}, lr["leader"]...), lr["clears"]...)
	if len(lr["members"]) > 0 {
		bad = append(bad, lr["members"]...)
	}
	r.Check(len(bad) == 0, "C08-e", "G.builder.ComputeLeftRecursives:every-group-gets-a-leader", "", g.Where(cl.Pos()), "Leader set next to LeftRecursive in both branches; the leader of a component is findLeader(graph, component)", strings.Join(uniq(bad), "; "))
}

// firstGraphReadOnly (C08-f / C07-g).
func firstGraphReadOnly(c *Ctx, rule string) {
	r := c.R
	g := c.G()
	if g == nil {
		return
	}
	bp := g.Pkg("builder")
	cl := load.FuncDecl(bp, "", "ComputeLeftRecursives")
	if cl == nil || cl.Body == nil {
		r.Fatal("anchor builder.ComputeLeftRecursives not found")
		return
	}
	n, bad := sharedGraphReadOnly(g, bp, cl)
	if n < 3 {
		r.Unk(rule, "G.builder.ComputeLeftRecursives:first-graph-read-only", "", g.Where(cl.Pos()), fmt.Sprintf("only %d aliases of the graph followed (the graph was followed into findLeader, FindCyclesInSCC and reduceGraph when the rule was written)", n))
		return
	}
	r.Check(len(bad) == 0, rule, "G.builder.ComputeLeftRecursives:first-graph-read-only", "", g.Where(cl.Pos()), fmt.Sprintf("%d aliases of the graph followed through the consumers, none is stored into", n), strings.Join(bad, "; "))
}

// c08StaticLeader (C08-h): findLeader picks, among the rules that lie on every cycle, the one with the smallest name.
// Which rule has to grow the seed depends on where the component is entered, which differs between uses.
func c08StaticLeader(c *Ctx) {
	r := c.R
	g := c.G()
	if g == nil {
		return
	}
	bp := g.Pkg("builder")
	fd := load.FuncDecl(bp, "", "findLeader")
	if fd == nil || fd.Body == nil {
		r.Fatal("anchor builder.findLeader not found")
		return
	}
	byName := ""
	scope := map[*ast.FuncDecl]bool{}
	for _, h := range withHelpers(bp, fd, "FindCyclesInSCC", "StronglyConnectedComponents", "reduceGraph") {
		scope[h] = true
	}
	for _, s := range mapRanges(g, []string{"builder"}, nil) {
		if !scope[s.Outer] {
			continue
		}
		if class, _ := classifyRange(s.Pkg, s); class == "minimum-by-key" {
			byName = g.Where(s.Pos)
		}
	}
	if byName == "" {
		// sorted candidates, first one taken
		ast.Inspect(fd.Body, func(n ast.Node) bool {
			if rs, ok := n.(*ast.ReturnStmt); ok && len(rs.Results) >= 1 {
				if ix, ok := rs.Results[0].(*ast.IndexExpr); ok && nospace(ix.Index) == "0" {
					byName = g.Where(rs.Pos())
				}
			}
			return true
		})
	}
	if byName == "" {
		// an extremum of the candidate names
		for h := range scope {
			for _, ce := range callsIn(h.Body) {
				switch callName(ce) {
				case "slices.Min", "slices.Max", "slices.MinFunc", "slices.MaxFunc", "min", "max":
					if strings.Contains(nospace(ce), "maps.Keys(") || callName(ce) == "slices.Min" || callName(ce) == "slices.Max" {
						byName = g.Where(ce.Pos())
					}
				}
			}
		}
	}
	// The known finding F19 is recorded for the choice the pinned tree makes: the smallest name in plain string order.
	// Another order among the candidates (a comparator, a case-folded or length-first sort, the largest name) moves the
	// defect to other grammars - those that enter a component through the rule that used to be chosen - and is a
	// violation of its own, reported under its own construct.
	if byName != "" {
		if order := leaderOrder(bp, fd, scope); order != "" {
			r.Bad("C08-h", "G.builder.findLeader:leader-among-several-candidates:order="+order, "", g.Where(fd.Pos()),
				"the leader is chosen among the candidates by "+order+", not by the plain string order of the names: grammars whose left-recursive component is entered through the rule with the smallest name - which grows its seed correctly today - get another leader and lose every match beyond the first step of the recursion")
		}
	}
	r.Check(byName == "", "C08-h", "G.builder.findLeader:leader-among-several-candidates", "", g.Where(fd.Pos()), "no choice among several candidates by name",
		"the leader of a component is the candidate with the smallest name ("+byName+"), whichever rule the grammar enters the component through: `S <- B !.; B <- A 'x' / 'y'; A <- B / 'z'` enters through B, A is made the leader, and `yx` - which B <- B 'x' / 'z' 'x' / 'y' matches - is rejected")
}

// memoOffInLeftRecursiveRules (C08-b / C06-k): at the memo lookup and at the memo store of parseExprWrap the
// conditions in force include "the rule being evaluated is not left recursive" - the leftRecursive flag of the rule on
// top of the rule stack (every member of a recursive group, not only its leader: the body of a non-leader member is
// re-entered at the same offset on every growth step of the leader and must be evaluated against the current seed).
func memoOffInLeftRecursiveRules(c *Ctx, v *variants.Variant, rule string) {
	r := c.R
	vn := v.Name
	fd := v.Func("parser", "parseExprWrap")
	// at the lookup and at the store the conditions in force include "the rule being evaluated is not left
	// recursive" (the flag of the rule on top of the rule stack, read directly or through a local defined once)
	defs := map[string]string{}
	cnt := map[string]int{}
	ast.Inspect(fd.Body, func(nd ast.Node) bool {
		if as, ok := nd.(*ast.AssignStmt); ok && len(as.Lhs) == len(as.Rhs) {
			for k, l := range as.Lhs {
				if id, ok := l.(*ast.Ident); ok {
					cnt[id.Name]++
					defs[id.Name] = nospace(as.Rhs[k])
				}
			}
		}
		return true
	})
	lrFlag := "p.rstack[len(p.rstack)-1].leftRecursive"
	var gs []string
	nOK := 0
	for _, ce := range callsIn(fd.Body) {
		if s := callSel(ce); s == "getMemoized" || s == "setMemoized" {
			has := false
			var conj []string
			for _, f := range factsAt(fd.Body, ce.Pos()) {
				// a guard held in a local defined once (`memoizing := p.memoize && !…leftRecursive`) is its definition
				if cnt[f] == 1 && defs[f] != "" {
					f = minParens(defs[f])
				}
				conj = append(conj, splitTop(f, "&&")...)
			}
			for _, cj := range conj {
				x := strings.TrimPrefix(cj, "!")
				if cnt[x] == 1 {
					x = defs[x]
				}
				// locals defined once inside that definition (a hoisted `top := len(p.rstack) - 1`)
				for round := 0; round < 3; round++ {
					for name, n := range cnt {
						if n == 1 && name != "" {
							x = regexp.MustCompile(`\b`+regexp.QuoteMeta(name)+`\b`).ReplaceAllString(x, defs[name])
						}
					}
				}
				if strings.HasPrefix(cj, "!") && x == lrFlag {
					has = true
				}
			}
			if has {
				nOK++
			}
			gs = append(gs, strings.Join(conj, "&&"))
		}
	}
	ok := len(gs) == 2 && nOK == 2
	def := lrFlag
	r.Check(ok, rule, "T.parseExprWrap:memo-off-in-LR-rules", vn, v.Where(fd.Pos()), "both guards p.memoize && !isLeftRecursion", fmt.Sprintf("isLeftRecursion := %s; guards %v", def, gs))
}

// leaderOrder describes the order in which findLeader (or a helper in scope) ranks the candidate names when it is not
// the plain string order: "" for `k < leader` in a minimum loop, sort.Strings / slices.Sort / slices.Sorted /
// slices.Min over the names; otherwise the comparator or the sorting helper.
func leaderOrder(bp *packages.Package, fd *ast.FuncDecl, scope map[*ast.FuncDecl]bool) string {
	order := ""
	var visit func(h *ast.FuncDecl, depth int)
	visit = func(h *ast.FuncDecl, depth int) {
		if h == nil || h.Body == nil || depth > 2 {
			return
		}
		for _, ce := range callsIn(h.Body) {
			switch cn := callName(ce); cn {
			case "sort.Slice", "sort.SliceStable", "slices.SortFunc", "slices.SortStableFunc", "slices.MinFunc", "slices.MaxFunc", "sort.Sort", "sort.Stable", "slices.SortedFunc", "slices.SortedStableFunc":
				order = "the comparator of " + cn + " in " + h.Name.Name
			case "slices.Max", "max":
				if h == fd {
					order = "the largest name (" + cn + ")"
				}
			}
		}
		// the helper that produces the ranked list whose first element is taken: `return sortedNames(leaders)[0]`, or
		// through a local
		if h == fd {
			ast.Inspect(h.Body, func(n ast.Node) bool {
				ix, ok := n.(*ast.IndexExpr)
				if !ok || nospace(ix.Index) != "0" {
					return true
				}
				x := stripParens(ix.X)
				if id, ok := x.(*ast.Ident); ok {
					if d := singleDefinition(h.Body, id.Name); d != nil {
						x = stripParens(d)
					}
				}
				if ce, ok := x.(*ast.CallExpr); ok {
					if id, ok := ce.Fun.(*ast.Ident); ok {
						if hd := load.FuncDecl(bp, "", id.Name); hd != nil && hd != fd {
							visit(hd, depth+1)
						}
					}
				}
				return true
			})
		}
		// a minimum loop with another comparison than `k < best`
		ast.Inspect(h.Body, func(n ast.Node) bool {
			be, ok := n.(*ast.BinaryExpr)
			if !ok || h != fd {
				return true
			}
			if be.Op == token.GTR || be.Op == token.GEQ {
				if _, isIdent := be.X.(*ast.Ident); isIdent {
					if _, isIdent2 := be.Y.(*ast.Ident); isIdent2 && isStringExpr(bp, be.X) && isStringExpr(bp, be.Y) {
						order = "the comparison " + nospace(be)
					}
				}
			}
			return true
		})
	}
	visit(fd, 0)
	return order
}

func isStringExpr(p *packages.Package, e ast.Expr) bool {
	t := p.TypesInfo.TypeOf(e)
	if t == nil {
		return false
	}
	b, ok := t.Underlying().(*types.Basic)
	return ok && b.Info()&types.IsString != 0
}
