package rules

import (
	"fmt"
	"go/ast"
	"pigeonverif/internal/load"
	"sort"
	"strings"

	"pigeonverif/internal/absint"
)

// leaderFinalAttempt checks that parseRuleRecursiveLeader returns in the parser state recorded with the result it returns.
func leaderFinalAttempt(c *Ctx, a *absVariant, rule string) {
	r := c.R
	res := a.Res["parseRuleRecursiveLeader"]
	if res == nil {
		return
	}
	var bad []string
	n := 0
	for _, e := range res.Exits {
		if isMemoExit(e) {
			continue
		}
		n++
		var lr *absint.Val
		for o, v := range e.State.Env {
			if o.Name() == "lastResult" && v.K == "tuple" {
				vv := v
				lr = &vv
			}
		}
		if lr == nil {
			bad = append(bad, a.where(e, res.Fn)+": no tracked lastResult tuple at return")
			continue
		}
		s := e.State
		if s.Pt != lr.F["end"].A || s.Er != lr.F["$er"].A || (a.V.Params.HasState() && s.St != lr.F["$st"].A) {
			bad = append(bad, fmt.Sprintf("%s: returns with pt=%s st=%s errs=%s but the returned result was recorded at pt=%s st=%s errs=%s: something of the final, non-extending attempt is retained [%s]", a.where(e, res.Fn), s.Pt, s.St, s.Er, lr.F["end"].A, lr.F["$st"].A, lr.F["$er"].A, evString(e)))
		}
		if e.Value().String() != lr.F["v"].String() || e.Ok().String() != lr.F["b"].String() {
			bad = append(bad, a.where(e, res.Fn)+": returned value/flag are not those of lastResult")
		}
		// the final memo entry is lastResult under the start mark
		sets := eventsOf(e, "setMemo")
		if len(sets) == 0 {
			bad = append(bad, a.where(e, res.Fn)+": result not memoised at return")
		} else {
			last := sets[len(sets)-1]
			if last.Vals[0].A != absint.Entry {
				bad = append(bad, a.V.Where(last.Pos)+": final memo entry is not keyed by the start position")
			}
		}
	}
	sort.Strings(bad)
	w := a.V.Where(res.Fn.Pos())
	if len(bad) > 0 {
		r.Bad(rule, "T.parseRuleRecursiveLeader:final-attempt-discarded", a.V.Name, w, bad[0])
	} else {
		r.Ok(rule, "T.parseRuleRecursiveLeader:final-attempt-discarded", a.V.Name, w, fmt.Sprintf("%d exits: position, store and error list equal those recorded with the returned result", n))
	}
}

// C08 — left-recursive rules parse as the left-associative iteration they denote.
func C08(c *Ctx) {
	r := c.R
	r.Technique = "typestate abstract interpretation of the seed-growing loop (position, state store, error list at return = those recorded with the returned result) and of the rule dispatch in the 8 LeftRecursion variants; guard agreement in parseExprWrap"
	r.Explanation = "Termination and longest match over all operand shapes are behavioural and not decided. Decided: (a) nothing of the final, non-extending growth attempt is retained: on every return of the leader routine the position, the state store and the error list are exactly those recorded when the returned result was accepted, the result is memoised under the start position, and a memo hit restores the stored end; (b) expression memoisation is disabled inside left-recursive rules consistently (same guard at lookup and store, derived from the rule on top of the rule stack); (c) dispatch: leader rules go to the leader routine, other left-recursive rules are evaluated plainly (never through the rule memo), in every LeftRecursion variant; (d) the growth loop continues only when the attempt succeeded and (after the seed) ended strictly beyond the previous end. Equivalence with -optimize-parser is C10."
	r.Assumptions = []string{"induction hypothesis on parseRule"}
	r.Rule("C08-a", "every non-memo return of parseRuleRecursiveLeader has pt = lastResult.end, state store and *p.errs as when lastResult was recorded; returns lastResult.v, lastResult.b; the memo table is total (setMemoized stores on every path, getMemoized returns what was stored), so each growth step replaces the seed; last setMemoized is keyed by the start mark")
	r.Rule("C08-b", "parseExprWrap (LeftRecursion, not Optimize): isLeftRecursion := p.rstack[top].leftRecursive and both memo guards are `p.memoize && !isLeftRecursion`")
	r.Rule("C08-c", "parseRuleWrap: leader routine iff rule.leader (within left-recursive or memoised dispatch); parseRuleMemoize only when !rule.leftRecursive; each path evaluates the rule exactly once; parseRuleRecursiveNoLeader is parseRule")
	r.Rule("C08-d", "the growth loop breaks unless ok && (depth == 0 || endMark.offset > lastResult.end.offset); lastResult/lastErrors are updated and the position reset to the start mark only on the continuing path")

	r.Rule("C08-e", "every left-recursive group gets a leader: ComputeLeftRecursives sets Leader on the rule findLeader returns for an SCC with more than one rule and on the rule itself for a self-loop - in the same branches that set LeftRecursive - otherwise the runtime evaluates the cycle plainly and recurses without end")
	c08Leaders(c)
	abs := c.allAbs()
	n := 0
	for _, a := range abs {
		v := a.V
		vn := v.Name
		if !v.Params.LeftRecursion {
			var found []string
			for _, sym := range []string{"parseRuleRecursiveLeader", "leftRecursive", "ruleWithExpsStack"} {
				if strings.Contains(v.Text, sym) {
					found = append(found, sym)
				}
			}
			r.Check(len(found) == 0, "C08-c", "T:no-left-recursion-code", vn, "builder/static_code.go", "absent", "present without LeftRecursion: "+strings.Join(found, ","))
			continue
		}
		n++
		c.undecidedExits("C08-a", a, "parseRuleRecursiveLeader")
		leaderFinalAttempt(c, a, "C08-a")
		memoTableTotal(c, v, "C08-a")
		// ---- b
		if !v.Params.Optimize {
			fd := v.Func("parser", "parseExprWrap")
			// at the lookup and at the store the conditions in force include "the rule being evaluated is not left
			// recursive" (the flag of the rule on top of the rule stack, read directly or through a local defined once)
			defs := map[string]string{}
			cnt := map[string]int{}
			ast.Inspect(fd.Body, func(nd ast.Node) bool {
				if as, ok := nd.(*ast.AssignStmt); ok && len(as.Lhs) == len(as.Rhs) {
					for k, l := range as.Lhs {
						if id, ok := l.(*ast.Ident); ok {
							cnt[id.Name]++
							defs[id.Name] = nospace(as.Rhs[k])
						}
					}
				}
				return true
			})
			lrFlag := "p.rstack[len(p.rstack)-1].leftRecursive"
			var gs []string
			nOK := 0
			for _, ce := range callsIn(fd.Body) {
				if s := callSel(ce); s == "getMemoized" || s == "setMemoized" {
					has := false
					var conj []string
					for _, f := range factsAt(fd.Body, ce.Pos()) {
						conj = append(conj, splitTop(f, "&&")...)
					}
					for _, cj := range conj {
						x := strings.TrimPrefix(cj, "!")
						if cnt[x] == 1 {
							x = defs[x]
						}
						if strings.HasPrefix(cj, "!") && x == lrFlag {
							has = true
						}
					}
					if has {
						nOK++
					}
					gs = append(gs, strings.Join(conj, "&&"))
				}
			}
			ok := len(gs) == 2 && nOK == 2
			def := lrFlag
			r.Check(ok, "C08-b", "T.parseExprWrap:memo-off-in-LR-rules", vn, v.Where(fd.Pos()), "both guards p.memoize && !isLeftRecursion", fmt.Sprintf("isLeftRecursion := %s; guards %v", def, gs))
		}
		// ---- c
		if res := a.Res["parseRuleWrap"]; res != nil {
			var bad []string
			for _, e := range res.Exits {
				evs := eventsOf(e, "eval")
				if len(evs) != 1 {
					bad = append(bad, fmt.Sprintf("%s: the rule is evaluated %d times on one path", a.where(e, res.Fn), len(evs)))
					continue
				}
				callee := evs[0].Args[0]
				f := evs[0].Facts
				leader, lk := f["rule.leader"]
				switch callee {
				case "parseRuleRecursiveLeader":
					if !lk || !leader {
						bad = append(bad, a.V.Where(evs[0].Pos)+": leader routine reached without rule.leader being established")
					}
				case "parseRuleMemoize":
					if v, ok := f["p.memoize && !rule.leftRecursive"]; !ok || !v {
						bad = append(bad, a.V.Where(evs[0].Pos)+": rule memo used without establishing !rule.leftRecursive")
					}
					fallthrough
				default:
					if lk && leader {
						bad = append(bad, a.V.Where(evs[0].Pos)+": a leader rule is dispatched to "+callee)
					}
				}
				if lr, ok := f["rule.leftRecursive"]; ok && lr && callee == "parseRuleMemoize" {
					bad = append(bad, a.V.Where(evs[0].Pos)+": left-recursive rule sent through the rule memo")
				}
			}
			sort.Strings(bad)
			w := v.Where(res.Fn.Pos())
			if len(bad) > 0 {
				r.Bad("C08-c", "T.parseRuleWrap:dispatch", vn, w, bad[0])
			} else {
				r.Ok("C08-c", "T.parseRuleWrap:dispatch", vn, w, fmt.Sprintf("%d exits", len(res.Exits)))
			}
		}
		if res := a.Res["parseRuleRecursiveNoLeader"]; res != nil {
			ok := true
			for _, e := range res.Exits {
				evs := eventsOf(e, "eval")
				if len(evs) != 1 || evs[0].Args[0] != "parseRule" || len(e.State.Ev) != 1 {
					ok = false
				}
			}
			r.Check(ok, "C08-c", "T.parseRuleRecursiveNoLeader:plain", vn, v.Where(res.Fn.Pos()), "evaluates parseRule and nothing else", "does more than evaluating parseRule")
		}
		// ---- d
		c08d(c, a)
	}
	r.Min("LeftRecursion variants", 8, n)
	// the flags the runtime dispatches on are the ones the analysis computed, for every rule
	builderPairingN(c, "C08-c", "writeRule")
}

func c08d(c *Ctx, a *absVariant) {
	r := c.R
	v := a.V
	fd := v.Func("parser", "parseRuleRecursiveLeader")
	if fd == nil {
		r.Fatal("variant %s: leader missing", v.Name)
		return
	}
	var loop *ast.ForStmt
	ast.Inspect(fd.Body, func(n ast.Node) bool {
		if f, ok := n.(*ast.ForStmt); ok && loop == nil {
			loop = f
		}
		return true
	})
	if loop == nil || loop.Cond != nil {
		r.Unk("C08-d", "T.parseRuleRecursiveLeader:strict-growth", v.Name, v.Where(fd.Pos()), "growth loop not found in the expected `for { … break … }` form")
		return
	}
	var brk *ast.IfStmt
	for _, st := range loop.Body.List {
		if is, ok := st.(*ast.IfStmt); ok {
			hasBreak := false
			ast.Inspect(is.Body, func(n ast.Node) bool {
				if b, ok := n.(*ast.BranchStmt); ok && b.Tok.String() == "break" {
					hasBreak = true
				}
				return true
			})
			if hasBreak {
				brk = is
			}
		}
	}
	var bad []string
	if brk == nil {
		bad = append(bad, "no breaking if in the loop")
	} else {
		cond := nospace(brk.Cond)
		okCond := cond == "(!ok)||(endMark.offset<=lastResult.end.offset&&depth!=0)" || cond == "!ok||(endMark.offset<=lastResult.end.offset&&depth!=0)" || cond == "!ok||endMark.offset<=lastResult.end.offset&&depth!=0"
		if !okCond {
			bad = append(bad, "break condition is `"+cond+"`: the loop must stop unless the attempt succeeded and ended strictly beyond the previous end")
		}
		// updates only after the break test
		for _, st := range loop.Body.List {
			if as, ok := st.(*ast.AssignStmt); ok {
				l := nospace(as.Lhs[0])
				if (l == "lastResult" || l == "lastErrors") && st.Pos() < brk.Pos() {
					bad = append(bad, l+" updated before the break test")
				}
			}
		}
		// endMark := p.pt directly after the evaluation; depth++ on continue
		txt := ""
		for _, st := range loop.Body.List {
			switch x := st.(type) {
			case *ast.AssignStmt:
				txt += nospace(x.Lhs[0]) + "=" + nospace(x.Rhs[0]) + ";"
			case *ast.IncDecStmt:
				txt += nospace(x.X) + x.Tok.String() + ";"
			case *ast.ExprStmt:
				txt += nospace(x.X) + ";"
			}
		}
		for _, need := range []string{"endMark=p.pt;", "lastResult=resultTuple{", "lastErrors=*p.errs;", "p.restore(startMark);", "depth++;"} {
			if !strings.Contains(txt, need) {
				bad = append(bad, "missing `"+strings.TrimSuffix(need, ";")+"…` in the loop body")
			}
		}
	}
	sort.Strings(bad)
	if len(bad) > 0 {
		r.Bad("C08-d", "T.parseRuleRecursiveLeader:strict-growth", v.Name, v.Where(loop.Pos()), strings.Join(bad, "; "))
	} else {
		r.Ok("C08-d", "T.parseRuleRecursiveLeader:strict-growth", v.Name, v.Where(loop.Pos()), "continues only on success with strictly larger end offset (offsets are bounded by len(data))")
	}
}

// c08Leaders (C08-e).
func c08Leaders(c *Ctx) {
	r := c.R
	g := c.G()
	if g == nil {
		return
	}
	cl := load.FuncDecl(g.Pkg("builder"), "", "ComputeLeftRecursives")
	if cl == nil || cl.Body == nil {
		r.Fatal("anchor builder.ComputeLeftRecursives not found")
		return
	}
	lr := c.leftRecMarks()
	bad := append(append([]string{}, lr["leader"]...), lr["clears"]...)
	if len(lr["members"]) > 0 {
		bad = append(bad, lr["members"]...)
	}
	r.Check(len(bad) == 0, "C08-e", "G.builder.ComputeLeftRecursives:every-group-gets-a-leader", "", g.Where(cl.Pos()), "Leader set next to LeftRecursive in both branches; the leader of a component is findLeader(graph, component)", strings.Join(uniq(bad), "; "))
}
