package rules

// C07-x — a throw stands for its handlers. `%{label}` hands control, at the position where it stands, to the recovery
// expression of the innermost `//{label}` in force at run time; what that expression begins with is evaluated at the
// position of the throw. The first-graph therefore needs, from a throw, an edge to what its possible handlers begin
// with; a throw that contributes no initial names lets a rule reach itself at one position through throw and recovery
// without being seen: `S <- X 'z' //{e} R; X <- T; T <- 'a' / %{e}; R <- T 'b'` is accepted without
// -support-left-recursion and the parser overflows its stack on `x` (finding F32).

import (
	"go/ast"
	"strings"

	"pigeonverif/internal/load"
)

func c07ThrowStandsForHandlers(c *Ctx, rule string) {
	r := c.R
	r.Rule(rule, "a throw stands for its handlers in the first-graph: ThrowExpr.InitialNames yields the initial names of the recovery expressions that can handle its label (the analysis has the grammar's handlers at hand), not the empty set - the handler runs at the position of the throw, so a rule that a handler begins with is re-entered there")
	g := c.G()
	if g == nil {
		return
	}
	ap := g.Pkg("ast")
	fd := load.FuncDecl(ap, "ThrowExpr", "InitialNames")
	if fd == nil || fd.Body == nil {
		r.Fatal("anchor ast.ThrowExpr.InitialNames not found")
		return
	}
	// every return is a fresh empty map: nothing is contributed
	empty, n := true, 0
	ast.Inspect(fd.Body, func(nd ast.Node) bool {
		if rs, ok := nd.(*ast.ReturnStmt); ok && len(rs.Results) == 1 {
			n++
			v := nospace(rs.Results[0])
			if !(strings.HasPrefix(v, "make(map[") || strings.HasSuffix(v, "{}") || v == "nil") {
				empty = false
			}
		}
		return true
	})
	if n == 0 {
		r.Unk(rule, "G.ast.ThrowExpr.InitialNames:stands-for-its-handlers", "", g.Where(fd.Pos()), "no return statement found")
		return
	}
	r.Check(!empty, rule, "G.ast.ThrowExpr.InitialNames:stands-for-its-handlers", "", g.Where(fd.Pos()), "a throw contributes names to the first-graph",
		"ThrowExpr.InitialNames returns the empty set on every path: the recovery expression that handles the label runs at the position of the throw, so a handler that begins with the rule that threw (directly or through other rules) re-enters it at the same position, and the grammar is accepted without -support-left-recursion")
}
