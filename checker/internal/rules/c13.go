package rules

import (
	"fmt"
	"go/ast"
	"go/constant"
	"go/token"
	"go/types"
	"os/exec"
	"sort"
	"strings"

	"golang.org/x/tools/go/packages"

	"pigeonverif/internal/load"
)

// crashSite is one construct of the generator that can raise a Go panic.
type crashSite struct {
	Key    string // "<pkg>.<func>:<kind>:<detail>"
	Pos    token.Pos
	Kind   string
	What   string
	Func   string
	Pkg    string
	Suffix string // package selector for load.G.Pkg
	Node   ast.Node
	Fd     *ast.FuncDecl
}

// nonExprPanics: the NullableVisit/IsNullable/InitialNames methods of the non-expression node types.
var nonExprTypes = map[string]bool{"Grammar": true, "CodeBlock": true, "Identifier": true, "StringLit": true}

// C13 — the tool is total: no crash or hang on any grammar text and flag set.
func C13(c *Ctx) {
	r := c.R
	r.Technique = "enumeration of crash constructs (panic calls, Must helpers, unchecked type assertions, dereferenced pointer-valued map lookups) in the generator packages, each discharged by a frozen reason with a machine-checked side condition or reported; exit-code discipline on the syntax tree of main; recover wiring"
	r.Explanation = "Termination is not decided (the nullable pass and the cycle enumeration are exponential; no static bound). Decided: (a) every construct in main, ast and builder that can raise a Go panic — explicit panic, template.Must / regexp.MustCompile, a non-comma-ok type assertion outside the recovered front-end parse, a field access on the result of a pointer-valued map lookup without presence test — is either in the table of impossible sites (each entry re-validated: template instantiates for all 32 vectors, Walk handles every kind, the first-graph only gives out-edges to defined rules, the analysis methods of non-expression nodes are not reachable through Expression-typed fields filled by the grammar actions) or is a violation; (b) every error branch of main ends in exit(k) with a non-zero constant, the only exit(0) is the help branch, and no path from a failed ParseReader/BuildParser/Process/Write reaches the normal end of main; (c) main passes Recover(!no-recover) so panics in grammar actions become parse errors by default. Not decided: hangs; out-of-range slicing on inputs the grammar is believed to exclude. Cross-reference (thorough tier only, never deciding): nilaway and staticcheck on the generator packages."
	r.Assumptions = []string{"os.Exit does not return", "with -no-recover the user asks for propagated panics"}
	r.Rule("C13-a", "every crash construct in the generator packages is listed as impossible with a validated side condition, or is reported")
	r.Rule("C13-b", "main: each call whose error is assigned (flag parsing, ParseReader, BuildParser, imports.Process, Write, Close, Open) is followed by `if err != nil { …; exit(k) }` with constant k != 0; exit(0) occurs only under the help flags; argError/input/output exit non-zero")
	r.Rule("C13-d", "every condition-less `for { … }` loop in the generator that consumes input through a reader (ReadRune / ReadByte / Read…) tests the reader's error result and leaves the loop on it: otherwise the loop spins forever once the input is exhausted")
	r.Rule("C13-e", "pair invariant of CharClassMatcher.Ranges (low/high pairs): every store to a Ranges field keeps the length even — nil, a copy or concatenation of pair slices, a two-element append, or a local slice built only by two-element appends; the only single-element appends are the start/end pair of the range state machine in CharClassMatcher.parse. The stride-2 loops that read Ranges[i+1] (optimizer, builder, runtime) rely on it")
	r.Rule("C13-f", "every non-constant index into a fixed-size array in the generator is provably in range: the index is a variable bounded by an enclosing `< len` condition (if or loop), or unicode.ToUpper/ToLower of such a variable when the bound is 128 (case mapping of an ASCII rune stays ASCII; unicode.SimpleFold does not)")
	r.Rule("C13-g", "counter loops of the generator are well-formed: a loop whose condition is `i < len(X)` (or `i < K`, `j < K && …`) starts from a value not above the bound's domain and steps upwards (i++, i += k); a loop with condition `i >= 0` steps downwards; so each terminates and indexes X[i] (and X[i+1] for stride 2 over a pair list) in range")
	r.Rule("C13-h", "inlining by -optimize-grammar terminates: a rule reference is replaced by a clone of the rule only if the rule is defined and has no entry in ruleUsesRules, and that map records every reference of every rule (self references included) unconditionally - so the clone contains no reference and cannot be inlined again")
	r.Rule("C13-i", "no store into a possibly nil map: every `m[k] = v` in the generator whose m is a local map variable has only definitions that yield a non-nil map (make, a map literal, or a call to a function of the package all of whose returns are such values); parameters, fields and map elements are the owner's responsibility and are covered by the rules of their owner")
	r.Rule("C13-j", "every index with a constant or len(x)-1 subscript into a string or slice in the generator (x[0], x[len(x)-1]) is dominated by a length test of the same x: a conjunct to its left in the same condition, an enclosing if, or an early exit `if len(x) == 0 { return }` after the last assignment to x (empty code blocks `{}` and empty classes `[]` are valid grammar text)")
	r.Rule("C13-k", "a loop that runs while a local list or string is not empty (len(x) > 0, x != \"\") makes x shorter on every path round the loop: x = x[c:], x = x[:len(x)-c], the tail of strings.Cut, in the body or the post statement; a list re-read from elsewhere is no progress argument (the tool terminates on every argument list and grammar text)")
	r.Rule("C13-l", "the nullable pass remembers completed visits: an entry test of Rule.NullableVisit reads a field that stays set after the visit (a mark that is cleared on the way out only cuts cycles; a rule reached over k paths is then analysed k times, 2^n for a chain of n doubling rules)")
	r.Rule("C13-m", "a recursive search over the first-graph marks the vertices it has finished in a set shared by all branches; a closure that recurses into every successor and is cut only by the path it carries enumerates every simple path (more than n! for n rules that all start with each other)")
	r.Rule("C13-n", "every index or slice bound of the form v-k in the generator (k a positive literal, v not a length) is dominated by a fact v >= k: a conjunct to its left, an enclosing if / else / case / loop condition, an early exit `if v < k { … }`, or v is the counter of an enclosing loop that starts at c >= k and only grows - with no assignment to v in between; a value clamped from above only, or a column reported by the parser runtime (0 for a line break), proves nothing")
	r.Rule("C13-c", "main passes Recover(!*noRecoverFlag) to ParseReader")

	g := c.G()
	if g == nil {
		return
	}
	sites := enumerateCrashSites(c, g)
	r.Analysed["crash_sites"] = len(sites)
	side := c13SideConditions(c, g)
	classes := map[string]int{}
	for _, s := range sites {
		construct := "G." + s.Key
		if s.Kind == "nonexpr" {
			if side["nonexpr"] == "" {
				r.Ok("C13-a", construct, "", g.Where(s.Pos), "analysis method of a non-expression node: no grammar action stores such a node where an Expression is expected")
			} else {
				r.Bad("C13-a", construct, "", g.Where(s.Pos), side["nonexpr"])
			}
			continue
		}
		if s.Kind == "mapderef" {
			if why := keyFromOwnKeySet(g, s); why != "" {
				r.Ok("C13-a", construct, "", g.Where(s.Pos), "impossible: "+why)
				continue
			}
		}
		class, reason, sideName := semanticCrashReason(c, g, s)
		if class == "" {
			r.Bad("C13-a", construct, "", g.Where(s.Pos), s.What+": reachable from main with no reason why it cannot fire")
			continue
		}
		classes[class]++
		if strings.HasPrefix(sideName, "!") {
			r.Bad("C13-a", construct, "", g.Where(s.Pos), s.What+": "+sideName[1:])
			continue
		}
		if sideName != "" && side[sideName] != "" {
			r.Bad("C13-a", construct, "", g.Where(s.Pos), "listed as impossible ("+reason+") but its side condition fails: "+side[sideName])
			continue
		}
		r.Ok("C13-a", construct, "", g.Where(s.Pos), "impossible: "+reason)
	}
	// a crash site that no recogniser accepts is reported above; a recogniser whose sites were removed from the code
	// (a dead error check deleted) has nothing left to justify, which is not a loss
	r.Analysed["crash_site_classes"] = classes
	r.MinRule("C13-a", 10)
	c13ReaderLoops(c, g)
	c13RangePairs(c, g)
	c13ArrayBounds(c, g)
	c13CounterLoops(c, g)
	optimizerInlining(c, g, "C13-h")
	c13IO(c, g)
	c13DrainLoops(c, g)
	c13Hangs(c, g)
	c13NilMaps(c, g)
	c13ConstIndex(c, g)
	c13SubtractedSubscripts(c, g)
	c13DelimiterSlices(c, g)
	c13Reevaluation(c, g)
	c13FailedAssertions(c, g)
	// the class name that reaches rangeTable (which panics on a name it does not know, in the builder under
	// -optimize-basic-latin and in the package initialisation of the generated parser) is the name the front-end
	// validated on the source text: the class-text parser collects it in a buffer that holds nothing else
	r.Rule("C13-p", "the Unicode class name CharClassMatcher.parse stores is the name the front-end validated: the scratch buffer it is collected in is empty when collection starts (C04-d under this property; builder.rangeTable panics on an unknown name, outside the recover of the front-end)")
	if cp := c.classParse(); cp != nil && cp.readLoop != nil {
		nobj, sbad := scratchBuffersClean(cp.iter)
		r.Check(len(sbad) == 0, "C13-p", "G.ast.CharClassMatcher.parse:class-name-read-into-clean-buffer", "", g.Where(cp.readLoop.Pos()), fmt.Sprintf("%d scratch buffers over %d iteration paths", nobj, len(cp.iter)), strings.Join(uniq(sbad), "; ")+": BasicLatinLookup hands the name to rangeTable, which panics with a Go trace on `invalid Unicode class`")
	}
	c13Exit(c, g)
	if c.Thorough() {
		c13CrossRef(c, g)
	}
}

func enumerateCrashSites(c *Ctx, g *load.G) []crashSite {
	var out []crashSite
	for _, suffix := range []string{"", "ast", "builder"} {
		p := g.Pkg(suffix)
		pkgName := p.Types.Name()
		for _, f := range p.Syntax {
			fname := g.Fset.Position(f.Pos()).Filename
			if strings.HasSuffix(fname, "/pigeon.go") {
				continue // generated front-end: its runtime is the template (C20-b), its actions run under recover (C13-c)
			}
			for _, d := range f.Decls {
				fd, ok := d.(*ast.FuncDecl)
				if !ok || fd.Body == nil {
					continue
				}
				fn := fd.Name.Name
				recv := load.RecvName(fd)
				qual := pkgName + "." + fn
				if recv != "" && nonExprTypes[recv] && (fn == "NullableVisit" || fn == "IsNullable" || fn == "InitialNames") {
					out = append(out, crashSite{Key: pkgName + "." + recv + "." + fn + ":panic", Pos: fd.Pos(), Kind: "nonexpr", What: "panic in analysis method of non-expression node", Func: fn, Pkg: pkgName})
					continue
				}
				np, nm := 0, map[string]int{}
				// locals that hold the single-value result of a pointer-valued map lookup: `v := m[k]` - nil when the key
				// is absent, exactly like m[k] itself
				lookups := map[types.Object]*ast.IndexExpr{}
				ast.Inspect(fd.Body, func(n ast.Node) bool {
					as, ok := n.(*ast.AssignStmt)
					if !ok || len(as.Lhs) != 1 || len(as.Rhs) != 1 {
						return true
					}
					ix, ok := stripParens(as.Rhs[0]).(*ast.IndexExpr)
					id, ok2 := as.Lhs[0].(*ast.Ident)
					if !ok || !ok2 {
						return true
					}
					if t := p.TypesInfo.TypeOf(ix.X); t != nil {
						if mt, ok := t.Underlying().(*types.Map); ok {
							if _, isPtr := mt.Elem().Underlying().(*types.Pointer); isPtr {
								if obj := p.TypesInfo.ObjectOf(id); obj != nil {
									lookups[obj] = ix
								}
							}
						}
					}
					return true
				})
				ast.Inspect(fd.Body, func(n ast.Node) bool {
					switch x := n.(type) {
					case *ast.CallExpr:
						cn := callName(x)
						switch {
						case cn == "panic":
							np++
							out = append(out, crashSite{Key: fmt.Sprintf("%s:panic#%d", qual, np), Pos: x.Pos(), Kind: "panic", What: "explicit panic", Func: fn, Pkg: pkgName, Suffix: suffix, Node: x, Fd: fd})
						case cn == "template.Must" || cn == "regexp.MustCompile":
							nm[cn]++
							k := fmt.Sprintf("%s:must:%s", qual, cn)
							if cn == "regexp.MustCompile" {
								k += fmt.Sprintf("#%d", nm[cn])
							}
							out = append(out, crashSite{Key: k, Pos: x.Pos(), Kind: "must", What: cn + " panics on error", Func: fn, Pkg: pkgName, Suffix: suffix, Node: x, Fd: fd})
						}
					case *ast.TypeAssertExpr:
						if x.Type == nil {
							return true
						}
						// comma-ok form?
						if !commaOK(fd, x) {
							out = append(out, crashSite{Key: qual + ":assert:" + nospace(x), Pos: x.Pos(), Kind: "assert", What: "unchecked type assertion " + nospace(x), Func: fn, Pkg: pkgName, Suffix: suffix, Node: x, Fd: fd})
						}
					case *ast.SelectorExpr:
						// v.f with v := M[k] and no nil test of v in between
						if id, ok := x.X.(*ast.Ident); ok {
							if lix := lookups[p.TypesInfo.ObjectOf(id)]; lix != nil && lix.Pos() < x.Pos() {
								tested := false
								ast.Inspect(fd.Body, func(m ast.Node) bool {
									if be, ok := m.(*ast.BinaryExpr); ok && (be.Op == token.EQL || be.Op == token.NEQ) && be.Pos() > lix.Pos() && be.Pos() < x.Pos() {
										if (nospace(be.X) == id.Name && nospace(be.Y) == "nil") || (nospace(be.Y) == id.Name && nospace(be.X) == "nil") {
											tested = true
										}
									}
									return true
								})
								if !tested {
									k := qual + ":mapderef:" + nospace(lix) + " held in " + id.Name
									out = append(out, crashSite{Key: k, Pos: x.Pos(), Kind: "mapderef", What: "field access on " + id.Name + ", the result of map lookup " + nospace(lix) + " (nil when the key is absent), with no nil test in between", Func: fn, Pkg: pkgName, Suffix: suffix, Node: x, Fd: fd})
								}
							}
							return true
						}
						// M[k].f with pointer-valued map
						ix, ok := x.X.(*ast.IndexExpr)
						if !ok {
							return true
						}
						mt, ok := p.TypesInfo.TypeOf(ix.X).Underlying().(*types.Map)
						if !ok {
							return true
						}
						if _, isPtr := mt.Elem().Underlying().(*types.Pointer); !isPtr {
							return true
						}
						nm["md:"+nospace(ix)]++
						k := qual + ":mapderef:" + nospace(ix)
						out = append(out, crashSite{Key: k, Pos: x.Pos(), Kind: "mapderef", What: "field access on the result of map lookup " + nospace(ix) + " (nil when the key is absent)", Func: fn, Pkg: pkgName, Suffix: suffix, Node: x, Fd: fd})
					}
					return true
				})
			}
		}
	}
	// disambiguate repeated mapderef keys by ordinal
	count := map[string]int{}
	total := map[string]int{}
	for _, s := range out {
		total[s.Key]++
	}
	for i := range out {
		if total[out[i].Key] > 1 {
			count[out[i].Key]++
			out[i].Key = fmt.Sprintf("%s#%d", out[i].Key, count[out[i].Key])
		}
	}
	return out
}

// keyFromOwnKeySet recognises M[k].f where k is the value variable of a range over a slice that the same
// function filled exclusively with the keys of M (for key := range M { S = append(S, key) }) and M is not
// written in that function: the lookup cannot miss.
func keyFromOwnKeySet(g *load.G, s crashSite) string {
	var fd *ast.FuncDecl
	for _, sfx := range []string{"", "ast", "builder"} {
		for _, f := range load.AllFuncDecls(g.Pkg(sfx)) {
			if f.Body != nil && f.Pos() <= s.Pos && s.Pos < f.End() {
				fd = f
			}
		}
	}
	if fd == nil {
		return ""
	}
	var ix *ast.IndexExpr
	ast.Inspect(fd.Body, func(n ast.Node) bool {
		if sel, ok := n.(*ast.SelectorExpr); ok && sel.Pos() == s.Pos {
			ix, _ = sel.X.(*ast.IndexExpr)
			// the lookup held in a local defined once: `rule := rules[name]; rule.f`
			if id, isId := sel.X.(*ast.Ident); isId && ix == nil {
				if d := singleDefinition(fd.Body, id.Name); d != nil {
					ix, _ = stripParens(d).(*ast.IndexExpr)
				}
			}
		}
		return true
	})
	if ix == nil {
		return ""
	}
	m, k := nospace(ix.X), nospace(ix.Index)
	// k is the value variable of `for _, k := range S`
	slice := ""
	ast.Inspect(fd.Body, func(n ast.Node) bool {
		if rs, ok := n.(*ast.RangeStmt); ok && rs.Value != nil && nospace(rs.Value) == k && rs.Pos() <= s.Pos && s.Pos < rs.End() {
			slice = nospace(rs.X)
		}
		return true
	})
	if slice == "" {
		return ""
	}
	if libKeysOf(slice, m) && !mapWrittenIn(fd, m) {
		return "the key ranges over the keys of " + m + " as collected by the library (" + slice + "), and " + m + " is not modified in this function"
	}
	if okKeys := sliceHoldsOnlyKeysOf(fd, slice, m); okKeys {
		return "the key ranges over a slice filled only with the keys of " + m + " in this function, and " + m + " is not modified there"
	}
	// the slice comes from a helper of the package called with the map: F(m) returns a slice filled only with the keys
	// of its parameter (sorting it does not change its elements), and m is not modified in this function
	var rngX ast.Expr
	ast.Inspect(fd.Body, func(n ast.Node) bool {
		if rs, ok := n.(*ast.RangeStmt); ok && rs.Value != nil && nospace(rs.Value) == k && rs.Pos() <= s.Pos && s.Pos < rs.End() {
			rngX = rs.X
		}
		return true
	})
	if ce, ok := rngX.(*ast.CallExpr); ok && len(ce.Args) == 1 && nospace(ce.Args[0]) == m {
		written := false
		ast.Inspect(fd.Body, func(n ast.Node) bool {
			switch x := n.(type) {
			case *ast.AssignStmt:
				for _, l := range x.Lhs {
					if strings.HasPrefix(nospace(l), m+"[") {
						written = true
					}
				}
			case *ast.CallExpr:
				if callName(x) == "delete" && len(x.Args) == 2 && nospace(x.Args[0]) == m {
					written = true
				}
			}
			return true
		})
		for _, sfx := range []string{"", "ast", "builder"} {
			for _, callee := range load.AllFuncDecls(g.Pkg(sfx)) {
				if callee.Body == nil || callee.Recv != nil || callee.Name.Name != callSel(ce) || callee.Type.Params == nil || len(callee.Type.Params.List) != 1 || len(callee.Type.Params.List[0].Names) != 1 {
					continue
				}
				pm := callee.Type.Params.List[0].Names[0].Name
				rets := returnsOf(callee)
				// the helper only names the library's key collection of its parameter
				if len(rets) == 1 && len(rets[0].Results) == 1 && libKeysOf(nospace(rets[0].Results[0]), pm) && !written {
					return "the key ranges over " + nospace(rngX) + ", and " + callee.Name.Name + " returns the keys of its argument as collected by the library; " + m + " is not modified in this function"
				}
				okRet := len(rets) > 0
				retVar := ""
				for _, rs := range rets {
					if len(rs.Results) != 1 {
						okRet = false
						continue
					}
					if id, ok := rs.Results[0].(*ast.Ident); ok && (retVar == "" || retVar == id.Name) {
						retVar = id.Name
					} else {
						okRet = false
					}
				}
				if okRet && !written && sliceHoldsOnlyKeysOf(callee, retVar, pm) {
					return "the key ranges over " + nospace(rngX) + ", and " + callee.Name.Name + " returns a slice filled only with the keys of its argument; " + m + " is not modified in this function"
				}
			}
		}
	}
	return ""
}

// sliceHoldsOnlyKeysOf: inside fd every store to the slice variable `slice` is `slice = append(slice, key)` within
// `for key := range m` (or its make / declaration), and m is not modified in fd.
// libKeysOf: the expression is the key set of map m collected by the standard library (sorted or not).
func libKeysOf(e, m string) bool {
	switch e {
	case "slices.Sorted(maps.Keys(" + m + "))", "slices.Collect(maps.Keys(" + m + "))":
		return true
	}
	return false
}

// mapWrittenIn: the function stores into or deletes from the map.
func mapWrittenIn(fd *ast.FuncDecl, m string) bool {
	written := false
	ast.Inspect(fd.Body, func(n ast.Node) bool {
		switch x := n.(type) {
		case *ast.AssignStmt:
			for _, l := range x.Lhs {
				if strings.HasPrefix(nospace(l), m+"[") && !strings.Contains(strings.TrimPrefix(nospace(l), m+"["), "].") {
					written = true
				}
			}
		case *ast.CallExpr:
			if (callName(x) == "delete" || callName(x) == "clear" || callName(x) == "maps.DeleteFunc" || callName(x) == "maps.Copy") && len(x.Args) >= 1 && nospace(x.Args[0]) == m {
				written = true
			}
		}
		return true
	})
	return written
}

func sliceHoldsOnlyKeysOf(fd *ast.FuncDecl, slice, m string) bool {
	// every store to S is `S = append(S, key)` inside `for key := range M`, or its make/declaration
	okFill, other := false, false
	ast.Inspect(fd.Body, func(n ast.Node) bool {
		switch x := n.(type) {
		case *ast.AssignStmt:
			for i, l := range x.Lhs {
				if nospace(l) != slice {
					if strings.HasPrefix(nospace(l), m+"[") {
						other = true // the map is written
					}
					continue
				}
				rhs := nospace(x.Rhs[i])
				if strings.HasPrefix(rhs, "make(") {
					continue
				}
				if libKeysOf(rhs, m) {
					okFill = true
					continue
				}
				filled := false
				ast.Inspect(fd.Body, func(mn ast.Node) bool {
					if rs, ok := mn.(*ast.RangeStmt); ok && nospace(rs.X) == m && rs.Key != nil && rs.Pos() <= x.Pos() && x.Pos() < rs.End() {
						if rhs == "append("+slice+","+nospace(rs.Key)+")" {
							filled = true
						}
					}
					return true
				})
				if filled {
					okFill = true
				} else {
					other = true
				}
			}
		case *ast.CallExpr:
			if callName(x) == "delete" && len(x.Args) == 2 && nospace(x.Args[0]) == m {
				other = true
			}
		}
		return true
	})
	return okFill && !other
}

// commaOK reports whether the type assertion is used in `v, ok := x.(T)` / `v, ok = x.(T)` form.
func commaOK(fd *ast.FuncDecl, ta *ast.TypeAssertExpr) bool {
	found := false
	ast.Inspect(fd.Body, func(n ast.Node) bool {
		switch x := n.(type) {
		case *ast.AssignStmt:
			if len(x.Lhs) == 2 && len(x.Rhs) == 1 && x.Rhs[0] == ast.Expr(ta) {
				found = true
			}
		case *ast.ValueSpec:
			if len(x.Names) == 2 && len(x.Values) == 1 && x.Values[0] == ast.Expr(ta) {
				found = true
			}
		}
		return true
	})
	return found
}

// c13SideConditions evaluates the machine-checked side conditions; "" = holds, otherwise the failure text.
func c13SideConditions(c *Ctx, g *load.G) map[string]string {
	out := map[string]string{}
	// variants: all 32 instantiate, parse and type-check; regexps compile
	src := c.Src()
	if src == nil {
		out["variants"] = "template source unreadable"
	} else {
		for _, p := range variantsAll() {
			if _, _, err := src.Instantiate(p); err != nil {
				out["variants"] = err.Error()
				break
			}
		}
	}
	// walk-exhaustive: Walk has a case for every expression kind plus Grammar and Rule
	fd := load.FuncDecl(g.Pkg("ast"), "", "Walk")
	if fd == nil {
		out["walk-exhaustive"] = "ast.Walk not found"
	} else {
		si := typeSwitchOn(fd, "expr")
		kinds, _ := c.exprKinds()
		var missing []string
		for _, k := range kinds {
			if si.Cases[k.Name] == nil {
				missing = append(missing, k.Name)
			}
		}
		for _, k := range []string{"Grammar", "Rule"} {
			if si.Cases[k] == nil {
				missing = append(missing, k)
			}
		}
		if len(missing) > 0 {
			out["walk-exhaustive"] = "no case for " + strings.Join(missing, ",")
		}
	}
	// firstgraph: MakeFirstGraph gives out-edges (graph[x] = names) only to keys of rules and empty sets to the rest
	mg := load.FuncDecl(g.Pkg("builder"), "", "MakeFirstGraph")
	if mg == nil {
		out["firstgraph"] = "MakeFirstGraph not found"
	} else {
		if ew, sw := c.firstGraphShape(); ew != "" || sw != "" {
			out["firstgraph"] = "MakeFirstGraph no longer has the shape 'edges for rules, empty sets for other vertices': " + strings.TrimPrefix(ew+"; "+sw, "; ")
		}
		// the guards around the dereferences of looked-up rules: decided on the paths of ComputeLeftRecursives
		if _, why := c.sccDerefs(); why != "" {
			out["firstgraph"] = why
		}
	}
	// unicode-classes
	if missing, err := unicodeMissing(g); err != "" {
		out["unicode-classes"] = err
	} else if len(missing) > 0 {
		out["unicode-classes"] = "accepted class names without table: " + strings.Join(missing, ",")
	}
	// repanic: the panic in main is inside `if r := recover(); r != nil`
	if mf := load.FuncDecl(g.Pkg(""), "", "main"); mf != nil {
		for _, ce := range callsIn(mf.Body) {
			if callName(ce) == "panic" {
				gs := guardsOf(mf.Body, ce.Pos())
				okG := len(gs) > 0 && gs[len(gs)-1] == "r!=nil" && nospace(ce.Args[0]) == "r"
				if !okG {
					out["repanic"] = "panic in main under [" + strings.Join(gs, ";") + "]"
				}
			}
		}
	}
	// actions-only: toAnySlice is called only from methods of *current
	if tas := load.FuncDecl(g.Pkg(""), "", "toAnySlice"); tas != nil {
		if _, outside := actionCallers(g.Pkg(""), tas, map[*ast.FuncDecl]bool{}); outside != "" {
			out["actions-only"] = "toAnySlice called from " + outside
		}
	}
	// grammar-action: the action of the first rule of pigeon.go returns a *ast.Grammar
	root := g.Pkg("")
	first := firstRuleName(root)
	if first == "" {
		out["grammar-action"] = "cannot find the first rule of the front-end grammar literal"
	} else {
		fd := load.FuncDecl(root, "current", "on"+first+"1")
		if fd == nil {
			out["grammar-action"] = "action on" + first + "1 not found"
		} else {
			for _, rs := range returnsOf(fd) {
				if len(rs.Results) != 2 {
					continue
				}
				if nospace(rs.Results[1]) != "nil" {
					continue // error return: ParseReader reports an error then
				}
				if t := root.TypesInfo.TypeOf(rs.Results[0]); t == nil || t.String() != "*github.com/mna/pigeon/ast.Grammar" {
					out["grammar-action"] = fmt.Sprintf("on%s1 returns %v on success", first, t)
				}
			}
		}
	}
	// nonexpr: no on<Rule> action returns a non-expression node into an Expression slot: every conversion
	// e.(ast.Expression) in pigeon.go is applied to a label parameter, and no action of the expression-level rules returns
	// *Grammar/*Rule/*CodeBlock/*Identifier/*StringLit
	exprRules := expressionRules(root)
	if len(exprRules) < 8 {
		out["nonexpr"] = fmt.Sprintf("expression rule chain not recognised in pigeon.go (%d rules)", len(exprRules))
	} else {
		for _, f := range root.Syntax {
			for _, d := range f.Decls {
				fd, ok := d.(*ast.FuncDecl)
				if !ok || load.RecvName(fd) != "current" || !strings.HasPrefix(fd.Name.Name, "on") {
					continue
				}
				rn := strings.TrimRight(strings.TrimPrefix(fd.Name.Name, "on"), "0123456789")
				if !exprRules[rn] {
					continue
				}
				for _, rs := range returnsOf(fd) {
					if len(rs.Results) != 2 {
						continue
					}
					t := root.TypesInfo.TypeOf(rs.Results[0])
					if t == nil {
						continue
					}
					if nonExprTypes[namedOf(t)] || namedOf(t) == "Rule" {
						out["nonexpr"] = fmt.Sprintf("%s returns %s, which would be stored where an Expression is expected and panic in the left-recursion analysis", fd.Name.Name, t)
					}
				}
			}
		}
	}
	return out
}

// firstRuleName returns the name of rules[0] in `var g = &grammar{...}` of the root package.
func firstRuleName(root *packages.Package) string {
	names := ruleNamesOfLiteral(root)
	if len(names) == 0 {
		return ""
	}
	return names[0]
}

func ruleNamesOfLiteral(root *packages.Package) []string {
	var names []string
	for _, f := range root.Syntax {
		for _, d := range f.Decls {
			gd, ok := d.(*ast.GenDecl)
			if !ok {
				continue
			}
			for _, s := range gd.Specs {
				vs, ok := s.(*ast.ValueSpec)
				if !ok || len(vs.Names) != 1 || vs.Names[0].Name != "g" || len(vs.Values) != 1 {
					continue
				}
				ast.Inspect(vs.Values[0], func(n ast.Node) bool {
					kv, ok := n.(*ast.KeyValueExpr)
					if !ok || nospace(kv.Key) != "rules" {
						return true
					}
					cl, ok := kv.Value.(*ast.CompositeLit)
					if !ok {
						return false
					}
					for _, e := range cl.Elts {
						if rcl, ok := e.(*ast.CompositeLit); ok {
							for _, re := range rcl.Elts {
								if rkv, ok := re.(*ast.KeyValueExpr); ok && nospace(rkv.Key) == "name" {
									if tv, ok := root.TypesInfo.Types[rkv.Value]; ok && tv.Value != nil {
										names = append(names, constant.StringVal(tv.Value))
									}
								}
							}
						}
					}
					return false
				})
			}
		}
	}
	return names
}

// expressionRules returns the rules of the front-end grammar whose results flow into Expression-typed fields:
// the closure of rule references starting at rule "Expression", stopping at lexical rules.
func expressionRules(root *packages.Package) map[string]bool {
	refs := ruleRefsOfLiteral(root)
	out := map[string]bool{}
	stop := map[string]bool{"CodeBlock": true, "IdentifierName": true, "Identifier": true, "StringLiteral": true, "__": true, "_": true, "EOS": true, "EOF": true, "RuleDefOp": true, "Labels": true}
	var visit func(n string)
	visit = func(n string) {
		if out[n] || stop[n] {
			return
		}
		if _, ok := refs[n]; !ok {
			return
		}
		out[n] = true
		for _, m := range refs[n] {
			visit(m)
		}
	}
	visit("Expression")
	return out
}

// ruleRefsOfLiteral: rule name -> referenced rule names (from the g literal).
func ruleRefsOfLiteral(root *packages.Package) map[string][]string {
	out := map[string][]string{}
	for _, f := range root.Syntax {
		ast.Inspect(f, func(n ast.Node) bool {
			cl, ok := n.(*ast.CompositeLit)
			if !ok {
				return true
			}
			name := ""
			var expr ast.Expr
			isRule := false
			for _, e := range cl.Elts {
				if kv, ok := e.(*ast.KeyValueExpr); ok {
					switch nospace(kv.Key) {
					case "name":
						if tv, ok := root.TypesInfo.Types[kv.Value]; ok && tv.Value != nil {
							name = constant.StringVal(tv.Value)
						}
					case "expr":
						expr = kv.Value
					case "pos":
						isRule = true
					}
				}
			}
			if t := root.TypesInfo.TypeOf(cl); t == nil || namedOf(t) != "rule" {
				return true
			}
			if name == "" || expr == nil || !isRule {
				return true
			}
			ast.Inspect(expr, func(m ast.Node) bool {
				c2, ok := m.(*ast.CompositeLit)
				if !ok {
					return true
				}
				if t := root.TypesInfo.TypeOf(c2); t != nil && namedOf(t) == "ruleRefExpr" {
					for _, e := range c2.Elts {
						if kv, ok := e.(*ast.KeyValueExpr); ok && nospace(kv.Key) == "name" {
							if tv, ok := root.TypesInfo.Types[kv.Value]; ok && tv.Value != nil {
								out[name] = append(out[name], constant.StringVal(tv.Value))
							}
						}
					}
				}
				return true
			})
			if _, ok := out[name]; !ok {
				out[name] = nil
			}
			return false
		})
	}
	return out
}

// errIdent: the identifier that receives the error (last target) of an assignment.
func errIdent(as *ast.AssignStmt) *ast.Ident {
	if len(as.Lhs) == 0 {
		return nil
	}
	id, _ := as.Lhs[len(as.Lhs)-1].(*ast.Ident)
	return id
}

// storesTo: node contains an assignment (not a new definition) to the variable obj.
func storesTo(info *types.Info, node ast.Node, obj types.Object) bool {
	found := false
	ast.Inspect(node, func(n ast.Node) bool {
		if as, ok := n.(*ast.AssignStmt); ok {
			for _, l := range as.Lhs {
				if id, ok := l.(*ast.Ident); ok && info.Uses[id] == obj {
					found = true
				}
			}
		}
		return !found
	})
	return found
}

func c13Exit(c *Ctx, g *load.G) {
	r := c.R
	root := g.Pkg("")
	mf := load.FuncDecl(root, "", "main")
	if mf == nil {
		r.Fatal("main.main not found")
		return
	}
	info := root.TypesInfo
	exitArg := func(ce *ast.CallExpr) (int64, bool) {
		if callName(ce) != "exit" || len(ce.Args) != 1 {
			return 0, false
		}
		if tv, ok := info.Types[ce.Args[0]]; ok && tv.Value != nil {
			if v, ok := constant.Int64Val(tv.Value); ok {
				return v, true
			}
		}
		return -1, true
	}
	usageExit := map[string]bool{}
	var exitParamOK func(ce *ast.CallExpr) bool
	endsInNonZeroExit := func(b *ast.BlockStmt) bool {
		if len(b.List) == 0 {
			return false
		}
		es, ok := b.List[len(b.List)-1].(*ast.ExprStmt)
		if !ok {
			return false
		}
		ce, ok := es.X.(*ast.CallExpr)
		if !ok {
			return false
		}
		if v, ok := exitArg(ce); ok && v > 0 {
			return true
		}
		if v, ok := exitArg(ce); ok && v < 0 && exitParamOK != nil && exitParamOK(ce) {
			return true
		}
		if usageExit[callName(ce)] && len(ce.Args) >= 1 {
			if tv, ok := info.Types[ce.Args[0]]; ok && tv.Value != nil {
				if v, ok := constant.Int64Val(tv.Value); ok && v > 0 {
					return true
				}
			}
		}
		return false
	}
	// every hand-written function of the command (not the generated front-end, not its grammar actions)
	var cmdFuncs []*ast.FuncDecl
	for i, f := range root.Syntax {
		if i < len(root.CompiledGoFiles) && (strings.HasSuffix(root.CompiledGoFiles[i], "/pigeon.go") || strings.HasSuffix(root.CompiledGoFiles[i], "_test.go")) {
			continue
		}
		for _, d := range f.Decls {
			if fd, ok := d.(*ast.FuncDecl); ok && fd.Body != nil && fd.Recv == nil {
				cmdFuncs = append(cmdFuncs, fd)
			}
		}
	}
	// ... that main reaches through hand-written code (helpers of the grammar actions return their errors to the parser)
	reach := map[*ast.FuncDecl]bool{}
	for _, h := range withHelpers(root, mf, "ParseReader", "Parse", "ParseFile") {
		reach[h] = true
	}
	var kept []*ast.FuncDecl
	for _, fd := range cmdFuncs {
		if reach[fd] {
			kept = append(kept, fd)
		}
	}
	cmdFuncs = kept
	sort.Slice(cmdFuncs, func(i, j int) bool { return cmdFuncs[i].Name.Name < cmdFuncs[j].Name.Name })
	// the wrapper that reports a usage error and exits with the status it is given
	for _, fd := range cmdFuncs {
		if ps := paramNames(fd); len(ps) >= 1 {
			for _, ce := range callsIn(fd.Body) {
				if callName(ce) == "exit" && len(ce.Args) == 1 && nospace(ce.Args[0]) == ps[0] && len(guardsOf(fd.Body, ce.Pos())) == 0 {
					usageExit[fd.Name.Name] = true
					exitingCalls[fd.Name.Name] = true
				}
			}
		}
	}
	// exit(<parameter>): the status is constant and non-zero at every call site of the enclosing function
	exitParamOK = func(ce *ast.CallExpr) bool {
		var encl *ast.FuncDecl
		for _, fd := range cmdFuncs {
			if fd.Pos() <= ce.Pos() && ce.End() <= fd.End() {
				encl = fd
			}
		}
		if encl == nil || len(ce.Args) != 1 {
			return false
		}
		k, isParam := paramIndexByName(encl, nospace(ce.Args[0]))
		if !isParam {
			return false
		}
		fl := newFlow(root, nil)
		sites := fl.callSites(encl)
		if len(sites) == 0 {
			return false
		}
		for _, cs := range sites {
			if k >= len(cs.Call.Args) {
				return false
			}
			tv, ok := info.Types[cs.Call.Args[k]]
			if !ok || tv.Value == nil {
				return false
			}
			if x, ok := constant.Int64Val(constant.ToInt(tv.Value)); !ok || x <= 0 {
				return false
			}
		}
		return true
	}
	for _, fd := range cmdFuncs {
		fn := fd.Name.Name
		n := 0
		var visit func(list []ast.Stmt)
		visit = func(list []ast.Stmt) {
			for i, st := range list {
				// nested blocks
				switch x := st.(type) {
				case *ast.IfStmt:
					if x.Init != nil {
						if as, ok := x.Init.(*ast.AssignStmt); ok && assignsErrFromCall(as) {
							n++
							ok2 := nospace(x.Cond) == "err!=nil" && endsInNonZeroExit(x.Body)
							r.Check(ok2, "C13-b", fmt.Sprintf("G.main.%s:error-branch#%d(%s)", fn, n, calleeOf(as)), "", g.Where(as.Pos()), "error ⇒ exit(non-zero)", "the error of "+calleeOf(as)+" does not lead to a non-zero exit")
						}
					}
					visit(x.Body.List)
					if eb, ok := x.Else.(*ast.BlockStmt); ok {
						visit(eb.List)
					}
				case *ast.BlockStmt:
					visit(x.List)
				case *ast.DeferStmt:
					if fl, ok := x.Call.Fun.(*ast.FuncLit); ok {
						visit(fl.Body.List)
					}
				case *ast.AssignStmt:
					if !assignsErrFromCall(x) {
						continue
					}
					n++
					ok := false
					// the statement right after the call must test the error; if that branch only reports, a later
					// `if err != nil { …; exit(k) }` must follow before err is assigned again
					if i+1 < len(list) {
						if is, ok2 := list[i+1].(*ast.IfStmt); ok2 && is.Init == nil && nospace(is.Cond) == "err!=nil" {
							if endsInNonZeroExit(is.Body) {
								ok = true
							} else {
								for _, later := range list[i+2:] {
									if as2, ok3 := later.(*ast.AssignStmt); ok3 && assignsErrFromCall(as2) {
										break
									}
									// the same variable is overwritten inside a later statement (an if-init `_, err = f()`): the
									// error of this call is gone by the time a later test reads it
									if errObj := info.ObjectOf(errIdent(x)); errObj != nil && storesTo(info, later, errObj) {
										break
									}
									if is2, ok3 := later.(*ast.IfStmt); ok3 && is2.Init == nil && nospace(is2.Cond) == "err!=nil" && endsInNonZeroExit(is2.Body) {
										ok = true
										break
									}
								}
							}
						}
					}
					r.Check(ok, "C13-b", fmt.Sprintf("G.main.%s:error-branch#%d(%s)", fn, n, calleeOf(x)), "", g.Where(x.Pos()), "error ⇒ exit(non-zero)", "the error of "+calleeOf(x)+" is not followed by `if err != nil { …; exit(k>0) }`")
				}
			}
		}
		visit(fd.Body.List)
	}
	// all exit() calls: constants; zero only under the help flags
	var bad []string
	nExit := 0
	for _, fd := range cmdFuncs {
		fn := fd.Name.Name
		for _, ce := range callsIn(fd.Body) {
			v, ok := exitArg(ce)
			if !ok {
				continue
			}
			nExit++
			if usageExit[fn] && len(paramNames(fd)) > 0 && nospace(ce.Args[0]) == paramNames(fd)[0] {
				continue // exit(exitCode): argument checked at the call sites
			}
			fmx := newFlagModel(root, nil)
			var flagGuards []string
			for _, f := range factsAtLeaf(fd.Body, ce.Pos(), fmx.leaf) {
				for _, nm := range fmx.names() {
					if strings.Contains(f, "-"+nm) {
						flagGuards = append(flagGuards, f)
						break
					}
				}
			}
			gs := strings.Join(flagGuards, ";")
			switch {
			case v < 0:
				okWrap := exitParamOK(ce)
				if !okWrap {
					bad = append(bad, g.Where(ce.Pos())+": exit with a non-constant status")
				}
			case v == 0 && gs != "-h||-help":
				bad = append(bad, g.Where(ce.Pos())+": exit(0) under ["+gs+"], expected only under the two help flags")
			}
		}
	}
	sort.Strings(bad)
	r.Check(len(bad) == 0 && nExit >= 3, "C13-b", "G.main:exit-statuses", "", "main.go", fmt.Sprintf("%d exit calls: constants, zero only for -h/-help", nExit), strings.Join(bad, "; "))
	r.MinRule("C13-b", 4)
	// flag defaults and the guards of the two optional phases
	var badFlags []string
	fmodel := newFlagModel(root, func(fn string) bool { return strings.HasSuffix(fn, "/pigeon.go") || strings.HasSuffix(fn, "_test.go") })
	for _, name := range fmodel.names() {
		switch fmodel.Kind[name] {
		case "Bool":
			if fmodel.Default[name] != "false" {
				badFlags = append(badFlags, "flag \""+name+"\" defaults to "+fmodel.Default[name])
			}
		case "String":
			want := map[string]string{"o": `""`, "receiver-name": `"c"`}[name]
			if want != "" && fmodel.Default[name] != want {
				badFlags = append(badFlags, "flag \""+name+"\" defaults to "+fmodel.Default[name])
			}
		}
	}
	if fmodel.Kind["x"] != "Bool" || fmodel.Kind["optimize-grammar"] != "Bool" {
		badFlags = append(badFlags, "the -x / -optimize-grammar flags are not defined as boolean flags")
	}
	wantBuild := "!-x"
	wantOpt := []string{"!-x", "-optimize-grammar"}
	sort.Strings(wantOpt)
	for _, phase := range []struct{ callee, want, what string }{
		{"builder.BuildParser", wantBuild, "the parser is built"},
		{"ast.Optimize", strings.Join(wantOpt, ";"), "the grammar optimizer runs"},
		{"imports.Process", wantBuild, "formatting runs"},
	} {
		reached := phaseFacts(root, fmodel, mf, phase.callee, 0)
		if len(reached) == 0 {
			badFlags = append(badFlags, phase.callee+" is not reached from main")
		}
		for _, got := range reached {
			if got != phase.want {
				badFlags = append(badFlags, phase.what+" under ["+got+"] instead of exactly ["+phase.want+"]")
			}
		}
	}
	sort.Strings(badFlags)
	r.Check(len(badFlags) == 0, "C13-b", "G.main:flag-defaults-and-phase-guards", "", "main.go", "every boolean flag defaults to false; build iff !-x; optimizer iff -optimize-grammar", strings.Join(badFlags, "; ")+": without being asked the tool would skip the build (exit 0 without a parser) or rewrite the grammar")
	// ---- c
	okRec := false
	fm := newFlagModel(root, func(fn string) bool { return strings.HasSuffix(fn, "/pigeon.go") || strings.HasSuffix(fn, "_test.go") })
	for _, cf := range cmdFuncs {
		for _, ce := range callsIn(cf.Body) {
			if callName(ce) != "ParseReader" {
				continue
			}
			for _, a := range ce.Args {
				rc, ok := a.(*ast.CallExpr)
				if !ok || callName(rc) != "Recover" || len(rc.Args) != 1 {
					continue
				}
				if ue, ok := stripParens(rc.Args[0]).(*ast.UnaryExpr); ok && ue.Op == token.NOT && fm.flagOf(ue.X) == "no-recover" {
					okRec = true
				}
			}
		}
	}
	r.Check(okRec, "C13-c", "G.main:front-end-panics-recovered", "", "main.go", "ParseReader(…, Recover(!*noRecoverFlag))", "the front-end parse is not run with Recover(!no-recover)")
}

func assignsErrFromCall(as *ast.AssignStmt) bool {
	if len(as.Rhs) != 1 {
		return false
	}
	if _, ok := as.Rhs[0].(*ast.CallExpr); !ok {
		return false
	}
	for _, l := range as.Lhs {
		if id, ok := l.(*ast.Ident); ok && id.Name == "err" {
			return true
		}
	}
	return false
}

func calleeOf(as *ast.AssignStmt) string {
	if ce, ok := as.Rhs[0].(*ast.CallExpr); ok {
		return nospace(ce.Fun)
	}
	return "?"
}

// c13CrossRef runs nilaway and staticcheck (pre-built static tools) on the generator packages and lists
// their findings next to the checker's own obligations. Their output never decides a verdict.
func c13CrossRef(c *Ctx, g *load.G) {
	r := c.R
	x := map[string]any{}
	for _, tool := range [][]string{{"nilaway", "./ast", "./builder", "."}, {"staticcheck", "./ast", "./builder", "."}} {
		cmd := exec.Command(tool[0], tool[1:]...)
		cmd.Dir = g.Repo
		out, _ := cmd.CombinedOutput()
		lines := strings.Split(strings.TrimSpace(string(out)), "\n")
		var keep []string
		for _, l := range lines {
			if strings.Contains(l, ".go:") && !strings.Contains(l, "pigeon.go:") {
				keep = append(keep, l)
			}
		}
		if len(keep) > 40 {
			keep = keep[:40]
		}
		x[tool[0]] = keep
	}
	r.Analysed["cross_reference_only"] = x
}

// c13ReaderLoops: unbounded loops that read from an io reader must stop at end of input.
func c13ReaderLoops(c *Ctx, g *load.G) {
	r := c.R
	n := 0
	for _, sfx := range []string{"", "ast", "builder"} {
		p := g.Pkg(sfx)
		for _, fd := range load.AllFuncDecls(p) {
			if fd.Body == nil || strings.HasSuffix(g.Fset.Position(fd.Pos()).Filename, "/pigeon.go") {
				continue
			}
			li := 0
			ast.Inspect(fd.Body, func(nd ast.Node) bool {
				loop, ok := nd.(*ast.ForStmt)
				if !ok || loop.Cond != nil {
					return true
				}
				// reader calls directly in this loop (not in nested loops)
				var reads []*ast.AssignStmt
				var walk func(list []ast.Stmt)
				walk = func(list []ast.Stmt) {
					for _, st := range list {
						switch x := st.(type) {
						case *ast.AssignStmt:
							if len(x.Rhs) == 1 {
								if ce, ok := x.Rhs[0].(*ast.CallExpr); ok && strings.HasPrefix(callSel(ce), "Read") {
									reads = append(reads, x)
								}
							}
						case *ast.IfStmt:
							walk(x.Body.List)
							if eb, ok := x.Else.(*ast.BlockStmt); ok {
								walk(eb.List)
							}
						case *ast.BlockStmt:
							walk(x.List)
						case *ast.SwitchStmt:
							for _, cl := range x.Body.List {
								walk(cl.(*ast.CaseClause).Body)
							}
						}
					}
				}
				walk(loop.Body.List)
				if len(reads) == 0 {
					return true
				}
				li++
				n++
				construct := fmt.Sprintf("G.%s.%s:reader-loop#%d", p.Types.Name(), fd.Name.Name, li)
				// the loop terminates at end of input iff some read executed on every iteration (a statement directly in
				// the loop body) has its error tested with an exit
				okLoop := false
				why := "no read at the top level of the loop body has its error result tested with an exit"
				top := map[ast.Stmt]bool{}
				for _, st := range loop.Body.List {
					top[st] = true
				}
				for _, rd := range reads {
					if !top[ast.Stmt(rd)] {
						continue
					}
					errVar := nospace(rd.Lhs[len(rd.Lhs)-1])
					if errVar == "_" {
						why = "the error result of " + nospace(rd.Rhs[0]) + " is discarded"
						continue
					}
					ast.Inspect(loop.Body, func(m ast.Node) bool {
						is, ok := m.(*ast.IfStmt)
						if !ok || !strings.Contains(nospace(is.Cond), errVar+"!=nil") {
							return true
						}
						ast.Inspect(is.Body, func(k ast.Node) bool {
							switch k.(type) {
							case *ast.BranchStmt, *ast.ReturnStmt:
								okLoop = true
							}
							return true
						})
						return true
					})
				}
				r.Check(okLoop, "C13-d", construct, "", g.Where(loop.Pos()), "the loop leaves on a reader error / end of input", why+": once the input is exhausted ReadRune keeps returning (0, io.EOF) and the loop never terminates (pigeon hangs on `A = [\\p{L]]`)")
				return true
			})
		}
	}
	r.Min("C13-d reader loops", 1, n)
}

// c13RangePairs: every writer of a CharClassMatcher.Ranges field preserves the pair structure.
func c13RangePairs(c *Ctx, g *load.G) {
	r := c.R
	n := 0
	// the function that holds the range state machine of the class parser (the loop that separates single members
	// from ranges): CharClassMatcher.parse or the helper it delegates that phase to
	var machineFd *ast.FuncDecl
	if cp := c.classParse(); cp != nil {
		machineFd = cp.extractFd
	}
	for _, sfx := range []string{"ast", "builder", ""} {
		p := g.Pkg(sfx)
		for _, fd := range load.AllFuncDecls(p) {
			if fd.Body == nil || strings.HasSuffix(g.Fset.Position(fd.Pos()).Filename, "/pigeon.go") {
				continue
			}
			fn := fd.Name.Name
			// local slices built only by two-element appends (or make) in this function
			pairLocal := func(name string) bool {
				ok, any := true, false
				ast.Inspect(fd.Body, func(nd ast.Node) bool {
					as, isAs := nd.(*ast.AssignStmt)
					if !isAs || len(as.Lhs) != 1 || nospace(as.Lhs[0]) != name {
						return true
					}
					any = true
					rhs := as.Rhs[0]
					if ce, isCall := rhs.(*ast.CallExpr); isCall {
						switch callName(ce) {
						case "make":
							if len(ce.Args) >= 2 && nospace(ce.Args[1]) == "0" {
								return true
							}
						case "append":
							if nospace(ce.Args[0]) == name && len(ce.Args) == 3 && !ce.Ellipsis.IsValid() {
								return true
							}
							// the range state machine of the class parser collecting into a local: start and end of a range
							// are appended one at a time (each start is followed by its end), as on the field itself
							if nospace(ce.Args[0]) == name && len(ce.Args) == 2 && !ce.Ellipsis.IsValid() && fd == machineFd {
								return true
							}
						}
					}
					ok = false
					return true
				})
				return ok && any
			}
			check := func(pos token.Pos, target string, rhs ast.Expr) {
				n++
				t := nospace(rhs)
				okStore := false
				why := ""
				switch x := rhs.(type) {
				case *ast.Ident:
					okStore = x.Name == "nil" || pairLocal(x.Name)
					why = "assigned from " + x.Name + ", which is not built by two-element appends only"
				case *ast.CallExpr:
					if callName(x) == "append" {
						base := nospace(x.Args[0])
						isSelfOrEmpty := base == target || base == "[]rune{}"
						switch {
						case isSelfOrEmpty && x.Ellipsis.IsValid() && len(x.Args) == 2 && strings.HasSuffix(nospace(x.Args[1]), ".Ranges"):
							okStore = true // concatenation / copy of a pair slice
						case isSelfOrEmpty && !x.Ellipsis.IsValid() && len(x.Args) == 3:
							okStore = true // one pair
						case isSelfOrEmpty && !x.Ellipsis.IsValid() && len(x.Args) == 2 && fd == machineFd:
							okStore = true // start / end of the range state machine (each start is followed by its end)
						default:
							why = "append form " + t + " does not add whole pairs"
						}
					} else {
						why = "result of " + callName(x) + "(…) is not known to keep low/high pairs together"
						// a helper of the package: the slice it returns is built by whole pairs
						var id *ast.Ident
						switch f := x.Fun.(type) {
						case *ast.Ident:
							id = f
						case *ast.SelectorExpr:
							id = f.Sel
						}
						for _, h := range load.AllFuncDecls(p) {
							if id != nil && h.Body != nil && p.TypesInfo.Uses[id] == p.TypesInfo.Defs[h.Name] {
								okStore, why = pairResult(h, 0, h == machineFd)
							}
						}
					}
				default:
					why = "value " + t
				}
				r.Check(okStore, "C13-e", fmt.Sprintf("G.%s.%s:Ranges-store(%s)", p.Types.Name(), fn, t), "", g.Where(pos), "keeps the low/high pair structure",
					why+": an odd-length Ranges makes the stride-2 loops read Ranges[i+1] out of range (Go panic trace) or pair the wrong end-points")
			}
			ast.Inspect(fd.Body, func(nd ast.Node) bool {
				switch x := nd.(type) {
				case *ast.AssignStmt:
					for i, l := range x.Lhs {
						sel, ok := l.(*ast.SelectorExpr)
						if !ok || sel.Sel.Name != "Ranges" || namedOf(p.TypesInfo.TypeOf(sel.X)) != "CharClassMatcher" {
							continue
						}
						if i < len(x.Rhs) && len(x.Rhs) == len(x.Lhs) {
							check(x.Pos(), nospace(l), x.Rhs[i])
							continue
						}
						// result i of a helper of the package: the value the helper returns there
						n++
						okStore, why := false, "the value comes from "+nospace(x.Rhs[0])+", which is not known to keep low/high pairs together"
						if ce, isCall := x.Rhs[0].(*ast.CallExpr); isCall && len(x.Rhs) == 1 {
							var id *ast.Ident
							switch f := ce.Fun.(type) {
							case *ast.Ident:
								id = f
							case *ast.SelectorExpr:
								id = f.Sel
							}
							var helper *ast.FuncDecl
							for _, h := range load.AllFuncDecls(p) {
								if id != nil && h.Body != nil && p.TypesInfo.Uses[id] == p.TypesInfo.Defs[h.Name] {
									helper = h
								}
							}
							if helper != nil {
								okStore, why = pairResult(helper, i, helper == machineFd)
							}
						}
						r.Check(okStore, "C13-e", fmt.Sprintf("G.%s.%s:Ranges-store(%s#%d)", p.Types.Name(), fn, nospace(x.Rhs[0]), i), "", g.Where(x.Pos()), "keeps the low/high pair structure",
							why+": an odd-length Ranges makes the stride-2 loops read Ranges[i+1] out of range (Go panic trace) or pair the wrong end-points")
					}
				case *ast.KeyValueExpr:
					if nospace(x.Key) == "Ranges" {
						check(x.Pos(), "[]rune{}", x.Value)
					}
				}
				return true
			})
		}
	}
	r.Min("C13-e Ranges writers", 3, n)
}

// pairResult: the i-th result of helper is a local slice that is only ever nil, empty, extended by whole pairs, or -
// when helper holds the class parser's range state machine - by its start / end appends.
func pairResult(helper *ast.FuncDecl, i int, machine bool) (bool, string) {
	name := ""
	k := 0
	if helper.Type.Results != nil {
		for _, f := range helper.Type.Results.List {
			for _, nm := range f.Names {
				if k == i {
					name = nm.Name
				}
				k++
			}
		}
	}
	for _, rs := range returnsOf(helper) {
		if len(rs.Results) == 0 {
			continue
		}
		if i >= len(rs.Results) {
			return false, "a return of " + helper.Name.Name + " has no result " + fmt.Sprint(i)
		}
		id, ok := rs.Results[i].(*ast.Ident)
		if !ok {
			return false, helper.Name.Name + " returns " + nospace(rs.Results[i])
		}
		if id.Name == "nil" {
			continue
		}
		if name != "" && name != id.Name {
			return false, helper.Name.Name + " returns different slices"
		}
		name = id.Name
	}
	if name == "" {
		return false, "the result of " + helper.Name.Name + " could not be traced"
	}
	ok, why := true, ""
	ast.Inspect(helper.Body, func(nd ast.Node) bool {
		as, isAs := nd.(*ast.AssignStmt)
		if !isAs {
			return true
		}
		for j, l := range as.Lhs {
			if nospace(l) != name || len(as.Lhs) != len(as.Rhs) {
				continue
			}
			rhs := as.Rhs[j]
			t := nospace(rhs)
			if t == "nil" || t == "[]rune{}" {
				continue
			}
			if ce, isCall := rhs.(*ast.CallExpr); isCall {
				switch callName(ce) {
				case "make":
					if len(ce.Args) >= 2 && nospace(ce.Args[1]) == "0" {
						continue
					}
				case "append":
					if nospace(ce.Args[0]) == name && !ce.Ellipsis.IsValid() && (len(ce.Args) == 3 || (len(ce.Args) == 2 && machine)) {
						continue
					}
					if nospace(ce.Args[0]) == name && ce.Ellipsis.IsValid() && len(ce.Args) == 2 && strings.HasSuffix(nospace(ce.Args[1]), ".Ranges") {
						continue
					}
				}
			}
			ok, why = false, helper.Name.Name+" builds the slice with "+t+", which does not add whole pairs"
		}
		return true
	})
	return ok, why
}

// c13ArrayBounds: indices into fixed-size arrays are bounded.
func c13ArrayBounds(c *Ctx, g *load.G) {
	r := c.R
	n := 0
	// the Basic Latin table (a [128]bool filled by BasicLatinLookup and its helpers) is decided on the normalised
	// paths of BasicLatinLookup, helpers expanded: every index is a member proven < 128, its ASCII case twin, or a
	// position of a loop over all 128 entries
	blHelpers := map[string]bool{"BasicLatinLookup": true}
	if bp := g.Pkg("builder"); bp != nil {
		for _, fd := range load.AllFuncDecls(bp) {
			if fd.Type.Params == nil {
				continue
			}
			for _, f := range fd.Type.Params.List {
				if nospace(f.Type) == "*[128]bool" {
					blHelpers[fd.Name.Name] = true
				}
			}
		}
		model, blfd := c.basicLatinModel()
		if blfd != nil {
			key := "array-indices-bounded"
			n += 4
			r.Check(len(model[key]) == 0, "C13-f", "G.builder.BasicLatinLookup:"+key, "", g.Where(blfd.Pos()), "every table index is a member below 128, its ASCII case twin, or a loop position below 128",
				strings.Join(uniq(model[key]), "; ")+": an out-of-range index makes the generator die with a Go panic trace (e.g. unicode.SimpleFold('k') is U+212A)")
		}
	}
	for _, sfx := range []string{"", "ast", "builder"} {
		p := g.Pkg(sfx)
		for _, fd := range load.AllFuncDecls(p) {
			if fd.Body == nil || strings.HasSuffix(g.Fset.Position(fd.Pos()).Filename, "/pigeon.go") {
				continue
			}
			if sfx == "builder" && blHelpers[fd.Name.Name] {
				continue
			}
			k := 0
			ast.Inspect(fd.Body, func(nd ast.Node) bool {
				ix, ok := nd.(*ast.IndexExpr)
				if !ok {
					return true
				}
				t := p.TypesInfo.TypeOf(ix.X)
				if t == nil {
					return true
				}
				arr, ok := t.Underlying().(*types.Array)
				if !ok {
					return true
				}
				if tv, ok := p.TypesInfo.Types[ix.Index]; ok && tv.Value != nil {
					return true // constant index: checked by the compiler
				}
				n++
				k++
				bound := fmt.Sprint(arr.Len())
				// the variable at the core of the index
				core := ix.Index
				via := ""
				if ce, ok := core.(*ast.CallExpr); ok && len(ce.Args) == 1 {
					switch callName(ce) {
					case "unicode.ToUpper", "unicode.ToLower":
						if arr.Len() == 128 {
							via = callName(ce)
							core = ce.Args[0]
						}
					}
				}
				v := nospace(core)
				proven := false
				// enclosing if-conditions and loop conditions
				var conds []string
				conds = append(conds, guardsOf(fd.Body, ix.Pos())...)
				ast.Inspect(fd.Body, func(m ast.Node) bool {
					if f, ok := m.(*ast.ForStmt); ok && f.Cond != nil && contains(f.Body, ix.Pos()) {
						conds = append(conds, nospace(f.Cond))
					}
					return true
				})
				for _, cd := range conds {
					for _, conj := range strings.Split(cd, "&&") {
						if conj == v+"<"+bound || conj == bound+">"+v {
							proven = true
						}
					}
				}
				construct := fmt.Sprintf("G.%s.%s:array-index#%d(%s)", p.Types.Name(), fd.Name.Name, k, nospace(ix))
				detail := "index " + v + " bounded by an enclosing `" + v + " < " + bound + "`"
				if via != "" {
					detail += ", mapped by " + via + " (ASCII stays ASCII)"
				}
				r.Check(proven, "C13-f", construct, "", g.Where(ix.Pos()), detail,
					"no enclosing condition bounds the index "+nospace(ix.Index)+" below "+bound+": an out-of-range value makes the generator die with a Go panic trace (e.g. unicode.SimpleFold('k') is U+212A)")
				return true
			})
		}
	}
	r.Min("C13-f array index sites", 2, n)
}

// c13CounterLoops: direction and strictness of counter loops.
func c13CounterLoops(c *Ctx, g *load.G) {
	r := c.R
	n := 0
	for _, sfx := range []string{"", "ast", "builder"} {
		p := g.Pkg(sfx)
		for _, fd := range load.AllFuncDecls(p) {
			if fd.Body == nil || strings.HasSuffix(g.Fset.Position(fd.Pos()).Filename, "/pigeon.go") {
				continue
			}
			k := 0
			ast.Inspect(fd.Body, func(nd ast.Node) bool {
				f, ok := nd.(*ast.ForStmt)
				if !ok || f.Cond == nil || f.Post == nil {
					return true
				}
				cond := nospace(f.Cond)
				first := strings.Split(cond, "&&")[0]
				var iv, rel string
				for _, op := range []string{"<=", ">=", "<", ">"} {
					if i := strings.Index(first, op); i > 0 {
						iv, rel = first[:i], op
						break
					}
				}
				if iv == "" {
					return true
				}
				k++
				n++
				up := false
				step := ""
				switch post := f.Post.(type) {
				case *ast.IncDecStmt:
					if nospace(post.X) == iv {
						up = post.Tok == token.INC
						step = post.Tok.String()
					}
				case *ast.AssignStmt:
					if nospace(post.Lhs[0]) == iv {
						up = post.Tok == token.ADD_ASSIGN
						step = post.Tok.String() + constText(p, post.Rhs[0])
					}
				}
				construct := fmt.Sprintf("G.%s.%s:counter-loop#%d(%s)", p.Types.Name(), fd.Name.Name, k, cond)
				var bad []string
				if step == "" {
					bad = append(bad, "the post statement does not step the loop variable "+iv)
				}
				switch rel {
				case "<":
					if !up {
						bad = append(bad, "condition "+first+" with a downward step "+step+": the loop does not terminate (or indexes below 0)")
					}
				case "<=":
					if strings.Contains(first, "len(") {
						bad = append(bad, "condition "+first+" lets the index reach len(…): out of range")
					}
					if !up {
						bad = append(bad, "downward step with an upper-bound condition")
					}
				case ">=", ">":
					if up {
						bad = append(bad, "condition "+first+" with an upward step "+step+": the loop does not terminate")
					}
				}
				// stride-2 loops over a pair list index X[i+1]: the step must be += 2
				usesNext := false
				ast.Inspect(f.Body, func(m ast.Node) bool {
					if ix, ok := m.(*ast.IndexExpr); ok && nospace(ix.Index) == iv+"+1" {
						// a look-ahead at the next element under its own bound test is not a pair access
						guarded := false
						for _, fct := range factsAt(f.Body, ix.Pos()) {
							for _, cj := range splitTop(fct, "&&") {
								if cj == iv+"+1<len("+nospace(ix.X)+")" || cj == iv+"<len("+nospace(ix.X)+")-1" {
									guarded = true
								}
							}
						}
						if !guarded {
							usesNext = true
						}
					}
					return true
				})
				if usesNext && step != "+=2" {
					bad = append(bad, "the body reads element "+iv+"+1 but the step is "+step+" (pairs need += 2)")
				}
				sort.Strings(bad)
				r.Check(len(bad) == 0, "C13-g", construct, "", g.Where(f.Pos()), "bounded and stepping towards its bound ("+step+")", strings.Join(bad, "; "))
				return true
			})
		}
	}
	r.Min("C13-g counter loops", 3, n)
}

// c13IO (C13-b): the grammar is read from the named file exactly when a name was given (stdin otherwise) and the parser
// is written to the named file exactly when -o was given (stdout otherwise).
func c13IO(c *Ctx, g *load.G) {
	r := c.R
	for _, spec := range []struct{ fn, call string }{{"input", "os.Open"}, {"output", "os.Create"}} {
		fd := load.FuncDecl(g.Pkg(""), "", spec.fn)
		if fd == nil || fd.Body == nil {
			r.Fatal("anchor main.%s not found", spec.fn)
			continue
		}
		fp := firstParam(fd)
		ok := false
		detail := "no " + spec.call + "(" + fp + ") call"
		root := g.Pkg("")
		for _, ce := range callsIn(fd.Body) {
			direct := callName(ce) == spec.call && len(ce.Args) == 1 && nospace(ce.Args[0]) == fp
			// ... or through a helper of the package that is handed the library function and the name and calls one on
			// the other
			via := false
			if !direct {
				iF, iN := -1, -1
				for k, a := range ce.Args {
					switch nospace(a) {
					case spec.call:
						iF = k
					case fp:
						iN = k
					}
				}
				if iF >= 0 && iN >= 0 {
					var id *ast.Ident
					switch f := ce.Fun.(type) {
					case *ast.Ident:
						id = f
					case *ast.SelectorExpr:
						id = f.Sel
					}
					for _, h := range load.AllFuncDecls(root) {
						if id == nil || h.Body == nil || root.TypesInfo.Uses[id] != root.TypesInfo.Defs[h.Name] {
							continue
						}
						ps := paramNames(h)
						if iF < len(ps) && iN < len(ps) {
							for _, hc := range callsIn(h.Body) {
								if nospace(hc.Fun) == ps[iF] && len(hc.Args) == 1 && nospace(hc.Args[0]) == ps[iN] && len(factsAt(h.Body, hc.Pos())) == 0 {
									via = true
								}
							}
						}
					}
				}
			}
			if direct || via {
				gs := factsAt(fd.Body, ce.Pos())
				ok = len(gs) == 1 && nonEmptyTest(gs[0], fp)
				detail = spec.call + "(" + fp + ") happens under [" + strings.Join(gs, ";") + "], expected exactly " + fp + ` != ""` + ": the tool reads or writes the wrong stream, or fails on the default stream"
			}
		}
		r.Check(ok, "C13-b", "G.main."+spec.fn+":file-iff-named", "", g.Where(fd.Pos()), spec.call+" exactly when a file name was given", detail)
	}
}

// c13NilMaps (C13-i).
func c13NilMaps(c *Ctx, g *load.G) {
	r := c.R
	n := 0
	for _, suffix := range []string{"ast", "builder"} {
		pkg := g.Pkg(suffix)
		if pkg == nil {
			continue
		}
		info := pkg.TypesInfo
		// fresh-returning functions: every return yields make(...) / a map literal / a local that is itself fresh
		decls := load.AllFuncDecls(pkg)
		var freshExpr func(fd *ast.FuncDecl, e ast.Expr, depth int) bool
		localDefs := func(fd *ast.FuncDecl, obj types.Object) []ast.Expr {
			var out []ast.Expr
			ast.Inspect(fd, func(nd ast.Node) bool {
				switch x := nd.(type) {
				case *ast.AssignStmt:
					for i, l := range x.Lhs {
						id, ok := l.(*ast.Ident)
						if !ok || info.ObjectOf(id) != obj {
							continue
						}
						if len(x.Rhs) == len(x.Lhs) {
							out = append(out, x.Rhs[i])
						} else {
							out = append(out, x.Rhs[0])
						}
					}
				case *ast.ValueSpec:
					for i, nm := range x.Names {
						if info.ObjectOf(nm) != obj {
							continue
						}
						if i < len(x.Values) {
							out = append(out, x.Values[i])
						} else {
							out = append(out, nil) // declared without value: nil map
						}
					}
				}
				return true
			})
			return out
		}
		freshFunc := map[string]int{} // 0 unknown, 1 fresh, 2 not
		var isFreshFunc func(name string, depth int) bool
		isFreshFunc = func(name string, depth int) bool {
			if v := freshFunc[name]; v != 0 {
				return v == 1
			}
			if depth > 4 {
				return false
			}
			freshFunc[name] = 1 // coinductive assumption for recursion
			found := false
			ok := true
			for _, fd := range decls {
				if fd.Name.Name != name || fd.Body == nil {
					continue
				}
				found = true
				for _, rs := range returnsOf(fd) {
					if len(rs.Results) == 0 {
						ok = false // named results: not analysed
						continue
					}
					if !freshExpr(fd, rs.Results[0], depth+1) {
						ok = false
					}
				}
			}
			if !found || !ok {
				freshFunc[name] = 2
				return false
			}
			return true
		}
		freshExpr = func(fd *ast.FuncDecl, e ast.Expr, depth int) bool {
			switch x := e.(type) {
			case nil:
				return false
			case *ast.ParenExpr:
				return freshExpr(fd, x.X, depth)
			case *ast.CompositeLit:
				return true
			case *ast.CallExpr:
				if id, ok := x.Fun.(*ast.Ident); ok && id.Name == "make" {
					return true
				}
				return isFreshFunc(callSel(x), depth)
			case *ast.Ident:
				obj := info.ObjectOf(x)
				if obj == nil || x.Name == "nil" {
					return false
				}
				if obj.Parent() == pkg.Types.Scope() {
					// package-level variable: shared, and nil unless initialised
					return false
				}
				defs := localDefs(fd, obj)
				if len(defs) == 0 {
					return false // parameter
				}
				for _, d := range defs {
					if !freshExpr(fd, d, depth+1) {
						return false
					}
				}
				return true
			}
			return false
		}
		for _, fd := range decls {
			if fd.Body == nil {
				continue
			}
			ast.Inspect(fd.Body, func(nd ast.Node) bool {
				as, ok := nd.(*ast.AssignStmt)
				if !ok {
					return true
				}
				for _, l := range as.Lhs {
					ix, ok := l.(*ast.IndexExpr)
					if !ok {
						continue
					}
					tv, ok := info.Types[ix.X]
					if !ok {
						continue
					}
					if _, isMap := tv.Type.Underlying().(*types.Map); !isMap {
						continue
					}
					id, ok := ix.X.(*ast.Ident)
					if !ok {
						continue // field or element: owner's responsibility
					}
					obj := info.ObjectOf(id)
					if obj == nil {
						continue
					}
					construct := "G." + suffix + "." + load.RecvName(fd) + "." + fd.Name.Name + ":map-store " + id.Name
					if obj.Parent() == pkg.Types.Scope() {
						n++
						r.Bad("C13-i", construct, "", g.Where(as.Pos()), "store into the package-level map "+id.Name+" (shared between builds, nil unless initialised)")
						continue
					}
					defs := localDefs(fd, obj)
					if len(defs) == 0 {
						continue // parameter or closure-captured from an enclosing declaration handled below
					}
					n++
					bad := ""
					for _, d := range defs {
						if !freshExpr(fd, d, 0) {
							if d == nil {
								bad = "declared without a value (nil map)"
							} else {
								bad = "defined as " + abbreviate(nospace(d)) + ", which is not provably a fresh non-nil map (make, a literal, or a function of the package returning only such values)"
							}
						}
					}
					// a definition from an existing container is fine when every path to the store has tested it (comma-ok or
					// != nil) or has replaced it by a fresh map: decided on the normalised paths
					if bad != "" && pathsGuardMapStore(c.pkgNorm(suffix), fd, id.Name) {
						bad = ""
					}
					r.Check(bad == "", "C13-i", construct, "", g.Where(as.Pos()), "all definitions yield a fresh non-nil map", id.Name+" is "+bad+": the store panics with `assignment to entry in nil map` or writes into a map other nodes share")
				}
				return true
			})
		}
	}
	r.Min("C13-i map stores into locals", 5, n)
}

// c13ConstIndex (C13-j).
func c13ConstIndex(c *Ctx, g *load.G) {
	r := c.R
	n := 0
	for _, suffix := range []string{"", "ast", "builder"} {
		pkg := g.Pkg(suffix)
		if pkg == nil {
			continue
		}
		info := pkg.TypesInfo
		for i, f := range pkg.Syntax {
			fn := pkg.CompiledGoFiles[i]
			if strings.HasSuffix(fn, "/pigeon.go") || strings.HasSuffix(fn, "_test.go") || strings.HasSuffix(fn, "generated_static_code.go") || strings.HasSuffix(fn, "generated_static_code_range_table.go") {
				continue
			}
			for _, d := range f.Decls {
				fd, ok := d.(*ast.FuncDecl)
				if !ok || fd.Body == nil {
					continue
				}
				var stack []ast.Node
				ast.Inspect(fd.Body, func(nd ast.Node) bool {
					if nd == nil {
						stack = stack[:len(stack)-1]
						return true
					}
					stack = append(stack, nd)
					ix, ok := nd.(*ast.IndexExpr)
					if !ok {
						return true
					}
					tv, ok := info.Types[ix.X]
					if !ok {
						return true
					}
					switch tv.Type.Underlying().(type) {
					case *types.Slice:
					case *types.Basic:
						if tv.Type.Underlying().(*types.Basic).Info()&types.IsString == 0 {
							return true
						}
					default:
						return true
					}
					x := nospace(ix.X)
					sub := nospace(ix.Index)
					if sub != "0" && sub != "len("+x+")-1" {
						return true
					}
					if x == "os.Args" {
						return true // os.Args[0] exists by the process contract
					}
					n++
					construct := "G." + suffix + "." + load.RecvName(fd) + "." + fd.Name.Name + ":index " + x + "[" + sub + "]"
					proved := nonEmptyProvedAt(g, pkg, fd, ix, x, 0)
					if proved == "" && strings.HasSuffix(x, ".argsStack") && sub == "len("+x+")-1" && withinRuleScope(pkg, fd) {
						proved = "the label-scope stack is non-empty wherever code is generated for a rule: writeRuleCode pushes a scope before it visits the rule's expression and pops it afterwards, pushes and pops are paired in between (C02-d), and this function is reached only from inside that bracket"
					}
					r.Check(proved != "", "C13-j", construct, "", g.Where(ix.Pos()), proved, "no length test of "+x+" dominates the subscript: an empty "+x+" (an empty code block, class or rule list) panics with index out of range")
					return true
				})
			}
		}
	}
	r.Min("C13-j constant subscripts", 2, n)
}

// assignedBetween: x is assigned (re-sliced, replaced) in the block between the two positions: what a test proved
// about its length before no longer holds (`if len(v) > 0 { if v[0] == c { v = v[1:] }; … v[len(v)-1] … }`).
func assignedBetween(body ast.Node, x string, from, to token.Pos) bool {
	found := false
	ast.Inspect(body, func(n ast.Node) bool {
		if as, ok := n.(*ast.AssignStmt); ok && as.Pos() >= from && as.End() <= to {
			for _, l := range as.Lhs {
				if nospace(l) == x {
					found = true
				}
			}
		}
		return true
	})
	return found
}

// lenTestProves: a conjunct of cond proves len(x) >= 1.
func lenTestProves(cond, x string) bool {
	for _, cj := range strings.Split(cond, "&&") {
		cj = strings.TrimSuffix(strings.TrimPrefix(cj, "("), ")")
		for _, ok := range []string{"len(" + x + ")>0", "len(" + x + ")>=1", "len(" + x + ")!=0", "len(" + x + ")==1", "len(" + x + ")>1", "len(" + x + ")>=2", "len(" + x + ")==2", "0<len(" + x + ")"} {
			if cj == ok {
				return true
			}
		}
	}
	return false
}

// nonEmptyProvedAt: why x (a string or slice expression) is known to be non-empty where node stands in fd: a conjunct
// to its left, an enclosing if or switch clause, an early exit on emptiness after the last assignment to x, or - when
// x is a parameter the function does not reassign - the same at every call site of fd in the package. "" = not proved.
func nonEmptyProvedAt(g *load.G, pkg *packages.Package, fd *ast.FuncDecl, node ast.Node, x string, depth int) string {
	proved := ""
	var stack []ast.Node
	var path []ast.Node
	ast.Inspect(fd.Body, func(nd ast.Node) bool {
		if nd == nil {
			stack = stack[:len(stack)-1]
			return true
		}
		stack = append(stack, nd)
		if nd == node {
			path = append([]ast.Node{}, stack...)
		}
		return true
	})
	for k := len(path) - 2; k >= 0 && proved == ""; k-- {
		switch p := path[k].(type) {
		case *ast.BinaryExpr:
			if p.Op == token.LAND && p.Y.Pos() <= node.Pos() && node.End() <= p.Y.End() && lenTestProves(nospace(p.X), x) {
				proved = "left conjunct " + nospace(p.X)
			}
		case *ast.IfStmt:
			if p.Body.Pos() <= node.Pos() && node.End() <= p.Body.End() && lenTestProves(nospace(p.Cond), x) && !assignedBetween(p.Body, x, p.Body.Pos(), node.Pos()) {
				proved = "enclosing if " + nospace(p.Cond)
			}
		case *ast.ForStmt:
			// the condition of a loop holds where its body starts, and on until x is assigned
			if p.Cond != nil && p.Body.Pos() <= node.Pos() && node.End() <= p.Body.End() && lenTestProves(nospace(p.Cond), x) && !assignedBetween(p.Body, x, p.Body.Pos(), node.Pos()) {
				proved = "enclosing loop condition " + nospace(p.Cond)
			}
		case *ast.CaseClause:
			// a clause of a condition switch: its own condition holds in its body
			inBody := len(p.Body) > 0 && p.Body[0].Pos() <= node.Pos() && node.End() <= p.End()
			if inBody && len(p.List) == 1 && k > 1 {
				if sw, ok := path[k-2].(*ast.SwitchStmt); ok && sw.Tag == nil && lenTestProves(nospace(p.List[0]), x) {
					proved = "enclosing case " + nospace(p.List[0])
				}
			}
		}
	}
	// early exit after the last assignment to x
	if proved == "" {
		var lastAssign, guard token.Pos
		ast.Inspect(fd.Body, func(m ast.Node) bool {
			switch y := m.(type) {
			case *ast.AssignStmt:
				for _, l := range y.Lhs {
					if nospace(l) == x && y.Pos() < node.Pos() {
						lastAssign = y.Pos()
					}
				}
			case *ast.IfStmt:
				if y.End() < node.Pos() && y.Else == nil && (nospace(y.Cond) == "len("+x+")==0" || nospace(y.Cond) == "len("+x+")<1" || nospace(y.Cond) == x+`==""`) && len(y.Body.List) > 0 {
					if _, isRet := y.Body.List[len(y.Body.List)-1].(*ast.ReturnStmt); isRet {
						guard = y.Pos()
					}
				}
			}
			return true
		})
		if guard.IsValid() && guard > lastAssign {
			proved = "early exit on len(" + x + ") == 0 at " + g.Where(guard)
		}
	}
	// a parameter: every caller knows
	if proved == "" && depth < 2 && token.IsIdentifier(x) {
		idx, i := -1, 0
		if fd.Type.Params != nil {
			for _, f := range fd.Type.Params.List {
				for _, nm := range f.Names {
					if nm.Name == x {
						idx = i
					}
					i++
				}
			}
		}
		reassigned := false
		ast.Inspect(fd.Body, func(m ast.Node) bool {
			if as, ok := m.(*ast.AssignStmt); ok {
				for _, l := range as.Lhs {
					if nospace(l) == x {
						reassigned = true
					}
				}
			}
			return true
		})
		if idx >= 0 && !reassigned {
			fl := newFlow(pkg, nil)
			sites := fl.callSites(fd)
			all := len(sites) > 0
			for _, cs := range sites {
				if idx >= len(cs.Call.Args) || nonEmptyProvedAt(g, pkg, cs.In, cs.Call, nospace(cs.Call.Args[idx]), depth+1) == "" {
					all = false
				}
			}
			if all {
				proved = fmt.Sprintf("parameter: non-empty at each of its %d call sites", len(sites))
			}
		}
	}
	return proved
}

// flagDefs maps flag name -> variable for the flags main defines with <flagset>.Bool / .String (assignment or var spec).
func flagDefs(mf *ast.FuncDecl) map[string]string {
	out := map[string]string{}
	reg := func(lhs string, rhs ast.Expr) {
		if ce, ok := rhs.(*ast.CallExpr); ok && (callSel(ce) == "Bool" || callSel(ce) == "String") && len(ce.Args) == 3 {
			if bl, ok := ce.Args[0].(*ast.BasicLit); ok && bl.Kind == token.STRING {
				out[strings.Trim(bl.Value, `"`)] = lhs
			}
		}
	}
	ast.Inspect(mf.Body, func(n ast.Node) bool {
		switch x := n.(type) {
		case *ast.AssignStmt:
			if len(x.Lhs) == 1 && len(x.Rhs) == 1 {
				reg(nospace(x.Lhs[0]), x.Rhs[0])
			}
		case *ast.ValueSpec:
			for i, nm := range x.Names {
				if i < len(x.Values) {
					reg(nm.Name, x.Values[i])
				}
			}
		}
		return true
	})
	return out
}

// flagVar returns the variable that main defines for the flag of the given name ("" if none).
func flagVar(mf *ast.FuncDecl, flag string) string { return flagDefs(mf)[flag] }

// reachingCallsIn lists the calls inside fd that are calls of target, or of a function of the package (generated
// front-end excluded) that calls target directly or through other such functions.
func reachingCallsIn(pkg *packages.Package, fd *ast.FuncDecl, target string) []*ast.CallExpr {
	reaches := map[string]bool{}
	decls := map[string]*ast.FuncDecl{}
	for i, f := range pkg.Syntax {
		if strings.HasSuffix(pkg.CompiledGoFiles[i], "/pigeon.go") || strings.HasSuffix(pkg.CompiledGoFiles[i], "_test.go") {
			continue
		}
		for _, d := range f.Decls {
			if x, ok := d.(*ast.FuncDecl); ok && x.Recv == nil && x.Body != nil {
				decls[x.Name.Name] = x
			}
		}
	}
	for changed := true; changed; {
		changed = false
		for name, d := range decls {
			if reaches[name] || d == fd {
				continue
			}
			for _, ce := range callsIn(d.Body) {
				if cn := callName(ce); cn == target || reaches[cn] {
					reaches[name] = true
					changed = true
					break
				}
			}
		}
	}
	var out []*ast.CallExpr
	for _, ce := range callsIn(fd.Body) {
		if cn := callName(ce); cn == target || reaches[cn] {
			out = append(out, ce)
		}
	}
	return out
}

// pathsGuardMapStore: on every normalised path of fd, each store into the local map `name` happens after the local
// was given a fresh map, or after the value it aliases was found present (ok(v)) or non-nil.
func pathsGuardMapStore(nc *nctx, fd *ast.FuncDecl, name string) bool {
	paths, multi := nc.normPathsNamed(fd)
	ph, isMulti := multi[name]
	if len(paths) == 0 {
		return false
	}
	fresh := func(v string) bool {
		return strings.HasPrefix(v, "make(") || strings.HasPrefix(v, "map[") && strings.HasSuffix(v, "}") || allocCallRe.MatchString(v)
	}
	for _, p := range paths {
		cur := "" // what the local currently holds: "fresh", or the text of the aliased value
		for i, e := range p {
			if e.Kind != "set" {
				continue
			}
			eq := strings.Index(e.Text, "=")
			if eq < 0 {
				continue
			}
			lhs, rhs := e.Text[:eq], e.Text[eq+1:]
			if isMulti && lhs == ph {
				if fresh(rhs) {
					cur = "fresh"
				} else {
					cur = rhs
					if strings.HasPrefix(cur, "(") && strings.HasSuffix(cur, ")") && strings.Count(cur, "(") == 1 {
						cur = cur[1 : len(cur)-1]
					}
				}
				continue
			}
			// a store into the local (by its number, or by the value propagated for it)
			isStore := isMulti && strings.HasPrefix(lhs, ph+"[")
			alias := ""
			if !isStore && cur != "" && cur != "fresh" && (strings.HasPrefix(lhs, "("+cur+")[") || strings.HasPrefix(lhs, cur+"[")) && len(lhs) > len(cur)+2 && strings.Count(lhs, "[") > strings.Count(cur, "[") {
				isStore, alias = true, cur
			}
			if !isStore {
				continue
			}
			if cur == "fresh" {
				continue
			}
			if alias == "" {
				alias = cur
			}
			guarded := false
			for _, f := range p[:i].facts() {
				if f == "ok("+alias+")" || f == alias+"!=nil" {
					guarded = true
				}
			}
			if !guarded {
				return false
			}
		}
	}
	return true
}

// paramIndexByName: the position of the parameter called name in fd.
func paramIndexByName(fd *ast.FuncDecl, name string) (int, bool) {
	for i, p := range paramNames(fd) {
		if p == name {
			return i, true
		}
	}
	return -1, false
}

// phaseFacts: for every chain of calls from fd to target through functions of the package, the flag conditions in
// force along the chain (at the call site in each function), as one sorted text per chain.
func phaseFacts(p *packages.Package, fm *flagModel, fd *ast.FuncDecl, target string, depth int) []string {
	if depth > 4 || fd == nil || fd.Body == nil {
		return nil
	}
	flagConj := func(in *ast.FuncDecl, pos token.Pos) []string {
		var out []string
		for _, f := range factsAtLeaf(in.Body, pos, fm.leaf) {
			for _, cj := range splitTop(f, "&&") {
				if cj == "!-h" || cj == "!-help" {
					continue // the help flags were not given (their branch exits with status 0)
				}
				if strings.HasPrefix(strings.TrimPrefix(cj, "!"), "-") {
					out = append(out, cj)
				}
			}
		}
		return out
	}
	decls := map[types.Object]*ast.FuncDecl{}
	for i, f := range p.Syntax {
		if i < len(p.CompiledGoFiles) && (strings.HasSuffix(p.CompiledGoFiles[i], "/pigeon.go") || strings.HasSuffix(p.CompiledGoFiles[i], "_test.go")) {
			continue
		}
		for _, d := range f.Decls {
			if x, ok := d.(*ast.FuncDecl); ok && x.Body != nil && x.Recv == nil {
				decls[p.TypesInfo.Defs[x.Name]] = x
			}
		}
	}
	var out []string
	for _, ce := range callsIn(fd.Body) {
		here := flagConj(fd, ce.Pos())
		if callName(ce) == target {
			sort.Strings(here)
			out = append(out, strings.Join(here, ";"))
			continue
		}
		var id *ast.Ident
		switch f := ce.Fun.(type) {
		case *ast.Ident:
			id = f
		case *ast.SelectorExpr:
			id = f.Sel
		}
		if id == nil {
			continue
		}
		if h := decls[p.TypesInfo.Uses[id]]; h != nil && h != fd {
			for _, inner := range phaseFacts(p, fm, h, target, depth+1) {
				all := append(append([]string{}, here...), splitNonEmpty(inner, ";")...)
				sort.Strings(all)
				out = append(out, strings.Join(all, ";"))
			}
		}
	}
	return uniq(out)
}

func splitNonEmpty(s, sep string) []string {
	if s == "" {
		return nil
	}
	return strings.Split(s, sep)
}

// withinRuleScope: fd (a method of the builder) is reached only from inside a push/pop bracket of the label-scope
// stack: every chain of callers inside the package ends in a call made between a pushArgsSet() and a popArgsSet() of
// the calling function (writeRuleCode, or the helper it delegates the bracket to).
func withinRuleScope(pkg *packages.Package, fd *ast.FuncDecl) bool {
	fl := newFlow(pkg, nil)
	seen := map[*ast.FuncDecl]bool{}
	var up func(f *ast.FuncDecl) bool
	up = func(f *ast.FuncDecl) bool {
		if seen[f] {
			return true
		}
		seen[f] = true
		sites := fl.callSites(f)
		if len(sites) == 0 {
			return false // an entry point of its own (or called through a value): nothing is known
		}
		for _, cs := range sites {
			if cs.In == nil {
				return false
			}
			// the caller brackets this call: a push before it and a pop after it
			var push, pop token.Pos
			for _, ce := range callsIn(cs.In.Body) {
				switch callSel(ce) {
				case "pushArgsSet":
					if push == token.NoPos {
						push = ce.Pos()
					}
				case "popArgsSet":
					pop = ce.Pos()
				}
			}
			if push != token.NoPos && pop != token.NoPos && push < cs.Call.Pos() && cs.Call.Pos() < pop {
				continue
			}
			if !up(cs.In) {
				return false
			}
		}
		return true
	}
	return fd.Recv != nil && up(fd)
}
