package rules

import (
	"fmt"
	"go/ast"
	"regexp"
	"strings"

	"pigeonverif/internal/load"
)

// builder.BasicLatinLookup on normalised paths. The three member sources are handled by three top-level loops; what
// one iteration of each loop stores into the table, and under which facts, is compared with what the general
// matching path of the runtime decides.

type blProblems map[string][]string // obligation suffix -> problems

var counted128Re = regexp.MustCompile(`^for ;(\$\d+)<128(&&(\$\d+)<=(.+))?;(\$\d+)\+\+$`)

// the same loop with the upper end clamped once: r <= min(high, 127)
var clamped128Re = regexp.MustCompile(`^for ;(\$\d+)<=min\((.+)\);(\$\d+)\+\+$`)

// counted128 recognises a rune loop that stays below 128: `for ; r < 128 [&& r <= high]; r++` or
// `for ; r <= min(high, 127); r++`. The result has the shape of counted128Re's submatches.
func counted128(text string) []string {
	if m := counted128Re.FindStringSubmatch(text); m != nil {
		return m
	}
	if m := clamped128Re.FindStringSubmatch(text); m != nil {
		args := splitTop(m[2], ",")
		if len(args) == 2 {
			is127 := func(a string) bool { return a == "127" || a == "128-1" }
			switch {
			case is127(args[1]):
				return []string{text, m[1], "&&", m[1], args[0], m[3]}
			case is127(args[0]):
				return []string{text, m[1], "&&", m[1], args[1], m[3]}
			}
		}
	}
	return nil
}

// basicLatinModel analyses BasicLatinLookup; the map keys are the obligation names used by C15-a / C01-d / C13-f.
func (c *Ctx) basicLatinModel() (blProblems, *ast.FuncDecl) {
	g := c.G()
	if g == nil {
		return nil, nil
	}
	fd := load.FuncDecl(g.Pkg("builder"), "", "BasicLatinLookup")
	if fd == nil || fd.Body == nil {
		c.R.Fatal("builder.BasicLatinLookup not found")
		return nil, nil
	}
	pr := blProblems{}
	add := func(k, s string) { pr[k] = append(pr[k], s) }
	ps := paramNames(fd)
	if len(ps) != 4 {
		add("signature", "unexpected parameters")
		return pr, fd
	}
	charsP, rangesP, classesP, ic := ps[0], ps[1], ps[2], ps[3]
	nc := c.pkgNorm("builder").without("rangeTable")
	paths, multi := nc.normPathsNamed(fd)
	if len(paths) == 0 {
		add("signature", "no paths")
		return pr, fd
	}
	// the end of the block written either way: x <= 127 is x < 128, x > 127 is x >= 128
	for _, p := range paths {
		for k := range p {
			t := p[k].Text
			t = strings.ReplaceAll(t, "<=127", "<128")
			t = strings.ReplaceAll(t, ">127", ">=128")
			p[k].Text = t
		}
	}
	// the table: the named result, or the returned local
	tbl := ""
	if fd.Type.Results != nil && len(fd.Type.Results.List) == 1 && len(fd.Type.Results.List[0].Names) == 1 {
		tbl = multi[fd.Type.Results.List[0].Names[0].Name]
	}
	if tbl == "" {
		tbl = lastReturn(paths[0])
	}
	stores := func(seg bpath) []pev {
		var out []pev
		for _, e := range seg {
			if e.Kind == "set" && strings.HasPrefix(e.Text, tbl+"[") {
				out = append(out, e)
			}
		}
		return out
	}
	// member e (< 128) is marked, with both case twins under ignoreCase
	checkMember := func(key string, seg bpath, e string, bounded bool) {
		sts := stores(seg)
		has := func(idx string) bool {
			for _, s := range sts {
				if s.Text == tbl+"["+idx+"]=true" {
					return true
				}
			}
			return false
		}
		if !bounded {
			if len(sts) > 0 {
				add("array-indices-bounded", "a table entry is stored for "+e+" without the test that it is below 128")
			}
			return
		}
		if !has(e) {
			add(key+"-loop-adds-both-cases", "the member itself is not marked on the path ["+strings.Join(seg.facts(), " ")+"]")
		}
		switch {
		case seg.holds(ic):
			lower := seg.holds("unicode.IsLower(" + e + ")")
			upper := seg.holds("!unicode.IsLower("+e+")") || seg.holds("unicode.IsUpper("+e+")")
			switch {
			case lower && !has("unicode.ToUpper("+e+")"):
				add(key+"-loop-adds-both-cases", "a lower-case member lacks its upper-case twin")
			case upper && !has("unicode.ToLower("+e+")"):
				add(key+"-loop-adds-both-cases", "a member that is not lower-case lacks its lower-case twin")
			case !lower && !upper:
				// both twins unconditionally is fine too
				if !(has("unicode.ToUpper("+e+")") && has("unicode.ToLower("+e+")")) {
					add(key+"-loop-adds-both-cases", "under "+ic+" the twins of the member are not both marked (facts: "+strings.Join(seg.facts(), " ")+")")
				}
			}
		case seg.holds("!" + ic):
			for _, s := range sts {
				if s.Text != tbl+"["+e+"]=true" {
					add(key+"-loop-folds-case", "a case twin is marked although the class does not ignore case")
				}
			}
		default:
			add(key+"-loop-folds-case", "the loop over the "+key+" ignores "+ic+": the general path tests the folded rune against these members, the table tests the raw rune")
		}
		for _, s := range sts {
			idx := strings.TrimSuffix(strings.TrimPrefix(s.Text, tbl+"["), "]=true")
			if !strings.HasSuffix(s.Text, "]=true") {
				add("decides-all-128-runes-by-membership-only", "the table receives "+s.Text)
			}
			if idx != e && idx != "unicode.ToUpper("+e+")" && idx != "unicode.ToLower("+e+")" {
				add("array-indices-bounded", "table index "+idx+" is not the member or its ASCII case twin (unicode.SimpleFold can leave the Basic Latin block)")
			}
		}
		for _, f := range seg.facts() {
			t := strings.TrimPrefix(f, "!")
			okf := t == ic || strings.HasPrefix(t, "unicode.IsLower(") || strings.HasPrefix(t, "unicode.IsUpper(") || strings.HasSuffix(f, "<128") || strings.HasSuffix(f, ">=128") ||
				strings.HasPrefix(f, e+"<=") || strings.HasPrefix(f, e+">")
			if !okf {
				add("decides-all-128-runes-by-membership-only", "a "+key+" member is marked only under `"+f+"`")
			}
		}
	}
	sawChars, sawRanges, sawClasses := false, false, false
	for _, p := range paths {
		// ---- chars
		if lo, hi := loopSpan(p, "range "+charsP); lo >= 0 {
			sawChars = true
			seg := p[lo+1 : minInt(hi, len(p))]
			e := charsP + "[#1]"
			// the general path compares the lower-cased input rune with the lower-cased member (the builder emits
			// unicode.ToLower(member) under IgnoreCase): under ignoreCase the member that is tested against 128 and
			// indexes the table may be the folded one
			folded := "unicode.ToLower(" + e + ")"
			switch {
			case seg.holds(folded + "<128"):
				if !seg.holds(ic) {
					add("chars-loop-folds-case", "a member is folded on a path that does not establish "+ic)
				}
				checkMember("chars", seg, folded, true)
			case seg.holds(folded + ">=128"):
				if !seg.holds(ic) {
					add("chars-loop-folds-case", "a member is folded on a path that does not establish "+ic)
				}
				if len(stores(seg)) > 0 {
					add("array-indices-bounded", "a member >= 128 is stored into the table")
				}
			case seg.holds(e + "<128"):
				checkMember("chars", seg, e, true)
			case seg.holds(e + ">=128"):
				if len(stores(seg)) > 0 {
					add("array-indices-bounded", "a member >= 128 is stored into the table")
				}
				if !seg.holds("!" + ic) {
					// skipped by its raw value although what the general path compares with is its lower-case form
					add("chars-fold-before-filter", "also under "+ic+" a member is skipped because the member as written is >= 128; the general path compares the lower-cased input with unicode.ToLower(member), which is a Basic Latin rune for U+212A (k) and U+0130 (i)")
				}
			default:
				checkMember("chars", seg, e, false)
			}
		}
		// ---- ranges: a stride-2 loop over the pairs with an inner rune loop from the low end through the high end
		for i, ev := range p {
			if ev.Kind != "loop" || !strings.Contains(ev.Text, "<len("+rangesP+")") {
				continue
			}
			sawRanges = true
			m := regexp.MustCompile(`^for ;(\$\d+)<len\(` + regexp.QuoteMeta(rangesP) + `\);(\$\d+)\+=2$`).FindStringSubmatch(ev.Text)
			if m == nil || m[1] != m[2] {
				add("range-bounds-as-general-path", "the loop over the range pairs is "+ev.Text+", expected a stride of 2 over the whole list")
				continue
			}
			if v, _ := lastSet(p[:i], m[1]); v != "0" {
				add("range-bounds-as-general-path", "the loop over the range pairs starts at "+v)
			}
			iv := m[1]
			// end of this loop
			depth, end := 0, len(p)
			for j := i + 1; j < len(p); j++ {
				if p[j].Kind == "loop" {
					depth++
				}
				if p[j].Kind == "endloop" {
					if depth == 0 {
						end = j
						break
					}
					depth--
				}
			}
			seg := p[i+1 : end]
			lowEnd := rangesP + "[" + iv + "]"
			// what decides whether a pair contributes: the general path accepts every rune between the two ends, so the
			// Basic Latin part of a pair is non-empty exactly when its low end is below 128. A test of anything else about
			// the pair (its high end, its width) before the rune loop drops or adds Basic Latin runes of some pairs.
			for _, e2 := range seg {
				if e2.Kind == "loop" {
					break
				}
				if e2.Kind != "+" || !strings.Contains(e2.Text, rangesP+"[") {
					continue
				}
				if e2.Text != lowEnd+"<128" && e2.Text != lowEnd+">=128" {
					add("range-bounds-as-general-path", "a range pair is handled only under `"+e2.Text+"`: the Basic Latin part of a pair is non-empty exactly when its low end "+lowEnd+" is below 128 (a pair that straddles U+0080 must still mark its runes below 128)")
				}
			}
			if !seg.holds(lowEnd + "<128") {
				// either the pair is skipped (nothing stored), or every store sits in a rune loop whose own condition keeps
				// the rune below 128 (the test of the low end is then implied by the first evaluation of that condition)
				outside, inCounted := 0, 0
				var open []bool
				for _, e2 := range seg {
					switch e2.Kind {
					case "loop":
						c := counted128(e2.Text) != nil
						open = append(open, c)
						if c {
							inCounted++
						}
					case "endloop":
						if n := len(open); n > 0 {
							if open[n-1] {
								inCounted--
							}
							open = open[:n-1]
						}
					default:
						if inCounted == 0 && len(stores(bpath{e2})) > 0 {
							outside++
						}
					}
				}
				if outside > 0 || seg.holds(lowEnd+">=128") {
					if len(stores(seg)) > 0 {
						add("array-indices-bounded", "runes of a range are stored without the test that the range starts below 128")
					}
					continue
				}
				if len(stores(seg)) == 0 {
					continue
				}
			}
			// inner loop
			found := false
			for j, e2 := range seg {
				if e2.Kind != "loop" {
					continue
				}
				mm := counted128(e2.Text)
				if mm == nil {
					continue
				}
				found = true
				rv := mm[1]
				start, _ := lastSet(seg[:j], rv)
				hiText := mm[4]
				if !(start == lowEnd && mm[3] == rv && hiText == rangesP+"["+iv+"+1]" && mm[5] == rv) {
					add("range-bounds-as-general-path", fmt.Sprintf("the table enumerates runes from %s while `%s`; the general path tests the range with both ends inclusive: the end points of a range are decided differently", start, e2.Text))
				}
				depth2, end2 := 0, len(seg)
				for k := j + 1; k < len(seg); k++ {
					if seg[k].Kind == "loop" {
						depth2++
					}
					if seg[k].Kind == "endloop" {
						if depth2 == 0 {
							end2 = k
							break
						}
						depth2--
					}
				}
				checkMember("ranges", seg[j+1:end2], rv, true)
			}
			if !found {
				add("range-bounds-as-general-path", "no rune loop `for r := low; r < 128 && r <= high; r++` for a range pair")
			}
		}
		// ---- classes
		if lo, hi := loopSpan(p, "range "+classesP); lo >= 0 {
			sawClasses = true
			seg := p[lo+1 : minInt(hi, len(p))]
			cl := classesP + "[#1]"
			// the rune loop over all of Basic Latin: counted 0..127, or a range over the table itself
			idx, runeText, body := "", "", bpath(nil)
			for j, e2 := range seg {
				if e2.Kind != "loop" {
					continue
				}
				depth2, end2 := 0, len(seg)
				for k := j + 1; k < len(seg); k++ {
					if seg[k].Kind == "loop" {
						depth2++
					}
					if seg[k].Kind == "endloop" {
						if depth2 == 0 {
							end2 = k
							break
						}
						depth2--
					}
				}
				if mm := counted128(e2.Text); mm != nil && mm[2] == "" {
					start, _ := lastSet(seg[:j], mm[1])
					if start != "rune(0)" && start != "0" {
						add("decides-all-128-runes-by-membership-only", "rune loop over the class starts at "+start)
					}
					idx, runeText, body = mm[1], mm[1], seg[j+1:end2]
				} else if e2.Text == "range "+tbl {
					idx, runeText, body = "#2", "rune(#2)", seg[j+1:end2]
				} else if e2.Text == "range rune(128)" || e2.Text == "range rune(len("+tbl+"))" {
					// range over the integer 128 with a rune-typed loop variable: the variable is the rune
					idx, runeText, body = "#2", "#2", seg[j+1:end2]
				} else if e2.Text == "range 128" || e2.Text == "range len("+tbl+")" {
					idx, runeText, body = "#2", "rune(#2)", seg[j+1:end2]
				}
			}
			if idx == "" {
				add("class-decision-as-general-path", "no rune loop over all 128 Basic Latin runes")
				continue
			}
			// the occurrence number of a repeated call text (nth2(unicode.ToLower(r)) when an earlier loop folded its own
			// r the same way) says nothing inside this loop: the fold is a pure function of the loop's rune
			{
				nb := make(bpath, len(body))
				for k, e2 := range body {
					e2.Text = stripNth(e2.Text)
					nb[k] = e2
				}
				body = nb
			}
			tested := runeText
			switch {
			case body.holds(ic):
				tested = "unicode.ToLower(" + runeText + ")"
			case body.holds("!" + ic):
			default:
				add("unicodeClasses-loop-folds-case", "the loop over the classes ignores "+ic)
			}
			member := "unicode.Is(rangeTable(" + cl + ")," + tested + ")"
			sts := stores(body)
			switch {
			case body.holds(member):
				if len(sts) != 1 || sts[0].Text != tbl+"["+idx+"]=true" {
					add("class-decision-as-general-path", fmt.Sprintf("for a rune in the class the table receives %v, expected %s[%s]=true", texts(sts), tbl, idx))
				}
			case body.holds("!" + member):
				if len(sts) != 0 {
					add("class-decision-as-general-path", "a rune outside the class is marked")
				}
			default:
				add("class-decision-as-general-path", "membership is not decided by "+member+" (facts: "+strings.Join(body.facts(), " ")+")")
			}
			for _, f := range body.facts() {
				t := strings.TrimPrefix(f, "!")
				if !(t == ic || t == member) {
					add("decides-all-128-runes-by-membership-only", "a class member is marked only under `"+f+"`")
				}
			}
			for _, e2 := range body {
				if e2.Kind == "branch" {
					add("decides-all-128-runes-by-membership-only", "`"+e2.Text+"` skips runes of a class")
				}
			}
		}
	}
	if !sawChars {
		add("chars-loop-folds-case", "member loop over "+charsP+" not found")
	}
	if !sawRanges {
		add("ranges-loop-folds-case", "member loop over "+rangesP+" not found")
	}
	if !sawClasses {
		add("unicodeClasses-loop-folds-case", "member loop over "+classesP+" not found")
	}
	return pr, fd
}

func texts(evs []pev) []string {
	var out []string
	for _, e := range evs {
		out = append(out, e.Text)
	}
	return out
}

// stripNth removes the occurrence wrappers nth<k>( … ) from a normal-form text.
func stripNth(t string) string {
	for {
		i := strings.Index(t, "nth")
		for i >= 0 {
			j := i + 3
			for j < len(t) && t[j] >= '0' && t[j] <= '9' {
				j++
			}
			if j > i+3 && j < len(t) && t[j] == '(' && (i == 0 || !isIdentByte(t[i-1])) {
				// matching parenthesis
				depth, k := 0, j
				for ; k < len(t); k++ {
					if t[k] == '(' {
						depth++
					} else if t[k] == ')' {
						depth--
						if depth == 0 {
							break
						}
					}
				}
				if k < len(t) {
					t = t[:i] + t[j+1:k] + t[k+1:]
					break
				}
			}
			n := strings.Index(t[i+3:], "nth")
			if n < 0 {
				i = -1
			} else {
				i = i + 3 + n
			}
		}
		if i < 0 {
			return t
		}
	}
}
