package rules

import (
	"fmt"
	"go/ast"
	"go/parser"
	"go/token"
	"go/types"
	"sort"
	"strings"

	"golang.org/x/tools/go/packages"

	"pigeonverif/internal/load"
)

// No state survives a build (C19-e). What pigeon writes is a function of the grammar text and the flags only if no
// generation step leaves something behind that a later build in the same process reads: a cache of rendered text, a
// counter, a memo of analysis results kept in a package-level variable. The rule: no function of packages ast and
// builder (test files aside) stores into a package-level variable of its package - an assignment, an element or field
// store, ++/--, or a call of a storing method (Store, LoadOrStore, Swap, CompareAndSwap, Put, Add, Delete, Clear) on it.

func packageLevelStores(p *packages.Package, files []*ast.File) []string {
	var out []string
	isPkgVar := func(e ast.Expr) (string, bool) {
		for {
			switch x := e.(type) {
			case *ast.ParenExpr:
				e = x.X
				continue
			case *ast.IndexExpr:
				e = x.X
				continue
			case *ast.SelectorExpr:
				// pkgvar.field … (not otherpkg.Name)
				if id, ok := x.X.(*ast.Ident); ok {
					if _, isPkg := p.TypesInfo.Uses[id].(*types.PkgName); isPkg {
						return "", false
					}
				}
				e = x.X
				continue
			case *ast.StarExpr:
				e = x.X
				continue
			}
			break
		}
		id, ok := e.(*ast.Ident)
		if !ok {
			return "", false
		}
		v, ok := p.TypesInfo.Uses[id].(*types.Var)
		if !ok || v.Parent() != p.Types.Scope() {
			return "", false
		}
		return id.Name, true
	}
	storing := map[string]bool{"Store": true, "LoadOrStore": true, "Swap": true, "CompareAndSwap": true, "Put": true, "Add": true, "Delete": true, "Clear": true, "LoadAndDelete": true}
	for _, f := range files {
		for _, d := range f.Decls {
			fd, ok := d.(*ast.FuncDecl)
			if !ok || fd.Body == nil {
				continue
			}
			ast.Inspect(fd.Body, func(n ast.Node) bool {
				switch x := n.(type) {
				case *ast.AssignStmt:
					if x.Tok == token.DEFINE {
						return true
					}
					for _, l := range x.Lhs {
						if name, ok := isPkgVar(l); ok {
							out = append(out, fmt.Sprintf("%s stores into the package-level variable %s (%s)", fd.Name.Name, name, nospace(l)))
						}
					}
				case *ast.IncDecStmt:
					if name, ok := isPkgVar(x.X); ok {
						out = append(out, fmt.Sprintf("%s steps the package-level variable %s", fd.Name.Name, name))
					}
				case *ast.CallExpr:
					if se, ok := x.Fun.(*ast.SelectorExpr); ok && storing[se.Sel.Name] {
						if name, ok := isPkgVar(se.X); ok {
							out = append(out, fmt.Sprintf("%s calls %s.%s: the package-level %s keeps what this build put there", fd.Name.Name, name, se.Sel.Name, name))
						}
					}
				}
				return true
			})
		}
	}
	sort.Strings(out)
	return out
}

const genStateControlSrc = `package p
import "sync"
var rendered sync.Map
var builds int
func render(key string) string {
	if v, ok := rendered.Load(key); ok { return v.(string) }
	builds++
	rendered.Store(key, key)
	return key
}
func pure(key string) string { x := key; x += "!"; return x }`

func c19NoStateAcrossBuilds(c *Ctx, g *load.G) {
	r := c.R
	// control: the rule must report the cache and the counter of the example and nothing in `pure`
	ctrl := false
	{
		fset := token.NewFileSet()
		f, err := parser.ParseFile(fset, "control.go", genStateControlSrc, 0)
		if err == nil {
			conf := types.Config{Importer: nil, Error: func(error) {}}
			info := &types.Info{Uses: map[*ast.Ident]types.Object{}, Defs: map[*ast.Ident]types.Object{}, Types: map[ast.Expr]types.TypeAndValue{}}
			pkg, _ := conf.Check("p", fset, []*ast.File{f}, info)
			if pkg != nil {
				got := packageLevelStores(&packages.Package{Types: pkg, TypesInfo: info}, []*ast.File{f})
				ctrl = len(got) == 2
			}
		}
	}
	if !ctrl {
		r.Fatal("C19-e: the package-level-store rule does not behave on its control example")
	}
	var bad []string
	nFuncs := 0
	for _, sfx := range []string{"ast", "builder"} {
		p := g.Pkg(sfx)
		if p == nil {
			continue
		}
		var files []*ast.File
		for i, f := range p.Syntax {
			if strings.HasSuffix(p.CompiledGoFiles[i], "_test.go") {
				continue
			}
			files = append(files, f)
			for _, d := range f.Decls {
				if fd, ok := d.(*ast.FuncDecl); ok && fd.Body != nil {
					nFuncs++
				}
			}
		}
		for _, s := range packageLevelStores(p, files) {
			bad = append(bad, sfx+": "+s)
		}
	}
	r.Analysed["functions_scanned_for_package_level_stores"] = nFuncs
	r.Check(len(bad) == 0 && nFuncs >= 100, "C19-e", "G:no-state-survives-a-build", "", "ast/, builder/", fmt.Sprintf("%d functions of ast and builder, none stores into a package-level variable (control example reported as expected)", nFuncs),
		strings.Join(bad, "; ")+": what a later build in the same process writes then depends on the builds before it, not on its grammar and flags alone")
}
