package rules

import (
	"go/ast"
	"go/token"
	"go/types"

	"pigeonverif/internal/variants"
)

// fieldWrite is one syntactic store to a struct field (assignment, op-assignment, ++/--, or address-of).
type fieldWrite struct {
	Func  string
	Owner string // named struct type that declares the field
	Field string
	Base  string // named type of the selector's operand (after dereference)
	Pos   token.Pos
	Text  string
	Kind  string // assign | incdec | addr | elem (store into element of a slice/map held in the field)
}

// fieldOwners maps every field object of the package's named struct types to the type's name.
func fieldOwners(pkg *types.Package) map[*types.Var]string {
	out := map[*types.Var]string{}
	for _, n := range pkg.Scope().Names() {
		tn, ok := pkg.Scope().Lookup(n).(*types.TypeName)
		if !ok {
			continue
		}
		st, ok := tn.Type().Underlying().(*types.Struct)
		if !ok {
			continue
		}
		for i := 0; i < st.NumFields(); i++ {
			out[st.Field(i)] = n
		}
	}
	return out
}

func namedOf(t types.Type) string {
	if p, ok := t.(*types.Pointer); ok {
		t = p.Elem()
	}
	if n, ok := t.(*types.Named); ok {
		return n.Obj().Name()
	}
	return ""
}

// fieldWrites lists all field stores in the functions of the variant file (not the skeleton).
func fieldWrites(v *variants.Variant) []fieldWrite {
	owners := fieldOwners(v.Pkg)
	var out []fieldWrite
	for _, fd := range v.Funcs() {
		if fd.Body == nil {
			continue
		}
		fn := fd.Name.Name
		record := func(l ast.Expr, kind string) {
			// peel index/slice/star/paren to reach the selector that names the field holding the storage
			e := l
			k := kind
			for {
				switch x := e.(type) {
				case *ast.ParenExpr:
					e = x.X
					continue
				case *ast.IndexExpr:
					e = x.X
					k = "elem"
					continue
				case *ast.SliceExpr:
					e = x.X
					continue
				case *ast.StarExpr:
					e = x.X
					k = "elem"
					continue
				}
				break
			}
			sel, ok := e.(*ast.SelectorExpr)
			if !ok {
				return
			}
			// a store into a field of a local struct VALUE (a parameter or variable holding a copy: `pt.offset += pt.w`
			// in a function that takes and returns a savepoint) changes that copy only; what counts is where the copy is
			// stored afterwards (a whole-struct assignment, recorded for its own target)
			{
				root := ast.Expr(sel)
				viaPointer := false
				for {
					if se, ok := root.(*ast.SelectorExpr); ok {
						if _, isPtr := v.Info.TypeOf(se.X).(*types.Pointer); isPtr {
							viaPointer = true
						}
						root = se.X
						continue
					}
					if pe, ok := root.(*ast.ParenExpr); ok {
						root = pe.X
						continue
					}
					break
				}
				if id, ok := root.(*ast.Ident); ok && !viaPointer {
					if obj, ok := v.Info.ObjectOf(id).(*types.Var); ok && !obj.IsField() && obj.Parent() != nil && obj.Parent() != v.Pkg.Scope() {
						if _, isStruct := obj.Type().Underlying().(*types.Struct); isStruct {
							return
						}
					}
				}
			}
			// record the whole chain: p.pt.offset writes position.offset, and touches savepoint (via pt)
			for sel != nil {
				s := v.Info.Selections[sel]
				if s == nil || s.Kind() != types.FieldVal {
					break
				}
				fv, _ := s.Obj().(*types.Var)
				w := fieldWrite{Func: fn, Owner: owners[fv], Field: sel.Sel.Name, Base: namedOf(v.Info.TypeOf(sel.X)), Pos: l.Pos(), Text: nospace(l), Kind: k}
				out = append(out, w)
				next, ok := sel.X.(*ast.SelectorExpr)
				if !ok {
					break
				}
				// writing a field of a struct VALUE stored in a field also modifies the outer field
				if _, isPtr := v.Info.TypeOf(sel.X).(*types.Pointer); isPtr {
					break
				}
				sel = next
				k = "elem"
			}
		}
		ast.Inspect(fd.Body, func(n ast.Node) bool {
			switch x := n.(type) {
			case *ast.AssignStmt:
				if x.Tok == token.DEFINE {
					return true
				}
				for _, l := range x.Lhs {
					record(l, "assign")
				}
			case *ast.IncDecStmt:
				record(x.X, "incdec")
			case *ast.UnaryExpr:
				if x.Op == token.AND {
					if _, isLit := x.X.(*ast.CompositeLit); !isLit {
						record(x.X, "addr")
					}
				}
			case *ast.RangeStmt:
				if x.Tok == token.ASSIGN {
					if x.Key != nil {
						record(x.Key, "assign")
					}
					if x.Value != nil {
						record(x.Value, "assign")
					}
				}
			}
			return true
		})
	}
	return out
}

// compositeLitsOf lists composite literals of the named type in the variant's functions, by function name.
func compositeLitsOf(v *variants.Variant, typeName string) map[string]int {
	out := map[string]int{}
	for _, fd := range v.Funcs() {
		if fd.Body == nil {
			continue
		}
		ast.Inspect(fd.Body, func(n ast.Node) bool {
			if cl, ok := n.(*ast.CompositeLit); ok {
				if namedOf(v.Info.TypeOf(cl)) == typeName {
					out[fd.Name.Name]++
				}
			}
			return true
		})
	}
	return out
}
