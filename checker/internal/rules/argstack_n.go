package rules

import (
	"go/ast"
	"regexp"
	"strings"
)

// The scope-stack primitives of the builder on normalised paths (C02-d, C04-j).
//
//	pushArgsSet  every path appends one empty scope to the stack;
//	popArgsSet   every path removes exactly the top scope;
//	addArg       a nil label does nothing; a present label is appended to the top scope, on every path.
//
// A path that establishes "the stack is empty" is exempt: there the statements the primitives consist of would panic
// (index -1, slice bound -1), so a defensive early return changes nothing for any run that did not crash before.
func argStackModel(c *Ctx, fd *ast.FuncDecl) (paths []bpath, stack string, emptyFact func(bpath) bool) {
	b := recvName(fd)
	stack = b + ".argsStack"
	paths = c.builderNorm().normPaths(fd)
	n := "len(" + stack + ")"
	empties := map[string]bool{n + "==0": true, n + "<1": true, n + "<=0": true, n + "-1<0": true, "0==" + n: true, n + "-1==-1": true, n + "-1<=-1": true}
	emptyFact = func(p bpath) bool {
		for _, f := range p.facts() {
			if empties[f] {
				return true
			}
		}
		return false
	}
	return
}

// argStackProblems returns what is wrong with the three primitives (key: function name).
func argStackProblems(c *Ctx, get func(recv, name string) *ast.FuncDecl) map[string][]string {
	out := map[string][]string{}
	add := func(k, s string) { out[k] = append(out[k], s) }
	setOf := func(p bpath, prefix string) []string {
		var r []string
		for _, e := range p {
			if e.Kind == "set" && strings.HasPrefix(strings.TrimPrefix(e.Text, "set"), prefix) {
				r = append(r, strings.TrimPrefix(e.Text, "set"))
			}
		}
		return r
	}
	// ---- push
	if fd := get("builder", "pushArgsSet"); fd == nil {
		add("pushArgsSet", "function not found")
	} else {
		paths, st, _ := argStackModel(c, fd)
		emptyScope := regexp.MustCompile(`^` + regexp.QuoteMeta(st) + `=append\(` + regexp.QuoteMeta(st) + `,(nil|\[\]string\{\}|\[\]string\(nil\)|make\(\[\]string,0(,[^)]*)?\))\)$`)
		if len(paths) == 0 {
			add("pushArgsSet", "no path")
		}
		for _, p := range paths {
			sets := setOf(p, st)
			if len(sets) != 1 || !emptyScope.MatchString(sets[0]) {
				add("pushArgsSet", "a path stores "+strings.Join(sets, " ; ")+" where one empty scope is to be appended ["+strings.Join(p.facts(), " ")+"]")
			}
		}
	}
	// ---- pop
	if fd := get("builder", "popArgsSet"); fd == nil {
		add("popArgsSet", "function not found")
	} else {
		paths, st, empty := argStackModel(c, fd)
		want := st + "=" + st + "[:len(" + st + ")-1]"
		n := 0
		for _, p := range paths {
			if empty(p) {
				continue
			}
			n++
			sets := setOf(p, st)
			if len(sets) != 1 || sets[0] != want {
				add("popArgsSet", "a path with a non-empty stack stores ["+strings.Join(sets, " ; ")+"] where exactly the top scope is to be removed ["+strings.Join(p.facts(), " ")+"]")
			}
		}
		if n == 0 {
			add("popArgsSet", "no path removes a scope")
		}
	}
	// ---- addArg
	if fd := get("builder", "addArg"); fd == nil {
		add("addArg", "function not found")
	} else {
		paths, st, empty := argStackModel(c, fd)
		x := firstParam(fd)
		top := st + "[len(" + st + ")-1]"
		want := top + "=append(" + top + "," + x + ".Val)"
		n := 0
		for _, p := range paths {
			sets := setOf(p, st)
			if p.holds(x + "==nil") {
				if len(sets) > 0 {
					add("addArg", "a nil label is stored")
				}
				continue
			}
			if empty(p) {
				continue
			}
			n++
			// what the scope needs after the call is that it holds the name: appended, or found there already (a label
			// bound twice in one scope is one parameter of the generated method - C04-o)
			present := false
			inScope := map[string]bool{top + "[#1]==" + x + ".Val": true, x + ".Val==" + top + "[#1]": true, "slices.Contains(" + top + "," + x + ".Val)": true}
			notInScope := map[string]bool{top + "[#1]!=" + x + ".Val": true, x + ".Val!=" + top + "[#1]": true, "!slices.Contains(" + top + "," + x + ".Val)": true}
			for _, f := range p.facts() {
				f = minParens(f)
				if inScope[f] {
					present = true
					continue
				}
				if notInScope[f] {
					continue
				}
				if f != x+"!=nil" && !strings.HasPrefix(f, "len("+st+")") {
					add("addArg", "a label is registered only under `"+f+"`: a code block in the current scope does not receive a label that is in its scope")
				}
			}
			if present {
				if len(sets) != 0 {
					add("addArg", "a label the innermost scope already holds is stored again (stores: "+strings.Join(sets, " ; ")+")")
				}
				continue
			}
			if len(sets) != 1 || sets[0] != want {
				add("addArg", "a present label is not appended to the innermost scope (stores: "+strings.Join(sets, " ; ")+") ["+strings.Join(p.facts(), " ")+"]")
			}
		}
		if n == 0 {
			add("addArg", "no path registers a label")
		}
	}
	for k := range out {
		out[k] = uniq(out[k])
	}
	return out
}
