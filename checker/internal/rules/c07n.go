package rules

import (
	"fmt"
	"go/ast"
	"sort"
	"strings"

	"pigeonverif/internal/load"
)

// Per-kind obligations of the left-recursion analysis (C07-i, C07-n, C07-v), decided on the normalised paths of the
// three methods (nform.go) and on truth tables of the returned boolean (ttable.go), so that the verdict depends on
// what the methods compute from their operands and not on how they are written.

func (c *Ctx) astNorm() *nctx {
	if c.normAst == nil {
		g := c.G()
		c.normAst = newNctx(load.AllFuncDecls(g.Pkg("ast"))).withConsts(g.Pkg("ast").Syntax)
	}
	return c.normAst
}

// includesNames: on path p (events lo..hi) the names of operand text x are put into the container ret:
// a loop over x.InitialNames() whose body stores ret[<its key>].
func includesNames(p bpath, lo, hi int, x, ret string) bool {
	// the library copy of one set into another: maps.Copy(ret, x.InitialNames()), unconditional in the span
	for i := lo; i < hi; i++ {
		if p[i].Kind == "call" && p[i].Text == "maps.Copy("+ret+","+x+".InitialNames())" && len(p[lo:i].facts()) == 0 {
			return true
		}
	}
	for i := lo; i < hi; i++ {
		if p[i].Kind != "loop" || p[i].Text != "range "+x+".InitialNames()" {
			continue
		}
		depth := 0
		for j := i + 1; j < hi; j++ {
			switch p[j].Kind {
			case "loop":
				depth++
			case "endloop":
				if depth == 0 {
					j = hi
					continue
				}
				depth--
			case "set":
				if depth == 0 && strings.HasPrefix(p[j].Text, ret+"[#") && strings.HasSuffix(p[j].Text, "]=struct{}{}") {
					return true
				}
			case "+", "branch", "return":
				if depth == 0 {
					j = hi // a condition or an exit before the store: not unconditional
				}
			}
		}
	}
	return false
}

// loopSpan returns the index range (start, end) of the first loop with header text hdr on the path (-1 if none).
func loopSpan(p bpath, hdr string) (int, int) {
	for i := range p {
		if p[i].Kind == "loop" && p[i].Text == hdr {
			depth := 0
			for j := i + 1; j < len(p); j++ {
				switch p[j].Kind {
				case "loop":
					depth++
				case "endloop":
					if depth == 0 {
						return i, j
					}
					depth--
				}
			}
			return i, len(p) // left by return / break out of the analysed block
		}
	}
	return -1, -1
}

func c07InitialN(c *Ctx, g *load.G, kind string, fd *ast.FuncDecl, need []string) {
	r := c.R
	recv := recvName(fd)
	construct := "G.ast." + kind + ".InitialNames"
	w := g.Where(fd.Pos())
	if len(need) == 0 {
		r.Ok("C07-i", construct, "", w, "leaf kind: no operand evaluated at the start position")
		return
	}
	paths := c.astNorm().normPaths(fd)
	if len(paths) == 0 {
		r.Unk("C07-i", construct, "", w, "no paths (too many, or no body)")
		return
	}
	var bad, good []string
	for _, n := range need {
		switch {
		case strings.HasPrefix(n, "="):
			key := recv + "." + n[1:] + ".Val"
			ok := true
			for _, p := range paths {
				ret := lastReturn(p)
				in := strings.Contains(ret, key+":struct{}{}") || strings.Contains(ret, key+":{}")
				for _, e := range p {
					if e.Kind == "set" && e.Text == ret+"["+key+"]=struct{}{}" {
						in = true
					}
				}
				if !in {
					ok = false
				}
			}
			if ok {
				good = append(good, "contains the referenced name")
			} else {
				bad = append(bad, "the referenced rule name is not in the result")
			}
		case strings.HasPrefix(n, "*") || strings.HasPrefix(n, "<"):
			field := n[1:]
			elem := recv + "." + field + "[#1]"
			okAll, how := true, ""
			for _, p := range paths {
				ret := lastReturn(p)
				// the prefix computed first, then walked (`for _, item := range s.leadingExprs() { … }`)
				if strings.HasPrefix(n, "<") && prefixThenInclude(p, recv+"."+field, ret) {
					continue
				}
				lo, hi := loopSpan(p, "range "+recv+"."+field)
				if lo < 0 {
					okAll, how = false, "a path has no loop over "+field
					break
				}
				if !includesNames(p, lo+1, hi, elem, ret) {
					okAll, how = false, "the loop over "+field+" does not include every element's InitialNames unconditionally"
					break
				}
				// exits of the loop
				incl := -1
				for i := lo + 1; i < hi; i++ {
					if p[i].Kind == "loop" && p[i].Text == "range "+elem+".InitialNames()" {
						incl = i
					}
				}
				for i := lo + 1; i < hi; i++ {
					if p[i].Kind != "branch" && p[i].Kind != "return" {
						continue
					}
					if strings.HasPrefix(n, "*") {
						okAll, how = false, "the loop over "+field+" can stop early ("+p[i].Kind+" "+p[i].Text+")"
						continue
					}
					// prefix rule: only `break` after the inclusion, under "this item is not nullable"
					justified := false
					for k := lo + 1; k < i; k++ {
						if p[k].Kind == "+" && p[k].Text == "!"+elem+".IsNullable()" {
							justified = true
						}
					}
					// leaving by `break` and leaving by returning the accumulated set are the same exit
					leaves := (p[i].Kind == "branch" && p[i].Text == "break") || (p[i].Kind == "return" && p[i].Text == ret && ret != "")
					if !(leaves && i > incl && justified) {
						okAll, how = false, "the loop over "+field+" must include items up to and including the first non-nullable one; it leaves with "+p[i].Kind+" "+p[i].Text+" under ["+strings.Join(p[:i].facts(), " ")+"]"
					}
				}
			}
			if okAll {
				if strings.HasPrefix(n, "*") {
					good = append(good, "all "+field)
				} else {
					good = append(good, "prefix of "+field+" through the first non-nullable item")
				}
			} else {
				bad = append(bad, how)
			}
		default:
			x := recv + "." + n
			ok := true
			for _, p := range paths {
				ret := lastReturn(p)
				if ret == x+".InitialNames()" || includesNames(p, 0, len(p), x, ret) {
					continue
				}
				ok = false
			}
			if ok {
				good = append(good, n)
			} else {
				bad = append(bad, "operand "+n+" is evaluated at the start position but its InitialNames are not included in the result")
			}
		}
	}
	if len(bad) > 0 {
		r.Bad("C07-i", construct, "", w, strings.Join(bad, "; "))
	} else {
		r.Ok("C07-i", construct, "", w, strings.Join(good, "; "))
	}
}

func c07NullableN(c *Ctx, g *load.G, kind string, nv, isn *ast.FuncDecl, want string) {
	r := c.R
	recv := recvName(nv)
	recvI := recvName(isn)
	rulesP := firstParam(nv)
	construct := "G.ast." + kind + ".Nullable"
	w := g.Where(nv.Pos())
	nc := c.astNorm()
	paths := nc.normPaths(nv)
	ipaths := nc.normPaths(isn)
	if len(paths) == 0 || len(ipaths) == 0 {
		r.Unk("C07-n", construct, "", w, "no paths")
		return
	}
	var bad []string
	flag := recv + ".Nullable"
	hasField := false
	for _, p := range paths {
		if _, i := lastSet(p, flag); i >= 0 {
			hasField = true
		}
	}
	// the value a path returns, with `return recv.Nullable` read as the value last stored on the path
	resultOf := func(p bpath) string {
		rt := lastReturn(p)
		if rt == flag {
			if v, i := lastSet(p, flag); i >= 0 {
				return v
			}
		}
		return rt
	}
	visit := func(x string) string { return x + ".NullableVisit(" + rulesP + ")" }
	// (1) what NullableVisit computes
	var atoms []string
	var f func(s map[string]bool) bool
	constant := ""
	switch {
	case want == "true" || want == "false":
		constant = want
	case want == "child":
		atoms = []string{visit(recv + ".Expr")}
		f = func(s map[string]bool) bool { return s[atoms[0]] }
	case want == "falseOrChild":
		// constant false, or the operand's nullability: decided below from the table itself
		atoms = []string{visit(recv + ".Expr")}
	case strings.HasPrefix(want, "any:"):
		atoms = []string{visit(recv + "." + want[4:] + "[#1]")}
		f = func(s map[string]bool) bool { return s[atoms[0]] }
	case strings.HasPrefix(want, "all:"):
		atoms = []string{visit(recv + "." + want[4:] + "[#1]")}
		f = func(s map[string]bool) bool { return s[atoms[0]] }
	case strings.HasPrefix(want, "or:"):
		fs := strings.Split(want[3:], ",")
		atoms = []string{visit(recv + "." + fs[0]), visit(recv + "." + fs[1])}
		f = func(s map[string]bool) bool { return s[atoms[0]] || s[atoms[1]] }
	}
	switch {
	case constant != "":
		for _, p := range paths {
			if resultOf(p) != constant {
				bad = append(bad, "NullableVisit must return "+constant+" on every path (a path returns "+resultOf(p)+")")
			}
		}
		for _, p := range ipaths {
			if rt := lastReturn(p); !(rt == constant || rt == recvI+".Nullable" && hasField) {
				bad = append(bad, "IsNullable must return "+constant)
			}
		}
	case want == "falseOrChild":
		tt := truthTable(paths, atoms, resultOf, nil)
		okF := len(expectTable(tt, atoms, func(map[string]bool) bool { return false })) == 0
		okC := len(expectTable(tt, atoms, func(s map[string]bool) bool { return s[atoms[0]] })) == 0
		if !(okF || okC) || len(tt.Problems) > 0 {
			bad = append(bad, "expected constant false or the operand's nullability"+fmt.Sprint(tt.Problems))
		}
		for _, p := range ipaths {
			rt := lastReturn(p)
			if !(okF && rt == "false" || okC && rt == recvI+".Expr.IsNullable()" || hasField && rt == recvI+".Nullable") {
				bad = append(bad, "IsNullable returns "+rt+", which is not the value NullableVisit computes")
			}
		}
	case f != nil:
		// for the list kinds the only loop considered is the one over the operand list; a path that skips it
		// (an empty list) has no atom: any-of an empty list is false, all-of is true
		tt := truthTable(paths, atoms, resultOf, nil)
		bad = append(bad, tt.Problems...)
		for _, d := range expectTable(tt, atoms, f) {
			bad = append(bad, d)
		}
		if strings.HasPrefix(want, "any:") || strings.HasPrefix(want, "all:") {
			// the decision for an element that does not decide must be left to the following elements: the path with the
			// non-deciding answer continues to the end of the loop
			decides := strings.HasPrefix(want, "any:") // any-of: a true element decides; all-of: a false one
			for _, p := range paths {
				lo, hi := loopSpan(p, "range "+recv+"."+want[4:])
				if lo < 0 {
					bad = append(bad, "a path does not iterate over "+want[4:])
					continue
				}
				nonDeciding := "!" + atoms[0]
				if !decides {
					nonDeciding = atoms[0]
				}
				if p.holds(nonDeciding) && hi == len(p) {
					bad = append(bad, "an element that does not decide the result ends the loop")
				}
			}
		}
		for _, p := range ipaths {
			rt := lastReturn(p)
			okI := hasField && rt == recvI+".Nullable"
			if want == "child" && rt == recvI+".Expr.IsNullable()" {
				okI = true
			}
			if !okI {
				bad = append(bad, "IsNullable returns "+rt+", which is not the value NullableVisit stored")
			}
		}
	case want == "rule":
		// the referenced rule is looked up in the rule table; unknown: false; otherwise the rule's own visit
		look := rulesP + "[" + recv + ".Name.Val]"
		nFound, nMissing := 0, 0
		for _, p := range paths {
			rt := resultOf(p)
			switch {
			case factMentions(p, look, true):
				nFound++
				if !(strings.HasSuffix(rt, ".NullableVisit("+rulesP+")") && strings.Contains(rt, look)) {
					bad = append(bad, "a defined rule's nullability is "+rt+", expected the referenced rule's NullableVisit")
				}
			case factMentions(p, look, false):
				nMissing++
				if rt != "false" {
					bad = append(bad, "an undefined reference is "+rt+", expected false")
				}
			default:
				bad = append(bad, "a path does not test whether the referenced rule exists ["+strings.Join(p.facts(), " ")+"]")
			}
		}
		if nFound == 0 || nMissing == 0 {
			bad = append(bad, "expected lookup of the referenced rule, false when unknown, the rule's NullableVisit otherwise")
		}
		for _, p := range ipaths {
			if rt := lastReturn(p); rt != recvI+".Nullable" {
				bad = append(bad, "IsNullable returns "+rt)
			}
		}
	case want == "emptyLit":
		okNV, okI := true, true
		for _, p := range paths {
			rt := resultOf(p)
			if !(emptyTest(canonText(rt, false), recv+".Val") || rt == recv+".IsNullable()") {
				okNV = false
			}
		}
		for _, p := range ipaths {
			if !emptyTest(canonText(lastReturn(p), false), recvI+".Val") {
				okI = false
			}
		}
		if !okNV || !okI {
			bad = append(bad, "a literal is nullable iff its value is empty")
		}
	case want == "emptyClass":
		okFalse, okEmpty := true, true
		for _, p := range append(append([]bpath{}, paths...), ipaths...) {
			rt := resultOf(p)
			if rt != "false" {
				okFalse = false
			}
			rcv := recv
			cj := sortedCopy(splitTop(canonText(strings.ReplaceAll(rt, recvI+".", rcv+"."), false), "&&"))
			wantCj := sortedCopy([]string{"len(" + rcv + ".Chars)==0", "len(" + rcv + ".Ranges)==0", "len(" + rcv + ".UnicodeClasses)==0"})
			// the same as one test of the total: lengths are non-negative, so their sum is zero iff each is
			sumForm := false
			if len(cj) == 1 && strings.HasSuffix(cj[0], "==0") {
				terms := sortedCopy(splitTop(strings.TrimSuffix(cj[0], "==0"), "+"))
				sumForm = strings.Join(terms, "+") == strings.Join(sortedCopy([]string{"len(" + rcv + ".Chars)", "len(" + rcv + ".Ranges)", "len(" + rcv + ".UnicodeClasses)"}), "+")
			}
			if !(strings.Join(cj, "&&") == strings.Join(wantCj, "&&") || sumForm || rt == recv+".IsNullable()") {
				okEmpty = false
			}
		}
		if !okFalse && !okEmpty {
			bad = append(bad, "a class is never nullable (or only when it has no members)")
		}
	}
	// (2) the stored flag equals the returned value on every path that returns a computed value
	if hasField {
		for _, p := range paths {
			rt := lastReturn(p)
			v, i := lastSet(p, flag)
			switch {
			case i < 0:
				bad = append(bad, "the stored Nullable flag is not updated on the path ["+strings.Join(p.facts(), " ")+"] (IsNullable would disagree with NullableVisit)")
			case rt == flag || rt == v:
			default:
				// both are expressions over the atoms: compare their values under the path's facts
				same := true
				n := len(atoms)
				for mask := 0; mask < 1<<n; mask++ {
					sigma := map[string]bool{}
					for k, a := range atoms {
						sigma[a] = mask&(1<<k) != 0
					}
					cons := true
					for _, fct := range p.facts() {
						if val, ok := evalBool(fct, atoms, sigma); ok && !val {
							cons = false
						}
					}
					if !cons {
						continue
					}
					a, ok1 := evalBool(rt, atoms, sigma)
					b, ok2 := evalBool(v, atoms, sigma)
					if !ok1 || !ok2 || a != b {
						same = false
					}
				}
				if !same {
					bad = append(bad, "the stored Nullable flag ("+v+") is not kept equal to the returned value ("+rt+")")
				}
			}
		}
	}
	bad = uniq(bad)
	if len(bad) > 0 {
		r.Bad("C07-n", construct, "", w, strings.Join(bad, "; "))
	} else {
		r.Ok("C07-n", construct, "", w, "matches table entry "+want)
	}
}

// factMentions: the path has a fact about the presence (comma-ok result) of the lookup `look`, positive or negative.
// The comma-ok flag of `v, ok := m[k]` is rendered ok(m[k]) by the normal form.
func factMentions(p bpath, look string, positive bool) bool {
	for _, f := range p.facts() {
		if positive && f == "ok("+look+")" {
			return true
		}
		if !positive && f == "!ok("+look+")" {
			return true
		}
	}
	return false
}

func c07VisitsN(c *Ctx, g *load.G, kind string, nv *ast.FuncDecl, need []string) {
	r := c.R
	recv := recvName(nv)
	rulesP := firstParam(nv)
	construct := "G.ast." + kind + ".NullableVisit:visits-operands"
	w := g.Where(nv.Pos())
	paths := c.astNorm().normPaths(nv)
	var bad []string
	n := 0
	for _, f := range need {
		switch {
		case strings.HasPrefix(f, "="), strings.HasPrefix(f, "<"):
			continue // a sequence only needs the items up to the first non-nullable one, which its loop visits in order
		case strings.HasPrefix(f, "*"):
			n++
			field := f[1:]
			call := recv + "." + field + "[#1].NullableVisit(" + rulesP + ")"
			okAll := len(paths) > 0
			for _, p := range paths {
				lo, hi := loopSpan(p, "range "+recv+"."+field)
				if lo < 0 {
					okAll = false
					continue
				}
				visited := false
				for i := lo + 1; i < hi && i < len(p); i++ {
					if p[i].Kind == "call" && p[i].Text == call {
						visited = true
					}
					if p[i].Kind == "branch" || p[i].Kind == "return" {
						okAll = false // leaves the loop before the remaining elements are visited
					}
				}
				if !visited {
					okAll = false
				}
			}
			if !okAll {
				bad = append(bad, "the loop over "+field+" stops at the first nullable element: the remaining elements are never visited, their stored Nullable flags stay false, and InitialNames of a sequence inside them stops too early (A <- &'q' / B A; B <- 'y'? is accepted)")
			}
		default:
			n++
			call := recv + "." + f + ".NullableVisit(" + rulesP + ")"
			okAll := len(paths) > 0
			for _, p := range paths {
				visited := false
				for _, e := range p {
					if e.Kind == "call" && e.Text == call {
						visited = true
					}
				}
				if !visited {
					okAll = false
				}
			}
			if !okAll {
				bad = append(bad, "operand "+f+" is not visited on every path: the Nullable flags stored inside it stay false, so InitialNames of a sequence inside it stops too early (A <- (B A)? \"x\"; B <- \"y\"? is accepted)")
			}
		}
	}
	if n == 0 {
		return
	}
	sort.Strings(bad)
	if len(bad) > 0 {
		r.Bad("C07-v", construct, "", w, strings.Join(bad, "; "))
	} else {
		r.Ok("C07-v", construct, "", w, fmt.Sprintf("%d operands visited on every path", n))
	}
}

// everyRuleVisited (C07-c): the nullable pass visits every rule. NullableVisit follows references only as far as the
// answer needs (a sequence stops at its first non-nullable item, a choice at its first nullable alternative), so a walk
// from the entry rule leaves rules unvisited whose references then keep Nullable == false: the first-position graph
// loses the edges behind them and left recursion through a nullable rule reference goes undetected.
func everyRuleVisited(c *Ctx, g *load.G, rule string) {
	r := c.R
	bp := g.Pkg("builder")
	fd := load.FuncDecl(bp, "", "ComputeNullables")
	if fd == nil {
		r.Fatal("anchor builder.ComputeNullables not found")
		return
	}
	P := firstParam(fd)
	paths := c.pkgNorm("builder").without("NullableVisit").normPaths(fd)
	var bad []string
	ok := false
	for _, p := range paths {
		// key lists: a numbered local filled only with keys of P
		keysOf := map[string]bool{"slices.Sorted(maps.Keys(" + P + "))": true, "slices.Collect(maps.Keys(" + P + "))": true}
		for i, e := range p {
			if e.Kind == "loop" && e.Text == "range "+P {
				_, hi := loopSpan(p[i:], e.Text)
				for _, b := range p[i : i+hi] {
					if b.Kind == "set" {
						if k := strings.Index(b.Text, "=append("); k > 0 && strings.HasSuffix(b.Text, ",#1)") {
							keysOf[b.Text[:k]] = true
						}
					}
				}
			}
		}
		for i, e := range p {
			if e.Kind != "loop" || !strings.HasPrefix(e.Text, "range ") {
				continue
			}
			over := strings.TrimPrefix(e.Text, "range ")
			key := ""
			switch {
			case over == P:
				key = "#1"
			case keysOf[over]:
				key = over + "[#1]"
			default:
				continue
			}
			_, hi := loopSpan(p[i:], e.Text)
			want1, want2 := P+"["+key+"].NullableVisit("+P+")", P+"[#1]"
			_ = want2
			for _, b := range p[i+1 : i+hi] {
				if b.Kind == "+" {
					break // a visit under a condition does not reach every rule
				}
				if (b.Kind == "call" || b.Kind == "ccall") && b.Text == want1 {
					ok = true
				}
			}
		}
	}
	if !ok {
		bad = append(bad, "no loop over all rules (the rule map, or a list holding exactly its keys) calls NullableVisit on each of them unconditionally: rules that the walk from another rule does not reach keep unset Nullable flags on their references")
	}
	r.Check(len(bad) == 0, rule, "G.builder.ComputeNullables:every-rule-visited", "", g.Where(fd.Pos()), "NullableVisit is called on every rule of the grammar", strings.Join(bad, "; "))
}

// seqVisitStopsAtFirstNonNullable (C07-w): the dual of C07-v for sequences. InitialNames of a sequence reads its
// items up to and including the first non-nullable one; the items after it are not at the start position. A visit that
// goes on past that item follows rule references through consumed input, where the cycle cut of Rule.NullableVisit
// ("a rule that is being visited answers false") fires on ordinary, consuming recursion - and RuleRefExpr.NullableVisit
// stores that provisional answer in the reference (last writer wins). A reference to a genuinely nullable rule then
// reads non-nullable, InitialNames stops in front of it and the first-graph loses the edge behind it. The rule: on
// every path of SeqExpr.NullableVisit on which an item answered false, the loop over the items is left at once
// (return or break), before another item is visited.
func seqVisitStopsAtFirstNonNullable(c *Ctx, g *load.G, rule string) {
	r := c.R
	fd := load.FuncDecl(g.Pkg("ast"), "SeqExpr", "NullableVisit")
	if fd == nil || fd.Body == nil {
		r.Fatal("anchor ast.SeqExpr.NullableVisit not found")
		return
	}
	nFalse := 0
	var bad []string
	for _, p := range c.astNorm().without("NullableVisit").normPaths(fd) {
		depth := 0
		for i, e := range p {
			switch e.Kind {
			case "loop":
				depth++
			case "endloop":
				depth--
			}
			if e.Kind != "+" || depth == 0 || !strings.HasPrefix(e.Text, "!") || !strings.Contains(e.Text, ".NullableVisit(") {
				continue
			}
			nFalse++
			left := false
			for _, e2 := range p[i+1:] {
				if e2.Kind == "return" || e2.Kind == "branch" && strings.HasPrefix(e2.Text, "break") {
					left = true
					break
				}
				if e2.Kind == "endloop" || e2.Kind == "call" && strings.Contains(e2.Text, ".NullableVisit(") {
					break
				}
			}
			if !left {
				bad = append(bad, "after an item answered false the loop goes on to the next item ["+abbreviate(strings.Join(p.facts(), " "))+"]")
			}
		}
	}
	r.Check(len(bad) == 0 && nFalse >= 1, rule, "G.ast.SeqExpr.NullableVisit:stops-at-the-first-non-nullable-item", "", g.Where(fd.Pos()),
		fmt.Sprintf("%d path(s) on which an item is non-nullable, each leaving the loop at once", nFalse),
		strings.Join(uniq(bad), "; ")+": the items behind the first non-nullable one are not at the start position; visiting them walks through consuming recursion, where Rule.NullableVisit's cycle cut answers false and the reference keeps that provisional answer - a nullable rule then reads non-nullable and left recursion behind it goes undetected (`A <- Z A 'q' / 'y'; Z <- 'a' A / \"\"` is accepted)")
}

// prefixThenInclude: the path first scouts the list F for its first non-nullable item and then includes the
// InitialNames of every item of the prefix through that item - `range F[:#1+1]` entered from inside the scouting loop
// under `!F[#1].IsNullable()` - or, when the scouting loop found every item nullable, of every item of F.
func prefixThenInclude(p bpath, F, ret string) bool {
	var loops []int
	for i, e := range p {
		if e.Kind == "loop" && (e.Text == "range "+F || e.Text == "range "+F+"[:#1+1]") {
			loops = append(loops, i)
		}
	}
	if len(loops) != 2 || p[loops[0]].Text != "range "+F {
		return false
	}
	scout, incl := loops[0], loops[1]
	elem := F + "[#1]"
	closed, nonNullable := false, false
	for i := scout + 1; i < incl; i++ {
		e := p[i]
		switch e.Kind {
		case "endloop":
			closed = true
		case "call":
			if e.Text != elem+".IsNullable()" {
				return false
			}
		case "+":
			switch e.Text {
			case "!" + elem + ".IsNullable()":
				nonNullable = true
			case elem + ".IsNullable()":
			default:
				return false
			}
		case "set":
			// the prefix kept in a local
			if !strings.HasSuffix(e.Text, "="+F+"[:#1+1]") && !strings.HasSuffix(e.Text, "="+F) {
				return false
			}
		default:
			return false
		}
	}
	elem2 := elem
	if p[incl].Text == "range "+F+"[:#1+1]" {
		if closed || !nonNullable {
			return false
		}
		elem2 = F + "[:#1+1][#1]"
	} else if !closed || nonNullable {
		return false
	}
	// the inclusion loop: every item, unconditionally, no early exit
	end := len(p)
	depth := 0
	for i := incl + 1; i < len(p); i++ {
		if p[i].Kind == "loop" {
			depth++
		}
		if p[i].Kind == "endloop" {
			if depth == 0 {
				end = i
				break
			}
			depth--
		}
	}
	for i := incl + 1; i < end; i++ {
		if p[i].Kind == "branch" || p[i].Kind == "return" {
			return false
		}
	}
	return includesNames(p, incl+1, end, elem2, ret)
}
