package rules

import (
	"fmt"
	"go/ast"
	"go/token"
	"go/types"
	"golang.org/x/tools/go/packages"
	"regexp"
	"strings"

	"pigeonverif/internal/load"
)

// Crash sites are justified by what they are, not by where they stand: a function split into phases or renamed keeps
// its justification, a new site of a kind nobody has vouched for is reported.

// sccDerefs decides, on the normalised paths of ComputeLeftRecursives (helpers expanded), that every dereference of a
// looked-up rule `rules[K].f` uses a key that is a defined rule: K ranges over a strongly connected component with
// more than one vertex (every member then has an out-edge, and only defined rules have out-edges in the first-graph),
// K is the leader found in such a component, K passed the self-loop test graph[K][K], or K ranges over rules itself.
// It returns the functions whose bodies were covered (the function and the helpers expanded into it).
func (c *Ctx) sccDerefs() (covered map[*ast.FuncDecl]bool, why string) {
	if c.sccDone {
		return c.sccCovered, c.sccWhy
	}
	c.sccDone = true
	g := c.G()
	bp := g.Pkg("builder")
	fd := load.FuncDecl(bp, "", "ComputeLeftRecursives")
	if fd == nil {
		c.sccWhy = "ComputeLeftRecursives not found"
		return nil, c.sccWhy
	}
	rules := firstParam(fd)
	nc := c.pkgNorm("builder").without("StronglyConnectedComponents", "findLeader", "FindCyclesInSCC")
	nc.expanded = map[*ast.FuncDecl]bool{}
	paths := nc.normPaths(fd)
	if len(paths) == 0 {
		c.sccWhy = "no path of ComputeLeftRecursives could be read"
		return nil, c.sccWhy
	}
	isSCC := func(s string) bool {
		return strings.HasPrefix(s, "StronglyConnectedComponents(") && regexp.MustCompile(`\)\[#\d+\]$`).MatchString(s)
	}
	var bad []string
	n := 0
	for _, p := range paths {
		loopAt := map[int]string{} // depth -> ranged expression of the most recent loop at that depth
		depth := 0
		facts := map[string]bool{}
		for _, e := range p {
			switch e.Kind {
			case "loop":
				depth++
				loopAt[depth] = strings.TrimPrefix(e.Text, "range ")
				continue
			case "endloop":
				depth--
				continue
			case "+":
				facts[e.Text] = true
			}
			for _, k := range indexKeys(e.Text, rules) {
				n++
				ok := false
				switch {
				case regexp.MustCompile(`^#\d+$`).MatchString(k):
					var d int
					fmt.Sscanf(k, "#%d", &d)
					s := loopAt[d]
					ok = s == rules || (isSCC(s) && facts["len("+s+")>1"])
				case strings.HasPrefix(k, "res0(findLeader("):
					args := splitTop(strings.TrimSuffix(strings.TrimPrefix(k, "res0(findLeader("), "))"), ",")
					ok = len(args) == 2 && isSCC(args[1]) && facts["len("+args[1]+")>1"]
				}
				if !ok {
					for f := range facts {
						if strings.HasPrefix(f, "ok(") && strings.HasSuffix(f, "["+k+"]["+k+"])") {
							ok = true // the self-loop test: k has an out-edge in the first-graph
						}
					}
				}
				if !ok {
					bad = append(bad, "`"+rules+"["+k+"]` is dereferenced in `"+abbreviate(e.Text)+"` with no reason why the key is a defined rule")
				}
			}
		}
	}
	if n == 0 {
		bad = append(bad, "no dereference of a looked-up rule was found on the paths")
	}
	c.sccCovered = nc.expanded
	c.sccCovered[fd] = true
	c.sccWhy = strings.Join(uniq(bad), "; ")
	return c.sccCovered, c.sccWhy
}

// indexKeys lists the keys K of the dereferences `m[K].` in text.
func indexKeys(text, m string) []string {
	var out []string
	for i := 0; i+len(m) < len(text); i++ {
		if !strings.HasPrefix(text[i:], m+"[") {
			continue
		}
		if i > 0 && (isIdentByte(text[i-1]) || text[i-1] == '.') {
			continue
		}
		depth := 0
		for j := i + len(m); j < len(text); j++ {
			switch text[j] {
			case '[':
				depth++
			case ']':
				depth--
				if depth == 0 {
					if j+1 < len(text) && text[j+1] == '.' {
						out = append(out, text[i+len(m)+1:j])
					}
					j = len(text)
				}
			}
		}
	}
	return out
}

func isIdentByte(b byte) bool {
	return b == '_' || b == '$' || (b >= '0' && b <= '9') || (b >= 'a' && b <= 'z') || (b >= 'A' && b <= 'Z')
}

// semanticCrashReason vouches for a crash site by its construction. side names the machine-checked condition the
// reason rests on ("" = none); class is the recogniser that matched (counted, so that a recogniser that stops
// matching anything is noticed).
func semanticCrashReason(c *Ctx, g *load.G, s crashSite) (class, reason, side string) {
	p := g.Pkg(s.Suffix)
	fd := s.Fd
	switch s.Kind {
	case "must":
		ce := s.Node.(*ast.CallExpr)
		if len(ce.Args) != 1 {
			return
		}
		switch callName(ce) {
		case "template.Must":
			if strings.Contains(nospace(ce.Args[0]), ".Parse(staticCode)") && s.Pkg == "builder" {
				return "template", "the template text is the constant staticCode, which parses and executes for all 32 parameter vectors", "variants"
			}
		case "regexp.MustCompile":
			if bl, ok := ce.Args[0].(*ast.BasicLit); ok && bl.Kind == token.STRING {
				if v, err := unquote(bl.Value); err == nil {
					if _, err := regexp.Compile(v); err == nil {
						return "regexp", "constant pattern; the checker compiled the same literal", ""
					}
				}
			}
		}
	case "panic":
		ce := s.Node.(*ast.CallExpr)
		if len(ce.Args) != 1 {
			return
		}
		arg := ce.Args[0]
		// the value whose non-nil test guards the panic
		if v := guardedErrVar(fd, ce); v != "" {
			if def := lastDefBefore(fd, v, ce.Pos()); def != nil {
				if dc, ok := def.(*ast.CallExpr); ok {
					switch callSel(dc) {
					case "Execute":
						if s.Pkg == "builder" {
							return "template-exec", "template execution error: excluded by the 32-variant instantiation", "variants"
						}
					case "WriteString", "WriteByte", "WriteRune", "Write":
						if se, ok := dc.Fun.(*ast.SelectorExpr); ok {
							t := p.TypesInfo.TypeOf(se.X)
							if t != nil && (strings.HasSuffix(t.String(), "bytes.Buffer") || strings.HasSuffix(t.String(), "strings.Builder")) {
								return "buffer-write", "writing to an in-memory buffer never returns an error", ""
							}
						}
					case "recover":
					}
					if id, ok := dc.Fun.(*ast.Ident); ok && id.Name == "recover" && nospace(arg) == v {
						return "repanic", "re-raises a panic that is already in flight (the value comes from recover() and is not nil); it cannot originate one", ""
					}
				}
			}
		}
		// default clause of an exhaustive kind switch in the tree walker
		if s.Pkg == "ast" && inDefaultOfTypeSwitch(fd, ce) {
			for _, h := range withHelpers(p, load.FuncDecl(p, "", "Walk")) {
				if h == fd {
					return "walk-default", "default of the kind switch: every expression kind and Grammar/Rule has a case", "walk-exhaustive"
				}
			}
		}
		if s.Pkg == "builder" {
			for _, h := range withHelpers(p, load.FuncDecl(p, "", "rangeTable")) {
				if h == fd {
					return "unicode-class", "class names reaching the builder were accepted by the front-end against unicodeClasses, every entry of which is a key of the unicode tables", "unicode-classes"
				}
			}
		}
	case "assert":
		ta := s.Node.(*ast.TypeAssertExpr)
		if s.Pkg == "main" && nospace(ta.Type) == "*ast.Grammar" {
			if id, ok := ta.X.(*ast.Ident); ok {
				if def := lastDefBefore(fd, id.Name, ta.Pos()); def != nil {
					if dc, ok := def.(*ast.CallExpr); ok && (callName(dc) == "ParseReader" || callName(dc) == "Parse" || callName(dc) == "ParseFile") {
						return "grammar-result", "the start rule Grammar's action returns *ast.Grammar and the parse returned no error", "grammar-action"
					}
				}
			}
		}
		if s.Pkg == "main" {
			// a helper of the grammar actions: every caller is a method of *current (runs under the parser's recover)
			called, outside := actionCallers(p, fd, map[*ast.FuncDecl]bool{})
			if called && outside == "" && fd.Recv == nil {
				return "action-helper", "called only from grammar actions, which run under the front-end parser's recover handler (C13-c)", ""
			}
		}
	case "mapderef":
		if s.Pkg == "builder" {
			covered, why := c.sccDerefs()
			if covered[fd] {
				if why != "" {
					return "scc-key", "", "!" + why
				}
				return "scc-key", "the key is a member of a strongly connected component of the first-graph with more than one vertex, its leader, a vertex with a self-loop, or a key of the rule map itself: only defined rules have out-edges", "firstgraph"
			}
		}
	}
	return
}

func unquote(s string) (string, error) {
	if strings.HasPrefix(s, "`") {
		return strings.Trim(s, "`"), nil
	}
	var out string
	_, err := fmt.Sscanf(s, "%q", &out)
	return out, err
}

// guardedErrVar: the panic call sits in the body of `if v != nil` (possibly with an init); returns v.
func guardedErrVar(fd *ast.FuncDecl, ce *ast.CallExpr) string {
	v := ""
	ast.Inspect(fd.Body, func(n ast.Node) bool {
		is, ok := n.(*ast.IfStmt)
		if !ok || !(is.Body.Pos() <= ce.Pos() && ce.End() <= is.Body.End()) {
			return true
		}
		for _, cj := range splitTop(canonCond(is.Cond, false), "&&") {
			if strings.HasSuffix(cj, "!=nil") && token.IsIdentifier(strings.TrimSuffix(cj, "!=nil")) {
				v = strings.TrimSuffix(cj, "!=nil")
			}
		}
		return true
	})
	return v
}

// lastDefBefore: the right-hand side of the last assignment to name before pos in fd (single-valued or the call of a
// multi-valued assignment).
func lastDefBefore(fd *ast.FuncDecl, name string, pos token.Pos) ast.Expr {
	var def ast.Expr
	ast.Inspect(fd.Body, func(n ast.Node) bool {
		as, ok := n.(*ast.AssignStmt)
		if !ok || as.Pos() >= pos {
			return true
		}
		for i, l := range as.Lhs {
			if id, ok := l.(*ast.Ident); ok && id.Name == name {
				if len(as.Rhs) == len(as.Lhs) {
					def = as.Rhs[i]
				} else if len(as.Rhs) == 1 {
					def = as.Rhs[0]
				}
			}
		}
		return true
	})
	return def
}

func inDefaultOfTypeSwitch(fd *ast.FuncDecl, ce *ast.CallExpr) bool {
	found := false
	ast.Inspect(fd.Body, func(n ast.Node) bool {
		ts, ok := n.(*ast.TypeSwitchStmt)
		if !ok {
			return true
		}
		for _, cl := range ts.Body.List {
			cc := cl.(*ast.CaseClause)
			if cc.List == nil && cc.Pos() <= ce.Pos() && ce.End() <= cc.End() {
				found = true
			}
		}
		return true
	})
	return found
}

var _ = types.Typ

// actionCallers: is the plain function fd called at all, and is every caller a grammar action (a method of *current)
// or a plain function that itself is called from grammar actions only (a helper written in the grammar's initializer)?
// outside names a caller that is neither.
func actionCallers(p *packages.Package, fd *ast.FuncDecl, busy map[*ast.FuncDecl]bool) (called bool, outside string) {
	if busy[fd] {
		return true, ""
	}
	busy[fd] = true
	defer delete(busy, fd)
	for _, f := range load.AllFuncDecls(p) {
		if f.Body == nil || f == fd {
			continue
		}
		for _, ce := range callsIn(f.Body) {
			id, ok := ce.Fun.(*ast.Ident)
			if !ok || p.TypesInfo.Uses[id] != p.TypesInfo.Defs[fd.Name] {
				continue
			}
			called = true
			switch {
			case load.RecvName(f) == "current":
			case f.Recv == nil:
				if c2, out2 := actionCallers(p, f, busy); !c2 || out2 != "" {
					outside = f.Name.Name
				}
			default:
				outside = f.Name.Name
			}
		}
	}
	return called, outside
}
