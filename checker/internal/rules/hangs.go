package rules

import (
	"fmt"
	"go/ast"
	"go/types"
	"strings"

	"pigeonverif/internal/load"
)

// Two structural causes of run times that grow exponentially with the size of the grammar (C13: the tool
// terminates on every grammar text; a run that takes days is not a termination in any useful sense, and both are
// reached by small grammars).
//
// C13-l  a recursive descent over the rule graph is cut by a record of *completed* visits, not only by a mark for the
//
//	rules currently on the stack: a visit function that clears, before returning, every flag its entry test
//	reads, re-descends into a rule once per path that reaches it (A0 <- A1 A1, A1 <- A2 A2, …: 2^n visits).
//
// C13-m  a search over the first-graph does not enumerate every simple path: a recursive closure that ranges over the
//
//	successors of a vertex and is cut only by membership in the path it carries enumerates all simple paths,
//	of which a grammar whose n rules all start with each other has more than n!.
func c13Hangs(c *Ctx, g *load.G) {
	r := c.R
	// ---- l
	ap := g.Pkg("ast")
	fd := load.FuncDecl(ap, "Rule", "NullableVisit")
	if fd == nil || fd.Body == nil {
		r.Fatal("anchor ast.Rule.NullableVisit not found")
	} else {
		rv := recvName(fd)
		// fields read by the early-exit tests at the top of the function
		entry := map[string]bool{}
		for _, st := range fd.Body.List {
			is, ok := st.(*ast.IfStmt)
			if !ok {
				break
			}
			endsInReturn := false
			if n := len(is.Body.List); n > 0 {
				_, endsInReturn = is.Body.List[n-1].(*ast.ReturnStmt)
			}
			if !endsInReturn {
				break
			}
			ast.Inspect(is.Cond, func(n ast.Node) bool {
				if se, ok := n.(*ast.SelectorExpr); ok && nospace(se.X) == rv {
					entry[se.Sel.Name] = true
				}
				return true
			})
		}
		// fields cleared (assigned false / zero) later on, outside those tests
		cleared := map[string]bool{}
		ast.Inspect(fd.Body, func(n ast.Node) bool {
			as, ok := n.(*ast.AssignStmt)
			if !ok {
				return true
			}
			for i, l := range as.Lhs {
				se, ok := l.(*ast.SelectorExpr)
				if !ok || nospace(se.X) != rv || i >= len(as.Rhs) {
					continue
				}
				if v := nospace(as.Rhs[i]); v == "false" || v == "0" || v == "nil" {
					cleared[se.Sel.Name] = true
				}
			}
			return true
		})
		persistent := false
		for f := range entry {
			if !cleared[f] {
				persistent = true
			}
		}
		r.Check(len(entry) > 0 && persistent, "C13-l", "G.ast.Rule.NullableVisit:completed-visits-are-remembered", "", g.Where(fd.Pos()), "an entry test reads a field that stays set after the visit",
			fmt.Sprintf("the entry test reads %v and the visit clears %v before it returns: nothing records that a rule has been dealt with, so a rule is re-descended once per path that reaches it (`A0 <- A1 A1 … A25 <- A26 A26; A26 <- 'x'?` takes 6 s, each further level doubles it)", keysOf(entry), keysOf(cleared)))
	}
	// ---- m
	bp := g.Pkg("builder")
	n := 0
	var bad []string
	for _, f := range load.AllFuncDecls(bp) {
		if f.Body == nil || strings.HasSuffix(g.Fset.Position(f.Pos()).Filename, "_test.go") {
			continue
		}
		ast.Inspect(f.Body, func(m ast.Node) bool {
			as, ok := m.(*ast.AssignStmt)
			if !ok || len(as.Lhs) != 1 || len(as.Rhs) != 1 {
				return true
			}
			fl, ok := as.Rhs[0].(*ast.FuncLit)
			if !ok {
				return true
			}
			name := nospace(as.Lhs[0])
			// recursion under a range over a map
			recursesUnderMapRange := false
			ast.Inspect(fl.Body, func(k ast.Node) bool {
				rs, ok := k.(*ast.RangeStmt)
				if !ok {
					return true
				}
				if t := bp.TypesInfo.TypeOf(rs.X); t != nil {
					if _, isMap := t.Underlying().(*types.Map); !isMap {
						return true
					}
				}
				for _, ce := range callsIn(rs.Body) {
					if nospace(ce.Fun) == name {
						recursesUnderMapRange = true
					}
				}
				return true
			})
			if !recursesUnderMapRange {
				return true
			}
			n++
			// what cuts the recursion: a set that outlives the call (a variable of the enclosing function that is
			// stored into and tested), or only the path parameter?
			params := map[string]bool{}
			for _, p := range fl.Type.Params.List {
				for _, nm := range p.Names {
					params[nm.Name] = true
				}
			}
			sharedMark := false
			ast.Inspect(fl.Body, func(k ast.Node) bool {
				as2, ok := k.(*ast.AssignStmt)
				if !ok {
					return true
				}
				for _, l := range as2.Lhs {
					if ix, ok := l.(*ast.IndexExpr); ok {
						if id, ok := ix.X.(*ast.Ident); ok && !params[id.Name] {
							if obj := bp.TypesInfo.Uses[id]; obj != nil && !(obj.Pos() >= fl.Pos() && obj.Pos() < fl.End()) {
								if _, isMap := obj.Type().Underlying().(*types.Map); isMap {
									sharedMark = true
								}
							}
						}
					}
				}
				return true
			})
			if !sharedMark {
				bad = append(bad, fmt.Sprintf("%s in %s (%s) recurses into every successor and is cut only by what it carries in its parameters", name, f.Name.Name, g.Where(fl.Pos())))
			}
			return true
		})
	}
	r.Analysed["recursive_graph_searches"] = n
	r.Check(len(bad) == 0 && n >= 1, "C13-m", "G.builder:graph-searches-mark-visited-vertices", "", "builder/", fmt.Sprintf("%d recursive searches over the first-graph, each marking the vertices it has finished in a set shared by all branches", n),
		strings.Join(bad, "; ")+": every simple path is enumerated (`B0 … B8`, each `Bi <- B0 / … / B8 / 'x'`, takes 2 s with -support-left-recursion; every further rule multiplies it by the number of rules)")
}
