package rules

import (
	"fmt"
	"go/ast"
	"regexp"
	"sort"
	"strconv"
	"strings"

	"pigeonverif/internal/load"
)

// Builder rules on normalised paths: what a writer emits on each path (node type, position, key/value pairs, list
// elements) and under which facts, independently of helpers, locals and control-structure form.

// builderNorm: enumerator for package builder. The write primitives, the recursive visitors and the scope-stack
// primitives are kept as calls (they are the vocabulary of the rules); every other helper of the package is expanded.
func (c *Ctx) builderNorm() *nctx {
	return c.pkgNorm("builder").without("writef", "writelnf", "writeln", "writeExpr", "writeExprCode", "writeRule", "writeRuleCode",
		"writeFunc", "funcName", "pushArgsSet", "popArgsSet", "addArg", "BasicLatinLookup", "rangeTable",
		"writeActionExprCode", "writeAndCodeExprCode", "writeNotCodeExprCode", "writeStateCodeExprCode",
		"writeInit", "writeGrammar", "writeStaticCode", "PrepareGrammar", "setOptions", "buildParser")
}

type emitEv struct {
	Kind   string // "fmt" (writef / writelnf), "ln" (writeln), "expr" (writeExpr), "loop", "endloop"
	Format string // unquoted format of a fmt emission
	Args   []string
	Facts  []string // facts assumed on the path before the emission
	Text   string
	Node   ast.Node
}

// emissions extracts the output-relevant events of a path.
func emissions(p bpath, b string) []emitEv {
	var out []emitEv
	var facts []string
	for _, e := range p {
		switch e.Kind {
		case "+":
			facts = append(facts, e.Text)
		case "loop", "endloop":
			out = append(out, emitEv{Kind: e.Kind, Text: e.Text, Node: e.Node, Facts: append([]string{}, facts...)})
		case "call":
			for _, prim := range []string{"writelnf", "writef", "writeln", "writeExpr"} {
				pre := b + "." + prim + "("
				if !strings.HasPrefix(e.Text, pre) {
					continue
				}
				args := splitTop(strings.TrimSuffix(strings.TrimPrefix(e.Text, pre), ")"), ",")
				ev := emitEv{Text: e.Text, Node: e.Node, Facts: append([]string{}, facts...)}
				switch prim {
				case "writeExpr":
					ev.Kind = "expr"
					ev.Args = args
				case "writeln":
					ev.Kind = "ln"
					ev.Args = args
					// a constant line written without formatting is the same emission as writelnf of that text
					if len(args) == 1 {
						if f, err := strconv.Unquote(args[0]); err == nil {
							ev.Kind = "fmt"
							ev.Format = strings.ReplaceAll(f, "%", "%%") + "\n"
							ev.Args = nil
						}
					}
				default:
					ev.Kind = "fmt"
					if len(args) > 0 {
						if f, err := strconv.Unquote(args[0]); err == nil {
							ev.Format = f
							if prim == "writelnf" {
								ev.Format += "\n"
							}
						} else {
							ev.Format = "?" + args[0]
						}
						ev.Args = args[1:]
						ev.Format, ev.Args = foldConstArgs(ev.Format, ev.Args)
					}
				}
				out = append(out, ev)
			}
		}
	}
	return out
}

type emittedKV struct {
	Key   string
	Val   string // rendered source of the value (for list keys: the element expression)
	Elem  bool   // an element of a list-valued key
	Facts []string
	Node  ast.Node
}

var keyFmtRe = regexp.MustCompile(`^\s*([A-Za-z]\w*):\s?(.*)$`)

// keyValues pairs emitted keys with the source expressions of their values along one path.
func keyValues(ems []emitEv) (nodeType string, kvs []emittedKV, closes int) {
	pending := "" // key whose value is still to come (scalar written by the next writeExpr, or an open list)
	pendingList := false
	for _, ev := range ems {
		switch ev.Kind {
		case "fmt":
			f := strings.TrimRight(ev.Format, "\n")
			ft := strings.TrimSpace(f)
			switch {
			case strings.HasPrefix(ft, "&") && strings.HasSuffix(ft, "{"):
				nodeType = ft
			case ft == "{":
				nodeType = "{"
			case ft == "},":
				if pendingList {
					pending, pendingList = "", false
				} else {
					closes++
				}
			default:
				if m := keyFmtRe.FindStringSubmatch(f); m != nil {
					key, rest := m[1], strings.TrimSpace(m[2])
					if key == "line" && strings.Contains(rest, "col: %d, offset: %d") {
						key = "pos" // a node that is nothing but its position
					}
					switch {
					case len(ev.Args) > 0:
						kvs = append(kvs, emittedKV{Key: key, Val: strings.Join(ev.Args, ","), Facts: ev.Facts, Node: ev.Node})
						pending, pendingList = "", false
					case rest == "":
						pending, pendingList = key, false
					case strings.HasSuffix(rest, "{"):
						pending, pendingList = key, true
					default:
						kvs = append(kvs, emittedKV{Key: key, Val: "const:" + rest, Facts: ev.Facts, Node: ev.Node})
					}
				} else if pending != "" && len(ev.Args) >= 1 {
					// an element of the open list: "%q," / "rangeTable(%q)," ...
					kvs = append(kvs, emittedKV{Key: pending, Val: ev.Args[0], Elem: true, Facts: ev.Facts, Node: ev.Node})
				}
			}
		case "expr":
			if pending != "" && len(ev.Args) == 1 {
				kvs = append(kvs, emittedKV{Key: pending, Val: ev.Args[0], Elem: pendingList, Facts: ev.Facts, Node: ev.Node})
				if !pendingList {
					pending = ""
				}
			}
		}
	}
	return
}

// presenceFact: a fact that only says whether something optional is there (or a builder flag is set).
func presenceFact(f, x string) bool {
	for _, pre := range []string{"len(" + x + ".", x + "."} {
		if strings.HasPrefix(f, pre) {
			switch {
			case strings.HasSuffix(f, ")>0"), strings.HasSuffix(f, ")==0"), strings.HasSuffix(f, "!=nil"), strings.HasSuffix(f, "==nil"), strings.HasSuffix(f, `!=""`), strings.HasSuffix(f, `==""`):
				return true
			}
		}
	}
	switch strings.TrimPrefix(f, "!") {
	case "b.haveLeftRecursion", "b.basicLatinLookupTable":
		return true
	}
	// a negated conjunction of presence tests
	if strings.Contains(f, "||") {
		for _, d := range splitTop(f, "||") {
			if !presenceFact(d, x) {
				return false
			}
		}
		return true
	}
	return false
}

// builderPairingN is the normal-form version of the alias-table rule (see emittedAlias).
func builderPairingN(c *Ctx, rule string, only ...string) {
	r := c.R
	g := c.G()
	if g == nil {
		return
	}
	bp := g.Pkg("builder")
	nc := c.builderNorm()
	var names []string
	for k := range emittedAlias {
		names = append(names, k)
	}
	sort.Strings(names)
	for _, fn := range names {
		if len(only) > 0 && !containsStr(only, fn) {
			continue
		}
		fd := load.FuncDecl(bp, "builder", fn)
		if fd == nil {
			r.Fatal("anchor builder.%s not found", fn)
			continue
		}
		b, x := recvName(fd), firstParam(fd)
		paths := nc.normPaths(fd)
		var bad []string
		nilCond := x + "==nil"
		if fn == "writeRule" {
			nilCond = x + "==nil||" + x + ".Name==nil"
		}
		wantType := "&" + strings.ToLower(fn[5:6]) + fn[6:] + "{"
		if fn == "writeRule" {
			wantType = "{"
		}
		type pathInfo struct {
			p    bpath
			keys map[string]bool
		}
		var live []pathInfo
		sawNil := false
		for _, p := range paths {
			ems := emissions(p, b)
			if p.holds(nilCond) {
				sawNil = true
				// nothing but the nil placeholder (rules: nothing at all)
				var got []string
				for _, ev := range ems {
					if ev.Kind == "fmt" || ev.Kind == "expr" || ev.Kind == "ln" {
						got = append(got, strings.TrimSpace(ev.Format)+strings.Join(ev.Args, ","))
					}
				}
				want := "nil,"
				if fn == "writeRule" {
					want = ""
				}
				if strings.Join(got, ";") != want {
					bad = append(bad, "a nil node emits ["+strings.Join(got, ";")+"], expected ["+want+"]")
				}
				continue
			}
			if !p.refutes(nilCond) && !(fn == "writeRule" && p.holds(x+"!=nil") && p.holds(x+".Name!=nil")) {
				bad = append(bad, "a path emits without the nil test ["+strings.Join(p.facts(), " ")+"]")
			}
			nodeType, kvs, closes := keyValues(ems)
			if nodeType != wantType {
				bad = append(bad, "emits node type "+nodeType+" instead of "+wantType)
			}
			if closes != 1 {
				bad = append(bad, fmt.Sprintf("the node literal is closed %d times", closes))
			}
			// facts: only the nil test, presence tests, builder flags and the case-folding flag may decide what is written
			for _, f := range p.facts() {
				t := strings.TrimPrefix(f, "!")
				okf := f == x+"!=nil" || f == x+".Name!=nil" || presenceFact(f, x) || t == x+".IgnoreCase" || strings.HasPrefix(t, x+".FuncIx") ||
					strings.HasPrefix(f, "#") || strings.HasPrefix(t, "unicode.Is")
				if !okf {
					bad = append(bad, "what is emitted depends on `"+f+"`, which is not a presence test of an emitted field, a builder flag or the case-folding flag")
				}
			}
			keys := map[string]bool{}
			posOK := false
			for _, kv := range kvs {
				keys[kv.Key] = true
				if kv.Key == "pos" {
					posOK = kv.Val == x+".Pos().Line,"+x+".Pos().Col,"+x+".Pos().Off"
					if !posOK {
						bad = append(bad, "position emitted as ("+kv.Val+"), expected (Line, Col, Off) of "+x+".Pos()")
					}
					continue
				}
				src, inTable := emittedAlias[fn][kv.Key]
				if !inTable {
					bad = append(bad, "key "+kv.Key+" is emitted but not in the alias table")
					continue
				}
				// polarity: a key is not written where its source is known to be absent (the guard of an optional field
				// must be the positive presence test)
				if strings.HasPrefix(src, ".") {
					parts := strings.Split(strings.TrimPrefix(src, "."), ".")
					prefix := x
					for _, part := range parts {
						prefix += "." + part
						for _, f := range kv.Facts {
							if f == prefix+"==nil" || f == "len("+prefix+")==0" || f == prefix+`==""` {
								bad = append(bad, "key "+kv.Key+" is written on a path where "+prefix+" is known to be absent or empty (`"+f+"`)")
							}
						}
					}
				}
				folded := containsStr(kv.Facts, x+".IgnoreCase")
				ok := false
				switch {
				case src == "~funcName(.FuncIx)":
					ok = kv.Val == b+".funcName("+x+".FuncIx)"
				case src == "~lower(.Val)":
					if folded {
						ok = kv.Val == "strings.ToLower("+x+".Val)"
					} else {
						ok = kv.Val == x+".Val"
					}
				case src == "~quote(.Val)":
					if folded {
						ok = kv.Val == "strconv.Quote("+x+`.Val)+"i"`
					} else {
						ok = kv.Val == "strconv.Quote("+x+`.Val)+""` || kv.Val == "strconv.Quote("+x+".Val)"
					}
				case src == "~table":
					ok = strings.HasPrefix(kv.Val, "BasicLatinLookup("+x+".Chars,"+x+".Ranges,"+x+".UnicodeClasses,"+x+".IgnoreCase)")
				case kv.Elem:
					el := x + src + "[#"
					// an element of the list (any loop position), lowered exactly under the case-folding flag for rune lists
					v := kv.Val
					if strings.HasPrefix(v, "unicode.ToLower(") && strings.HasSuffix(v, ")") {
						if !folded {
							bad = append(bad, "member of "+kv.Key+" lowered without the case-folding flag")
						}
						v = strings.TrimSuffix(strings.TrimPrefix(v, "unicode.ToLower("), ")")
					} else if folded && (kv.Key == "chars" || kv.Key == "ranges") {
						bad = append(bad, "member of "+kv.Key+" not lowered although the class ignores case")
					}
					ok = strings.HasPrefix(v, el) && strings.HasSuffix(v, "]") && !strings.Contains(v[len(el):], "[")
				default:
					ok = kv.Val == x+src
				}
				if !ok {
					bad = append(bad, fmt.Sprintf("key %s: is emitted from %s, expected %s%s", kv.Key, kv.Val, x, src))
				}
			}
			if !posOK && fn != "" {
				bad = append(bad, "no position triple emitted")
			}
			live = append(live, pathInfo{p, keys})
		}
		if !sawNil {
			bad = append(bad, "no nil guard")
		}
		if len(live) == 0 {
			bad = append(bad, "no emitting path")
		}
		// every key of the table on every path, unless a presence fact separates the paths with the key from those without
		for key := range emittedAlias[fn] {
			var with, without []bpath
			for _, pi := range live {
				if pi.keys[key] {
					with = append(with, pi.p)
				} else {
					without = append(without, pi.p)
				}
			}
			if len(with) == 0 {
				bad = append(bad, "key "+key+": never emitted")
				continue
			}
			if len(without) == 0 {
				continue
			}
			// a presence condition (one fact, or a conjunction of two) common to all paths with the key and refuted on
			// all paths without it
			var common []string
			for _, f := range with[0].facts() {
				if !presenceFact(f, x) {
					continue
				}
				all := true
				for _, p := range with {
					if !containsStr(p.facts(), f) {
						all = false
					}
				}
				if all {
					common = append(common, f)
				}
			}
			// an optional field of the node is written exactly when the field is present: where the paths with the key
			// test the key's own source, only those tests may separate them from the paths without it (a builder flag
			// that happens to differ does not explain a missing displayName)
			if src := emittedAlias[fn][key]; strings.HasPrefix(src, ".") {
				root := x + "." + strings.Split(strings.TrimPrefix(src, "."), ".")[0]
				var own []string
				for _, f := range common {
					if strings.Contains(f, root) {
						own = append(own, f)
					}
				}
				if len(own) > 0 {
					common = own
				}
			}
			refutedBy := func(p bpath, cond string) bool {
				neg := canonText(cond, true)
				for _, f := range p.facts() {
					if f == neg {
						return true
					}
				}
				return false
			}
			// every path without the key refutes the presence condition: one of its conjuncts, or their conjunction
			sep := len(common) > 0
			for _, p := range without {
				refuted := false
				for i := range common {
					if refutedBy(p, common[i]) {
						refuted = true
					}
					for j := range common {
						if i != j && refutedBy(p, common[i]+"&&"+common[j]) {
							refuted = true
						}
					}
				}
				if !refuted {
					sep = false
				}
			}
			if !sep {
				bad = append(bad, "key "+key+" is not written on the path ["+strings.Join(without[0].facts(), " ")+"]: the runtime node keeps the zero value there")
			}
		}
		// list keys: the element loop ranges over the whole list without exits
		for _, p := range paths {
			for i, e := range p {
				if e.Kind == "loop" && strings.HasPrefix(e.Text, "range "+x+".") {
					depth := 0
					emitted := false
					for j := i + 1; j < len(p); j++ {
						if p[j].Kind == "loop" {
							depth++
						}
						if p[j].Kind == "endloop" {
							if depth == 0 {
								break
							}
							depth--
						}
						if p[j].Kind == "branch" && depth == 0 {
							bad = append(bad, "the loop over "+strings.TrimPrefix(e.Text, "range ")+" can skip or stop ("+p[j].Text+")")
						}
						if p[j].Kind == "call" && (strings.HasPrefix(p[j].Text, b+".writeExpr(") || strings.HasPrefix(p[j].Text, b+".writef(") || strings.HasPrefix(p[j].Text, b+".writelnf(")) {
							emitted = true
						}
					}
					if !emitted {
						bad = append(bad, "the loop over "+strings.TrimPrefix(e.Text, "range ")+" does not emit its element on the path ["+strings.Join(p.facts(), " ")+"]")
					}
				}
			}
		}
		bad = uniq(bad)
		r.Check(len(bad) == 0, rule, "G.builder."+fn+":emitted-fields", "", g.Where(fd.Pos()), fmt.Sprintf("node type, position triple and %d key/value pairings as in the alias table, on %d paths", len(emittedAlias[fn]), len(live)), strings.Join(bad, "; "))
	}
}

var verbRe = regexp.MustCompile(`%[-+# 0]*[0-9]*(\.[0-9]+)?[a-zA-Z]`)

// foldConstArgs substitutes string-literal arguments of %s verbs into the format (a helper that takes the key of the
// emitted field as a parameter writes the same bytes as one with the key in its format).
func foldConstArgs(format string, args []string) (string, []string) {
	var rest []string
	i := 0
	out := verbRe.ReplaceAllStringFunc(format, func(v string) string {
		if i >= len(args) {
			return v
		}
		a := args[i]
		i++
		if strings.HasSuffix(v, "s") && strings.HasPrefix(a, `"`) {
			if u, err := strconv.Unquote(a); err == nil {
				return u
			}
		}
		rest = append(rest, a)
		return v
	})
	if i < len(args) {
		rest = append(rest, args[i:]...)
	}
	return out, rest
}
