package rules

import (
	"fmt"
	"go/ast"
	"go/token"
	"sort"
	"strings"

	"pigeonverif/internal/load"
)

// Owners of the analysis marks (C07-j). The left-recursion analysis keeps its working state in fields of the AST
// nodes: Visited ("this rule is on the visit stack": Rule.NullableVisit answers `not nullable` for a marked rule
// without looking), Nullable (read back by IsNullable and, through it, by SeqExpr.InitialNames), LeftRecursive and
// Leader (read by the builder). Those fields mean what the analysis needs only if nothing else stores into them: a
// pass that borrows Visited as its own mark bit and leaves it set on one rule makes every reference to that rule
// non-nullable, and the first-graph loses every edge behind it. Rule: Visited and Nullable are stored only by methods
// named NullableVisit, LeftRecursive and Leader only by ComputeLeftRecursives - or by a helper whose only callers are
// such owners - and no composite literal outside those sets them.
func analysisMarkOwners(c *Ctx, g *load.G, rule string) {
	r := c.R
	owner := map[string]string{"Visited": "NullableVisit", "Nullable": "NullableVisit", "LeftRecursive": "ComputeLeftRecursives", "Leader": "ComputeLeftRecursives"}
	n := 0
	var bad []string
	for _, sfx := range []string{"", "ast", "builder"} {
		p := g.Pkg(sfx)
		if p == nil {
			continue
		}
		// callers by function name, for one level of helpers
		callers := map[string]map[string]bool{}
		var decls []*ast.FuncDecl
		for i, f := range p.Syntax {
			fn := p.CompiledGoFiles[i]
			if strings.HasSuffix(fn, "_test.go") || strings.HasSuffix(fn, "/pigeon.go") {
				continue
			}
			for _, d := range f.Decls {
				if fd, ok := d.(*ast.FuncDecl); ok && fd.Body != nil {
					decls = append(decls, fd)
					for _, ce := range callsIn(fd.Body) {
						cn := callSel(ce)
						if cn == "" {
							cn = callName(ce)
						}
						if callers[cn] == nil {
							callers[cn] = map[string]bool{}
						}
						callers[cn][fd.Name.Name] = true
					}
				}
			}
		}
		ownedBy := func(fn, want string) bool {
			if fn == want {
				return true
			}
			cs := callers[fn]
			if len(cs) == 0 {
				return false
			}
			for c := range cs {
				if c != want {
					return false
				}
			}
			return true
		}
		for _, fd := range decls {
			check := func(sel *ast.SelectorExpr, pos token.Pos, how string) {
				want, ok := owner[sel.Sel.Name]
				if !ok {
					return
				}
				t := p.TypesInfo.TypeOf(sel.X)
				if t == nil {
					return
				}
				tn := namedOf(t)
				if tn == "" || !isAstNodeType(g, tn) {
					return
				}
				n++
				if !ownedBy(fd.Name.Name, want) {
					bad = append(bad, fmt.Sprintf("%s: %s %s %s.%s, a mark of the left-recursion analysis that only %s may store", g.Where(pos), fd.Name.Name, how, tn, sel.Sel.Name, want))
				}
			}
			ast.Inspect(fd.Body, func(nd ast.Node) bool {
				switch x := nd.(type) {
				case *ast.AssignStmt:
					if x.Tok == token.DEFINE {
						return true
					}
					for _, l := range x.Lhs {
						if se, ok := stripParens(l).(*ast.SelectorExpr); ok {
							check(se, x.Pos(), "stores into")
						}
					}
				case *ast.IncDecStmt:
					if se, ok := stripParens(x.X).(*ast.SelectorExpr); ok {
						check(se, x.Pos(), "stores into")
					}
				case *ast.UnaryExpr:
					if x.Op == token.AND {
						if se, ok := stripParens(x.X).(*ast.SelectorExpr); ok {
							check(se, x.Pos(), "takes the address of")
						}
					}
				case *ast.CompositeLit:
					tn := namedOf(p.TypesInfo.TypeOf(x))
					if tn == "" || !isAstNodeType(g, tn) {
						return true
					}
					for _, el := range x.Elts {
						if kv, ok := el.(*ast.KeyValueExpr); ok {
							if id, ok := kv.Key.(*ast.Ident); ok {
								if want, ok := owner[id.Name]; ok {
									n++
									if !ownedBy(fd.Name.Name, want) {
										bad = append(bad, fmt.Sprintf("%s: %s builds a %s with %s set, a mark of the left-recursion analysis that only %s may store", g.Where(kv.Pos()), fd.Name.Name, tn, id.Name, want))
									}
								}
							}
						}
					}
				}
				return true
			})
		}
	}
	sort.Strings(bad)
	r.Analysed["analysis_mark_stores"] = n
	r.Check(len(bad) == 0 && n >= 10, rule, "G:analysis-marks-have-one-owner", "", "ast/, builder/", fmt.Sprintf("%d stores into Visited / Nullable / LeftRecursive / Leader, all by their owners", n),
		strings.Join(bad, "; ")+" - Rule.NullableVisit takes a set Visited for `being visited` and answers `not nullable` without looking, IsNullable and the builder read the other marks back: a value left behind by another pass hides left recursion")
}

// isAstNodeType: the named type is declared in package ast of the analysed repository.
func isAstNodeType(g *load.G, name string) bool {
	ap := g.Pkg("ast")
	if ap == nil {
		return false
	}
	return ap.Types.Scope().Lookup(name) != nil
}
