package rules

import (
	"fmt"
	"go/ast"
	"go/token"
	"go/types"
	"sort"
	"strings"

	"pigeonverif/internal/load"
)

// C09 — -optimize-grammar preserves the language and what actions see.
func C09(c *Ctx) {
	r := c.R
	r.Technique = "ownership rule (clone before in-place mutation) derived from the type-resolved stores of the optimizer, side-condition extraction from the merge switch, traversal exhaustiveness over the 18 kinds, dominance of the rule-removal site by the protection test"
	r.Explanation = "Language preservation over all grammars and inputs is not statically decidable; the optimizer is a set of local rewrites whose side conditions are visible in the code. Decided: (a) every expression type whose fields the optimizer stores to in place, and every type with Expression children, is deep-copied by cloneExpr (fresh node, children cloned, mutated slices copied), so an inlined rule body never shares mutable structure with its original or with other inlined copies; (b) merging alternatives into one character class is set union, which is only valid for non-inverted classes with equal case-folding flags and single-rune literals: every merge case carries those guards; (c) Walk and cloneExpr handle all 18 kinds (no panicking default reachable, all children visited); (d) a rule is removed only if it is unused and not protected, and the protected set is the alternate entrypoints plus the first rule, wired from the command line. Not decided: semantic equivalence of each rewrite beyond its side conditions; label scope effects of inlining."
	r.Assumptions = []string{"the rewrites are language-preserving when their side conditions hold (choice/sequence flattening, single-element unwrapping, literal concatenation, class union)"}
	r.Rule("C09-a", "for every (type, field) the optimizer visitors store to, and every type with Expression children: cloneExpr has a case returning a fresh &T{…} whose Expression children are cloneExpr results and whose mutated slice fields are fresh copies")
	r.Rule("C09-e", "closed world of rewrites: the optimizer visitors store only to the (type, field) pairs of the documented rewrites (operand slots of the composite kinds, LitMatcher.Val, the member lists and Val of CharClassMatcher, Grammar.Rules); a store to any other field is a rewrite no side-condition rule covers")
	r.Rule("C09-f", "effects of the merge rewrites: (1) merging two classes appends all three member lists (Chars, Ranges, UnicodeClasses) of the second to the first; (2) in every merge case the node that received the members is the one left at index i-1 (it already is, or it is stored there) before element i is removed; (3) removal of element i happens iff a merge was applied; (4) a referenced rule is inlined only when it is defined and uses no rules; (5) the reference bookkeeping records both directions and the clean-up after removing a rule deletes exactly that rule from the user sets; (6) the duplicate removal of cleanupCharClassMatcher keeps every distinct member (append under the not-seen test) for all three lists")
	r.Rule("C09-i", "closed world of node replacements: optimizeRule puts in the place of an expression only the expression itself, a clone of the rule a reference names (guarded by C09-f), or the only element of a list field under the fact that the list has length 1 (choice of one alternative, sequence of one item); an operand of any other kind - the handler of a recovery operator, the operand of a predicate, repetition, label or action - does not mean what the node means")
	r.Rule("C09-j", "the text of a character class is display text: the optimizer rebuilds CharClassMatcher.Val for merged classes without escaping ^ - ] \\, so it does not identify the class; every read of it in the builder and the optimizer is the argument of the emitted `val:` key (a map key, comparison or cache keyed by it takes different classes for one)")
	r.Rule("C09-g", "the inlining pass offers every operand slot to optimizeRule: for every kind with Expression children (and Rule) the optimize visitor stores optimizeRule(slot) into every slot on every path of that kind's case - the per-rule-pair usage bookkeeping is cleared by the first inlining, so a skipped slot keeps a reference to a rule that is then removed")
	r.Rule("C09-h", "a clone keeps every field: each &T{…} built by cloneExpr for an expression kind lists every field of T, taken from the same field of the source, except the flags only the analysis passes store (Nullable): a field left out is zero in every inlined copy (a throw without its label)")
	r.Rule("C09-b", "each case of the alternative-merge switch that builds or extends a CharClassMatcher requires !X.Inverted for every class operand, IgnoreCase equality of the two operands and a single rune for every literal operand")
	r.Rule("C09-c", "ast.Walk and cloneExpr: one case per expression kind; Walk recurses into every Expression child; no kind reaches a panicking default")
	r.Rule("C09-d", "rules are removed only under !used && !protected; protectedRules = alternateEntrypoints ∪ {first rule}; main passes -alternate-entrypoints to ast.Optimize")

	g := c.G()
	if g == nil {
		return
	}
	cloneOwnership(c, "C09-a", nil)
	r.MinRule("C09-a", 8)

	ap := g.Pkg("ast")
	_ = ap
	// ---- b: merge guards
	optimizerMergeCases(c, g)
	c09Effects(c, g)
	// ---- c
	traversalExhaustiveness(c, "C09-c", nil)
	// ---- d
	c09Entrypoints(c, g)
}

// cloneOwnership decides the clone-before-mutate rule under the given rule id, for all kinds or only the listed ones.
// A type is "mutated in place" when the optimizer visitors or the builder store to one of its fields.
func cloneOwnership(c *Ctx, rule string, only map[string]bool) {
	r := c.R
	g := c.G()
	if g == nil {
		return
	}
	ap := g.Pkg("ast")
	kinds, _ := c.exprKinds()
	kindByName := map[string]exprKind{}
	for _, k := range kinds {
		kindByName[k.Name] = k
	}
	// ---- a: mutated fields
	type mut struct{ kind, field string }
	mutated := map[mut]token.Pos{}
	for _, fn := range []string{"optimize", "cleanupCharClassMatcher", "optimizeRule", "optimizeRules"} {
		fd := load.FuncDecl(ap, "grammarOptimizer", fn)
		if fd == nil {
			r.Fatal("anchor grammarOptimizer.%s not found", fn)
			continue
		}
		ast.Inspect(fd.Body, func(n ast.Node) bool {
			as, ok := n.(*ast.AssignStmt)
			if !ok || as.Tok == token.DEFINE {
				return true
			}
			for _, l := range as.Lhs {
				e := l
				if ix, ok := e.(*ast.IndexExpr); ok {
					e = ix.X
				}
				sel, ok := e.(*ast.SelectorExpr)
				if !ok {
					continue
				}
				t := ap.TypesInfo.TypeOf(sel.X)
				if p, ok := t.(*types.Pointer); ok {
					if n, ok := p.Elem().(*types.Named); ok {
						if _, isKind := kindByName[n.Obj().Name()]; isKind {
							mutated[mut{n.Obj().Name(), sel.Sel.Name}] = as.Pos()
						}
					}
				}
			}
			return true
		})
	}
	// stores by the builder (FuncIx bookkeeping) mutate the shared AST as well
	bpk := g.Pkg("builder")
	for _, fd := range load.AllFuncDecls(bpk) {
		if fd.Body == nil {
			continue
		}
		ast.Inspect(fd.Body, func(n ast.Node) bool {
			as, ok := n.(*ast.AssignStmt)
			if !ok || as.Tok == token.DEFINE {
				return true
			}
			for _, l := range as.Lhs {
				sel, ok := l.(*ast.SelectorExpr)
				if !ok {
					continue
				}
				if p, ok := bpk.TypesInfo.TypeOf(sel.X).(*types.Pointer); ok {
					if n, ok := p.Elem().(*types.Named); ok && n.Obj().Pkg() != nil && n.Obj().Pkg().Name() == "ast" {
						if _, isKind := kindByName[n.Obj().Name()]; isKind {
							mutated[mut{n.Obj().Name(), sel.Sel.Name}] = as.Pos()
						}
					}
				}
			}
			return true
		})
	}
	ce := load.FuncDecl(ap, "", "cloneExpr")
	if ce == nil {
		r.Fatal("anchor ast.cloneExpr not found")
		return
	}
	si := typeSwitchOn(ce, "expr")
	needClone := map[string][]string{} // kind -> mutated fields
	for m := range mutated {
		needClone[m.kind] = append(needClone[m.kind], m.field)
	}
	for _, k := range kinds {
		if len(k.Children) > 0 {
			if _, ok := needClone[k.Name]; !ok {
				needClone[k.Name] = nil
			}
		}
	}
	r.Analysed["types_mutated_in_place"] = len(mutated)
	if rule == "C09-a" {
		known := map[string]bool{"ActionExpr.Expr": true, "AndExpr.Expr": true, "NotExpr.Expr": true, "LabeledExpr.Expr": true, "OneOrMoreExpr.Expr": true,
			"ZeroOrMoreExpr.Expr": true, "ZeroOrOneExpr.Expr": true, "ChoiceExpr.Alternatives": true, "SeqExpr.Exprs": true, "LitMatcher.Val": true,
			"CharClassMatcher.Chars": true, "CharClassMatcher.Ranges": true, "CharClassMatcher.UnicodeClasses": true, "CharClassMatcher.Val": true,
			"ActionExpr.FuncIx": true, "AndCodeExpr.FuncIx": true, "NotCodeExpr.FuncIx": true, "StateCodeExpr.FuncIx": true,
			"RecoveryExpr.Expr": true, "RecoveryExpr.RecoverExpr": true}
		var extra []string
		for m := range mutated {
			if !known[m.kind+"."+m.field] {
				extra = append(extra, m.kind+"."+m.field+" ("+g.Where(mutated[m])+")")
			}
		}
		sort.Strings(extra)
		r.Check(len(extra) == 0, "C09-e", "G.ast.optimizer:closed-set-of-rewritten-fields", "", "ast/ast_optimize.go", fmt.Sprintf("%d (type, field) pairs rewritten in place, all belonging to the documented rewrites", len(mutated)),
			"the optimizer (or builder) now stores to "+strings.Join(extra, ", ")+": a rewrite that no side-condition rule of this property covers (e.g. pruning the label list of a recovery operator changes which handler catches a throw)")
	}
	var names []string
	for k := range needClone {
		names = append(names, k)
	}
	sort.Strings(names)
	for _, kn := range names {
		if only != nil && !only[kn] {
			continue
		}
		fields := needClone[kn]
		sort.Strings(fields)
		construct := "G.ast.cloneExpr:kind=" + kn
		cc := si.Cases[kn]
		if cc == nil {
			why := "has Expression children"
			if len(fields) > 0 {
				why = "is mutated in place by the optimizer (" + strings.Join(fields, ",") + ")"
			}
			r.Bad(rule, construct, "", g.Where(ce.Pos()), "*"+kn+" "+why+" but cloneExpr has no case for it: an inlined rule body shares the node with the original rule and with every other inlined copy, so one rewrite changes all of them")
			continue
		}
		// the returned literal
		var lit *ast.CompositeLit
		ast.Inspect(cc, func(n ast.Node) bool {
			if rs, ok := n.(*ast.ReturnStmt); ok && len(rs.Results) == 1 {
				if ue, ok := rs.Results[0].(*ast.UnaryExpr); ok && ue.Op == token.AND {
					if cl, ok := ue.X.(*ast.CompositeLit); ok && nospace(cl.Type) == kn {
						lit = cl
					}
				}
			}
			return true
		})
		if lit == nil {
			// shallow struct copy `c := *expr; return &c` is a fresh node; it is sufficient iff the type has no Expression
			// children and none of its slice fields is extended in place by the optimizer
			shallow := false
			copyVar := ""
			ast.Inspect(cc, func(n ast.Node) bool {
				switch x := n.(type) {
				case *ast.AssignStmt:
					if len(x.Rhs) == 1 && nospace(x.Rhs[0]) == "*expr" {
						copyVar = nospace(x.Lhs[0])
					}
				case *ast.ReturnStmt:
					if len(x.Results) == 1 && copyVar != "" && nospace(x.Results[0]) == "&"+copyVar {
						shallow = true
					}
				}
				return true
			})
			if shallow {
				k := kindByName[kn]
				st := k.Named.Underlying().(*types.Struct)
				var shared []string
				for i := 0; i < st.NumFields(); i++ {
					f := st.Field(i)
					if _, isSlice := f.Type().(*types.Slice); !isSlice {
						continue
					}
					for _, mf := range fields {
						if mf == f.Name() {
							shared = append(shared, f.Name())
						}
					}
				}
				switch {
				case len(k.Children) > 0:
					r.Bad(rule, construct, "", g.Where(cc.Pos()), "shallow struct copy of a node with Expression children ("+strings.Join(k.Children, ",")+"): the children are shared")
				case len(shared) > 0:
					r.Bad(rule, construct, "", g.Where(cc.Pos()), "shallow struct copy shares the backing arrays of "+strings.Join(shared, ",")+", which the optimizer extends in place with append: a merge in one inlined copy overwrites what a merge in another copy appended")
				default:
					r.Ok(rule, construct, "", g.Where(cc.Pos()), "shallow struct copy of a leaf without in-place extended slices")
				}
				continue
			}
			r.Bad(rule, construct, "", g.Where(cc.Pos()), "case does not return a freshly allocated &"+kn+"{…}")
			continue
		}
		vals := map[string]ast.Expr{}
		for _, e := range lit.Elts {
			if kv, ok := e.(*ast.KeyValueExpr); ok {
				vals[nospace(kv.Key)] = kv.Value
			}
		}
		var bad []string
		k := kindByName[kn]
		st := k.Named.Underlying().(*types.Struct)
		for i := 0; i < st.NumFields(); i++ {
			f := st.Field(i)
			_, isSlice := f.Type().(*types.Slice)
			isChild := false
			for _, ch := range k.Children {
				if ch == f.Name() {
					isChild = true
				}
			}
			isMut := false
			for _, mf := range fields {
				if mf == f.Name() {
					isMut = true
				}
			}
			v := vals[f.Name()]
			switch {
			case isChild && !isSlice:
				if v == nil || nospace(v) != "cloneExpr(expr."+f.Name()+")" {
					bad = append(bad, "child "+f.Name()+" is not cloneExpr(expr."+f.Name()+")")
				}
			case isChild && isSlice:
				// a local slice filled with cloneExpr(expr.F[i])
				okLoop := false
				if id, ok := v.(*ast.Ident); ok {
					ast.Inspect(cc, func(n ast.Node) bool {
						if as, ok := n.(*ast.AssignStmt); ok && nospace(as.Lhs[0]) == id.Name && strings.HasPrefix(nospace(as.Rhs[0]), "append("+id.Name+",cloneExpr(expr."+f.Name()+"[") {
							okLoop = true
						}
						return true
					})
				}
				// the same on the normalised paths of the case (any loop form, any local names)
				if !okLoop {
					okLoop = clonesListElementwise(c, ce, cc.Body, "expr."+f.Name(), f.Name())
				}
				// ... or a helper of the package that clones a list element by element
				if call, ok := v.(*ast.CallExpr); ok && len(call.Args) == 1 && nospace(call.Args[0]) == "expr."+f.Name() && c.elementwiseCloners()[callName(call)] {
					okLoop = true
				}
				if !okLoop {
					bad = append(bad, "children "+f.Name()+" are not cloned element-wise")
				}
			case isSlice && isMut:
				t := ""
				if v != nil {
					t = nospace(v)
				}
				if !(strings.HasPrefix(t, "append([]") && strings.HasSuffix(t, "{},expr."+f.Name()+"...)")) {
					bad = append(bad, "slice "+f.Name()+" is extended in place by the optimizer but the clone shares its backing array ("+t+")")
				}
			}
		}
		if len(bad) > 0 {
			r.Bad(rule, construct, "", g.Where(cc.Pos()), strings.Join(bad, "; "))
		} else {
			r.Ok(rule, construct, "", g.Where(cc.Pos()), "fresh node; children cloned; mutated slices copied (mutated fields: "+strings.Join(fields, ",")+")")
		}
	}
}

func c09Entrypoints(c *Ctx, g *load.G) {
	r := c.R
	ap := g.Pkg("ast")
	fd := load.FuncDecl(ap, "grammarOptimizer", "optimize")
	okGuard, guardDetail, okCleanN, cleanDetailN := optimizerRemovalGuard(c, g)
	_, _ = okCleanN, cleanDetailN
	r.Check(okGuard, "C09-d", "G.ast.optimize:rule-removal-guard", "", g.Where(fd.Pos()), "removal under !used && !protected (membership in ruleUsedByRules / protectedRules)", guardDetail)
	// Optimize builds the protected set
	ok1, ok2, ok3, ok4 := optimizerProtectedSet(c, g)
	r.Check(ok1 && ok2 && ok3 && ok4, "C09-d", "G.ast.Optimize:protected-set", "", "ast/ast_optimize.go", "alternate entrypoints plus the first rule, all entered into protectedRules", fmt.Sprintf("alt=%t first=%t passed=%t all-entered=%t", ok1, ok2, ok3, ok4))
	// wherever the command calls the optimizer, the variadic argument is the value of -alternate-entrypoints
	mp := g.Pkg("")
	fmC := newFlagModel(mp, func(fn string) bool { return strings.HasSuffix(fn, "/pigeon.go") || strings.HasSuffix(fn, "_test.go") })
	flC := newFlow(mp, func(fn string) bool { return strings.HasSuffix(fn, "/pigeon.go") || strings.HasSuffix(fn, "_test.go") })
	okMain := false
	nOpt := 0
	for _, cf := range flC.decls {
		for _, ce := range callsIn(cf.Body) {
			if callName(ce) != "ast.Optimize" {
				continue
			}
			nOpt++
			if len(ce.Args) == 2 && ce.Ellipsis.IsValid() {
				if fmC.flagOf(ce.Args[1]) == "alternate-entrypoints" {
					okMain = true
					continue
				}
				for _, o := range flC.origins(ce.Args[1], cf, 0) {
					if fmC.flagOf(o.Expr) == "alternate-entrypoints" {
						okMain = true
					}
				}
			}
		}
	}
	okMain = okMain && nOpt == 1
	// the flag accumulates over repeated occurrences
	sf := load.FuncDecl(g.Pkg(""), "ruleNamesFlag", "Set")
	okSet := false
	if sf != nil {
		// on every normalised path the value stored into *recv extends the old *recv: it is reached from it through
		// append / slices.Grow steps only (directly, or through a local that is only ever extended)
		recv := recvName(sf)
		old := "*" + recv
		paths := c.pkgNorm("").normPaths(sf)
		okSet = len(paths) > 0
		for _, p := range paths {
			var extends func(v string, upto, depth int) bool
			extends = func(v string, upto, depth int) bool {
				if depth > 8 {
					return false
				}
				v = minParens(v)
				switch {
				case v == old:
					return true
				case strings.HasPrefix(v, "append(") && wholeCall(v):
					return extends(splitTop(v[len("append("):len(v)-1], ",")[0], upto, depth+1)
				case strings.HasPrefix(v, "slices.Grow(") && wholeCall(v):
					return extends(splitTop(v[len("slices.Grow("):len(v)-1], ",")[0], upto, depth+1)
				case dollarRe.FindString(v) == v && v != "":
					// every definition of the local before this point extends the old value (or the local itself)
					n := 0
					for i := 0; i < upto && i < len(p); i++ {
						if p[i].Kind == "set" && strings.HasPrefix(p[i].Text, v+"=") {
							n++
							rhs := strings.TrimPrefix(p[i].Text, v+"=")
							if first := firstArgOf(rhs); first == v {
								continue
							}
							if !extends(rhs, i, depth+1) {
								return false
							}
						}
					}
					return n > 0
				}
				return false
			}
			stored := false
			for i, e := range p {
				if e.Kind == "set" && strings.HasPrefix(e.Text, old+"=") {
					stored = true
					if !extends(strings.TrimPrefix(e.Text, old+"="), i, 0) {
						okSet = false
					}
				}
			}
			if !stored {
				okSet = false
			}
		}
	}
	r.Check(okSet, "C09-d", "G.main.ruleNamesFlag.Set:accumulates", "", "main.go", "every occurrence of -alternate-entrypoints adds to the list", "Set does not append to the names collected so far: with the flag given twice only the last list is protected, the other rules are removed by the optimizer")
	r.Check(okMain, "C09-d", "G.main:passes-alternate-entrypoints", "", "main.go", "ast.Optimize(grammar, altEntrypointsFlag...)", "main does not pass the -alternate-entrypoints list to the optimizer")
}

// c09Effects: structural post-conditions of the rewrites (see rule C09-f).
func c09Effects(c *Ctx, g *load.G) {
	r := c.R
	ap := g.Pkg("ast")
	fd := load.FuncDecl(ap, "grammarOptimizer", "optimize")
	if fd == nil {
		return
	}
	// (3) removal iff combined
	okRemove, whyRemove := optimizerAbsorbedRemoved(c, g)
	r.Check(okRemove, "C09-f", "G.ast.optimize:absorbed-alternative-removed", "", g.Where(fd.Pos()), "element i is removed exactly when a merge was applied", whyRemove)
	optimizerInlining(c, g, "C09-f")
	optimizerSlotCoverage(c, g, "C09-g")
	cloneKeepsFields(c, g, "C09-h")
	optimizerUnwraps(c, g, "C09-i")
	classTextIsDisplayOnly(c, g, "C09-j")
	optimizerInlineKeepsLabelScope(c, g, "C09-k")
	// (6) duplicate removal keeps every distinct member
	cf := load.FuncDecl(ap, "grammarOptimizer", "cleanupCharClassMatcher")
	if cf != nil {
		why := cleanupKeepsMembers(c, g, cf)
		r.Check(why == "", "C09-f", "G.ast.cleanupCharClassMatcher:keeps-every-distinct-member", "", g.Where(cf.Pos()), "each of the three lists is rebuilt by appending every not-yet-seen member", why+": members of a merged class are lost or altered")
	}
}

// optimizerInlining: (4) a reference is replaced by a clone only when the referenced rule is defined and has no entry
// in ruleUsesRules; (5) ruleUsesRules / ruleUsedByRules record every reference, unconditionally. Together: the clone
// contains no reference, so one inlining step cannot trigger another and the Walk over the rewritten tree terminates.
func optimizerInlining(c *Ctx, g *load.G, rule string) {
	r := c.R
	ap := g.Pkg("ast")
	fd := load.FuncDecl(ap, "grammarOptimizer", "optimize")
	if fd == nil {
		r.Fatal("anchor grammarOptimizer.optimize not found")
		return
	}
	// (4) inlining guard
	okInline, why := optimizerInlineGuard(c, g)
	r.Check(okInline, rule, "G.ast.optimizeRule:inline-only-defined-leaf-rules", "", "ast/ast_optimize.go", "a reference is replaced by a clone only if the rule is defined and references no rule", why+": inlining a rule that references rules can recurse without end or drop the bookkeeping of its references")
	// (5) bookkeeping
	okInit, initWhy := optimizerRecordsReferences(c, g)
	okSet := okInit
	_, _, okClean, cleanDetail := optimizerRemovalGuard(c, g)
	r.Check(okSet && okInit && okClean, rule, "G.ast.optimizer:reference-bookkeeping", "", "ast/ast_optimize.go", "uses/used-by recorded for every reference; a removed rule is deleted from exactly its entries",
		fmt.Sprintf("both-directions-recorded=%t %s cleanup-exact=%t %s: rules still referenced can be removed (or unused ones kept), and a rule whose references are not all recorded passes for a leaf and is inlined although it still references rules (without end if it references itself)", okInit, initWhy, okClean, cleanDetail))
	// (6) the uses-map loses an entry only together with the reference it records
	okKeep, keepWhy := optimizerUsesEntriesOutliveNothing(c, g)
	r.Check(okKeep, rule, "G.ast.optimizer:uses-entries-removed-only-with-the-reference", "", "ast/ast_optimize.go", "an entry of ruleUsesRules is deleted only where the reference is replaced by a clone, or where the referring rule is removed on the same path",
		keepWhy+": a rule that still contains the reference then passes for a leaf - a rule that refers to itself is inlined into itself without end (pigeon dies with a stack overflow)")
}

// elementwiseCloners: the functions of package ast that return, for a list of expressions, a new list holding
// cloneExpr of every element (decided on their normalised paths: a loop over the parameter whose body stores
// cloneExpr(param[i]) into the returned list, unconditionally).
func (c *Ctx) elementwiseCloners() map[string]bool {
	out := map[string]bool{}
	g := c.G()
	if g == nil {
		return out
	}
	nc := c.astNorm()
	for _, fd := range load.AllFuncDecls(g.Pkg("ast")) {
		if fd.Recv != nil || fd.Body == nil || fd.Type.Params == nil || len(fd.Type.Params.List) != 1 || len(fd.Type.Params.List[0].Names) != 1 || fd.Name.Name == "cloneExpr" {
			continue
		}
		prm := fd.Type.Params.List[0].Names[0].Name
		paths := nc.normPaths(fd)
		ok := len(paths) > 0
		for _, p := range paths {
			ret := lastReturn(p)
			lo, hi := loopSpan(p, "range "+prm)
			if lo < 0 || ret == "" {
				ok = false
				continue
			}
			stored := false
			for i := lo + 1; i < hi && i < len(p); i++ {
				switch p[i].Kind {
				case "set":
					if p[i].Text == ret+"=append("+ret+",cloneExpr("+prm+"[#1]))" || p[i].Text == ret+"[#1]=cloneExpr("+prm+"[#1])" {
						stored = true
					}
				case "+", "branch", "return":
					if !stored {
						ok = false
					}
				}
			}
			if !stored {
				ok = false
			}
		}
		if ok {
			out[fd.Name.Name] = true
		}
	}
	return out
}

// elementwiseWalkers: helpers of package ast that apply Walk to every element of a list parameter, unconditionally
// (`for i := range xs { Walk(v, xs[i]) }` in any loop form).
func (c *Ctx) elementwiseWalkers() map[string]bool {
	out := map[string]bool{}
	g := c.G()
	if g == nil {
		return out
	}
	nc := c.astNorm().without("Walk")
	for _, fd := range load.AllFuncDecls(g.Pkg("ast")) {
		if fd.Recv != nil || fd.Body == nil || fd.Type.Params == nil || fd.Name.Name == "Walk" {
			continue
		}
		var lists []string
		for _, f := range fd.Type.Params.List {
			if _, isSlice := f.Type.(*ast.ArrayType); isSlice {
				for _, nm := range f.Names {
					lists = append(lists, nm.Name)
				}
			}
		}
		if len(lists) != 1 {
			continue
		}
		prm := lists[0]
		paths := nc.normPaths(fd)
		ok := len(paths) > 0
		for _, p := range paths {
			lo, hi := loopSpan(p, "range "+prm)
			if lo < 0 {
				ok = false
				continue
			}
			walked := false
			for i := lo + 1; i < hi && i < len(p); i++ {
				switch p[i].Kind {
				case "call":
					if strings.HasPrefix(p[i].Text, "Walk(") && strings.HasSuffix(p[i].Text, ","+prm+"[#1])") {
						walked = true
					}
				case "+", "branch", "return":
					if !walked {
						ok = false
					}
				}
			}
			if hi > lo+1 && !walked {
				ok = false
			}
		}
		if ok {
			out[fd.Name.Name] = true
		}
	}
	return out
}

// clonesListElementwise: on every normalised path of body (a case of cloneExpr), the field of the returned literal is
// a local list that receives, in a loop over src and unconditionally, cloneExpr(src[#d]) for every element.
func clonesListElementwise(c *Ctx, fd *ast.FuncDecl, body []ast.Stmt, src, field string) bool {
	paths := c.astNorm().normBlock(fd, body)
	if len(paths) == 0 {
		return false
	}
	for _, p := range paths {
		ret := lastReturn(p)
		i := strings.Index(ret, field+":")
		if i < 0 {
			return false
		}
		local := dollarRe.FindString(ret[i+len(field)+1:])
		if local == "" || !strings.HasPrefix(ret[i+len(field)+1:], local) {
			return false
		}
		lo, hi := loopSpan(p, "range "+src)
		if lo < 0 {
			return false
		}
		ok := false
		for _, e := range p[lo+1 : hi] {
			if e.Kind == "set" && e.Text == local+"=append("+local+",cloneExpr("+src+"[#1]))" {
				ok = true
			}
			// filled by index: the list was made with the length of the source
			if e.Kind == "set" && e.Text == local+"[#1]=cloneExpr("+src+"[#1])" {
				if v, _ := lastSet(p[:lo], local); strings.HasPrefix(v, "make(") && strings.HasSuffix(v, ",len("+src+"))") {
					ok = true
				}
			}
		}
		if !ok || len(p[lo+1:hi].facts()) > 0 {
			return false
		}
	}
	return true
}

// firstArgOf: the first argument of an append / slices.Grow call text ("" otherwise).
func firstArgOf(v string) string {
	for _, pre := range []string{"append(", "slices.Grow("} {
		if strings.HasPrefix(v, pre) && wholeCall(v) {
			return splitTop(v[len(pre):len(v)-1], ",")[0]
		}
	}
	return ""
}

// optimizerUsesEntriesOutliveNothing: on every normalised path of the optimizer's visitor and of optimizeRule (helpers
// expanded) that deletes from the map that says which rules a rule refers to (the map the inlining guard consults),
// the reference goes too: the path returns a clone in place of the reference (inlining), or removes the referring
// rule from the grammar.
func optimizerUsesEntriesOutliveNothing(c *Ctx, g *load.G) (bool, string) {
	ap := g.Pkg("ast")
	var bad []string
	n := 0
	for _, name := range []string{"optimize", "optimizeRule"} {
		fd := load.FuncDecl(ap, "grammarOptimizer", name)
		if fd == nil {
			return false, "grammarOptimizer." + name + " not found"
		}
		recv := recvName(fd)
		uses := recv + ".ruleUsesRules"
		for _, p := range c.astNorm().normPaths(fd) {
			deletes := false
			for _, e := range p {
				if e.Kind == "call" && strings.HasPrefix(e.Text, "delete("+uses) {
					deletes = true
				}
			}
			if !deletes {
				continue
			}
			n++
			// the clone stands where the reference stood: returned by optimizeRule, or - where the visitor's paths
			// include those of optimizeRule - stored into the slot the reference occupied
			replaced := p.evIndex("call", 0, func(s string) bool { return strings.HasPrefix(s, "cloneExpr(") }) >= 0
			removed := p.evIndex("set", 0, func(s string) bool {
				return strings.Contains(s, ".Rules=append(") && strings.Contains(s, ".Rules[:") && strings.Contains(s, "+1:]...)")
			}) >= 0
			if !replaced && !removed {
				bad = append(bad, name+" deletes an entry of ruleUsesRules on a path that neither replaces the reference by a clone nor removes the referring rule ["+abbreviate(strings.Join(p.facts(), " "))+"]")
			}
		}
	}
	if n == 0 {
		return false, "no path deletes from ruleUsesRules: the inlining path was not found"
	}
	return len(bad) == 0, strings.Join(uniq(bad), "; ")
}
