package rules

import (
	"fmt"
	"go/ast"
	"go/constant"
	"sort"
	"strings"

	"golang.org/x/tools/go/packages"

	"pigeonverif/internal/load"
)

// Speculative errors in the front-end grammar (C03-h), read off the grammar literal and the action methods of
// pigeon.go.
//
// An error returned by a code block is recorded in the parser's error list and stays there when the parser backtracks
// (C11: errors are never rolled back). The front-end grammar reports malformed grammar text through such errors, so
// every action that can return one must run only on text whose reading is settled: an error raised while an
// alternative is merely being tried, on text that a later alternative then reads differently, rejects a grammar that
// is written in the documented syntax. Two structural clauses:
//
//	(a) predicates. The operand of & and ! is evaluated to look ahead, never to commit. Every rule it references from
//	    which an error-returning action is reachable is listed below with the reason why the same text is read again,
//	    by the same rule at the same offset, by whatever follows the predicate; any other pair is reported.
//	(b) ordered choice. If alternative i evaluates, before anything else that consumes, a rule R whose own actions can
//	    return an error, can still fail after R, does not start with an & guard, and a later alternative j can start
//	    with a token alternative i can start with but does not itself evaluate R there, then R's verdict is recorded
//	    for text that alternative j reads differently.
//
// Not covered: the implicit alternatives of ? and * (their "later alternative" is the continuation of the enclosing
// sequence); overlap of first tokens is decided on rule names and on equal terminal texts, not on character sets.

// specPredicateReasons: (rule that holds the predicate, rule referenced by its operand) -> why the errors raised in
// the operand are not speculative.
var specPredicateReasons = map[[2]string]string{
	{"RuleRefExpr", "StringLiteral"}: "the look-ahead `!( __ ( StringLiteral __ )? RuleDefOp )` reads a literal where the next item of the sequence (or the display name of the next rule) starts: that literal is read again by rule StringLiteral at the same offset whatever the outcome, so its errors are recorded once either way (equal messages are de-duplicated)",
}

type specCtx struct {
	*layoutCtx
	root    *packages.Package
	methods map[string]*ast.FuncDecl
	errOf   map[string]string // rule -> "", "conditional", "always" (its own actions)
}

// actionErrKind classifies the method an actionExpr runs: "" (never returns an error), "always", "conditional".
func (s *specCtx) actionErrKind(cl *ast.CompositeLit) string {
	run := s.field(cl, "run")
	if run == nil {
		return ""
	}
	name := nospace(run)
	if i := strings.LastIndex(name, "."); i >= 0 {
		name = name[i+1:]
	}
	name = strings.TrimPrefix(name, "call")
	fd := s.methods[name]
	if fd == nil || fd.Body == nil {
		return ""
	}
	nilRet, errRet := 0, 0
	ast.Inspect(fd.Body, func(n ast.Node) bool {
		if _, ok := n.(*ast.FuncLit); ok {
			return false
		}
		if rs, ok := n.(*ast.ReturnStmt); ok && len(rs.Results) == 2 {
			if nospace(rs.Results[1]) == "nil" {
				nilRet++
			} else {
				errRet++
			}
		}
		return true
	})
	switch {
	case errRet == 0:
		return ""
	case nilRet == 0:
		return "always"
	}
	return "conditional"
}

// ownErr: the strongest error kind among the actions that occur in the expression itself (not through references).
func (s *specCtx) ownErr(e *ast.CompositeLit) string {
	out := ""
	for _, a := range nodesOfType(s.root, e, "actionExpr") {
		switch s.actionErrKind(a) {
		case "conditional":
			out = "conditional"
		case "always":
			if out == "" {
				out = "always"
			}
		}
	}
	return out
}

func (s *specCtx) refName(cl *ast.CompositeLit) string {
	n, _ := litField(s.root, cl, "name")
	return n
}

// canFail: the item can fail to match (approximation: everything but ? and *).
func (s *specCtx) canFail(cl *ast.CompositeLit) bool {
	switch s.kind(cl) {
	case "zeroOrOneExpr", "zeroOrMoreExpr":
		return false
	case "labeledExpr", "actionExpr":
		if ch := s.child(cl); ch != nil {
			return s.canFail(ch)
		}
	case "seqExpr":
		for _, it := range s.list(cl, "exprs") {
			if s.canFail(it) {
				return true
			}
		}
		return false
	case "ruleRefExpr":
		if e := unwrapLit(s.exprs[s.refName(cl)]); e != nil {
			switch s.kind(e) {
			case "zeroOrOneExpr", "zeroOrMoreExpr":
				return false
			}
		}
	}
	return true
}

type firstInfo struct {
	tokens map[string]bool // rule names and terminal texts the expression can start with
	early  map[string]bool // rules evaluated at the first position after which the alternative can still fail
	guard  bool            // the expression starts with an & predicate
}

// firsts computes what an expression can start with. later: something that can fail follows in an enclosing sequence.
func (s *specCtx) firsts(cl *ast.CompositeLit, later bool, fi *firstInfo, seen map[string]bool, top bool) {
	if cl == nil {
		return
	}
	switch s.kind(cl) {
	case "ruleRefExpr":
		n := s.refName(cl)
		fi.tokens[n] = true
		if later {
			fi.early[n] = true
		}
		if seen[n] {
			return
		}
		seen[n] = true
		if e := unwrapLit(s.exprs[n]); e != nil {
			// inside the referenced rule the same holds: what follows the rule in our sequence follows its parts
			s.firsts(e, later, fi, seen, false)
		}
	case "litMatcher":
		v, _ := litField(s.root, cl, "val")
		fi.tokens[fmt.Sprintf("%q", v)] = true
	case "charClassMatcher":
		v, _ := litField(s.root, cl, "val")
		fi.tokens[v] = true
	case "anyMatcher":
		fi.tokens["."] = true
	case "seqExpr":
		items := s.list(cl, "exprs")
		for i, it := range items {
			if k := s.kind(it); k == "andExpr" || k == "notExpr" || k == "andCodeExpr" || k == "notCodeExpr" || k == "stateCodeExpr" {
				if i == 0 && k == "andExpr" && top {
					fi.guard = true
				}
				continue
			}
			rest := later
			for _, nx := range items[i+1:] {
				if s.canFail(nx) {
					rest = true
				}
			}
			s.firsts(it, rest, fi, seen, false)
			if !s.mayBeEmpty(it) {
				break
			}
		}
	case "choiceExpr":
		for _, a := range s.list(cl, "alternatives") {
			s.firsts(a, later, fi, seen, false)
		}
	case "actionExpr", "labeledExpr":
		s.firsts(s.child(cl), later, fi, seen, top)
	default:
		if ch := s.child(cl); ch != nil {
			s.firsts(ch, later, fi, seen, false)
		}
	}
}

func c03Speculation(c *Ctx, root *packages.Package) {
	r := c.R
	refs := ruleRefsOfLiteral(root)
	l := &layoutCtx{root: root, exprs: map[string]ast.Expr{}, layout: map[string]bool{"__": true, "_": true}}
	for n := range refs {
		l.exprs[n] = ruleExprOfLiteral(root, n)
	}
	s := &specCtx{layoutCtx: l, root: root, methods: map[string]*ast.FuncDecl{}, errOf: map[string]string{}}
	for _, f := range root.Syntax {
		for _, d := range f.Decls {
			if fd, ok := d.(*ast.FuncDecl); ok && fd.Recv != nil && strings.HasPrefix(fd.Name.Name, "on") {
				s.methods[fd.Name.Name] = fd
			}
		}
	}
	var names []string
	nErr := 0
	for n := range refs {
		names = append(names, n)
		if e := unwrapLit(l.exprs[n]); e != nil {
			s.errOf[n] = s.ownErr(e)
			if s.errOf[n] != "" {
				nErr++
			}
		}
	}
	sort.Strings(names)
	r.Analysed["front_end_rules_with_error_actions"] = nErr
	if nErr < 5 {
		r.Unk("C03-h", "A.pigeon.go:error-actions", "", "pigeon.go", fmt.Sprintf("only %d rules of the front-end grammar have error-returning actions: the classifier has lost its anchors", nErr))
		return
	}
	// rules from which an error-returning action is reachable
	errReach := func(from string) []string {
		seen := map[string]bool{from: true}
		var out []string
		var walk func(n string)
		walk = func(n string) {
			if s.errOf[n] != "" {
				out = append(out, n)
			}
			for _, x := range refs[n] {
				if !seen[x] {
					seen[x] = true
					walk(x)
				}
			}
		}
		walk(from)
		sort.Strings(out)
		return out
	}
	// ---- (a) predicates
	nPred := 0
	for _, n := range names {
		e := unwrapLit(l.exprs[n])
		if e == nil {
			continue
		}
		for _, kind := range []string{"andExpr", "notExpr"} {
			for _, p := range nodesOfType(root, e, kind) {
				nPred++
				op := s.child(p)
				if op == nil {
					continue
				}
				direct := map[string]bool{}
				for _, rr := range nodesOfType(root, op, "ruleRefExpr") {
					direct[s.refName(rr)] = true
				}
				if own := s.ownErr(op); own != "" {
					r.Bad("C03-h", "A.pigeon.go:"+n+":predicate-runs-an-error-action", "", "pigeon.go", fmt.Sprintf("a %s predicate of rule %s contains an action that returns an error: the error is recorded although the predicate only looks ahead", map[string]string{"andExpr": "&", "notExpr": "!"}[kind], n))
				}
				for _, d := range keysOf(direct) {
					reach := errReach(d)
					if len(reach) == 0 {
						continue
					}
					construct := fmt.Sprintf("A.pigeon.go:%s:predicate-evaluates %s", n, d)
					if why := specPredicateReasons[[2]string{n, d}]; why != "" {
						r.Ok("C03-h", construct, "", "pigeon.go", "listed: "+why)
						continue
					}
					r.Bad("C03-h", construct, "", "pigeon.go", fmt.Sprintf("the %s predicate of rule %s evaluates rule %s, whose actions (rules %s) return errors: an error raised while looking ahead stays in the error list although the predicate consumes nothing and the text is read by whatever follows - a grammar in the documented syntax is rejected (errors recorded by code blocks are not rolled back)", map[string]string{"andExpr": "&", "notExpr": "!"}[kind], n, d, strings.Join(reach, ", ")))
				}
			}
		}
	}
	r.Analysed["front_end_predicates"] = nPred
	// ---- (b) ordered choice
	nChoice := 0
	for _, n := range names {
		e := unwrapLit(l.exprs[n])
		if e == nil {
			continue
		}
		for _, ch := range nodesOfType(root, e, "choiceExpr") {
			alts := s.list(ch, "alternatives")
			infos := make([]*firstInfo, len(alts))
			for i, a := range alts {
				infos[i] = &firstInfo{tokens: map[string]bool{}, early: map[string]bool{}}
				s.firsts(a, false, infos[i], map[string]bool{}, true)
			}
			nChoice++
			for i := range alts {
				for _, R := range keysOf(infos[i].early) {
					if s.errOf[R] == "" {
						continue
					}
					for j := i + 1; j < len(alts); j++ {
						if infos[j].tokens[R] {
							continue // the later alternative evaluates R at the same place: same verdict either way
						}
						var common []string
						for t := range infos[i].tokens {
							if infos[j].tokens[t] {
								common = append(common, t)
							}
						}
						if len(common) == 0 {
							continue
						}
						sort.Strings(common)
						construct := fmt.Sprintf("A.pigeon.go:%s:alternative %d evaluates %s before it is committed", n, i+1, R)
						if infos[i].guard {
							r.Ok("C03-h", construct, "", "pigeon.go", "the alternative starts with an & guard")
							break
						}
						r.Bad("C03-h", construct, "", "pigeon.go", fmt.Sprintf("alternative %d of the choice in rule %s (`%s`) evaluates rule %s, whose action can return an error, and can still fail afterwards; alternative %d (`%s`) can start with the same token (%s) and does not evaluate %s: the error is recorded for text that the later alternative reads differently, and it is never rolled back", i+1, n, abbreviate(l.describe(alts[i])), R, j+1, abbreviate(l.describe(alts[j])), abbreviate(strings.Join(common, ", ")), R))
						break
					}
				}
			}
		}
	}
	r.Analysed["front_end_choices"] = nChoice
	c03CodeStrings(c, root, l)
	r.Ok("C03-h", "A.pigeon.go:speculation-scan", "", "pigeon.go", fmt.Sprintf("%d predicates and %d ordered choices of the front-end grammar examined for error-returning actions (%d rules have one)", nPred, nChoice, nErr))
	r.Min("C03-h choices of the front-end grammar", 20, nChoice)
	r.Min("C03-h predicates of the front-end grammar", 10, nPred)
}

// c03CodeStrings (C03-i): code blocks may contain Go strings, and a brace inside a string is not a brace of the block.
// Rule CodeStringLiteral skips such strings as units; if it fails on a string the characters of the string are read
// one by one by the fallback of rule Code, and a brace inside it is counted. For an interpreted string ("…") and a rune
// literal ('…') that means: the repetition between the quotes must be able to pass over a backslash followed by any
// character. Structurally, in the alternative that starts with the quote literal, the repeated choice has either a
// negated class that does not exclude the backslash (the backslash and the character after it are then ordinary
// characters; the two-character alternatives for \" and \\ only keep an escaped quote from ending the string), or an
// alternative that takes a backslash together with any following character.
func c03CodeStrings(c *Ctx, root *packages.Package, l *layoutCtx) {
	r := c.R
	e := unwrapLit(l.exprs["CodeStringLiteral"])
	if e == nil {
		return // the grammar has no such rule: nothing claimed
	}
	alts := []*ast.CompositeLit{e}
	if l.kind(e) == "choiceExpr" {
		alts = l.list(e, "alternatives")
	}
	n := 0
	var bad []string
	for _, alt := range alts {
		if l.kind(alt) != "seqExpr" {
			continue
		}
		items := l.list(alt, "exprs")
		if len(items) < 3 || l.kind(items[0]) != "litMatcher" {
			continue
		}
		q, _ := litField(root, items[0], "val")
		if q != `"` && q != "'" {
			continue // raw strings have no escapes
		}
		n++
		passes := false
		var visit func(cl *ast.CompositeLit)
		visit = func(cl *ast.CompositeLit) {
			if cl == nil {
				return
			}
			switch l.kind(cl) {
			case "charClassMatcher":
				inv := nospace(l.field(cl, "inverted")) == "true"
				excludesBackslash := false
				if ch, ok := l.field(cl, "chars").(*ast.CompositeLit); ok {
					for _, el := range ch.Elts {
						if s := nospace(el); s == `'\\'` {
							excludesBackslash = true
						}
					}
				}
				if inv && !excludesBackslash {
					passes = true
				}
			case "seqExpr":
				its := l.list(cl, "exprs")
				if len(its) == 2 && l.kind(its[0]) == "litMatcher" {
					if v, _ := litField(root, its[0], "val"); v == `\` {
						if k := l.kind(its[1]); k == "anyMatcher" || k == "charClassMatcher" && nospace(l.field(its[1], "inverted")) == "true" {
							passes = true
						}
					}
				}
				for _, it := range its {
					if k := l.kind(it); k != "litMatcher" {
						_ = k
					}
				}
			case "choiceExpr":
				for _, a := range l.list(cl, "alternatives") {
					visit(a)
				}
			default:
				visit(l.child(cl))
			}
		}
		for _, it := range items[1 : len(items)-1] {
			visit(it)
		}
		// ordered choice: the alternatives that take an escaped quote and an escaped backslash as units come before
		// any alternative that can take a lone backslash - otherwise `\q` is read as a backslash followed by the closing
		// quote and the literal ends early
		for _, it := range items[1 : len(items)-1] {
			ch := it
			for ch != nil && l.kind(ch) != "choiceExpr" && l.kind(ch) != "charClassMatcher" && l.kind(ch) != "litMatcher" && l.kind(ch) != "seqExpr" {
				ch = l.child(ch)
			}
			if ch == nil || l.kind(ch) != "choiceExpr" {
				continue
			}
			eater, escQuote, escBackslash := -1, -1, -1
			for k, a := range l.list(ch, "alternatives") {
				for a != nil && (l.kind(a) == "oneOrMoreExpr" || l.kind(a) == "zeroOrMoreExpr" || l.kind(a) == "zeroOrOneExpr") {
					a = l.child(a)
				}
				if a == nil {
					continue
				}
				switch l.kind(a) {
				case "anyMatcher":
					if eater < 0 {
						eater = k
					}
				case "charClassMatcher":
					excl := false
					if cs, ok := l.field(a, "chars").(*ast.CompositeLit); ok {
						for _, el := range cs.Elts {
							if nospace(el) == `'\\'` {
								excl = true
							}
						}
					}
					if nospace(l.field(a, "inverted")) == "true" && !excl && eater < 0 {
						eater = k
					}
				case "litMatcher":
					switch v, _ := litField(root, a, "val"); v {
					case `\` + q:
						if escQuote < 0 {
							escQuote = k
						}
					case `\\`:
						if escBackslash < 0 {
							escBackslash = k
						}
					}
				case "seqExpr":
					its := l.list(a, "exprs")
					if len(its) == 2 && l.kind(its[0]) == "litMatcher" {
						if v, _ := litField(root, its[0], "val"); v == `\` {
							if kd := l.kind(its[1]); kd == "anyMatcher" || kd == "charClassMatcher" && nospace(l.field(its[1], "inverted")) == "true" {
								if escQuote < 0 {
									escQuote = k
								}
								if escBackslash < 0 {
									escBackslash = k
								}
							}
						}
					}
				}
			}
			if eater >= 0 {
				switch {
				case escQuote < 0 || escQuote > eater:
					bad = append(bad, fmt.Sprintf("in the %s…%s alternative of CodeStringLiteral the alternative that can take a lone backslash (#%d of the repeated choice) is tried before one that takes `\\%s` as a unit: the escaped quote of %s\\%s%s ends the literal", q, q, eater+1, q, q, q, q))
				case escBackslash < 0 || escBackslash > eater:
					bad = append(bad, fmt.Sprintf("in the %s…%s alternative of CodeStringLiteral the alternative that can take a lone backslash (#%d of the repeated choice) is tried before one that takes `\\\\` as a unit: in %s\\\\%s the second backslash escapes the closing quote", q, q, eater+1, q, q))
				}
			}
		}
		if !passes {
			bad = append(bad, fmt.Sprintf("the %s…%s alternative of CodeStringLiteral (`%s`) cannot pass over a backslash followed by an arbitrary character: its negated class excludes the backslash and no alternative takes a backslash with the character after it", q, q, abbreviate(l.describe(alt))))
		}
	}
	if n == 0 {
		return
	}
	r.Check(len(bad) == 0, "C03-i", "A.pigeon.go:CodeStringLiteral:every-escape-is-passed-over", "", "pigeon.go", fmt.Sprintf("%d quoted forms, each passing over a backslash with whatever follows it", n),
		strings.Join(bad, "; ")+": a Go string with such an escape (\"}\\n\") is not skipped as a unit, its characters are read one by one by rule Code, and a brace inside it ends or extends the code block - the grammar is rejected or the rules that follow are swallowed")
}

// c03Cutsets (C03-j): strings.Trim, TrimLeft and TrimRight take a *set* of characters and remove every leading /
// trailing occurrence of any of them - not one prefix or suffix. Applied to grammar text, where a repeated character is
// significant, they eat members: strings.TrimLeft(raw, "^") on the text of [^^a] removes the marker *and* the literal
// caret. Every such call in the front-end packages with a constant cut set of non-blank characters is listed below
// with the reason why repetition cannot occur there, or is reported (TrimPrefix / TrimSuffix / CutPrefix remove one).
var cutsetReasons = map[string]string{
	"ast.escapeRune": "strips the single quotes strconv.QuoteRune just put around one rune; the result is display text of a merged class (C09-j)",
}

func c03Cutsets(c *Ctx, g *load.G) {
	r := c.R
	n := 0
	var bad []string
	for _, sfx := range []string{"", "ast", "builder", "bootstrap"} {
		p := g.Pkg(sfx)
		if p == nil {
			continue
		}
		for i, f := range p.Syntax {
			fn := p.CompiledGoFiles[i]
			if strings.HasSuffix(fn, "_test.go") || strings.HasSuffix(fn, "/pigeon.go") || strings.HasSuffix(fn, "generated_static_code.go") || strings.HasSuffix(fn, "generated_static_code_range_table.go") {
				continue
			}
			for _, d := range f.Decls {
				fd, ok := d.(*ast.FuncDecl)
				if !ok || fd.Body == nil {
					continue
				}
				for _, ce := range callsIn(fd.Body) {
					cn := callName(ce)
					switch cn {
					case "strings.Trim", "strings.TrimLeft", "strings.TrimRight", "bytes.Trim", "bytes.TrimLeft", "bytes.TrimRight":
					default:
						continue
					}
					if len(ce.Args) != 2 {
						continue
					}
					tv, ok := p.TypesInfo.Types[ce.Args[1]]
					if !ok || tv.Value == nil {
						continue // a computed cut set: not a fixed decoration
					}
					set := constant.StringVal(tv.Value)
					if strings.TrimSpace(set) == "" {
						continue // white space: runs of blanks are layout
					}
					n++
					key := p.Types.Name() + "." + fd.Name.Name
					if _, listed := cutsetReasons[key]; listed {
						continue
					}
					bad = append(bad, fmt.Sprintf("%s: %s calls %s(%s, %q), which removes every leading/trailing %q, not one: where the text may repeat that character (the class [^^a] starts with the marker and a literal caret) the repeated ones are lost - strings.TrimPrefix / TrimSuffix remove exactly one", g.Where(ce.Pos()), key, cn, nospace(ce.Args[0]), set, set))
				}
			}
		}
	}
	r.Analysed["cutset_trims"] = n
	r.Check(len(bad) == 0, "C03-j", "G:cutset-trims-of-grammar-text", "", "main.go, ast/, builder/, bootstrap/", fmt.Sprintf("%d cut-set trim(s) with a non-blank set, all listed with a reason", n), strings.Join(bad, "; "))
}
