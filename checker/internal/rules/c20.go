package rules

import (
	"bytes"
	"fmt"
	"go/ast"
	"go/format"
	"go/parser"
	"go/token"
	"os"
	"path/filepath"
	"regexp"
	"sort"
	"strconv"
	"strings"
	"unicode/utf8"

	"pigeonverif/internal/load"
	"pigeonverif/internal/variants"
)

type makeRule struct {
	Target string
	Deps   []string
	Recipe []string
}

var makeVarRe = regexp.MustCompile(`\$\(([A-Za-z_]+)\)`)

// parseMakefile reads simple variable assignments and explicit rules (enough for this repository's Makefile).
func parseMakefile(path string) ([]makeRule, map[string]string, error) {
	raw, err := os.ReadFile(path)
	if err != nil {
		return nil, nil, err
	}
	text := strings.ReplaceAll(string(raw), "\\\n", " ")
	vars := map[string]string{}
	expand := func(s string) string {
		for i := 0; i < 10 && strings.Contains(s, "$("); i++ {
			s = makeVarRe.ReplaceAllStringFunc(s, func(m string) string {
				n := makeVarRe.FindStringSubmatch(m)[1]
				if v, ok := vars[n]; ok {
					return v
				}
				return m
			})
		}
		return s
	}
	var rules []makeRule
	var cur []int // the rules the recipe lines that follow belong to
	for _, line := range strings.Split(text, "\n") {
		if strings.HasPrefix(line, "\t") {
			for _, k := range cur {
				rules[k].Recipe = append(rules[k].Recipe, expand(strings.TrimSpace(line)))
			}
			continue
		}
		t := strings.TrimSpace(line)
		if t == "" || strings.HasPrefix(t, "#") {
			continue
		}
		if m := regexp.MustCompile(`^([A-Za-z_]+)\s*=\s*(.*)$`).FindStringSubmatch(t); m != nil && !strings.Contains(m[1], ":") {
			vars[m[1]] = strings.TrimSpace(m[2])
			cur = nil
			continue
		}
		cur = nil
		if i := strings.Index(t, ":"); i > 0 && !strings.HasPrefix(t, ".PHONY") && !strings.HasPrefix(t, "export") {
			tg := strings.Fields(expand(t[:i]))
			rest := expand(t[i+1:])
			if j := strings.Index(rest, ":"); j >= 0 && strings.Contains(rest[:j], "%") {
				// static pattern rule `targets: target-pattern: prerequisite-patterns`: one rule per target, the stem
				// substituted into the prerequisites
				tp := strings.TrimSpace(rest[:j])
				pre, suf, _ := strings.Cut(tp, "%")
				for _, target := range tg {
					target = filepath.Clean(target)
					cpre := pre
					if cpre != "" {
						cpre = filepath.Clean(cpre)
					}
					if !strings.HasPrefix(target, cpre) || !strings.HasSuffix(target, suf) || len(target) < len(cpre)+len(suf) {
						continue
					}
					stem := target[len(cpre) : len(target)-len(suf)]
					var deps []string
					for _, d := range strings.Fields(rest[j+1:]) {
						deps = append(deps, strings.Replace(d, "%", stem, 1))
					}
					rules = append(rules, makeRule{Target: target, Deps: deps})
					cur = append(cur, len(rules)-1)
				}
				continue
			}
			deps := strings.Fields(rest)
			if len(tg) == 1 {
				rules = append(rules, makeRule{Target: filepath.Clean(tg[0]), Deps: deps})
				cur = []int{len(rules) - 1}
				continue
			}
		}
	}
	return rules, vars, nil
}

type artifact struct {
	Path     string // relative to repo
	Peg      string
	Tool     string // pigeon | bootstrap-pigeon | bootstrap-build
	Flags    []string
	Params   variants.Params
	OptGram  bool
	FromMake bool
}

// artifactsFromMakefile lists the generated parsers the Makefile knows how to regenerate.
func artifactsFromMakefile(repo string) ([]artifact, error) {
	rules, _, err := parseMakefile(filepath.Join(repo, "Makefile"))
	if err != nil {
		return nil, err
	}
	var out []artifact
	for _, r := range rules {
		for _, rc := range r.Recipe {
			rc = strings.TrimPrefix(rc, "@")
			if strings.HasPrefix(rc, "!") || !strings.Contains(rc, "> $@") {
				continue
			}
			f := strings.Fields(rc)
			tool := filepath.Base(f[0])
			if tool != "pigeon" && tool != "bootstrap-pigeon" && tool != "bootstrap-build" {
				continue
			}
			a := artifact{Path: r.Target, Tool: tool, FromMake: true}
			for _, w := range f[1:] {
				switch {
				case w == "$<":
					if len(r.Deps) > 0 {
						a.Peg = filepath.Clean(r.Deps[0])
					}
				case strings.HasSuffix(w, ".peg"):
					a.Peg = filepath.Clean(w)
				case strings.HasPrefix(w, "-"):
					a.Flags = append(a.Flags, w)
				}
			}
			for _, fl := range a.Flags {
				switch fl {
				case "-optimize-parser":
					a.Params.Optimize = true
				case "-optimize-basic-latin":
					a.Params.BasicLatinLookupTable = true
				case "-nolint":
					a.Params.Nolint = true
				case "-optimize-grammar":
					a.OptGram = true
				}
			}
			if tool == "bootstrap-pigeon" {
				a.Params.Nolint = true // bootstrap-pigeon hard-codes builder.Nolint(true) (checked below)
			}
			out = append(out, a)
		}
	}
	return out, nil
}

var staticStartRe = regexp.MustCompile(`(?m)^var \(\n\t// errNoRule is returned`)

// C20 — the bootstrap chain agrees with itself and with the checked-in artifacts.
func C20(c *Ctx) {
	r := c.R
	r.Technique = "artifact consistency by static comparison: constant values of the string tables vs. the template source, gofmt-normalised static tail of every checked-in generated parser vs. the template variant for the flags in its Makefile recipe, recipe/artifact coverage, position anchors of the grammar literal vs. the .peg bytes"
	r.Explanation = "The first sentence of the property (the hand-written bootstrap front-end and the generated front-end build identical ASTs for every text of the subset) is an equivalence of two parsers over all inputs and is not decided. Byte-for-byte regeneration means running the chain; what is decided is the consistency regeneration would establish: (a) the string tables staticCode / rangeTable0 are exactly what static_code_generator writes for the current static_code.go / static_code_range_table.go; (b) the static part of each of the checked-in generated parsers equals, after gofmt, the template variant selected by the flags of its Makefile recipe (and by the grammar literal for GlobalState / LeftRecursion), so no artifact was generated from an older template or with other flags; (c) every .peg under test/, examples/, grammar/ has a recipe and a checked-in output and vice versa; (d) every node position recorded in a generated grammar literal is consistent with the .peg bytes (line/col recomputed from the offset; rule names, rule references, class texts and the any matcher found at their offsets), which catches a grammar edited without regenerating. Both tiers cover all artifacts."
	r.Assumptions = []string{"go/format is the formatter imports.Process applies", "the Makefile is the documented way to regenerate"}
	r.Rule("C20-a", "value(staticCode) == \"\\n\" + text of builder/static_code.go after the delimiter line (+ \"\\n\"), likewise rangeTable0; the generator's delimiter/header literals are the ones assumed; no back-quote in the template")
	r.Rule("C20-b", "for each generated parser: gofmt(static tail from `var ( // errNoRule`) == gofmt(variant for the recipe's flags [+ rangeTable iff referenced]); flags from the Makefile and properties of the literal (stateCodeExpr ⇒ GlobalState, leader: ⇒ LeftRecursion) do not contradict")
	r.Rule("C20-c", "set of *.peg under test/, examples/, grammar/ == set of grammars with a Makefile recipe; every recipe target exists and carries the generated-code header; every file with the header has a recipe")
	r.Rule("C20-e", "sibling agreement of the two front-ends on literal decoding: the value passed to ast.NewLitMatcher is, in bootstrap/parser.go and in the generated pigeon.go alike, the result of strconv.Unquote on the raw token text (helpers are resolved one level); class, any-matcher, identifier and code-block values are the raw token text in both")
	r.Rule("C20-g", "code blocks are kept verbatim by both front-ends: ast.NewCodeBlock receives string(c.text) in the generated front-end and the token text in the bootstrap parser, and the bootstrap scanner's scanCode appends every rune it consumes (each s.read() is followed by s.tok.WriteRune(s.cur) before the next one; runes are consumed only through the primitive read)")
	r.Rule("C20-h", "the hand-written bootstrap parser realises the binding strength of the grammars (C03-b): the method that builds choice nodes takes its operands from the one that builds action nodes, that one from sequence, label, prefix (& !), suffix (? * +) and primary in this order, and the primary level re-enters the choice level; levels are recognised by the ast constructors a method calls")
	r.Rule("C20-i", "comments and the subset of the hand-written front-end: either no function of the hand-written parser names a comment token (a comment outside a code block is then rejected, i.e. outside the subset), or the hand-written scanner delimits comments as grammar/pigeon.peg does - the flag that arms the closing test of a multi-line comment is cleared by every rune other than '*', so the comment ends at the first */ and nowhere else")
	bootstrapComments(c, "C20-i")
	r.Rule("C20-j", "each stage's input grammar lies in the subset the front-end of the stage before understands (pigeon.peg does not use its own extensions of bootstrap.peg): (1) every node type in the grammar literal of pigeon.go / bootstrap_pigeon.go is constructed (ast.New…) by the actions of bootstrap_pigeon.go / by bootstrap/parser.go; (2) every code block of the two grammars ends at the same byte for a reader that counts braces (bootstrap.peg's Code rule, the hand-written scanCode) and for pigeon.peg's Code rule, which skips strings, rune literals and comments; (3) every rule of pigeon.peg is defined with an operator bootstrap.peg's RuleDefOp lists; (4) rule names, references and labels of pigeon.peg are ASCII identifiers as bootstrap.peg's IdentifierStart / IdentifierPart demand; (5) where the two grammars define SingleLineComment differently (pigeon.peg excludes `//{`), neither grammar text has `//{` outside literals, classes and code blocks, so every `//` there is a comment for all three front-ends")
	bootstrapSubset(c, "C20-j")
	r.Rule("C20-k", "the ignore-case suffix is lexed alike by the three front-ends: the `ignore:` item of LitMatcher and CharClassMatcher in both grammars and the `if s.cur == 'i'` of the hand-written scanner's literal and class routines are all unconditional (an optional bare `i`) or all conditional - otherwise the front-ends split `\"a\"item` differently")
	ignoreCaseSuffixAgreement(c, "C20-k")
	r.Rule("C20-m", "the hand-written scanner validates a numeric escape by the value its digits denote: in the digit loop of the escape routine the accumulator is updated as x = x*B + d, B being the radix the loop admits digits of (d >= B rejects) - the generated front-end accepts by digit count and digit set, so a value computed in another radix rejects escapes the grammars accept (\\101 is 65, not 0x101)")
	r.Rule("C20-l", "the Makefile's comparison of stage 2 and stage 3 (target cmp: bootstrap-pigeon and pigeon on the same grammar, outputs compared byte for byte) runs pigeon with exactly the generation options bootstrap-pigeon hard-codes (builder.Nolint(true) ⇒ -nolint, nothing else): otherwise the documented fixpoint test fails on a tree that is a fixpoint")
	r.Rule("C20-f", "sibling agreement of the two front-end grammars: every rule defined both in grammar/bootstrap.peg and in grammar/pigeon.peg (compared through their generated literals, positions and actions aside) has the same expression, except the listed rules where pigeon.peg extends the bootstrap subset")
	r.Rule("C20-d", "for artifacts generated without -optimize-grammar: every position{line,col,offset} in the grammar literal satisfies line = 1 + newlines before offset, col = 1 + runes since the last newline; rule names, rule references, character-class texts and `.` occur at their offsets in the .peg")

	repo := load.Repo()
	src := c.Src()
	if src == nil {
		return
	}
	// ---- a
	c20Tables(c, repo, src)
	// ---- artifacts
	arts, err := artifactsFromMakefile(repo)
	if err != nil {
		r.Fatal("Makefile: %v", err)
		return
	}
	r.Analysed["makefile_recipes"] = len(arts)
	r.Min("Makefile generation recipes", 40, len(arts))
	// bootstrap-pigeon hard-codes Nolint(true); bootstrap-build uses defaults
	for _, it := range []struct{ file, want string }{{"bootstrap/cmd/bootstrap-pigeon/main.go", "builder.Nolint(true)"}, {"bootstrap/cmd/bootstrap-build/main.go", "builder.BuildParser(outBuf,g)"}} {
		b, err := os.ReadFile(filepath.Join(repo, it.file))
		ok := err == nil && strings.Contains(strings.ReplaceAll(string(b), " ", ""), it.want)
		r.Check(ok, "C20-b", "A."+it.file+":builder-options", "", it.file, "options as assumed for the artifact comparison ("+it.want+")", "the tool no longer builds with "+it.want+": the flags assumed for its artifact are wrong")
	}
	// ---- m: the hand-written scanner validates numeric escapes by their value
	bootstrapEscapeRadix(c, "C20-m")
	literalDecodingAgreement(c, "C20-n")
	// ---- l: the Makefile's own fixpoint comparison
	c20CmpRecipe(c, repo)
	// ---- e: sibling agreement on literal decoding
	c20Decoders(c)
	flagMapping(c, c.G(), "C20-e")
	c20CodeVerbatim(c)
	// ---- f: the two front-end grammars agree on the rules they share
	siblingGrammars(c, "C20-f")
	// ---- h: the hand-written front-end binds operators like the grammars do
	c20Precedence(c, "C20-h")
	// ---- c: coverage
	c20Coverage(c, repo, arts)
	// ---- b, d per artifact
	sel := arts // static comparison of all artifacts takes well under a second: quick and thorough cover the same set
	r.Analysed["artifacts_compared"] = len(sel)
	fmtCache := map[string]string{}
	for _, a := range sel {
		c20Artifact(c, repo, src, a, fmtCache)
	}
}

func c20Tables(c *Ctx, repo string, src *variants.Source) {
	r := c.R
	gen, err := os.ReadFile(filepath.Join(repo, "bootstrap/cmd/static_code_generator/main.go"))
	if err != nil {
		r.Fatal("static_code_generator: %v", err)
		return
	}
	delim := "// IMPORTANT: All code below this line is added to the parser as static code"
	okGen := strings.Contains(string(gen), `delimiter = "`+delim+`"`) && strings.Contains(string(gen), "var %s = ` + \"`\"") && strings.Contains(string(gen), "if line == delimiter")
	r.Check(okGen, "C20-a", "A.static_code_generator:literals", "", "bootstrap/cmd/static_code_generator/main.go", "delimiter/header as assumed", "the generator's delimiter/header literals changed: the table comparison below would use the wrong convention")
	for _, it := range []struct{ srcFile, name, val string }{
		{"builder/static_code.go", "staticCode", src.StaticCode},
		{"builder/static_code_range_table.go", "rangeTable0", src.RangeTable0},
	} {
		raw, err := os.ReadFile(filepath.Join(repo, it.srcFile))
		if err != nil {
			r.Fatal("%s: %v", it.srcFile, err)
			continue
		}
		lines := strings.Split(string(raw), "\n")
		keep := false
		var kept []string
		for _, l := range lines {
			if keep {
				kept = append(kept, l)
			}
			if l == delim {
				keep = true
			}
		}
		want := "\n" + strings.Join(kept, "\n") + "\n"
		detail := ""
		if want != it.val {
			wl, gl := strings.Split(want, "\n"), strings.Split(it.val, "\n")
			for i := 0; i < len(wl) && i < len(gl); i++ {
				if wl[i] != gl[i] {
					detail = fmt.Sprintf("first difference at template line %d: source has %q, table has %q", i, wl[i], gl[i])
					break
				}
			}
			if detail == "" {
				detail = fmt.Sprintf("lengths differ: source %d lines, table %d lines", len(wl), len(gl))
			}
		}
		r.Check(want == it.val && !strings.Contains(want, "`"), "C20-a", "A.builder/generated_"+filepath.Base(it.srcFile)+":"+it.name+"==source", "", "builder/generated_"+filepath.Base(it.srcFile),
			fmt.Sprintf("%d lines identical to %s", len(kept), it.srcFile), it.srcFile+" was edited without regenerating the string table (or vice versa): "+detail)
	}
}

func hasGeneratedHeader(path string) bool {
	f, err := os.Open(path)
	if err != nil {
		return false
	}
	defer f.Close()
	buf := make([]byte, 200)
	n, _ := f.Read(buf)
	return strings.Contains(string(buf[:n]), "// Code generated by pigeon; DO NOT EDIT.")
}

func c20Coverage(c *Ctx, repo string, arts []artifact) {
	r := c.R
	pegs := map[string]bool{}
	gens := map[string]bool{}
	for _, root := range []string{"test", "examples", "grammar", "bootstrap"} {
		_ = filepath.Walk(filepath.Join(repo, root), func(p string, info os.FileInfo, err error) error {
			if err != nil || info.IsDir() {
				return nil
			}
			rel, _ := filepath.Rel(repo, p)
			if strings.HasSuffix(p, ".peg") {
				pegs[rel] = true
			}
			if strings.HasSuffix(p, ".go") && hasGeneratedHeader(p) {
				gens[rel] = true
			}
			return nil
		})
	}
	if hasGeneratedHeader(filepath.Join(repo, "pigeon.go")) {
		gens["pigeon.go"] = true
	}
	recPeg, recOut := map[string]bool{}, map[string]bool{}
	var bad []string
	for _, a := range arts {
		recPeg[a.Peg] = true
		recOut[a.Path] = true
		if !gens[a.Path] {
			bad = append(bad, "recipe target "+a.Path+" is missing or not a generated parser")
		}
		if !pegs[a.Peg] {
			bad = append(bad, "recipe for "+a.Path+" reads "+a.Peg+", which does not exist")
		}
	}
	for p := range pegs {
		if !recPeg[p] {
			bad = append(bad, "grammar "+p+" has no Makefile recipe (its parser cannot be regenerated)")
		}
	}
	for gfile := range gens {
		if !recOut[gfile] {
			bad = append(bad, "generated parser "+gfile+" has no Makefile recipe")
		}
	}
	sort.Strings(bad)
	r.Check(len(bad) == 0, "C20-c", "A.Makefile:recipes<->grammars<->artifacts", "", "Makefile", fmt.Sprintf("%d grammars, %d generated parsers, %d recipes", len(pegs), len(gens), len(arts)), strings.Join(bad, "; "))
	r.Analysed["grammars"] = len(pegs)
	r.Analysed["generated_parsers"] = len(gens)
}

func gofmtTail(text string) (string, error) {
	b, err := format.Source([]byte("package p\n\n" + text))
	if err != nil {
		return "", err
	}
	s := string(b)
	loc := staticStartRe.FindStringIndex(s)
	if loc == nil {
		return "", fmt.Errorf("static part not found")
	}
	return strings.TrimSpace(s[loc[0]:]), nil
}

func c20Artifact(c *Ctx, repo string, src *variants.Source, a artifact, cache map[string]string) {
	r := c.R
	raw, err := os.ReadFile(filepath.Join(repo, a.Path))
	if err != nil {
		r.Bad("C20-b", "A."+a.Path+":static-part==variant", "", a.Path, "cannot read: "+err.Error())
		return
	}
	text := string(raw)
	loc := staticStartRe.FindStringIndex(text)
	if loc == nil {
		r.Bad("C20-b", "A."+a.Path+":static-part==variant", "", a.Path, "start of the static part (`var ( // errNoRule …`) not found")
		return
	}
	head, tail := text[:loc[0]], strings.TrimSpace(text[loc[0]:])
	p := a.Params
	p.GlobalState = strings.Contains(head, "&stateCodeExpr{")
	p.LeftRecursion = regexp.MustCompile(`(?m)^\s*leader:\s+(true|false),`).MatchString(head)
	withRT := strings.Contains(head, "rangeTable(")
	key := p.Name() + fmt.Sprint(withRT)
	want, ok := cache[key]
	if !ok {
		vt, _, err := src.Instantiate(p)
		if err != nil {
			r.Fatal("instantiate %s: %v", p.Name(), err)
			return
		}
		if withRT {
			vt += src.RangeTable0 + "\n"
		}
		want, err = gofmtTail(vt)
		if err != nil {
			r.Fatal("gofmt of variant %s: %v", p.Name(), err)
			return
		}
		cache[key] = want
	}
	// the artifact is already gofmt'ed by imports.Process; normalise it the same way
	got := tail
	if g2, err := format.Source([]byte("package p\n\n" + tail)); err == nil {
		got = strings.TrimSpace(strings.TrimPrefix(string(g2), "package p\n"))
	}
	detail := ""
	if got != want {
		gl, wl := strings.Split(got, "\n"), strings.Split(want, "\n")
		for i := 0; i < len(gl) && i < len(wl); i++ {
			if gl[i] != wl[i] {
				detail = fmt.Sprintf("first difference at line %d of the static part: artifact %q, template variant %s %q", i+1, strings.TrimSpace(gl[i]), p.Name(), strings.TrimSpace(wl[i]))
				break
			}
		}
		if detail == "" {
			detail = fmt.Sprintf("artifact static part has %d lines, variant %s has %d", len(gl), p.Name(), len(wl))
		}
	}
	r.Check(got == want, "C20-b", "A."+a.Path+":static-part==variant", "", a.Path, "equals variant "+p.Name()+" (flags: "+strings.Join(a.Flags, " ")+")",
		"the checked-in parser was not generated from the current template with the recipe's flags ["+strings.Join(a.Flags, " ")+"]: "+detail)
	// ---- d
	if a.OptGram {
		return
	}
	peg, err := os.ReadFile(filepath.Join(repo, a.Peg))
	if err != nil {
		r.Bad("C20-d", "A."+a.Path+":positions-anchored-in-grammar", "", a.Path, "grammar unreadable: "+err.Error())
		return
	}
	c20Anchors(c, a, head, peg)
}

var posRe = regexp.MustCompile(`position\{line: (\d+), col: (\d+), offset: (\d+)\}`)

func c20Anchors(c *Ctx, a artifact, head string, peg []byte) {
	r := c.R
	fset := token.NewFileSet()
	// the head is "package …; imports; var g = …; funcs"; parse it to walk the literal
	f, err := parser.ParseFile(fset, a.Path, head, parser.SkipObjectResolution)
	if err != nil {
		r.Unk("C20-d", "A."+a.Path+":positions-anchored-in-grammar", "", a.Path, "head of the artifact does not parse: "+err.Error())
		return
	}
	var bad []string
	n := 0
	checkPos := func(line, col, off int, what string) bool {
		n++
		if off < 0 || off > len(peg) {
			bad = append(bad, fmt.Sprintf("%s: offset %d outside the grammar (%d bytes)", what, off, len(peg)))
			return false
		}
		wl := 1 + bytes.Count(peg[:off], []byte("\n"))
		ls := bytes.LastIndexByte(peg[:off], '\n') + 1
		wc := utf8.RuneCount(peg[ls:off]) + 1
		if wl != line || wc != col {
			bad = append(bad, fmt.Sprintf("%s: recorded %d:%d [%d], but offset %d of %s is at %d:%d", what, line, col, off, off, a.Peg, wl, wc))
			return false
		}
		return true
	}
	intOf := func(e ast.Expr) int {
		if bl, ok := e.(*ast.BasicLit); ok {
			v, _ := strconv.Atoi(bl.Value)
			return v
		}
		return -1
	}
	posOf := func(cl *ast.CompositeLit) (int, int, int, bool) {
		for _, e := range cl.Elts {
			kv, ok := e.(*ast.KeyValueExpr)
			if !ok {
				continue
			}
			if nospace(kv.Key) == "pos" {
				if pc, ok := kv.Value.(*ast.CompositeLit); ok {
					m := map[string]int{}
					for _, pe := range pc.Elts {
						if pkv, ok := pe.(*ast.KeyValueExpr); ok {
							m[nospace(pkv.Key)] = intOf(pkv.Value)
						}
					}
					return m["line"], m["col"], m["offset"], true
				}
			}
		}
		// anyMatcher: line/col/offset inline
		m := map[string]int{}
		for _, e := range cl.Elts {
			if kv, ok := e.(*ast.KeyValueExpr); ok {
				m[nospace(kv.Key)] = intOf(kv.Value)
			}
		}
		if _, ok := m["offset"]; ok {
			return m["line"], m["col"], m["offset"], true
		}
		return 0, 0, 0, false
	}
	strField := func(cl *ast.CompositeLit, name string) (string, bool) {
		for _, e := range cl.Elts {
			if kv, ok := e.(*ast.KeyValueExpr); ok && nospace(kv.Key) == name {
				if bl, ok := kv.Value.(*ast.BasicLit); ok {
					if s, err := strconv.Unquote(bl.Value); err == nil {
						return s, true
					}
				}
			}
		}
		return "", false
	}
	ast.Inspect(f, func(nd ast.Node) bool {
		cl, ok := nd.(*ast.CompositeLit)
		if !ok {
			return true
		}
		tn := ""
		if cl.Type != nil {
			tn = nospace(cl.Type)
		} else {
			// elements of []*rule{ {...}, ... } have no explicit type
			if _, ok := strField(cl, "name"); ok {
				tn = "rule"
			}
		}
		line, col, off, ok := posOf(cl)
		if !ok || tn == "position" {
			return true
		}
		what := tn
		if !checkPos(line, col, off, what) {
			return true
		}
		at := func(s string) bool { return off+len(s) <= len(peg) && string(peg[off:off+len(s)]) == s }
		switch tn {
		case "rule":
			if nm, ok := strField(cl, "name"); ok && !at(nm) {
				bad = append(bad, fmt.Sprintf("rule %q is recorded at offset %d, but the grammar has %q there", nm, off, snippet(peg, off)))
			}
		case "ruleRefExpr":
			if nm, ok := strField(cl, "name"); ok && !at(nm) {
				bad = append(bad, fmt.Sprintf("reference to %q is recorded at offset %d, but the grammar has %q there", nm, off, snippet(peg, off)))
			}
		case "charClassMatcher":
			if v, ok := strField(cl, "val"); ok && !at(v) {
				bad = append(bad, fmt.Sprintf("class %s is recorded at offset %d, but the grammar has %q there", v, off, snippet(peg, off)))
			}
		case "anyMatcher":
			if !at(".") {
				bad = append(bad, fmt.Sprintf("any matcher recorded at offset %d, but the grammar has %q there", off, snippet(peg, off)))
			}
		case "litMatcher":
			if off < len(peg) && !strings.ContainsRune("\"'`", rune(peg[off])) {
				bad = append(bad, fmt.Sprintf("literal recorded at offset %d, but the grammar has %q there", off, snippet(peg, off)))
			}
		}
		return true
	})
	sort.Strings(bad)
	if len(bad) > 0 {
		r.Bad("C20-d", "A."+a.Path+":positions-anchored-in-grammar", "", a.Path, fmt.Sprintf("%d of %d anchors fail; first: %s", len(bad), n, bad[0]))
	} else {
		r.Ok("C20-d", "A."+a.Path+":positions-anchored-in-grammar", "", a.Path, fmt.Sprintf("%d node positions consistent with %s", n, a.Peg))
	}
}

func snippet(b []byte, off int) string {
	end := off + 12
	if end > len(b) {
		end = len(b)
	}
	if off > len(b) {
		return ""
	}
	return string(b[off:end])
}

// decodersOf returns, for every call of constructor ctor in pkg files selected by keep, the set of strconv functions
// that produce its value argument (resolving one level of local helper functions), or "raw" when the argument is
// the token text itself.
func decodersOf(c *Ctx, g *load.G, pkgSuffix, ctor string, keep func(file string) bool) (map[string]bool, int) {
	p := g.Pkg(pkgSuffix)
	out := map[string]bool{}
	n := 0
	if p == nil {
		return out, 0
	}
	// strconv functions used by local helpers
	helperUses := map[string]map[string]bool{}
	for _, fd := range load.AllFuncDecls(p) {
		if fd.Body == nil {
			continue
		}
		m := map[string]bool{}
		for _, ce := range callsIn(fd.Body) {
			if cn := callName(ce); strings.HasPrefix(cn, "strconv.") {
				m[cn] = true
			}
		}
		helperUses[fd.Name.Name] = m
	}
	for _, fd := range load.AllFuncDecls(p) {
		if fd.Body == nil || !keep(g.Fset.Position(fd.Pos()).Filename) {
			continue
		}
		for _, ce := range callsIn(fd.Body) {
			if callName(ce) != "ast."+ctor || len(ce.Args) < 2 {
				continue
			}
			n++
			arg := ce.Args[1]
			id, ok := arg.(*ast.Ident)
			if !ok {
				out["raw:"+nospace(arg)] = true
				continue
			}
			// definitions of the identifier in this function
			found := false
			ast.Inspect(fd.Body, func(nd ast.Node) bool {
				as, ok := nd.(*ast.AssignStmt)
				if !ok || len(as.Rhs) != 1 {
					return true
				}
				for _, l := range as.Lhs {
					if nospace(l) != id.Name {
						continue
					}
					found = true
					rc, ok := as.Rhs[0].(*ast.CallExpr)
					if !ok {
						if _, isLit := as.Rhs[0].(*ast.BasicLit); isLit {
							continue // constant fallback (error path)
						}
						out["raw:"+nospace(as.Rhs[0])] = true
						continue
					}
					cn := callName(rc)
					switch {
					case strings.HasPrefix(cn, "strconv."):
						out[cn] = true
					case helperUses[callSel(rc)] != nil && len(helperUses[callSel(rc)]) > 0:
						for k := range helperUses[callSel(rc)] {
							out[k] = true
						}
					default:
						out["call:"+cn] = true
					}
				}
				return true
			})
			if !found {
				out["raw:"+id.Name] = true
			}
		}
	}
	return out, n
}

func c20Decoders(c *Ctx) {
	r := c.R
	g := c.G()
	if g == nil {
		return
	}
	boot, nb := decodersOf(c, g, "bootstrap", "NewLitMatcher", func(f string) bool { return strings.HasSuffix(f, "/bootstrap/parser.go") })
	gen, ng := decodersOf(c, g, "", "NewLitMatcher", func(f string) bool { return strings.HasSuffix(f, "/pigeon.go") })
	bs, gs := strings.Join(keysOf(boot), ","), strings.Join(keysOf(gen), ",")
	ok := nb >= 1 && ng >= 1 && bs == "strconv.Unquote" && gs == "strconv.Unquote"
	r.Check(ok, "C20-e", "A.front-ends:literal-decoding-agrees", "", "bootstrap/parser.go, pigeon.go", "both front-ends decode literal tokens with strconv.Unquote only",
		fmt.Sprintf("bootstrap front-end decodes literal values with {%s} (%d sites), generated front-end with {%s} (%d sites): for some literal spellings the two front-ends build different LitMatcher values (e.g. '\\xe9' is the byte 0xE9 for strconv.Unquote but U+00E9 for UnquoteChar)", bs, nb, gs, ng))
}

// c20CodeVerbatim (C20-g).
func c20CodeVerbatim(c *Ctx) {
	r := c.R
	g := c.G()
	if g == nil {
		return
	}
	// (1)/(2) constructor arguments
	for _, side := range []struct{ pkg, file, want, label string }{
		{"", "/pigeon.go", "string(c.text)", "generated front-end"},
		{"bootstrap", "/bootstrap/parser.go", "p.tok.lit", "bootstrap front-end"},
	} {
		pk := g.Pkg(side.pkg)
		if pk == nil {
			r.Fatal("package %q not loaded", side.pkg)
			continue
		}
		n := 0
		var bad []string
		for i, f := range pk.Syntax {
			if !strings.HasSuffix(pk.CompiledGoFiles[i], side.file) {
				continue
			}
			ast.Inspect(f, func(nd ast.Node) bool {
				ce, ok := nd.(*ast.CallExpr)
				if !ok || callSel(ce) != "NewCodeBlock" || len(ce.Args) != 2 {
					return true
				}
				n++
				if a := nospace(ce.Args[1]); a != side.want {
					bad = append(bad, g.Where(ce.Pos())+": code block text is "+a+", expected "+side.want)
				}
				return true
			})
		}
		r.Check(len(bad) == 0 && n > 0, "C20-g", "A."+side.label+":code-block-text-is-the-token-text", "", side.file[1:], fmt.Sprintf("%d constructor calls, all with %s", n, side.want), fmt.Sprintf("%d calls; %s", n, strings.Join(bad, "; ")))
	}
	// (3) the scanner
	bp := g.Pkg("bootstrap")
	if bp == nil {
		return
	}
	fd := load.FuncDecl(bp, "Scanner", "scanCode")
	if fd == nil || fd.Body == nil {
		r.Fatal("anchor bootstrap.Scanner.scanCode not found")
		return
	}
	s := recvName(fd)
	// methods of Scanner that (transitively) consume input
	consumes := map[string]bool{"read": true}
	for changed := true; changed; {
		changed = false
		for _, d := range load.AllFuncDecls(bp) {
			if load.RecvName(d) != "Scanner" || d.Body == nil || consumes[d.Name.Name] {
				continue
			}
			for _, ce := range callsIn(d.Body) {
				if sel, ok := ce.Fun.(*ast.SelectorExpr); ok && consumes[sel.Sel.Name] {
					if id, ok := sel.X.(*ast.Ident); ok && id.Name == recvName(d) {
						consumes[d.Name.Name] = true
						changed = true
					}
				}
			}
		}
	}
	var bad []string
	paths := enumPaths(fd.Body)
	for _, p := range paths {
		pendingRead := false
		for _, e := range p {
			if e.Kind == "return" {
				pendingRead = false
				continue
			}
			ce, ok := e.Node.(*ast.CallExpr)
			if e.Kind != "call" || !ok {
				continue
			}
			switch {
			case e.Text == s+".read()":
				if pendingRead {
					bad = append(bad, g.Where(ce.Pos())+": a rune is consumed while the previous one was not appended to the token")
				}
				pendingRead = true
			case e.Text == s+".tok.WriteRune("+s+".cur)":
				pendingRead = false
			default:
				if sel, ok := ce.Fun.(*ast.SelectorExpr); ok && consumes[sel.Sel.Name] && nospace(sel.X) == s {
					bad = append(bad, g.Where(ce.Pos())+": input is consumed through "+sel.Sel.Name+"(), which can advance over runes that are never appended to the token (the generated front-end keeps string(c.text) verbatim)")
				}
			}
		}
	}
	// the primitive itself: stores the rune ReadRune returned, unconditionally
	okRead := false
	if rd := load.FuncDecl(bp, "Scanner", "read"); rd != nil && rd.Body != nil {
		rv := ""
		ast.Inspect(rd.Body, func(nd ast.Node) bool {
			if as, ok := nd.(*ast.AssignStmt); ok && len(as.Rhs) == 1 && strings.HasSuffix(nospace(as.Rhs[0]), ".ReadRune()") && len(as.Lhs) == 3 {
				rv = nospace(as.Lhs[0])
			}
			// `s.cur = r`, also as one side of a tuple assignment (`s.cur, s.cw = r, w`)
			if as, ok := nd.(*ast.AssignStmt); ok && len(as.Lhs) == len(as.Rhs) && rv != "" && len(guardsOf(rd.Body, as.Pos())) == 0 {
				for k := range as.Lhs {
					if nospace(as.Lhs[k]) == recvName(rd)+".cur" && nospace(as.Rhs[k]) == rv {
						okRead = true
					}
				}
			}
			return true
		})
		nRR := 0
		for _, ce := range callsIn(rd.Body) {
			if callSel(ce) == "ReadRune" {
				nRR++
			}
		}
		if nRR != 1 {
			okRead = false
		}
	}
	if !okRead {
		bad = append(bad, "Scanner.read does not store exactly the one rune it reads into cur unconditionally")
	}
	r.Check(len(bad) == 0 && len(paths) > 0, "C20-g", "G.bootstrap.Scanner.scanCode:appends-every-rune-it-consumes", "", g.Where(fd.Pos()), fmt.Sprintf("%d paths; every read() is followed by WriteRune(cur)", len(paths)), strings.Join(uniq(bad), "; "))
}

// c20CmpRecipe (C20-l): the recipe of the target that compares the output of bootstrap-pigeon with the output of
// pigeon for the same grammar must generate both under the same options. bootstrap-pigeon has no flags: its options
// are the ones its main hard-codes (builder.Nolint(true), established under C20-b), so the pigeon command of the
// recipe carries -nolint and no other generation flag.
func c20CmpRecipe(c *Ctx, repo string) {
	r := c.R
	rules, _, err := parseMakefile(filepath.Join(repo, "Makefile"))
	if err != nil {
		r.Fatal("Makefile: %v", err)
		return
	}
	type cmd struct {
		tool, peg string
		flags     []string
	}
	n := 0
	for _, mr := range rules {
		var cmds []cmd
		compares := false
		for _, rc := range mr.Recipe {
			rc = strings.TrimPrefix(rc, "@")
			for _, part := range regexp.MustCompile(`&&|;|\|\|`).Split(rc, -1) {
				f := strings.Fields(part)
				// skip shell assignments in front of the command (boot=$$(mktemp))
				for len(f) > 0 && strings.Contains(f[0], "=") && !strings.HasPrefix(f[0], "-") {
					f = f[1:]
				}
				if len(f) == 0 {
					continue
				}
				switch tool := filepath.Base(f[0]); tool {
				case "cmp", "diff":
					compares = true
				case "pigeon", "bootstrap-pigeon":
					cm := cmd{tool: tool}
					for _, w := range f[1:] {
						switch {
						case strings.HasSuffix(w, ".peg"):
							cm.peg = filepath.Clean(w)
						case strings.HasPrefix(w, "-"):
							cm.flags = append(cm.flags, w)
						}
					}
					cmds = append(cmds, cm)
				}
			}
		}
		if !compares {
			continue
		}
		for _, b := range cmds {
			if b.tool != "bootstrap-pigeon" {
				continue
			}
			for _, p := range cmds {
				if p.tool != "pigeon" || p.peg != b.peg {
					continue
				}
				n++
				want := append([]string{"-nolint"}, b.flags...)
				got := append([]string(nil), p.flags...)
				sort.Strings(want)
				sort.Strings(got)
				r.Check(strings.Join(got, " ") == strings.Join(want, " "), "C20-l", "A.Makefile:"+mr.Target+":stages-compared-under-the-same-options", "", "Makefile",
					"pigeon is run with "+strings.Join(want, " ")+", the options bootstrap-pigeon builds with",
					fmt.Sprintf("target %s compares bootstrap-pigeon %s with pigeon %s %s: bootstrap-pigeon hard-codes builder.Nolint(true), so the two outputs differ in the nolint comments although the tree is a fixpoint (pigeon -nolint reproduces pigeon.go) - the repository's own fixpoint test always fails", mr.Target, b.peg, strings.Join(got, " "), p.peg))
			}
		}
	}
	r.Analysed["makefile_comparison_recipes"] = n
}
