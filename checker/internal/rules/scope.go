package rules

import (
	"go/ast"
	"go/types"

	"golang.org/x/tools/go/packages"
)

// A rule about what a function does holds for the function together with the package helpers it delegates to:
// splitting a function into phases must not move a construct out of a rule's sight. withHelpers returns fd followed
// by the functions of the same package it calls, transitively (resolved through type information), leaving out the
// functions named in stop (other anchors, which have rules of their own) and recursive traversals.
func withHelpers(p *packages.Package, fd *ast.FuncDecl, stop ...string) []*ast.FuncDecl {
	if p == nil || fd == nil {
		return nil
	}
	decls := map[types.Object]*ast.FuncDecl{}
	for _, f := range p.Syntax {
		for _, d := range f.Decls {
			if x, ok := d.(*ast.FuncDecl); ok && x.Body != nil {
				if o := p.TypesInfo.Defs[x.Name]; o != nil {
					decls[o] = x
				}
			}
		}
	}
	stopped := map[string]bool{}
	for _, s := range stop {
		stopped[s] = true
	}
	out := []*ast.FuncDecl{fd}
	seen := map[*ast.FuncDecl]bool{fd: true}
	for i := 0; i < len(out) && len(out) < 40; i++ {
		ast.Inspect(out[i].Body, func(n ast.Node) bool {
			ce, ok := n.(*ast.CallExpr)
			if !ok {
				return true
			}
			var id *ast.Ident
			switch f := ce.Fun.(type) {
			case *ast.Ident:
				id = f
			case *ast.SelectorExpr:
				id = f.Sel
			}
			if id == nil {
				return true
			}
			d := decls[p.TypesInfo.Uses[id]]
			if d == nil || seen[d] || stopped[d.Name.Name] {
				return true
			}
			// a function that calls itself walks a structure: it is not a phase of the caller
			rec := false
			ast.Inspect(d.Body, func(m ast.Node) bool {
				if c2, ok := m.(*ast.CallExpr); ok {
					switch f := c2.Fun.(type) {
					case *ast.Ident:
						rec = rec || p.TypesInfo.Uses[f] == p.TypesInfo.Defs[d.Name]
					case *ast.SelectorExpr:
						rec = rec || p.TypesInfo.Uses[f.Sel] == p.TypesInfo.Defs[d.Name]
					}
				}
				return !rec
			})
			if rec {
				return true
			}
			seen[d] = true
			out = append(out, d)
			return true
		})
	}
	return out
}
