package rules

import (
	"fmt"
	"go/ast"
	"go/constant"
	"regexp"
	"sort"
	"strings"

	"pigeonverif/internal/load"
)

// emittedAlias is the frozen table "emitted key of the runtime node <- selector on the AST node" (DESIGN.md §2.6 iii).
// One line per key, each confirmed by reading builder.go; "~" prefixes mark values that pass through a listed
// transformation (lower-casing under IgnoreCase, quoting of the display form, funcName of the index).
var emittedAlias = map[string]map[string]string{
	"writeRule":             {"name": ".Name.Val", "displayName": ".DisplayName.Val", "expr": ".Expr", "leader": ".Leader", "leftRecursive": ".LeftRecursive"},
	"writeActionExpr":       {"run": "~funcName(.FuncIx)", "expr": ".Expr"},
	"writeAndCodeExpr":      {"run": "~funcName(.FuncIx)"},
	"writeNotCodeExpr":      {"run": "~funcName(.FuncIx)"},
	"writeStateCodeExpr":    {"run": "~funcName(.FuncIx)"},
	"writeAndExpr":          {"expr": ".Expr"},
	"writeNotExpr":          {"expr": ".Expr"},
	"writeZeroOrOneExpr":    {"expr": ".Expr"},
	"writeZeroOrMoreExpr":   {"expr": ".Expr"},
	"writeOneOrMoreExpr":    {"expr": ".Expr"},
	"writeChoiceExpr":       {"alternatives": ".Alternatives"},
	"writeSeqExpr":          {"exprs": ".Exprs"},
	"writeLabeledExpr":      {"label": ".Label.Val", "expr": ".Expr"},
	"writeRuleRefExpr":      {"name": ".Name.Val"},
	"writeRecoveryExpr":     {"expr": ".Expr", "recoverExpr": ".RecoverExpr", "failureLabel": ".Labels"},
	"writeThrowExpr":        {"label": ".Label"},
	"writeLitMatcher":       {"val": "~lower(.Val)", "ignoreCase": ".IgnoreCase", "want": "~quote(.Val)"},
	"writeCharClassMatcher": {"val": ".Val", "chars": ".Chars", "ranges": ".Ranges", "classes": ".UnicodeClasses", "basicLatinChars": "~table", "ignoreCase": ".IgnoreCase", "inverted": ".Inverted"},
	"writeAnyMatcher":       {},
}

// builderPairing checks, for every writer of builder.go, the emitted node type name, the position triple and the
// key/value pairing against the alias table.
func builderPairing(c *Ctx, rule string, only ...string) {
	r := c.R
	g := c.G()
	if g == nil {
		return
	}
	bp := g.Pkg("builder")
	info := bp.TypesInfo
	var names []string
	for k := range emittedAlias {
		names = append(names, k)
	}
	sort.Strings(names)
	for _, fn := range names {
		if len(only) > 0 {
			keep := false
			for _, o := range only {
				if o == fn {
					keep = true
				}
			}
			if !keep {
				continue
			}
		}
		fd := load.FuncDecl(bp, "builder", fn)
		if fd == nil {
			r.Fatal("anchor builder.%s not found", fn)
			continue
		}
		param := fd.Type.Params.List[0].Names[0].Name
		var bad []string
		// all emissions with their arguments
		type emit struct {
			format string
			args   []string
		}
		var emits []emit
		ast.Inspect(fd.Body, func(n ast.Node) bool {
			ce, ok := n.(*ast.CallExpr)
			if !ok {
				return true
			}
			if cn := callName(ce); cn != "b.writelnf" && cn != "b.writef" {
				return true
			}
			if len(ce.Args) == 0 {
				return true
			}
			f := ""
			if tv, ok := info.Types[ce.Args[0]]; ok && tv.Value != nil && tv.Value.Kind() == constant.String {
				f = constant.StringVal(tv.Value)
			}
			var as []string
			for _, a := range ce.Args[1:] {
				as = append(as, nospace(a))
			}
			emits = append(emits, emit{strings.TrimSpace(f), as})
			return true
		})
		// (0) nil guard: `if <param> == nil { b.writelnf("nil,"); return }` is the first statement (writeRule: plain return)
		if len(fd.Body.List) > 0 {
			is, ok := fd.Body.List[0].(*ast.IfStmt)
			okGuard := false
			if ok && is.Else == nil {
				cond := nospace(is.Cond)
				var body []string
				for _, st := range is.Body.List {
					switch x := st.(type) {
					case *ast.ExprStmt:
						body = append(body, nospace(x.X))
					case *ast.ReturnStmt:
						body = append(body, "return")
					}
				}
				bs := strings.Join(body, ";")
				if fn == "writeRule" {
					okGuard = cond == param+"==nil||"+param+".Name==nil" && bs == "return"
				} else {
					okGuard = cond == param+"==nil" && bs == `b.writelnf("nil,");return`
				}
				if !okGuard {
					bad = append(bad, "nil guard is `if "+cond+" { "+bs+" }`")
				}
			} else {
				bad = append(bad, "no nil guard as first statement")
			}
		}
		// (0b) every condition around an emission is one of the sanctioned forms
		for _, ce := range callsIn(fd.Body) {
			if cn := callName(ce); cn != "b.writelnf" && cn != "b.writef" && cn != "b.writeExpr" {
				continue
			}
			if len(fd.Body.List) > 0 && contains(fd.Body.List[0], ce.Pos()) {
				continue // the nil guard's own emission
			}
			for _, gd := range guardsOf(fd.Body, ce.Pos()) {
				if !sanctionedEmissionGuard(gd, param) {
					bad = append(bad, "emission "+abbreviate(nospace(ce))+" is conditional on `"+gd+"`, which is not a presence test of the emitted field, a builder flag or the case-folding flag")
				}
			}
		}
		// (0c) list-valued keys emit one element per iteration of their loop
		ast.Inspect(fd.Body, func(n ast.Node) bool {
			rs, ok := n.(*ast.RangeStmt)
			if !ok || rs.Value == nil {
				return true
			}
			v := nospace(rs.Value)
			emitsElem := func(b ast.Node) bool {
				for _, ce := range callsIn(b) {
					cn := callName(ce)
					if cn == "b.writeExpr" && len(ce.Args) == 1 && nospace(ce.Args[0]) == v {
						return true
					}
					if (cn == "b.writef" || cn == "b.writelnf") && len(ce.Args) == 2 {
						a := nospace(ce.Args[1])
						if a == v || a == "unicode.ToLower("+v+")" {
							return true
						}
					}
				}
				return false
			}
			okLoop := true
			// every top-level statement path of the loop body must emit: a plain call, or an if/else whose arms both emit
			emitted := false
			for _, st := range rs.Body.List {
				switch x := st.(type) {
				case *ast.ExprStmt:
					if emitsElem(x) {
						emitted = true
					}
				case *ast.IfStmt:
					eb, hasElse := x.Else.(*ast.BlockStmt)
					if emitsElem(x.Body) && hasElse && emitsElem(eb) {
						emitted = true
					} else if emitsElem(x.Body) || (hasElse && emitsElem(eb)) {
						okLoop = false
					}
				}
			}
			if !emitted || !okLoop {
				bad = append(bad, "the loop over "+nospace(rs.X)+" does not emit its element "+v+" on every path")
			}
			return true
		})
		// (1) node type name
		if fn != "writeRule" {
			wantType := "&" + strings.ToLower(fn[5:6]) + fn[6:] + "{"
			found := false
			for _, e := range emits {
				if strings.HasPrefix(e.format, "&") {
					if e.format == wantType {
						found = true
					} else {
						bad = append(bad, "emits node type "+e.format+" instead of "+wantType)
					}
				}
			}
			if !found {
				bad = append(bad, "node type "+wantType+" never emitted")
			}
		}
		// (2) position triple: the local `pos` is <param>.Pos() and the arguments are pos.Line, pos.Col, pos.Off
		posDef := ""
		ast.Inspect(fd.Body, func(n ast.Node) bool {
			if as, ok := n.(*ast.AssignStmt); ok && len(as.Lhs) == 1 && nospace(as.Lhs[0]) == "pos" {
				posDef = nospace(as.Rhs[0])
			}
			return true
		})
		posOK := false
		for _, e := range emits {
			if strings.Contains(e.format, "line: %d, col: %d, offset: %d") {
				posOK = strings.Join(e.args, ",") == "pos.Line,pos.Col,pos.Off" && posDef == param+".Pos()"
				if !posOK {
					bad = append(bad, "position emitted as ("+strings.Join(e.args, ",")+") with pos := "+posDef+", expected (pos.Line,pos.Col,pos.Off) of "+param+".Pos()")
				}
			}
		}
		if !posOK && len(bad) == 0 {
			bad = append(bad, "no position triple emitted")
		}
		// (3) key/value pairing
		got := map[string][]string{}
		for _, p := range emittedPairs(g, fd) {
			got[p[0]] = append(got[p[0]], p[1])
		}
		for key, src := range emittedAlias[fn] {
			vals := got[key]
			if len(vals) == 0 {
				bad = append(bad, "key "+key+": never emitted")
				continue
			}
			for _, v := range vals {
				ok := false
				switch {
				case strings.HasPrefix(src, "."):
					ok = v == param+src
				case src == "~funcName(.FuncIx)":
					ok = v == "b.funcName("+param+".FuncIx)"
				case src == "~lower(.Val)":
					ok = v == "strings.ToLower("+param+".Val)" || v == param+".Val"
				case src == "~quote(.Val)":
					ok = v == "strconv.Quote("+param+".Val)+ignoreCaseFlag"
				case src == "~table":
					ok = strings.HasPrefix(v, "BasicLatinLookup("+param+".Chars,"+param+".Ranges,"+param+".UnicodeClasses,"+param+".IgnoreCase)")
				}
				if !ok {
					bad = append(bad, fmt.Sprintf("key %s: is emitted from %s, expected %s%s", key, v, param, src))
				}
			}
		}
		for key := range got {
			if _, ok := emittedAlias[fn][key]; !ok && key != "pos" && key != "rules" && key != "line" {
				bad = append(bad, "key "+key+" is emitted but not in the alias table")
			}
		}
		// (3b) a key whose emission is not under a presence test / builder flag is written on every path of a present node
		{
			presence := func(gd string) bool {
				return sanctionedEmissionGuard(gd, param) && gd != param+".IgnoreCase" && gd != "!"+param+".IgnoreCase"
			}
			keyOf := func(ce *ast.CallExpr) string {
				if cn := callName(ce); (cn != "b.writelnf" && cn != "b.writef") || len(ce.Args) == 0 {
					return ""
				}
				tv, ok := info.Types[ce.Args[0]]
				if !ok || tv.Value == nil || tv.Value.Kind() != constant.String {
					return ""
				}
				f := strings.TrimSpace(constant.StringVal(tv.Value))
				if i := strings.Index(f, ":"); i > 0 && !strings.ContainsAny(f[:i], " %&{") {
					return f[:i]
				}
				return ""
			}
			optional := map[string]bool{}
			seen := map[string]bool{}
			for _, ce := range callsIn(fd.Body) {
				k := keyOf(ce)
				if k == "" {
					continue
				}
				gs := guardsOf(fd.Body, ce.Pos())
				opt := len(gs) > 0
				for _, gd := range gs {
					if !presence(gd) {
						opt = false
					}
				}
				if !seen[k] {
					optional[k] = opt
				} else {
					optional[k] = optional[k] && opt
				}
				seen[k] = true
			}
			nilCond := param + "==nil"
			if fn == "writeRule" {
				nilCond = param + "==nil||" + param + ".Name==nil"
			}
			for _, p := range enumPaths(fd.Body) {
				if p.has("+", nilCond) {
					continue
				}
				on := map[string]bool{}
				for _, e := range p {
					if ce, ok := e.Node.(*ast.CallExpr); ok && e.Kind == "call" {
						if k := keyOf(ce); k != "" {
							on[k] = true
						}
					}
				}
				for k := range seen {
					if !optional[k] && !on[k] {
						bad = append(bad, "key "+k+" is not written on the path ["+strings.Join(p.guards(), " ")+"]: the runtime node keeps the zero value there")
					}
				}
			}
			// the display form of an ignore-case literal carries the i suffix
			if fn == "writeLitMatcher" {
				var defs []string
				ast.Inspect(fd.Body, func(n ast.Node) bool {
					if as, ok := n.(*ast.AssignStmt); ok && len(as.Lhs) == 1 && nospace(as.Lhs[0]) == "ignoreCaseFlag" {
						defs = append(defs, nospace(as.Rhs[0])+"["+strings.Join(guardsOf(fd.Body, as.Pos()), ";")+"]")
					}
					return true
				})
				sort.Strings(defs)
				if got := strings.Join(defs, " "); got != `""[] "i"[`+param+`.IgnoreCase]` {
					bad = append(bad, "ignoreCaseFlag is defined as "+got+`, expected "" and, under `+param+`.IgnoreCase, "i": the expected-set entry of the literal would not show its flag`)
				}
			}
		}
		if fn == "writeRule" {
			// the two left-recursion flags are written for every rule exactly when the grammar has left recursion
			for _, ce := range callsIn(fd.Body) {
				if cn := callName(ce); (cn == "b.writelnf" || cn == "b.writef") && len(ce.Args) == 2 {
					f := nospace(ce.Args[0])
					if strings.Contains(f, "leader:") || strings.Contains(f, "leftRecursive:") {
						gs := strings.Join(guardsOf(fd.Body, ce.Pos()), ";")
						if gs != "b.haveLeftRecursion" {
							bad = append(bad, "left-recursion flag emitted under ["+gs+"] instead of exactly b.haveLeftRecursion: rules lacking the flag are treated as not left-recursive by the runtime (memoised, not routed to the leader protocol)")
						}
						if !strings.Contains(f, "%t") {
							bad = append(bad, "left-recursion flag emitted as a constant: "+f)
						}
					}
				}
			}
		}
		sort.Strings(bad)
		r.Check(len(bad) == 0, rule, "G.builder."+fn+":emitted-fields", "", g.Where(fd.Pos()), fmt.Sprintf("node type, position triple and %d key/value pairings as in the alias table", len(emittedAlias[fn])), strings.Join(bad, "; "))
	}
}

// sanctionedEmissionGuard: conditions allowed around an emission in a builder writer.
func sanctionedEmissionGuard(gd, param string) bool {
	switch gd {
	case "b.haveLeftRecursion", "b.basicLatinLookupTable", param + ".IgnoreCase", "!" + param + ".IgnoreCase":
		return true
	}
	if m := regexp.MustCompile(`^len\(` + regexp.QuoteMeta(param) + `\.\w+\)>0$`).MatchString(gd); m {
		return true
	}
	if m := regexp.MustCompile(`^` + regexp.QuoteMeta(param) + `\.(\w+)!=nil&&` + regexp.QuoteMeta(param) + `\.(\w+)\.Val!=""$`).FindStringSubmatch(gd); m != nil && m[1] == m[2] {
		return true
	}
	return false
}
