package rules

import (
	"fmt"
	"go/ast"
	"regexp"
	"sort"
	"strconv"
	"strings"

	"pigeonverif/internal/absint"
	"pigeonverif/internal/variants"
)

var errNeqNil = regexp.MustCompile(`^(\w+) != nil$`)

// C11 — error contract: typed, positioned, accumulated errors; panics are contained.
func C11(c *Ctx) {
	r := c.R
	r.Technique = "error-discipline rules: abstract interpretation of every code-block call site (error recorded under exactly err != nil, at the right position, parsing continues) in 16 variants; who-may-call / who-may-write scans for the error list; AST rules on parse(), err(), dedupe(), addErrAt() and the recover handler"
	r.Explanation = "Decides: (a) the error result of every code-block call is passed to addErr/addErrAt exactly when it is non-nil, for actions at the position of the entry savepoint, no return lies between the call and the record, and the ok result does not depend on it; (b) only *parserError values enter the list: errList.add is called only from addErrAt with Inner set to the original error, and the prefix is file name, then line:col (offset) in that order, then the display name or name of the rule on top of the rule stack, which parseRule pushes and pops on all paths; the list is otherwise only truncated to an earlier snapshot; (c) every return of parse() yields p.errs.err(), which is nil iff the list is empty, de-duplicates and returns the list; Parse forwards parse()'s results; (d) dedupe keeps first occurrences in slice order keyed by Error(); (e) the recover handler is installed iff p.recover before the first evaluation, sets the value to nil, records the panic value and returns the list; recover defaults to true and is written only by the Recover option. Not decided: which errors survive a particular backtrack."
	r.Assumptions = []string{"fmt.Sprintf, bytes.Buffer contracts"}
	r.Rule("C11-f", "no deferred call moves the position (restore / read, directly or inside a deferred function literal): deferred calls run while a panic unwinds, before the recover handler of parse() records the error at the current position")
	r.Rule("C11-a", "for each <node>.run(p) call: on paths where the returned error is non-nil an addErr/addErrAt with that error follows before the function returns; on paths where it is nil none is added; for actions the position argument is the entry savepoint's position; the ok result is independent of the error")
	r.Rule("C11-b", "errList.add has addErrAt as only caller; the added value is &parserError{Inner: <err param>, pos: <pos param>, prefix: buf.String(), expected: ...}; the prefix is written as filename, \"%d:%d (%d)\" of pos.line,pos.col,pos.offset, then rule displayName/name of p.rstack[top]; parseRule pushes its rule and pops on all paths; *p.errs is otherwise written only by add, dedupe and the leader's snapshot restore")
	r.Rule("C11-c", "every return of parse() has p.errs.err() as error result; err() returns nil iff len==0, else calls dedupe and returns the list; Parse returns newParser(...).parse(g) unchanged")
	r.Rule("C11-d", "dedupe ranges over the slice, keeps an error iff its Error() text was not seen, in order")
	r.Rule("C11-e", "parse(): `if p.recover { defer func(){ if e := recover(); e != nil { val = nil; addErr(e as error, or fmt.Errorf(\"%v\", e)); err = p.errs.err() } }() }` precedes the first read()/evaluation; newParser sets recover: true; only the Recover option assigns p.recover")
	r.Rule("C11-h", "panic discipline of the runtime: its own panic sites are exactly the expression budget, the default of the dispatch in parseExpr and a nameless rule reference; no function the deferred recover handler reaches can panic (a panic raised while the handler records an error is recovered by nobody and escapes from Parse)")
	runtimePanicDiscipline(c, "C11-h")

	r.Rule("C11-g", "the display name the error prefix uses is the one the grammar gives: builder.writeRule emits displayName from the rule's DisplayName exactly when it is present (the pairing rule of C01-d under this property)")
	builderPairingN(c, "C11-g", "writeRule")
	r.Rule("C11-j", "the leader of a left-recursive group cuts the error list back only to a list that was current when the returned result was recorded (C08-a under this property): errors recorded before the leader was entered, and those of its successful growth attempts, are never dropped")
	r.Rule("C11-i", "an error cut from the list is reported again if its code block matters again: a store that cuts the error list back to a snapshot (the leader's discard of its final growth attempt) invalidates the memo entries made since the snapshot, so that a rule matching at the same position later runs its action - and reports its error - again (finding F28: it does not)")
	abs := c.allAbs()
	r.Min("semantic variants analysed", 16, len(abs))
	for _, a := range abs {
		c11a(c, a)
		c11b(c, a)
		c11cde(c, a.V)
		c11f(c, a.V)
		rolledBackErrorsVsMemo(c, a.V, "C11-i")
		if a.V.Params.LeftRecursion {
			leaderFinalAttempt(c, a, "C11-j")
		}
	}
	r.MinRule("C11-a", 3)
}

func c11a(c *Ctx, a *absVariant) {
	r := c.R
	vn := a.V.Name
	for _, fn := range []string{"parseActionExpr", "parseAndCodeExpr", "parseNotCodeExpr", "parseStateCodeExpr"} {
		res := a.Res[fn]
		if res == nil {
			continue
		}
		var bad []string
		n := 0
		for _, e := range res.Exits {
			for _, run := range eventsOf(e, "run") {
				n++
				errv := "err(" + run.Args[1] + ")"
				var rec *absint.Event
				for i := range e.State.Ev {
					ev := e.State.Ev[i]
					if (ev.Kind == "addErr" || ev.Kind == "addErrAt") && ev.Args[0] == errv {
						rec = &e.State.Ev[i]
					}
				}
				// which fact about the error variable holds at the end of the path / at the record
				factAt := func(f map[string]bool) (val, known bool) {
					for k, v := range f {
						if m := errNeqNil.FindStringSubmatch(k); m != nil {
							return v, true
						}
					}
					return false, false
				}
				if rec != nil {
					v, known := factAt(rec.Facts)
					if !known || !v {
						bad = append(bad, a.V.Where(rec.Pos)+": the block's error is recorded without being guarded by `err != nil` (a nil error would be wrapped and reported)")
					}
					if fn == "parseActionExpr" && (rec.Kind != "addErrAt" || rec.Args[1] != absint.Entry) {
						bad = append(bad, a.V.Where(rec.Pos)+": an action's error must be recorded at the start position of its match (entry savepoint), got "+rec.String())
					}
					// a predicate or state block consumes nothing: its error belongs to the current position, which addErr
					// uses (an explicit position must be that of the entry savepoint, not one remembered from elsewhere)
					if fn != "parseActionExpr" && rec.Kind == "addErrAt" && rec.Args[1] != absint.Entry {
						bad = append(bad, a.V.Where(rec.Pos)+": the error of a predicate or state block must be recorded at the current position, got "+rec.String())
					}
				} else {
					v, known := factAt(e.State.Facts)
					if !known {
						bad = append(bad, a.V.Where(run.Pos)+": the error returned by the block is never tested: it is dropped on this path ["+evString(e)+"]")
					} else if v {
						bad = append(bad, a.V.Where(run.Pos)+": path with a non-nil block error reaches the return without recording it ["+evString(e)+"]")
					}
				}
			}
		}
		sort.Strings(bad)
		w := a.V.Where(res.Fn.Pos())
		if len(bad) > 0 {
			r.Bad("C11-a", "T."+fn+":block-error-recorded", vn, w, bad[0])
		} else {
			r.Ok("C11-a", "T."+fn+":block-error-recorded", vn, w, fmt.Sprintf("%d (path, run) pairs", n))
		}
	}
}

func c11b(c *Ctx, a *absVariant) {
	r := c.R
	v := a.V
	vn := v.Name
	// callers of errList.add
	var callers []string
	for _, fd := range v.Funcs() {
		for _, ce := range callsIn(fd) {
			if nospace(ce.Fun) == "p.errs.add" || (callSel(ce) == "add" && strings.Contains(nospace(ce.Fun), "errs")) {
				callers = append(callers, fd.Name.Name)
			}
		}
	}
	r.Check(strings.Join(callers, ",") == "addErrAt", "C11-b", "T.errList.add:callers", vn, "builder/static_code.go", "addErrAt only", "called from ["+strings.Join(callers, ",")+"]")
	errListKeepsAll(c, v, "C11-b")
	fd := v.Func("parser", "addErrAt")
	if fd == nil {
		r.Fatal("variant %s: addErrAt missing", vn)
		return
	}
	var pn []string
	for _, f := range fd.Type.Params.List {
		for _, n := range f.Names {
			pn = append(pn, n.Name)
		}
	}
	if len(pn) != 3 {
		r.Unk("C11-b", "T.addErrAt:typed-positioned", vn, v.Where(fd.Pos()), "unexpected parameter list")
		return
	}
	errP, posP := pn[0], pn[1]
	var bad []string
	// the literal
	litOK := false
	ast.Inspect(fd.Body, func(n ast.Node) bool {
		cl, ok := n.(*ast.CompositeLit)
		if !ok || nospace(cl.Type) != "parserError" {
			return true
		}
		m := map[string]string{}
		for _, e := range cl.Elts {
			if kv, ok := e.(*ast.KeyValueExpr); ok {
				m[nospace(kv.Key)] = nospace(kv.Value)
			}
		}
		if m["Inner"] == errP && m["pos"] == posP && m["prefix"] != "" {
			litOK = true
		} else {
			bad = append(bad, fmt.Sprintf("parserError literal is %v", m))
		}
		return true
	})
	if !litOK {
		bad = append(bad, "no &parserError{Inner: "+errP+", pos: "+posP+", prefix: …} literal")
	}
	// the prefix, as the concatenation of what is written into the buffer on each feasible path:
	// [filename ":"]  line:col (offset)  [": " "rule " displayName-or-name]
	bad = append(bad, prefixSemantics(c, v, fd, posP)...)
	sort.Strings(bad)
	r.Check(len(bad) == 0, "C11-b", "T.addErrAt:typed-positioned", vn, v.Where(fd.Pos()), "&parserError{Inner, pos, prefix(file, line:col (offset), rule)}", strings.Join(bad, "; "))
	// the message of an entry is prefix + ": " + the original error's message; the list's message joins its entries in order
	if pe := v.Func("parserError", "Error"); pe != nil {
		recv := pe.Recv.List[0].Names[0].Name
		okMsg := false
		if rs := returnsOf(pe); len(rs) == 1 && len(rs[0].Results) == 1 {
			okMsg = nospace(rs[0].Results[0]) == recv+`.prefix+":"+`+recv+".Inner.Error()"
		}
		r.Check(okMsg, "C11-b", "T.parserError.Error:prefix-then-inner", vn, v.Where(pe.Pos()), `prefix + ": " + Inner.Error()`, "the message of a parser error is not its prefix followed by the wrapped error's message")
	} else {
		r.Fatal("variant %s: parserError.Error missing", vn)
	}
	if le := v.Func("errList", "Error"); le != nil {
		recv := le.Recv.List[0].Names[0].Name
		// on the normalised paths: a path that walks the list writes every entry's message, in list order; a path that
		// does not walk it is the one-entry (or empty) list answered directly
		okJoin, okOne := false, true
		var why []string
		for _, p := range c.vnorm(v).normPaths(le) {
			iLoop := p.evIndex("loop", 0, func(s string) bool { return s == "range "+recv })
			if iLoop >= 0 {
				wrote := false
				for _, e := range p[iLoop:] {
					if (e.Kind == "call" || e.Kind == "ccall" || e.Kind == "set") && strings.Contains(e.Text, recv+"[#1].Error()") && (strings.Contains(e.Text, ".WriteString(") || strings.Contains(e.Text, "Fprint") || strings.Contains(e.Text, "=append(") || strings.Contains(e.Text, "+=") || strings.Contains(e.Text, "[#1]="+recv+"[#1].Error()")) {
						wrote = true
					}
				}
				if wrote {
					okJoin = true
				} else {
					okOne = false
					why = append(why, "a path walks the list without writing the entry's message ["+abbreviate(strings.Join(p.facts(), " "))+"]")
				}
				continue
			}
			ret := lastReturn(p)
			switch {
			case ret == recv+"[0].Error()" && p.holds("len("+recv+")==1"):
			case ret == `""` && p.holds("len("+recv+")==0"):
			default:
				okOne = false
				why = append(why, "a path answers "+abbreviate(ret)+" without walking the list ["+abbreviate(strings.Join(p.facts(), " "))+"]")
			}
		}
		r.Check(okJoin && okOne, "C11-b", "T.errList.Error:joins-in-order", vn, v.Where(le.Pos()), "every entry's message, in list order", fmt.Sprintf("joins-all=%t %s", okJoin, strings.Join(uniq(why), "; ")))
	}
	errAlwaysRecorded(c, v, "C11-b")
	// addErr forwards at the current position
	if ae := v.Func("parser", "addErr"); ae != nil {
		ok := false
		for _, ce := range callsIn(ae.Body) {
			if callSel(ce) == "addErrAt" && len(ce.Args) == 3 && nospace(ce.Args[0]) == ae.Type.Params.List[0].Names[0].Name && nospace(ce.Args[1]) == "p.pt.position" {
				ok = true
			}
		}
		r.Check(ok, "C11-b", "T.addErr:current-position", vn, v.Where(ae.Pos()), "addErrAt(err, p.pt.position, …)", "addErr does not forward the error at the current position")
	}
	// parseRule pushes its own rule
	if res := a.Res["parseRule"]; res != nil {
		param := res.Fn.Type.Params.List[0].Names[0].Name
		var badp []string
		for _, e := range res.Exits {
			var seq []string
			for _, ev := range e.State.Ev {
				switch ev.Kind {
				case "rstack.push":
					seq = append(seq, "push("+strings.Join(ev.Args, "")+")")
				case "rstack.pop":
					seq = append(seq, "pop")
				case "eval":
					seq = append(seq, "eval")
				}
			}
			if strings.Join(seq, ",") != "push("+param+"),eval,pop" {
				badp = append(badp, a.where(e, res.Fn)+": ["+strings.Join(seq, ",")+"]")
			}
		}
		sort.Strings(badp)
		r.Check(len(badp) == 0, "C11-b", "T.parseRule:rstack-bracket", vn, v.Where(res.Fn.Pos()), "push(rule), evaluate, pop on every path", strings.Join(badp, "; "))
	}
	// writers of the error list
	var ws []string
	for _, w := range fieldWrites(v) {
		if w.Owner == "parser" && w.Field == "errs" {
			ws = append(ws, w.Func+":"+w.Kind)
		}
	}
	sort.Strings(ws)
	okW := true
	for _, w := range ws {
		if w != "parseRuleRecursiveLeader:elem" {
			okW = false
		}
	}
	r.Check(okW, "C11-b", "T.parser.errs:writers", vn, "builder/static_code.go", fmt.Sprintf("writers outside errList methods: %v (snapshot restore, checked by C05-g/C08-a)", ws), fmt.Sprintf("p.errs written by %v", ws))
	errListMethodsKeepErrors(c, v, "C11-b")
}

// errListMethodsKeepErrors: the methods of the error list never drop a recorded error: a store into the list (through
// the pointer receiver) appends to it, except in the de-duplication that runs when the list is returned (C11-d
// decides what that one keeps). A method that cuts the list back makes the reported errors depend on what was
// re-evaluated afterwards - on Memoize, for one: a memo hit does not run the code block again.
func errListMethodsKeepErrors(c *Ctx, v *variants.Variant, rule string) {
	r := c.R
	var bad []string
	n := 0
	for _, fd := range v.Funcs() {
		if fd.Body == nil || fd.Recv == nil || len(fd.Recv.List) != 1 || len(fd.Recv.List[0].Names) != 1 {
			continue
		}
		if strings.TrimPrefix(nospace(fd.Recv.List[0].Type), "*") != "errList" {
			continue
		}
		recv := fd.Recv.List[0].Names[0].Name
		ast.Inspect(fd.Body, func(nd ast.Node) bool {
			as, ok := nd.(*ast.AssignStmt)
			if !ok {
				return true
			}
			for i, l := range as.Lhs {
				lt := nospace(l)
				if lt != "*"+recv && !strings.HasPrefix(lt, "(*"+recv+")[") {
					continue
				}
				n++
				rhs := ""
				if i < len(as.Rhs) {
					rhs = nospace(as.Rhs[i])
				}
				switch {
				case lt == "*"+recv && strings.HasPrefix(rhs, "append(*"+recv+","):
				case fd.Name.Name == "dedupe" && lt == "*"+recv:
				default:
					bad = append(bad, fmt.Sprintf("errList.%s stores %s = %s (%s)", fd.Name.Name, lt, abbreviate(rhs), v.Where(as.Pos())))
				}
			}
			return true
		})
	}
	sort.Strings(bad)
	r.Check(len(bad) == 0 && n >= 2, rule, "T.errList:methods-keep-every-error", v.Name, "builder/static_code.go", fmt.Sprintf("%d stores into the list by its methods: appends, and the final de-duplication", n),
		strings.Join(bad, "; ")+": an error that was recorded is dropped again; whether it is reported then depends on whether the code block is re-run later, which Memoize(true) and the left-recursion memo prevent")
}

func c11cde(c *Ctx, v *variants.Variant) {
	r := c.R
	vn := v.Name
	fd := v.Func("parser", "parse")
	if fd == nil {
		r.Fatal("variant %s: parse missing", vn)
		return
	}
	// ---- c
	var bad []string
	nret := 0
	ast.Inspect(fd.Body, func(n ast.Node) bool {
		if _, ok := n.(*ast.FuncLit); ok {
			return false
		}
		if rs, ok := n.(*ast.ReturnStmt); ok {
			nret++
			if len(rs.Results) != 2 || nospace(rs.Results[1]) != "p.errs.err()" {
				bad = append(bad, v.Where(rs.Pos())+": return does not yield p.errs.err()")
			}
		}
		return true
	})
	r.Check(len(bad) == 0 && nret >= 3, "C11-c", "T.parse:returns-the-list", vn, v.Where(fd.Pos()), fmt.Sprintf("%d returns, all p.errs.err()", nret), strings.Join(bad, "; "))
	if ef := v.Func("errList", "err"); ef != nil {
		recv := ef.Recv.List[0].Names[0].Name
		var badE []string
		nNil, nList := 0, 0
		for _, p := range c.vnorm(v).without("dedupe").normPaths(ef) {
			rt := lastReturn(p)
			switch {
			case p.holds("len(" + recv + ")==0"):
				nNil++
				if rt != "nil" {
					badE = append(badE, "an empty list yields "+rt+", not nil (a successful parse would return a non-nil error)")
				}
			case p.holds("len(" + recv + ")>0"):
				nList++
				iD := p.evIndex("call", 0, func(t string) bool { return t == recv+".dedupe()" })
				if iD < 0 {
					badE = append(badE, "a non-empty list is returned without de-duplication")
				}
				if rt != recv {
					badE = append(badE, "a non-empty list yields "+rt+", not the list itself")
				}
			default:
				badE = append(badE, "a path does not test whether the list is empty")
			}
		}
		if nNil == 0 || nList == 0 {
			badE = append(badE, "expected both an empty-list path and a non-empty one")
		}
		r.Check(len(badE) == 0, "C11-c", "T.errList.err:shape", vn, v.Where(ef.Pos()), "nil iff empty; dedupe; the list itself", strings.Join(uniq(badE), "; "))
	} else {
		r.Fatal("variant %s: errList.err missing", vn)
	}
	if pf := v.Func("", "Parse"); pf != nil {
		ok, _ := parseForwards(c, v)
		r.Check(ok, "C11-c", "T.Parse:forwards", vn, v.Where(pf.Pos()), "return newParser(...).parse(g)", "Parse does not forward parse()'s results unchanged")
	}
	// ---- d
	if df := v.Func("errList", "dedupe"); df != nil {
		recv := df.Recv.List[0].Names[0].Name
		// on the normalised paths: the list is walked in slice order; an entry whose message was seen before is
		// dropped, any other one is marked as seen and appended to the list that replaces the original afterwards;
		// nothing but the message decides
		okRange, okKey, okAppend, okStore := false, true, false, false
		elem := "*" + recv + "[#1]"
		key := elem + ".Error()"
		memRe := regexp.MustCompile(`^(!?)(?:ok\()?(\$\d+)\[` + regexp.QuoteMeta(key) + `\]\)?$`)
		for _, p := range c.vnorm(v).normPaths(df) {
			lo := p.evIndex("loop", 0, func(s string) bool { return s == "range *"+recv })
			if lo < 0 {
				continue
			}
			okRange = true
			hi := len(p)
			for k := lo + 1; k < len(p); k++ {
				if p[k].Kind == "endloop" {
					hi = k
					break
				}
			}
			seg := p[lo+1 : hi]
			seen, unseen := false, false
			for _, f := range seg.facts() {
				m := memRe.FindStringSubmatch(f)
				switch {
				case m == nil:
					okKey = false // something else than the message decides
				case m[1] == "!":
					unseen = true
				default:
					seen = true
				}
			}
			list, marked := "", false
			for _, e := range seg {
				if e.Kind != "set" {
					continue
				}
				if k := strings.Index(e.Text, "=append("); k > 0 && strings.HasSuffix(e.Text, ","+elem+")") && strings.HasPrefix(e.Text[k+1:], "append("+e.Text[:k]+",") {
					list = e.Text[:k]
				}
				if strings.Contains(e.Text, "["+key+"]=") {
					marked = true
				}
			}
			switch {
			case seen && !unseen:
				if list != "" {
					okKey = false // a repeated message is kept
				}
			case unseen && !seen:
				if list == "" || !marked {
					okKey = false
				} else {
					okAppend = true
					for _, e := range p[hi:] {
						if e.Kind == "set" && e.Text == "*"+recv+"="+list {
							okStore = true
						}
					}
				}
			default:
				okKey = false
			}
		}
		r.Check(okRange && okKey && okAppend && okStore, "C11-d", "T.errList.dedupe:first-occurrence-in-order", vn, v.Where(df.Pos()), "slice order, keyed by Error(), unseen appended", fmt.Sprintf("range=%t key=%t append=%t store=%t", okRange, okKey, okAppend, okStore))
	} else {
		r.Fatal("variant %s: errList.dedupe missing", vn)
	}
	// ---- e
	var deferPos, firstEval ast.Node
	guard := ""
	okBody := false
	for _, st := range fd.Body.List {
		if is, ok := st.(*ast.IfStmt); ok && nospace(is.Cond) == "p.recover" && len(is.Body.List) == 1 {
			if ds, ok := is.Body.List[0].(*ast.DeferStmt); ok {
				deferPos = ds
				guard = "p.recover"
				{
					txt := ""
					ast.Inspect(ds.Call, func(n ast.Node) bool {
						switch x := n.(type) {
						case *ast.IfStmt:
							if x.Init != nil && strings.Contains(nospace(x.Init.(*ast.AssignStmt).Rhs[0]), "recover()") {
								txt += "recover;"
							}
						case *ast.AssignStmt:
							txt += nospace(x.Lhs[0]) + "=" + nospace(x.Rhs[0]) + ";"
						case *ast.CallExpr:
							if callSel(x) == "addErr" {
								txt += "addErr(" + nospace(x.Args[0]) + ");"
							}
						}
						return true
					})
					var whyH string
					okBody, whyH = recoverHandlerSemantics(c, v, fd, ds)
					if !okBody {
						guard += " handler: " + whyH + " [" + txt + "]"
					}
				}
			}
		}
		if firstEval == nil {
			for _, ce := range callsIn(st) {
				if _, isLit := ce.Fun.(*ast.FuncLit); isLit {
					continue
				}
				if s := callSel(ce); s == "read" || strings.HasPrefix(s, "parseRule") {
					if st != deferPos || deferPos == nil {
						firstEval = ce
					}
				}
			}
		}
	}
	named := fd.Type.Results != nil && len(fd.Type.Results.List) == 2 && len(fd.Type.Results.List[0].Names) == 1 && fd.Type.Results.List[0].Names[0].Name == "val" && fd.Type.Results.List[1].Names[0].Name == "err"
	okOrder := deferPos != nil && firstEval != nil && deferPos.Pos() < firstEval.Pos()
	r.Check(okOrder && okBody && named, "C11-e", "T.parse:recover-handler", vn, v.Where(fd.Pos()), "installed iff p.recover before the first evaluation; nil value, panic recorded, list returned through named results",
		fmt.Sprintf("installed-before-evaluation=%t handler-ok=%t named-results=%t %s", okOrder, okBody, named, guard))
	// default and writers of p.recover
	def := false
	if np := v.Func("", "newParser"); np != nil {
		ast.Inspect(np, func(n ast.Node) bool {
			if kv, ok := n.(*ast.KeyValueExpr); ok && nospace(kv.Key) == "recover" && nospace(kv.Value) == "true" {
				def = true
			}
			return true
		})
	}
	var ws []string
	for _, w := range fieldWrites(v) {
		if w.Owner == "parser" && w.Field == "recover" {
			ws = append(ws, w.Func)
		}
	}
	r.Check(def && strings.Join(ws, ",") == "Recover", "C11-e", "T.parser.recover:default-and-writers", vn, "builder/static_code.go", "default true; assigned only by the Recover option", fmt.Sprintf("default-true=%t writers=%v", def, ws))
}

// errAlwaysRecorded: every error handed to addErr / addErrAt reaches the list - addErr calls addErrAt and addErrAt
// calls p.errs.add on every path, under no condition (the de-duplication documented for the result happens in
// errList.dedupe, by message, when the list is returned; dropping at record time loses errors whose message differs,
// e.g. the MaxExpressions error raised at a position that already reported something else).
func errAlwaysRecorded(c *Ctx, v *variants.Variant, rule string) {
	r := c.R
	for _, spec := range []struct{ fn, callee string }{{"addErr", "addErrAt"}, {"addErrAt", "add"}} {
		fd := v.Func("parser", spec.fn)
		if fd == nil || fd.Body == nil {
			r.Fatal("variant %s: %s missing", v.Name, spec.fn)
			continue
		}
		errP := firstParam(fd)
		var bad []string
		paths := enumPaths(fd.Body)
		if paths == nil {
			r.Unk(rule, "T."+spec.fn+":records-every-error", v.Name, v.Where(fd.Pos()), "too many paths")
			continue
		}
		for _, p := range paths {
			n := 0
			for _, e := range p {
				if ce, ok := e.Node.(*ast.CallExpr); ok && e.Kind == "call" && callSel(ce) == spec.callee {
					if spec.callee == "add" && nospace(ce.Fun) != "p.errs.add" {
						continue
					}
					if spec.callee == "addErrAt" && (len(ce.Args) == 0 || nospace(ce.Args[0]) != errP) {
						continue
					}
					n++
				}
			}
			if n != 1 {
				// conditions that only select how the prefix is rendered are fine; a path that records nothing is not
				bad = append(bad, fmt.Sprintf("the path [%s] records the error %d times", strings.Join(p.guards(), " "), n))
			}
		}
		sort.Strings(bad)
		r.Check(len(bad) == 0, rule, "T."+spec.fn+":records-every-error", v.Name, v.Where(fd.Pos()), fmt.Sprintf("%d paths, each hands the error on exactly once", len(paths)), strings.Join(uniq(bad), "; ")+": an error returned by a code block, an invalid-encoding error or the MaxExpressions error can be lost")
	}
}

// recoverHandlerSemantics: on every path of the deferred handler on which recover() returned a value, the result value
// is set to nil, the panic value is recorded (itself when it is an error, formatted with %v otherwise) and the error
// result becomes the list; on the other paths nothing happens.
func recoverHandlerSemantics(c *Ctx, v *variants.Variant, fd *ast.FuncDecl, ds *ast.DeferStmt) (bool, string) {
	if fd.Type.Results == nil || len(fd.Type.Results.List) != 2 || len(fd.Type.Results.List[0].Names) != 1 || len(fd.Type.Results.List[1].Names) != 1 {
		return false, "parse has no named results"
	}
	valName, errName := fd.Type.Results.List[0].Names[0].Name, fd.Type.Results.List[1].Names[0].Name
	var paths []bpath
	valV, errV := "", ""
	if fl, ok := ds.Call.Fun.(*ast.FuncLit); ok {
		// a deferred closure: it writes the named results directly
		var multi map[string]string
		paths, multi = c.vnorm(v).without("addErr", "addErrAt").normBlockNamed(fd, fl.Body.List)
		valV, errV = multi[valName], multi[errName]
	} else {
		// a deferred function of the runtime that calls recover() itself and gets the addresses of the results
		var callee *ast.FuncDecl
		name := callSel(ds.Call)
		for _, f := range v.Funcs() {
			if f.Name.Name == name && f.Body != nil {
				callee = f
			}
		}
		if callee == nil {
			return false, "the deferred call is neither a closure nor a function of the runtime"
		}
		direct := false
		for _, ce := range callsIn(callee.Body) {
			if callName(ce) == "recover" {
				direct = true
			}
		}
		if !direct {
			return false, "the deferred function does not call recover() itself (recover only works in the deferred function)"
		}
		ps := paramNames(callee)
		for i, a := range ds.Call.Args {
			if i >= len(ps) {
				break
			}
			switch nospace(a) {
			case "&" + valName:
				valV = "*" + ps[i]
			case "&" + errName:
				errV = "*" + ps[i]
			}
		}
		paths = c.vnorm(v).without("addErr", "addErrAt").normPaths(callee)
	}
	if valV == "" || errV == "" || len(paths) == 0 {
		return false, "result variables not found"
	}
	nRec := 0
	for _, p := range paths {
		if p.holds("recover()==nil") {
			for _, e := range p {
				if e.Kind == "set" || e.Kind == "call" && !strings.HasPrefix(e.Text, "recover(") {
					return false, "the handler acts although nothing was recovered"
				}
			}
			continue
		}
		if !p.holds("recover()!=nil") {
			return false, "a path of the handler does not test recover()"
		}
		nRec++
		isErr := p.holds("ok(recover().(error))")
		for _, e := range p {
			if e.Kind == "tcase" && strings.HasSuffix(e.Text, ":error") {
				isErr = true
			}
		}
		var recs []string
		for _, e := range p {
			if e.Kind == "call" && strings.HasPrefix(e.Text, "p.addErr(") {
				recs = append(recs, stripAsserts(strings.TrimSuffix(strings.TrimPrefix(e.Text, "p.addErr("), ")")))
			}
		}
		want := `fmt.Errorf("%v",recover())`
		if isErr {
			want = "recover()"
		}
		if len(recs) != 1 || recs[0] != want {
			return false, fmt.Sprintf("the panic value is recorded as %v, expected %s", recs, want)
		}
		if v, i := lastSet(p, valV); i < 0 || v != "nil" {
			return false, "the result value is not set to nil"
		}
		if v, i := lastSet(p, errV); i < 0 || v != "p.errs.err()" {
			return false, "the error result is not the error list"
		}
		// the list is read after the panic value was added
		iAdd := p.evIndex("call", 0, func(s string) bool { return strings.HasPrefix(s, "p.addErr(") })
		_, iErr := lastSet(p, errV)
		if iErr < iAdd {
			return false, "the error list is taken before the panic value is added"
		}
	}
	if nRec == 0 {
		return false, "no path handles a recovered value"
	}
	return true, ""
}

// prefixSemantics decides what addErrAt writes into the prefix buffer on every feasible path.
func prefixSemantics(c *Ctx, v *variants.Variant, fd *ast.FuncDecl, posP string) []string {
	paths, multi := c.vnorm(v).normPathsNamed(fd)
	var bad []string
	// the buffer: the numbered local whose String() becomes the prefix
	buf := ""
	for _, p := range paths {
		for _, e := range p {
			if i := strings.Index(e.Text, "prefix:"); i >= 0 && strings.Contains(e.Text[i:], ".String()") {
				t := e.Text[i+len("prefix:"):]
				buf = t[:strings.Index(t, ".String()")]
			}
		}
	}
	_ = multi
	if buf == "" {
		return prefixByConcatenation(paths, posP)
	}
	rule := "p.rstack[len(p.rstack)-1]"
	posText := `fmt.Sprintf("%d:%d (%d)",` + posP + ".line," + posP + ".col," + posP + ".offset)"
	tokens := func(pieces []string) []string {
		var out []string
		for _, pc := range pieces {
			for _, t := range splitTop(pc, "+") {
				out = append(out, t)
			}
		}
		return out
	}
	nFeasible := 0
	for _, p := range paths {
		var pieces []string
		feasible := true
		nonEmpty := func() (known bool, ne bool) {
			for _, pc := range pieces {
				for _, t := range splitTop(pc, "+") {
					if strings.HasPrefix(t, `"`) && len(t) > 2 || strings.HasPrefix(t, "fmt.Sprintf(") {
						return true, true
					}
					if p.holds(t + `!=""`) {
						return true, true
					}
				}
			}
			if len(pieces) == 0 {
				return true, false
			}
			return false, false
		}
		for _, e := range p {
			switch {
			case (e.Kind == "call" || e.Kind == "ccall") && strings.HasPrefix(e.Text, buf+".WriteString("):
				pieces = append(pieces, strings.TrimSuffix(strings.TrimPrefix(e.Text, buf+".WriteString("), ")"))
			case (e.Kind == "call" || e.Kind == "ccall") && (strings.HasPrefix(e.Text, "fmt.Fprintf(&"+buf+",") || strings.HasPrefix(e.Text, "fmt.Fprintf("+buf+",")):
				// formatted straight into the buffer: the text fmt.Sprintf would have produced
				pieces = append(pieces, "fmt.Sprintf("+e.Text[strings.Index(e.Text, ",")+1:])
			case e.Kind == "+" && (e.Text == buf+".Len()>0" || e.Text == buf+".Len()==0" || e.Text == buf+".Len()<=0"):
				if known, ne := nonEmpty(); known && ne != (e.Text == buf+".Len()>0") {
					feasible = false
				}
			}
		}
		if !feasible {
			continue
		}
		nFeasible++
		var want []string
		if p.holds(`p.filename!=""`) {
			want = append(want, "p.filename", `":"`)
		} else if !p.holds(`p.filename==""`) {
			bad = append(bad, "a path does not test whether a file name was given")
		}
		want = append(want, posText)
		switch {
		case p.holds("len(p.rstack)>0"):
			name := rule + ".name"
			switch {
			case p.holds(rule + `.displayName!=""`):
				name = rule + ".displayName"
			case p.holds(rule + `.displayName==""`):
			default:
				bad = append(bad, "the rule's display name is not preferred when it is non-empty")
			}
			want = append(want, `": "`, `"rule "`, name)
		case p.holds("len(p.rstack)==0"):
		default:
			bad = append(bad, "a path does not test whether a rule is being evaluated")
		}
		got := tokens(pieces)
		if flattenTextTokens(got) != flattenTextTokens(want) {
			bad = append(bad, "the prefix is ["+strings.Join(got, " ")+"] on the path ["+strings.Join(p.facts(), " ")+"], expected ["+strings.Join(want, " ")+"]")
		}
	}
	if nFeasible == 0 {
		bad = append(bad, "no feasible path builds a prefix")
	}
	return uniq(bad)
}

// prefixByConcatenation: the prefix is a string built by concatenation; its value at the parserError literal (locals
// read as their values) is compared piece by piece with the text the path must produce.
func prefixByConcatenation(paths []bpath, posP string) []string {
	var bad []string
	rule := "p.rstack[len(p.rstack)-1]"
	posText := `fmt.Sprintf("%d:%d (%d)",` + posP + ".line," + posP + ".col," + posP + ".offset)"
	n := 0
	for _, p := range paths {
		val := ""
		for _, e := range p {
			if i := strings.Index(e.Text, "&parserError{"); i >= 0 {
				lit := e.Text[i+len("&parserError{"):]
				if k := indexTop(lit, "}"); k >= 0 {
					lit = lit[:k]
				}
				for _, el := range splitTop(lit, ",") {
					if strings.HasPrefix(el, "prefix:") {
						val = strings.TrimPrefix(el, "prefix:")
					}
				}
			}
		}
		if val == "" {
			continue
		}
		n++
		var got []string
		var flat func(t string)
		flat = func(t string) {
			for strings.HasPrefix(t, "(") && strings.HasSuffix(t, ")") && wholeParen(t) {
				t = t[1 : len(t)-1]
			}
			parts := splitTop(t, "+")
			if len(parts) == 1 {
				got = append(got, t)
				return
			}
			for _, pt := range parts {
				flat(pt)
			}
		}
		flat(val)
		var want []string
		if p.holds(`p.filename!=""`) {
			want = append(want, "p.filename", `":"`)
		} else if !p.holds(`p.filename==""`) {
			bad = append(bad, "a path does not test whether a file name was given")
		}
		want = append(want, posText)
		switch {
		case p.holds("len(p.rstack)>0"):
			name := rule + ".name"
			switch {
			case p.holds(rule + `.displayName!=""`):
				name = rule + ".displayName"
			case p.holds(rule + `.displayName==""`):
			default:
				bad = append(bad, "the rule's display name is not preferred when it is non-empty")
			}
			want = append(want, `": "`, `"rule "`, name)
		case p.holds("len(p.rstack)==0"):
		default:
			bad = append(bad, "a path does not test whether a rule is being evaluated")
		}
		if flattenTextTokens(got) != flattenTextTokens(want) {
			bad = append(bad, "the prefix is ["+strings.Join(got, " ")+"] on the path ["+strings.Join(p.facts(), " ")+"], expected ["+strings.Join(want, " ")+"]")
		}
	}
	if n == 0 {
		bad = append(bad, "the prefix of the error is neither the content of a buffer nor a string built in addErrAt")
	}
	return uniq(bad)
}

// flattenTextTokens renders a sequence of text pieces (string literals and expressions) so that only the text they
// produce matters: an integer-and-string-only fmt.Sprintf is expanded into its pieces (%d of x is strconv.Itoa(x)),
// adjacent literals are merged.
func flattenTextTokens(toks []string) string {
	var flat []string
	for _, tk := range toks {
		if strings.HasPrefix(tk, "fmt.Sprintf(") && wholeCall(tk) {
			args := splitTop(tk[len("fmt.Sprintf("):len(tk)-1], ",")
			if f, err := strconv.Unquote(args[0]); err == nil {
				rest := args[1:]
				lit := ""
				okExp := true
				var exp []string
				for i := 0; i < len(f); i++ {
					if f[i] != '%' {
						lit += string(f[i])
						continue
					}
					if i+1 >= len(f) {
						okExp = false
						break
					}
					i++
					switch f[i] {
					case '%':
						lit += "%"
					case 'd', 's':
						if len(rest) == 0 {
							okExp = false
							break
						}
						if lit != "" {
							exp = append(exp, strconv.Quote(lit))
							lit = ""
						}
						if f[i] == 'd' {
							exp = append(exp, "strconv.Itoa("+rest[0]+")")
						} else {
							exp = append(exp, rest[0])
						}
						rest = rest[1:]
					default:
						okExp = false
					}
				}
				if lit != "" {
					exp = append(exp, strconv.Quote(lit))
				}
				if okExp && len(rest) == 0 {
					flat = append(flat, exp...)
					continue
				}
			}
		}
		flat = append(flat, tk)
	}
	// merge adjacent literals
	var out []string
	for _, tk := range flat {
		if s, err := strconv.Unquote(tk); err == nil && strings.HasPrefix(tk, `"`) && len(out) > 0 {
			if prev, err2 := strconv.Unquote(out[len(out)-1]); err2 == nil && strings.HasPrefix(out[len(out)-1], `"`) {
				out[len(out)-1] = strconv.Quote(prev + s)
				continue
			}
		}
		out = append(out, tk)
	}
	return strings.Join(out, " ")
}

// errListKeepsAll: errList.add keeps every error it is given: on its only path the list becomes append(list, err).
// (Which errors are reported may not depend on how many were recorded before: duplicates are removed later, by dedupe,
// so a cap or filter here makes the reported set depend on re-evaluations, i.e. on Memoize.)
func errListKeepsAll(c *Ctx, v *variants.Variant, rule string) {
	r := c.R
	vn := v.Name
	af := v.Func("errList", "add")
	if af == nil || af.Body == nil {
		r.Fatal("variant %s: errList.add missing", vn)
		return
	}
	rv, ep := recvName(af), firstParam(af)
	paths := c.vnorm(v).normPaths(af)
	okAdd := len(paths) == 1
	why := fmt.Sprintf("%d paths", len(paths))
	if okAdd {
		p := paths[0]
		okAdd = len(p.facts()) == 0 && p.countSets("*"+rv+"=append(*"+rv+","+ep+")") == 1
		why = "the path is " + abbreviate(p.String())
	}
	r.Check(okAdd, rule, "T.errList.add:appends-unconditionally", vn, v.Where(af.Pos()), "*e = append(*e, err) on the only path", why+": an error handed to the list is dropped or altered")
}

// c11f (C11-f): no deferred call moves the position. When a code block panics, deferred calls run while the stack
// unwinds, before the recover handler of parse() records the error at the current position: a deferred restore()
// (or read()) would make the reported position that of the enclosing predicate, not where the panic arose.
func c11f(c *Ctx, v *variants.Variant) {
	r := c.R
	moves := map[string]bool{"restore": true, "read": true}
	var bad []string
	n := 0
	for _, fd := range v.Funcs() {
		if fd.Body == nil {
			continue
		}
		ast.Inspect(fd.Body, func(nd ast.Node) bool {
			ds, ok := nd.(*ast.DeferStmt)
			if !ok {
				return true
			}
			n++
			var scan func(m ast.Node)
			scan = func(m ast.Node) {
				ast.Inspect(m, func(k ast.Node) bool {
					if ce, ok := k.(*ast.CallExpr); ok {
						if moves[callSel(ce)] {
							if sel, isSel := ce.Fun.(*ast.SelectorExpr); isSel && nospace(sel.X) == "p" {
								bad = append(bad, fmt.Sprintf("%s: %s defers %s: it runs during a panic before the handler records the error, which is then placed at the restored position", v.Where(ds.Pos()), fd.Name.Name, nospace(ce)))
							}
						}
					}
					return true
				})
			}
			// the deferred call itself (its arguments are evaluated at the defer statement, not later) and the body
			// of a deferred function literal
			if moves[callSel(ds.Call)] {
				if sel, isSel := ds.Call.Fun.(*ast.SelectorExpr); isSel && nospace(sel.X) == "p" {
					bad = append(bad, fmt.Sprintf("%s: %s defers %s: it runs during a panic before the handler records the error, which is then placed at the restored position", v.Where(ds.Pos()), fd.Name.Name, nospace(ds.Call)))
				}
			}
			if fl, ok := ds.Call.Fun.(*ast.FuncLit); ok {
				scan(fl.Body)
			}
			return true
		})
	}
	sort.Strings(bad)
	r.Check(len(bad) == 0, "C11-f", "T.defers:no-deferred-position-change", v.Name, "builder/static_code.go", fmt.Sprintf("%d defer statements, none restores or advances the position", n), strings.Join(uniq(bad), "; "))
}
