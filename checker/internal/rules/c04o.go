package rules

// C04-o — a label enters its scope once. The parameter list of a generated code-block method is the list of labels of
// the innermost scope, in the order addArg collected them; a name that is collected twice is declared twice and the
// generated file does not compile (`x redeclared in this block`): `A <- x:"a" x:"b" { return x, nil }` under any
// flags, and `A <- x:C B {…}; B <- x:"b"` once -optimize-grammar has inlined B (finding F30). At run time the frame is
// a map keyed by the label, so a second binding replaces the first: one parameter per name is what the runtime means.

import (
	"fmt"
	"strings"

	"pigeonverif/internal/load"
)

func builderLabelsDistinct(c *Ctx, rule string) {
	r := c.R
	r.Rule(rule, "a label enters its scope once: on every path on which addArg appends a name to the innermost scope, the name was compared with every name the scope holds (a loop over the scope that leaves on equality, or slices.Contains) and found absent - the scope is the parameter list of the generated method, and a name listed twice does not compile")
	g := c.G()
	if g == nil {
		return
	}
	bp := g.Pkg("builder")
	fd := load.FuncDecl(bp, "builder", "addArg")
	if fd == nil || fd.Body == nil {
		r.Fatal("anchor builder.addArg not found")
		return
	}
	arg := firstParam(fd) + ".Val"
	nApp := 0
	var bad []string
	for _, p := range c.pkgNorm("builder").normPaths(fd) {
		for i, e := range p {
			if e.Kind != "set" || !strings.Contains(e.Text, "=append(") || !strings.HasSuffix(e.Text, ","+arg+")") {
				continue
			}
			nApp++
			scope := e.Text[:strings.Index(e.Text, "=append(")]
			// the scope may be reached through a pointer to the top slot: compare on the appended-to expression
			target := strings.TrimSuffix(strings.TrimPrefix(e.Text[strings.Index(e.Text, "=append(")+len("=append("):], ""), ","+arg+")")
			absent := false
			before := p[:i]
			for _, f := range before.facts() {
				f = minParens(f)
				if f == "!slices.Contains("+target+","+arg+")" || f == "!slices.Contains("+scope+","+arg+")" {
					absent = true
				}
			}
			// a completed loop over the scope whose every iteration found another name
			for _, sc := range uniq([]string{target, scope}) {
				if lo, hi := loopSpan(before, "range "+sc); lo >= 0 && hi <= len(before) {
					for _, f := range before[lo:hi].facts() {
						f = minParens(f)
						if f == sc+"[#1]!="+arg || f == arg+"!="+sc+"[#1]" {
							absent = true
						}
					}
				}
			}
			if !absent {
				bad = append(bad, fmt.Sprintf("%s is appended to %s without having been compared with the names it holds", arg, abbreviate(scope)))
			}
		}
	}
	if nApp == 0 {
		bad = append(bad, "addArg does not append the label to a scope")
	}
	r.Check(len(bad) == 0, rule, "G.builder.addArg:a-label-enters-its-scope-once", "", g.Where(fd.Pos()), fmt.Sprintf("%d append(s), each after the name was found absent from the scope", nApp),
		strings.Join(uniq(bad), "; ")+": a label bound twice in one scope (`x:\"a\" x:\"b\"`, or a labelled rule inlined by -optimize-grammar next to the same label) is listed twice in the signature of the code-block method and the generated parser does not compile (x redeclared)")
}
