package rules

import (
	"fmt"
	"go/ast"
	"go/token"
	"sort"
	"strings"

	"pigeonverif/internal/absint"
	"pigeonverif/internal/variants"
)

// mustCharge computes (least fixpoint) the evaluators on which every non-panicking path evaluates parseExpr
// (directly or through another must-charge evaluator).
func mustCharge(a *absVariant) map[string]bool {
	mc := map[string]bool{"parseExpr": true}
	// helper methods called from evaluators are summarised and take part in the fixpoint
	all := map[string]*absint.Result{}
	for fn, res := range a.Res {
		all[fn] = res
	}
	for _, res := range a.Res {
		for _, ce := range callsIn(res.Fn.Body) {
			if sel, ok := ce.Fun.(*ast.SelectorExpr); ok && nospace(sel.X) == "p" {
				if _, known := all[sel.Sel.Name]; !known && a.In.Roles[sel.Sel.Name] == absint.RoleNone {
					if sum := a.In.Summary(sel.Sel.Name); sum != nil {
						all[sel.Sel.Name] = sum
					}
				}
			}
		}
	}
	for changed := true; changed; {
		changed = false
		for fn, res := range all {
			if mc[fn] || len(res.Exits) == 0 {
				continue
			}
			all := true
			for _, e := range res.Exits {
				hit := false
				for _, ev := range eventsOf(e, "eval") {
					if mc[ev.Args[0]] {
						hit = true
					}
				}
				if !hit {
					all = false
					break
				}
			}
			if all {
				mc[fn] = true
				changed = true
			}
		}
	}
	return mc
}

// stmtsMustCall: every path through the statement list that reaches its end (or a continue) has called one of fns.
func stmtsMustCall(list []ast.Stmt, fns map[string]bool) bool {
	for _, st := range list {
		if stmtMustCall(st, fns) {
			return true
		}
	}
	return false
}

func terminates(list []ast.Stmt) bool {
	if len(list) == 0 {
		return false
	}
	switch x := list[len(list)-1].(type) {
	case *ast.ReturnStmt:
		return true
	case *ast.BranchStmt:
		return x.Tok == token.BREAK || x.Tok == token.GOTO
	case *ast.ExprStmt:
		if ce, ok := x.X.(*ast.CallExpr); ok && callName(ce) == "panic" {
			return true
		}
	}
	return false
}

func exprCalls(n ast.Node, fns map[string]bool) bool {
	found := false
	ast.Inspect(n, func(m ast.Node) bool {
		if _, ok := m.(*ast.FuncLit); ok {
			return false
		}
		if ce, ok := m.(*ast.CallExpr); ok {
			if sel, ok := ce.Fun.(*ast.SelectorExpr); ok && nospace(sel.X) == "p" && fns[sel.Sel.Name] {
				found = true
			}
		}
		return true
	})
	return found
}

func stmtMustCall(st ast.Stmt, fns map[string]bool) bool {
	switch x := st.(type) {
	case *ast.ExprStmt, *ast.AssignStmt, *ast.ReturnStmt, *ast.DeclStmt:
		return exprCalls(x, fns)
	case *ast.BlockStmt:
		return stmtsMustCall(x.List, fns)
	case *ast.IfStmt:
		if x.Init != nil && stmtMustCall(x.Init, fns) {
			return true
		}
		if exprCalls(x.Cond, fns) {
			return true
		}
		thenOK := stmtsMustCall(x.Body.List, fns) || terminates(x.Body.List)
		elseOK := false
		switch e := x.Else.(type) {
		case *ast.BlockStmt:
			elseOK = stmtsMustCall(e.List, fns) || terminates(e.List)
		case *ast.IfStmt:
			elseOK = stmtMustCall(e, fns)
		}
		return thenOK && elseOK
	}
	return false
}

// C16 — MaxExpressions bounds every parse.
func C16(c *Ctx) {
	r := c.R
	r.Technique = "must-pass-through analysis: function summaries 'every path evaluates parseExpr' computed as a least fixpoint over the abstract-interpretation exits, applied to every unbounded loop and to the call-graph cycles of the runtime in all 16 variants; AST rules on the budget check"
	r.Explanation = "Decides: (a) parseExpr increments ExprCnt and compares it with maxExprCnt (panic errMaxExprCnt) before anything else; (b) every unbounded repetition charges the budget: each loop that is neither a range over a finite collection nor a bounded counter loop contains, on every cyclic path, a call to a function on which every path evaluates parseExpr, and every call-graph cycle among the evaluators goes through parseExpr; the seed-growing loop is accepted by its strict-growth condition (C08-d); (c) the panic becomes the final error (C11-e, re-checked here); (d) a zero budget means unlimited. Not decided: 'identical result when the budget is not exhausted' beyond the fact that ExprCnt is read nowhere else (C06-c)."
	r.Assumptions = []string{"offsets are bounded by len(data), so a strictly growing end offset terminates"}
	r.Rule("C16-a", "parseExpr starts with p.ExprCnt++ followed by `if p.ExprCnt > p.maxExprCnt { panic(errMaxExprCnt) }`")
	r.Rule("C16-b", "every loop without a finite bound in an evaluator calls a must-charge function on every cyclic path (listed exception: the leader's growth loop, bounded by strict growth of the end offset)")
	r.Rule("C16-b2", "removing parseExpr from the call graph of the evaluators leaves it acyclic, and parse<Kind> functions are called only from parseExpr")
	r.Rule("C16-c", "the deferred handler in parse() converts the panic into the returned error list (see C11-e); addErr and addErrAt hand every error on, unconditionally, so the budget error cannot be dropped at record time")
	r.Rule("C16-d", "newParser: if p.maxExprCnt == 0 { p.maxExprCnt = math.MaxUint64 }")
	r.Rule("C16-e", "the budget error is delivered: no function the deferred recover handler reaches can panic, and the runtime has no panic site besides the budget and the two impossible-grammar sites (C11-h under this property)")
	r.Rule("C16-f", "with Memoize off every evaluation is charged: each path through parseExprWrap that returns without calling parseExpr (a cache hit) holds p.memoize - the uncharged iterations of the known finding under C16-b exist under Memoize(true) only")
	runtimePanicDiscipline(c, "C16-e")

	abs := c.allAbs()
	r.Min("semantic variants analysed", 16, len(abs))
	for _, a := range abs {
		v := a.V
		vn := v.Name
		// ---- a
		pe := v.Func("parser", "parseExpr")
		if pe == nil {
			r.Fatal("variant %s: parseExpr missing", vn)
			continue
		}
		// on the normalised paths: before the first evaluator is entered the counter was incremented exactly once and
		// then compared with the budget - within budget, or over it with the budget panic raised
		okA := true
		nDispatch := 0
		var whyA []string
		var evalNames []string
		for _, f := range v.Funcs() {
			if strings.HasPrefix(f.Name.Name, "parse") && f.Name.Name != "parseExpr" {
				evalNames = append(evalNames, f.Name.Name)
			}
		}
		for _, p := range c.vnorm(v).without(evalNames...).normPaths(pe) {
			iDisp := p.evIndex("call", 0, func(s string) bool { return strings.HasPrefix(s, "p.parse") })
			if iDisp < 0 {
				continue
			}
			nDispatch++
			pre := p[:iDisp]
			nInc, iInc := 0, -1
			for k, e := range pre {
				if e.Kind == "set" && (e.Text == "p.ExprCnt++" || e.Text == "p.ExprCnt+=1" || e.Text == "p.ExprCnt=p.ExprCnt+1") {
					nInc++
					iInc = k
				}
			}
			within, over := -1, -1
			for k, e := range pre {
				if e.Kind != "+" {
					continue
				}
				switch e.Text {
				case "p.ExprCnt<=p.maxExprCnt", "p.maxExprCnt>=p.ExprCnt":
					within = k
				case "p.ExprCnt>p.maxExprCnt", "p.maxExprCnt<p.ExprCnt":
					over = k
				}
			}
			switch {
			case nInc != 1:
				okA = false
				whyA = append(whyA, fmt.Sprintf("%d increments of the counter before the dispatch", nInc))
			case within > iInc:
			case over > iInc && pre.evIndex("call", over, func(s string) bool { return s == "panic(errMaxExprCnt)" }) >= 0:
			default:
				okA = false
				whyA = append(whyA, "an evaluator is entered without the counter having been compared with the budget after its increment ["+abbreviate(strings.Join(pre.facts(), " "))+"]")
			}
		}
		if nDispatch < 10 {
			okA = false
			whyA = append(whyA, fmt.Sprintf("only %d dispatch paths found", nDispatch))
		}
		r.Check(okA, "C16-a", "T.parseExpr:budget-check-first", vn, v.Where(pe.Pos()), "increment and compare before the dispatch", "parseExpr does not charge and test the budget before it dispatches: "+strings.Join(uniq(whyA), "; "))
		// the counter only ever grows: its single writer is the increment in parseExpr
		var cw []string
		for _, w := range fieldWrites(v) {
			if w.Field == "ExprCnt" && !(w.Func == "parseExpr" && w.Kind == "incdec") {
				cw = append(cw, v.Where(w.Pos)+": "+w.Func+" stores to ExprCnt ("+w.Text+", "+w.Kind+")")
			}
		}
		sort.Strings(cw)
		r.Check(len(cw) == 0, "C16-a", "T.ExprCnt:monotone-single-writer", vn, "builder/static_code.go", "only p.ExprCnt++ in parseExpr", strings.Join(cw, "; ")+": evaluated expressions can go uncounted, so the budget no longer bounds the work")
		// ---- f: the wrapper's uncharged paths are cache hits under p.memoize
		if pw := v.Func("parser", "parseExprWrap"); pw != nil {
			var evs []string
			for _, f := range v.Funcs() {
				if f.Name.Name != "parseExprWrap" {
					evs = append(evs, f.Name.Name)
				}
			}
			var whyF []string
			nCharged, nHit := 0, 0
			for _, p := range c.vnorm(v).without(evs...).normPaths(pw) {
				if p.evIndex("call", 0, func(s string) bool { return strings.HasPrefix(s, "p.parseExpr(") }) >= 0 {
					nCharged++
					continue
				}
				nHit++
				if !p.holds("p.memoize") {
					whyF = append(whyF, "parseExprWrap returns without evaluating parseExpr on a path that does not require p.memoize ["+abbreviate(strings.Join(p.facts(), " "))+"]: with Memoize off an expression is answered from the cache without being charged, so a repetition over an empty match never exhausts the budget")
				}
			}
			if nCharged == 0 {
				whyF = append(whyF, "no path of parseExprWrap evaluates parseExpr")
			}
			r.Check(len(whyF) == 0, "C16-f", "T.parseExprWrap:uncharged-paths-require-memoize", vn, v.Where(pw.Pos()), fmt.Sprintf("%d charged paths, %d cache-hit paths, each under p.memoize", nCharged, nHit), strings.Join(uniq(whyF), "; "))
		}
		// ---- b
		mc := mustCharge(a)
		var mcl []string
		for k := range mc {
			mcl = append(mcl, k)
		}
		sort.Strings(mcl)
		for _, fn := range a.sortedNames() {
			fd := a.Res[fn].Fn
			li := 0
			ast.Inspect(fd.Body, func(n ast.Node) bool {
				switch x := n.(type) {
				case *ast.FuncLit:
					return false
				case *ast.RangeStmt:
					return true // finite collection
				case *ast.ForStmt:
					li++
					construct := "T." + fn + ":loop-charges-budget"
					if boundedCounterLoop(x) {
						r.Ok("C16-b", construct, vn, v.Where(x.Pos()), "bounded counter loop")
						return true
					}
					if fn == "parseRuleRecursiveLeader" {
						r.Ok("C16-b", construct, vn, v.Where(x.Pos()), "listed exception: continues only on strict growth of the end offset (obligation C08-d)")
						return true
					}
					if stmtsMustCall(x.Body.List, mc) {
						r.Ok("C16-b", construct, vn, v.Where(x.Pos()), "every iteration calls a must-charge function ("+strings.Join(mcl, ",")+")")
					} else {
						r.Bad("C16-b", construct, vn, v.Where(x.Pos()), "an iteration can complete without charging the budget: the callee evaluated in the loop is not must-charge (memo hits in parseExprWrap return without calling parseExpr), so `\"\"*` under Memoize(true) spins forever regardless of MaxExpressions; must-charge = {"+strings.Join(mcl, ",")+"}")
					}
				}
				return true
			})
		}
		// ---- b2: call graph among evaluators
		callers := map[string][]string{}
		edges := map[string][]string{}
		for _, fn := range a.sortedNames() {
			for _, ce := range callsIn(a.Res[fn].Fn.Body) {
				if sel, ok := ce.Fun.(*ast.SelectorExpr); ok && nospace(sel.X) == "p" {
					if _, isEval := a.Res[sel.Sel.Name]; isEval {
						callers[sel.Sel.Name] = append(callers[sel.Sel.Name], fn)
						if fn != "parseExpr" && sel.Sel.Name != "parseExpr" {
							edges[fn] = append(edges[fn], sel.Sel.Name)
						}
					}
				}
			}
		}
		var bad []string
		for _, k := range kindFuncs {
			for _, cl := range callers[k] {
				if cl != "parseExpr" {
					bad = append(bad, k+" is called from "+cl+" (bypasses the budget check)")
				}
			}
		}
		// cycle detection without parseExpr
		color := map[string]int{}
		var cyc []string
		var dfs func(n string)
		dfs = func(n string) {
			color[n] = 1
			for _, m := range edges[n] {
				if color[m] == 1 {
					cyc = append(cyc, n+"->"+m)
				} else if color[m] == 0 {
					dfs(m)
				}
			}
			color[n] = 2
		}
		for _, fn := range a.sortedNames() {
			if color[fn] == 0 {
				dfs(fn)
			}
		}
		for _, cy := range cyc {
			bad = append(bad, "call cycle not passing through parseExpr: "+cy)
		}
		sort.Strings(bad)
		r.Check(len(bad) == 0, "C16-b2", "T.evaluators:recursion-through-parseExpr", vn, "builder/static_code.go", fmt.Sprintf("%d evaluators, acyclic without parseExpr", len(a.Res)), strings.Join(bad, "; "))
		// ---- c (handler) and d
		c16cd(c, v)
	}
	r.MinRule("C16-b", 3)
}

func boundedCounterLoop(f *ast.ForStmt) bool {
	if f.Init == nil || f.Cond == nil || f.Post == nil {
		return false
	}
	as, ok := f.Init.(*ast.AssignStmt)
	if !ok || len(as.Lhs) != 1 {
		return false
	}
	iv := nospace(as.Lhs[0])
	// the counter is stepped by the post statement only
	stepped := false
	ast.Inspect(f.Body, func(n ast.Node) bool {
		switch x := n.(type) {
		case *ast.AssignStmt:
			for _, l := range x.Lhs {
				if nospace(l) == iv {
					stepped = true
				}
			}
		case *ast.IncDecStmt:
			if nospace(x.X) == iv {
				stepped = true
			}
		case *ast.UnaryExpr:
			if x.Op == token.AND && nospace(x.X) == iv {
				stepped = true
			}
		}
		return true
	})
	if stepped {
		return false
	}
	// the conjuncts of the condition: one of them bounds the counter (further conjuncts only end the loop earlier)
	var conj []string
	var split func(e ast.Expr)
	split = func(e ast.Expr) {
		e = stripParens(e)
		if be, ok := e.(*ast.BinaryExpr); ok && be.Op == token.LAND {
			split(be.X)
			split(be.Y)
			return
		}
		conj = append(conj, nospace(e))
	}
	split(f.Cond)
	has := func(test func(c string) bool) bool {
		for _, c := range conj {
			if test(c) {
				return true
			}
		}
		return false
	}
	switch p := f.Post.(type) {
	case *ast.IncDecStmt:
		if nospace(p.X) != iv {
			return false
		}
		if p.Tok == token.DEC {
			return has(func(c string) bool { return c == iv+">=0" || c == iv+">0" })
		}
		return has(func(c string) bool { return strings.HasPrefix(c, iv+"<len(") || strings.HasPrefix(c, iv+"<=") })
	case *ast.AssignStmt:
		if nospace(p.Lhs[0]) != iv || p.Tok != token.ADD_ASSIGN || len(p.Rhs) != 1 {
			return false
		}
		if bl, ok := p.Rhs[0].(*ast.BasicLit); !ok || bl.Kind != token.INT || bl.Value == "0" {
			return false
		}
		return has(func(c string) bool { return strings.HasPrefix(c, iv+"<len(") })
	}
	return false
}

func c16cd(c *Ctx, v *variants.Variant) {
	r := c.R
	vn := v.Name
	fd := v.Func("parser", "parse")
	okH := false
	if fd != nil {
		ast.Inspect(fd.Body, func(n ast.Node) bool {
			if ds, ok := n.(*ast.DeferStmt); ok {
				if okSem, _ := recoverHandlerSemantics(c, v, fd, ds); okSem {
					okH = true
				}
			}
			return true
		})
	}
	errAlwaysRecorded(c, v, "C16-c")
	r.Check(okH, "C16-c", "T.parse:budget-panic-becomes-error", vn, "builder/static_code.go", "recover handler records an error-typed panic value and returns the list", "no recover handler recording error-typed panic values")
	np := v.Func("", "newParser")
	okD := false
	var npBad []string
	npSets := 0
	if np != nil {
		// on the normalised paths of newParser (helpers expanded): the budget field is stored into only as
		// `= math.MaxUint64` under the fact that it is zero, or left as it is; and the zero case always gets that store
		paths := c.vnorm(v).normPaths(np)
		sawZero, allDecided := false, len(paths) > 0
		for _, p := range paths {
			zero, nonzero, setMax := false, false, false
			for i, e := range p {
				if e.Kind != "set" {
					continue
				}
				eq := strings.Index(e.Text, "=")
				if eq < 0 {
					continue
				}
				// an op-assignment (+=, -=, …) or a step (++, --) of the budget is arithmetic on the limit
				if k := strings.Index(e.Text, ".maxExprCnt"); k >= 0 && !strings.Contains(e.Text[:k], "(") && !strings.Contains(e.Text[:k], "=") {
					rest := e.Text[k+len(".maxExprCnt"):]
					if strings.HasPrefix(rest, "++") || strings.HasPrefix(rest, "--") || (len(rest) >= 2 && rest[1] == '=' && strings.ContainsAny(rest[:1], "+-*/%|&^")) || strings.HasPrefix(rest, "<<=") || strings.HasPrefix(rest, ">>=") {
						npSets++
						npBad = append(npBad, v.Where(np.Pos())+": newParser computes "+e.Text+" under ["+abbreviate(strings.Join(p[:i].facts(), " "))+"]")
						continue
					}
				}
				if !strings.HasSuffix(e.Text[:eq], ".maxExprCnt") || strings.Contains(e.Text[:eq], "(") {
					continue
				}
				lhs, rhs := e.Text[:eq], e.Text[eq+1:]
				npSets++
				switch {
				case rhs == lhs:
				case rhs == "math.MaxUint64" && p[:i].holds(lhs+"==0"):
					setMax = true
				default:
					npBad = append(npBad, v.Where(np.Pos())+": newParser stores "+e.Text+" under ["+abbreviate(strings.Join(p[:i].facts(), " "))+"]")
				}
			}
			for _, f := range p.facts() {
				if strings.HasSuffix(f, ".maxExprCnt==0") {
					zero = true
				}
				if strings.HasSuffix(f, ".maxExprCnt!=0") || strings.HasSuffix(f, ".maxExprCnt>0") {
					nonzero = true
				}
			}
			if zero {
				sawZero = true
				if !setMax {
					allDecided = false
				}
			} else if !nonzero {
				allDecided = false
			}
		}
		okD = sawZero && allDecided
	}
	r.Check(okD, "C16-d", "T.newParser:zero-means-unlimited", vn, "builder/static_code.go", "0 => math.MaxUint64", "the zero budget is not mapped to unlimited")
	// the budget is the number the caller gave: besides that defaulting, only the MaxExpressions option stores to it,
	// and it stores its argument (no arithmetic on the limit: n + something can wrap around)
	var bad []string
	nW := 0
	bad = append(bad, npBad...)
	if npSets > 0 {
		nW++
	}
	for _, fd := range v.Funcs() {
		if fd.Body == nil || fd.Name.Name == "newParser" {
			continue
		}
		ast.Inspect(fd.Body, func(n ast.Node) bool {
			switch x := n.(type) {
			case *ast.AssignStmt:
				for i, l := range x.Lhs {
					if nospace(l) != "p.maxExprCnt" {
						continue
					}
					nW++
					rhs := ""
					if i < len(x.Rhs) {
						rhs = nospace(x.Rhs[i])
					}
					gs := strings.Join(guardsOf(fd.Body, x.Pos()), ";")
					switch {
					case x.Tok == token.ASSIGN && fd.Name.Name == "MaxExpressions" && !strings.ContainsAny(rhs, "+-*/%") && gs == "":
					default:
						bad = append(bad, v.Where(x.Pos())+": "+fd.Name.Name+" stores p.maxExprCnt "+x.Tok.String()+" "+rhs+" under ["+gs+"]")
					}
				}
			case *ast.IncDecStmt:
				if nospace(x.X) == "p.maxExprCnt" {
					nW++
					bad = append(bad, v.Where(x.Pos())+": "+fd.Name.Name+" steps p.maxExprCnt")
				}
			}
			return true
		})
	}
	sort.Strings(bad)
	r.Check(len(bad) == 0 && nW >= 2, "C16-d", "T.maxExprCnt:writers", vn, "builder/static_code.go", "written only by the MaxExpressions option (its argument) and the zero-means-unlimited default", strings.Join(bad, "; ")+": the effective budget is no longer the caller's n")
}
