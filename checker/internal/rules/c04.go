package rules

import (
	"fmt"
	"go/ast"
	"go/constant"
	"go/parser"
	"go/token"
	"golang.org/x/tools/go/packages"
	"os"
	"os/exec"
	"path/filepath"
	"regexp"
	"sort"
	"strconv"
	"strings"

	"pigeonverif/internal/load"
	"pigeonverif/internal/variants"
)

// C04 — every accepted grammar yields Go that compiles, vets and initialises.
func C04(c *Ctx) {
	r := c.R
	r.Technique = "variant instantiation (32 template variants) + builder-derived grammar skeleton type-checked with go/types; AST/constant rules on builder.go; key-set agreement with the toolchain's unicode tables"
	r.Explanation = "Decided: (a) every one of the 32 template variants parses and type-checks together with a maximal grammar skeleton derived from builder.go's format strings (both arms of every if), i.e. every struct, field and method expression the builder can emit exists with a compatible type in the runtime under every flag combination; thorough additionally runs go vet on each variant as a scratch module; (b) the generated method name is an injective function of (rule name, expression index); (c) definition and reference of each code-block method use the same name and the same label list; (d) every Unicode class name the front-end accepts is a key of unicode.Categories/Properties/Scripts of the toolchain; (e) the checker's instantiation is the one builder.writeStaticCode performs. Not decided: user code blocks, goimports."
	r.Assumptions = []string{"text/template, go/parser, go/types and go vet implement the Go specification", "user code blocks are well-typed (hypothesis of the property)"}
	r.Rule("C04-a", "for every parameter vector the instantiated template, together with the skeleton of everything builder.go can emit under the corresponding builder flags, parses and type-checks (thorough: and passes go vet)")
	r.Rule("C04-b", "builder.funcName must be injective on (rule name, index): the decimal index must be preceded by a constant separator ending in a non-digit, because rule names may end in digits")
	r.Rule("C04-c", "the name in `run: (*parser).call<N>` and the name of the emitted on<N>/call<N> pair are both funcName(X.FuncIx) of the same node under the same b.ruleName; parameter list and stack[...] argument list range over the same argsStack entry; exprIndex is incremented once per writeExpr and reset per rule")
	r.Rule("C04-d", "every class name accepted by the front-end (unicodeClasses table and the single-letter class of the grammar) is a key of unicode.Categories, unicode.Properties or unicode.Scripts in the toolchain's unicode/tables.go, and rangeTable consults exactly those maps")
	r.Rule("C04-g", "BuildParser applies its options and then builds; buildParser's accepting path runs PrepareGrammar → b.haveLeftRecursion → writeInit → writeGrammar → writeRuleCode per rule → writeStaticCode → return b.err in this order, and its rejecting paths return their own error and write nothing")
	r.Rule("C04-h", "every field of the builder struct that is read has a store that can give it a non-zero value")
	r.Rule("C04-i", "write primitives: writef/writeln write their text to b.w exactly when no earlier write failed and keep the error; writelnf forwards to writef")
	r.Rule("C04-j", "code writers: nil → nothing; a node with a pending method (FuncIx != 0) gets writeFunc(FuncIx, Code, templates) and FuncIx cleared; writeInit writes a present initializer; rule passes skip exactly nil/unnamed rules; writeFunc lists every label of the innermost scope in both the signature and the call stub")
	r.Rule("C04-k", "writeExprCode, per kind: every Expression child is visited, the code writer of a code kind is called, a label is registered in the enclosing scope before the operand's scope opens - all unconditionally")
	r.Rule("C04-l", "the emitted file is exactly what was written: every place of package main that opens a file for writing uses os.Create, or os.OpenFile with os.O_TRUNC and without os.O_APPEND (a file overwritten in place keeps the tail of a longer previous output, which is not Go)")
	c04OutputTruncated(c)
	r.Rule("C04-n", "a code block receives the labels of its scope: operands that the runtime evaluates in one variable frame - the two operands of a recovery operator, the items of a sequence - are visited by writeExprCode within one pushArgsSet/popArgsSet bracket, so a block in one operand gets the labels of the other as parameters (C02-d under this property)")
	builderOperandScopes(c, "C04-n")
	builderLabelsDistinct(c, "C04-o")
	r.Rule("C04-m", "keys the builder emits per list element are distinct: a loop that writes one `key: value` entry of a map literal (or one `case key:`) per element ranges over the key set of a Go map or skips elements it has already seen; a list taken from the grammar as written (the labels of a recovery operator) may repeat an element, and two equal constant keys do not compile")
	if g := c.G(); g != nil {
		c04DistinctKeys(c, g)
	}
	r.Rule("C04-e", "builder.writeStaticCode feeds the template exactly the five parameters the template references, each wired to the expected builder field, and strips directive comments with the regular expressions the checker reuses")

	src, sk := c.Src(), c.Skel()
	if src == nil || sk == nil {
		return
	}
	for _, p := range sk.Problems {
		r.Fatal("skeleton extraction: %s", p)
	}
	r.Analysed["expression_kinds"] = len(sk.Kinds)
	if len(sk.Kinds) != 18 {
		r.Fatal("builder.writeExpr dispatches %d kinds, the rule tables were written for 18: revisit every table", len(sk.Kinds))
	}

	// ---- C04-a
	std := c.Std()
	if std == nil {
		return
	}
	var builtVariants []builtVariant
	for _, p := range variants.All() {
		for _, elseArm := range []bool{false, true} {
			arm := "then"
			if elseArm {
				arm = "else"
			}
			skel := sk.Source(c.flagsFor(p), p.GlobalState, elseArm)
			v, err := src.Build(p, std, skel, true)
			construct := "typecheck(skeleton[" + arm + "-arms]+variant) " + p.Name()
			if err != nil {
				r.Bad("C04-a", construct, "", "builder/generated_static_code.go", err.Error())
				continue
			}
			if len(v.TypeErrs) > 0 {
				msgs := []string{}
				for i, e := range v.TypeErrs {
					if i < 5 {
						msgs = append(msgs, e.Error())
					}
				}
				r.Bad("C04-a", construct, "", "builder/static_code.go / builder/builder.go", strings.Join(msgs, " | "))
				continue
			}
			r.Ok("C04-a", construct, "", "", fmt.Sprintf("%d declarations, %d skeleton bytes", len(v.File.Decls)+len(v.Skel.Decls), len(skel)))
			if !elseArm {
				builtVariants = append(builtVariants, builtVariant{v, skel})
			}
		}
	}
	r.MinRule("C04-a", 64)
	// no directive may survive stripping
	for _, b := range builtVariants {
		if strings.Contains(b.v.Text, "==template==") || strings.Contains(b.v.Text, "{{") {
			r.Bad("C04-e", "directives stripped "+b.v.Name, "", "builder/builder.go:writeStaticCode", "template directive text survives in the instantiated variant")
		}
	}
	// the formats of the runtime agree with their arguments (what go vet would reject; thorough runs go vet itself)
	for _, b := range builtVariants {
		n, pb := printfArgs(b.v)
		r.Check(len(pb) == 0, "C04-a", "T.fmt-formats-agree-with-arguments", b.v.Name, "builder/static_code.go", fmt.Sprintf("%d constant formats of fmt calls, verbs agree with the argument types", n), strings.Join(pb, "; "))
	}
	if c.Thorough() {
		c04Vet(c, builtVariants)
	}

	g := c.G()
	if g == nil {
		return
	}
	bp := g.Pkg("builder")

	// ---- C04-b
	fn := load.FuncDecl(bp, "builder", "funcName")
	if fn == nil {
		r.Fatal("anchor builder.funcName not found")
	} else {
		c04FuncName(c, g, fn)
	}

	// ---- C04-c
	c04Wiring(c, g)

	// a code-block node reached twice (inlined rule) must be a distinct copy, because the builder assigns FuncIx on
	// the first visit and zeroes it after emitting the method: a shared node gets its method emitted for one rule only
	codeKinds := map[string]bool{}
	for _, k := range sk.Kinds {
		if k.CodeWriter != "" {
			codeKinds[k.Name] = true
		}
	}
	cloneOwnership(c, "C04-c", codeKinds)

	// ---- C04-d
	c04Unicode(c, g)

	// ---- C04-e
	want := map[string]string{"Optimize": "optimize", "BasicLatinLookupTable": "basicLatinLookupTable", "GlobalState": "globalState", "LeftRecursion": "haveLeftRecursion", "Nolint": "nolint"}
	for k, f := range want {
		got := sk.ParamWiring[k]
		r.Check(got == f, "C04-e", "param "+k+" <- b."+f, "", "builder/builder.go:writeStaticCode", "wired", "template parameter "+k+" is wired to b."+got+" (expected b."+f+")")
	}
	for k := range sk.ParamWiring {
		if _, ok := want[k]; !ok {
			r.Bad("C04-e", "param "+k, "", "builder/builder.go:writeStaticCode", "parameter unknown to the checker's instantiation: the 32-variant space is incomplete")
		}
	}
	refs := map[string]bool{}
	for _, m := range regexp.MustCompile(`\.([A-Z][A-Za-z]*)`).FindAllStringSubmatch(strings.Join(regexp.MustCompile(`\{\{[^}]*\}\}`).FindAllString(src.StaticCode, -1), " "), -1) {
		refs[m[1]] = true
	}
	var refl []string
	for k := range refs {
		refl = append(refl, k)
		if _, ok := want[k]; !ok {
			r.Bad("C04-e", "template reference ."+k, "", "builder/static_code.go", "template references a parameter that writeStaticCode does not provide")
		}
	}
	sort.Strings(refl)
	for k := range want {
		r.Check(refs[k], "C04-e", "template uses ."+k, "", "builder/static_code.go", "referenced", "parameter never referenced by the template")
	}
	r.Analysed["template_parameters"] = refl
	staticCodePipeline(c, g)
	c04Flags(c, g)
	builderFlow(c, g)
	// formatting options of imports.Process (comments must survive: nolint markers, generated-code header)
	if mf := load.FuncDecl(g.Pkg(""), "", "main"); mf != nil {
		got := map[string]string{}
		// the literal may sit in main or in a helper of the package (generated front-end excluded)
		rootPkg := g.Pkg("")
		for i, f := range rootPkg.Syntax {
			if strings.HasSuffix(rootPkg.CompiledGoFiles[i], "/pigeon.go") || strings.HasSuffix(rootPkg.CompiledGoFiles[i], "_test.go") {
				continue
			}
			ast.Inspect(f, func(n ast.Node) bool {
				cl, ok := n.(*ast.CompositeLit)
				if !ok || nospace(cl.Type) != "imports.Options" {
					return true
				}
				for _, e := range cl.Elts {
					if kv, ok := e.(*ast.KeyValueExpr); ok {
						// (a named constant reads as its value)
						got[nospace(kv.Key)] = constText(rootPkg, kv.Value)
					}
				}
				return false
			})
		}
		ok := got["Comments"] == "true" && got["Fragment"] == "true" && got["TabIndent"] == "true" && got["TabWidth"] == "8"
		r.Check(ok, "C04-e", "G.main:imports.Options", "", "main.go", "TabWidth 8, TabIndent, Comments, Fragment (the goimports defaults)", fmt.Sprintf("options are %v: the emitted file would lose its comments or be formatted unlike gofmt", got))
	}
}

// c04FuncName decides injectivity of funcName from the shape of its returned concatenation.
func c04FuncName(c *Ctx, g *load.G, fn *ast.FuncDecl) {
	r := c.R
	info := g.Pkg("builder").TypesInfo
	var ret *ast.ReturnStmt
	nret := 0
	ast.Inspect(fn, func(n ast.Node) bool {
		if rs, ok := n.(*ast.ReturnStmt); ok {
			ret = rs
			nret++
		}
		return true
	})
	where := g.Where(fn.Pos())
	if nret != 1 || len(ret.Results) != 1 {
		r.Unk("C04-b", "G.builder.funcName:separator", "", where, "funcName is no longer a single returned expression; injectivity not decidable by this rule")
		return
	}
	// flatten the + chain
	var parts []ast.Expr
	var flat func(e ast.Expr)
	flat = func(e ast.Expr) {
		if be, ok := e.(*ast.BinaryExpr); ok && be.Op == token.ADD {
			flat(be.X)
			flat(be.Y)
			return
		}
		if pe, ok := e.(*ast.ParenExpr); ok {
			flat(pe.X)
			return
		}
		parts = append(parts, e)
	}
	flat(ret.Results[0])
	// classify parts: const string / decimal(int) / variable string
	type part struct {
		kind string
		val  string
	}
	var ps []part
	for _, e := range parts {
		if tv, ok := info.Types[e]; ok && tv.Value != nil && tv.Value.Kind() == constant.String {
			ps = append(ps, part{"const", constant.StringVal(tv.Value)})
			continue
		}
		if ce, ok := e.(*ast.CallExpr); ok {
			n := callName(ce)
			if n == "strconv.Itoa" || n == "strconv.FormatInt" {
				ps = append(ps, part{"decimal", ""})
				continue
			}
			if n == "fmt.Sprintf" && len(ce.Args) >= 1 {
				if tv, ok := info.Types[ce.Args[0]]; ok && tv.Value != nil {
					f := constant.StringVal(tv.Value)
					if m := regexp.MustCompile(`^(.*[^0-9%])?%d$`).FindStringSubmatch(f); m != nil && !strings.Contains(m[1], "%") {
						if m[1] != "" {
							ps = append(ps, part{"const", m[1]})
						}
						ps = append(ps, part{"decimal", ""})
						continue
					}
				}
			}
		}
		ps = append(ps, part{"var", exprStr(nil, e)})
	}
	desc := []string{}
	for _, p := range ps {
		desc = append(desc, p.kind+"("+p.val+")")
	}
	// rule: exactly the identifier variable and the decimal occur; the decimal is last and is
	// immediately preceded by a constant ending in a non-digit (unique split from the right),
	// or the decimal comes before the variable separated likewise.
	ok := false
	for i, p := range ps {
		if p.kind != "decimal" {
			continue
		}
		if i == len(ps)-1 && i > 0 && ps[i-1].kind == "const" && ps[i-1].val != "" {
			last := ps[i-1].val[len(ps[i-1].val)-1]
			if last < '0' || last > '9' {
				ok = true
			}
		}
		if i+1 < len(ps) && ps[i+1].kind == "const" && ps[i+1].val != "" {
			first := ps[i+1].val[0]
			if (first < '0' || first > '9') && i > 0 && ps[i-1].kind == "const" {
				ok = true
			}
		}
	}
	r.Check(ok, "C04-b", "G.builder.funcName:separator", "", where, "decimal index is delimited by a constant non-digit separator: "+strings.Join(desc, "+"),
		"concatenation "+strings.Join(desc, "+")+" has no separator between the rule name (an identifier that may end in digits) and the decimal index: rule A at index 12 and rule A1 at index 2 both give onA12")
}

// c04Wiring checks the definition/reference wiring of code-block methods.
func c04Wiring(c *Ctx, g *load.G) {
	r := c.R
	bp := g.Pkg("builder")
	sk := c.Skel()
	nCode := 0
	for _, k := range sk.Kinds {
		if k.CodeWriter == "" {
			continue
		}
		nCode++
		w := load.FuncDecl(bp, "builder", k.Writer)
		cw := load.FuncDecl(bp, "builder", k.CodeWriter)
		if w == nil || cw == nil {
			r.Fatal("anchors %s/%s not found", k.Writer, k.CodeWriter)
			continue
		}
		param := w.Type.Params.List[0].Names[0].Name
		// reference: every writelnf whose format contains "call%s" has argument b.funcName(<param>.FuncIx)
		found := false
		ast.Inspect(w, func(n ast.Node) bool {
			ce, ok := n.(*ast.CallExpr)
			if !ok || len(ce.Args) < 2 {
				return true
			}
			if tv, ok := bp.TypesInfo.Types[ce.Args[0]]; ok && tv.Value != nil && strings.Contains(constant.StringVal(tv.Value), "call%s") {
				found = true
				arg := exprStr(nil, ce.Args[1])
				r.Check(arg == "b.funcName("+param+".FuncIx)", "C04-c", "G.builder."+k.Writer+":run-reference", "", g.Where(ce.Pos()),
					"run: (*parser).call<funcName("+param+".FuncIx)>", "the emitted method reference is named by "+arg+", not by funcName of this node's FuncIx")
			}
			return true
		})
		if !found {
			r.Bad("C04-c", "G.builder."+k.Writer+":run-reference", "", g.Where(w.Pos()), "no `call%s` reference emitted for a code-block kind")
		}
		// FuncIx is assigned from b.exprIndex (unique per expression within a rule)
		assigned := false
		ast.Inspect(w, func(n ast.Node) bool {
			if as, ok := n.(*ast.AssignStmt); ok && len(as.Lhs) == 1 && exprStr(nil, as.Lhs[0]) == param+".FuncIx" {
				assigned = true
				gs := strings.Join(guardsOf(w.Body, as.Pos()), ";")
				r.Check(exprStr(nil, as.Rhs[0]) == "b.exprIndex" && gs == param+".FuncIx==0", "C04-c", "G.builder."+k.Writer+":FuncIx-source", "", g.Where(as.Pos()),
					"FuncIx := b.exprIndex when it is still 0", "FuncIx is assigned "+exprStr(nil, as.Rhs[0])+" under ["+gs+"] (expected b.exprIndex under "+param+".FuncIx==0): the referenced method name and the emitted one can differ, or no index is ever assigned")
			}
			return true
		})
		if !assigned {
			r.Bad("C04-c", "G.builder."+k.Writer+":FuncIx-source", "", g.Where(w.Pos()), "FuncIx never assigned")
		}
		// definition: writeFunc(<p>.FuncIx, <p>.Code, ...) exactly on the paths with a present node whose method is pending
		cparam := cw.Type.Params.List[0].Names[0].Name
		def := false
		for _, p := range c.builderNorm().normPaths(cw) {
			iw := p.evIndex("call", 0, func(t string) bool { return strings.HasPrefix(t, "b.writeFunc(") })
			if iw < 0 {
				continue
			}
			def = true
			args := splitTop(strings.TrimSuffix(strings.TrimPrefix(p[iw].Text, "b.writeFunc("), ")"), ",")
			okc := p.holds(cparam+".FuncIx>0") || p.holds(cparam+".FuncIx!=0")
			ro := c.writeFuncRoles()
			oka := ro.Why == "" && len(args) == 4 && args[ro.Ix] == cparam+".FuncIx" && args[ro.Code] == cparam+".Code"
			r.Check(okc && oka, "C04-c", "G.builder."+k.CodeWriter+":definition", "", g.Where(p[iw].Node.Pos()),
				"writeFunc("+cparam+".FuncIx, "+cparam+".Code, …) for a pending method",
				"method definition is emitted as "+abbreviate(p[iw].Text)+" under ["+strings.Join(p.facts(), " ")+"]")
		}
		if !def {
			r.Bad("C04-c", "G.builder."+k.CodeWriter+":definition", "", g.Where(cw.Pos()), "no guarded writeFunc call: the method referenced by the grammar literal is never defined")
		}
	}
	r.Min("C04-c code kinds", 4, nCode)
	// writeExprCode must reach every code writer for its kind
	wec := load.FuncDecl(bp, "builder", "writeExprCode")
	if wec == nil {
		r.Fatal("anchor builder.writeExprCode not found")
	} else {
		calls := map[string]bool{}
		ast.Inspect(wec, func(n ast.Node) bool {
			if ce, ok := n.(*ast.CallExpr); ok {
				calls[callName(ce)] = true
			}
			return true
		})
		for _, k := range sk.Kinds {
			if k.CodeWriter != "" {
				r.Check(calls["b."+k.CodeWriter], "C04-c", "G.builder.writeExprCode:calls "+k.CodeWriter, "", g.Where(wec.Pos()), "called", "writeExprCode never calls "+k.CodeWriter+": the method referenced by the grammar literal is never defined")
			}
		}
	}
	// writeFunc: name, parameter list and argument list
	wf := load.FuncDecl(bp, "builder", "writeFunc")
	if wf == nil {
		r.Fatal("anchor builder.writeFunc not found")
		return
	}
	wfp := writeFuncSemantics(c)
	r.Check(len(wfp["name"]) == 0, "C04-c", "G.builder.writeFunc:name", "", g.Where(wf.Pos()), "both pieces are named b.funcName(funcIx)", strings.Join(uniq(wfp["name"]), "; "))
	r.Check(len(wfp["same-list"]) == 0 && len(wfp["lists"]) == 0, "C04-c", "G.builder.writeFunc:same-label-list", "", g.Where(wf.Pos()),
		"parameters and stack[...] arguments both enumerate the innermost label scope", strings.Join(uniq(append(wfp["same-list"], wfp["lists"]...)), "; "))
	r.Check(len(wfp["pair"]) == 0, "C04-c", "G.builder.writeFunc:emits-pair", "", g.Where(wf.Pos()), "on<fnNm> and call<fnNm> emitted with the same name", strings.Join(uniq(wfp["pair"]), "; "))
	// exprIndex discipline and ruleName set on both passes
	we := load.FuncDecl(bp, "builder", "writeExpr")
	if we != nil && len(we.Body.List) > 0 {
		first := ""
		if ids, ok := we.Body.List[0].(*ast.IncDecStmt); ok && ids.Tok == token.INC {
			first = exprStr(nil, ids.X)
		}
		r.Check(first == "b.exprIndex", "C04-c", "G.builder.writeExpr:exprIndex++", "", g.Where(we.Pos()), "incremented before dispatch", "b.exprIndex is not incremented first in writeExpr: two expressions of one rule may share an index")
	}
	writersOf := func(field string) map[string][]string {
		out := map[string][]string{}
		for _, fd := range load.AllFuncDecls(bp) {
			if fd.Body == nil {
				continue
			}
			inl := inlineLocals(fd, nil)
			ast.Inspect(fd, func(n ast.Node) bool {
				switch x := n.(type) {
				case *ast.AssignStmt:
					for i, l := range x.Lhs {
						if exprStr(nil, l) == "b."+field {
							rhs := "?"
							if i < len(x.Rhs) {
								rhs = inl(x.Rhs[i])
							}
							out[fd.Name.Name] = append(out[fd.Name.Name], rhs)
						}
					}
				case *ast.IncDecStmt:
					if exprStr(nil, x.X) == "b."+field {
						out[fd.Name.Name] = append(out[fd.Name.Name], x.Tok.String())
					}
				}
				return true
			})
		}
		return out
	}
	ei := writersOf("exprIndex")
	okEI := len(ei) == 2 && len(ei["writeExpr"]) == 1 && len(ei["writeRule"]) == 1 && ei["writeRule"][0] == "0"
	r.Check(okEI, "C04-c", "G.builder.exprIndex:writers", "", "builder/builder.go", "reset in writeRule, incremented in writeExpr only", fmt.Sprintf("writers of b.exprIndex: %v", ei))
	rn := writersOf("ruleName")
	okRN := len(rn) == 2 && len(rn["writeRule"]) == 1 && len(rn["writeRuleCode"]) == 1
	if okRN {
		a, b := rn["writeRule"][0], rn["writeRuleCode"][0]
		okRN = strings.HasSuffix(a, ".Name.Val") && strings.HasSuffix(b, ".Name.Val")
	}
	r.Check(okRN, "C04-c", "G.builder.ruleName:writers", "", "builder/builder.go", "both passes set b.ruleName from <rule>.Name.Val", fmt.Sprintf("writers of b.ruleName: %v", rn))
}

// c04Unicode checks class-name tables against the toolchain's unicode package source.
func c04Unicode(c *Ctx, g *load.G) {
	r := c.R
	out, err := exec.Command("go", "env", "GOROOT").Output()
	if err != nil {
		r.Fatal("go env GOROOT: %v", err)
		return
	}
	goroot := strings.TrimSpace(string(out))
	fset := token.NewFileSet()
	tf, err := parser.ParseFile(fset, filepath.Join(goroot, "src/unicode/tables.go"), nil, 0)
	if err != nil {
		r.Fatal("cannot parse unicode/tables.go: %v", err)
		return
	}
	keys := map[string]map[string]bool{}
	for _, d := range tf.Decls {
		gd, ok := d.(*ast.GenDecl)
		if !ok {
			continue
		}
		for _, s := range gd.Specs {
			vs, ok := s.(*ast.ValueSpec)
			if !ok {
				continue
			}
			for i, n := range vs.Names {
				if n.Name != "Categories" && n.Name != "Properties" && n.Name != "Scripts" {
					continue
				}
				if i >= len(vs.Values) {
					continue
				}
				cl, ok := vs.Values[i].(*ast.CompositeLit)
				if !ok {
					continue
				}
				m := map[string]bool{}
				for _, e := range cl.Elts {
					if kv, ok := e.(*ast.KeyValueExpr); ok {
						if bl, ok := kv.Key.(*ast.BasicLit); ok {
							if k, err := strconv.Unquote(bl.Value); err == nil {
								m[k] = true
							}
						}
					}
				}
				keys[n.Name] = m
			}
		}
	}
	for _, n := range []string{"Categories", "Properties", "Scripts"} {
		if len(keys[n]) == 0 {
			r.Fatal("unicode.%s keys not found in %s/src/unicode/tables.go", n, goroot)
			return
		}
	}
	r.Analysed["unicode_tables"] = map[string]int{"Categories": len(keys["Categories"]), "Properties": len(keys["Properties"]), "Scripts": len(keys["Scripts"])}
	known := func(k string) bool { return keys["Categories"][k] || keys["Properties"][k] || keys["Scripts"][k] }
	// accepted names: unicodeClasses literal in the root package
	root := g.Pkg("")
	n := 0
	var missing []string
	for _, f := range root.Syntax {
		for _, d := range f.Decls {
			gd, ok := d.(*ast.GenDecl)
			if !ok {
				continue
			}
			for _, s := range gd.Specs {
				vs, ok := s.(*ast.ValueSpec)
				if !ok || len(vs.Names) != 1 || vs.Names[0].Name != "unicodeClasses" || len(vs.Values) != 1 {
					continue
				}
				cl, ok := vs.Values[0].(*ast.CompositeLit)
				if !ok {
					continue
				}
				for _, e := range cl.Elts {
					kv, ok := e.(*ast.KeyValueExpr)
					if !ok {
						continue
					}
					bl, ok := kv.Key.(*ast.BasicLit)
					if !ok {
						continue
					}
					k, _ := strconv.Unquote(bl.Value)
					n++
					if !known(k) {
						missing = append(missing, k)
					}
				}
			}
		}
	}
	r.Min("C04-d unicodeClasses entries", 100, n)
	r.Check(len(missing) == 0, "C04-d", "A.unicode_classes.go:unicodeClasses ⊆ unicode tables", "", "unicode_classes.go", fmt.Sprintf("%d names all resolve", n),
		"accepted class names with no run-time table (generated parser panics at init): "+strings.Join(missing, ", "))
	// single-letter classes: the charClassMatcher of rule SingleCharUnicodeClass in pigeon.go
	single := ""
	for _, f := range root.Syntax {
		ast.Inspect(f, func(nd ast.Node) bool {
			cl, ok := nd.(*ast.CompositeLit)
			if !ok {
				return true
			}
			name, expr := "", ast.Expr(nil)
			for _, e := range cl.Elts {
				if kv, ok := e.(*ast.KeyValueExpr); ok {
					if id, ok := kv.Key.(*ast.Ident); ok {
						if id.Name == "name" {
							if bl, ok := kv.Value.(*ast.BasicLit); ok {
								name, _ = strconv.Unquote(bl.Value)
							}
						}
						if id.Name == "expr" {
							expr = kv.Value
						}
					}
				}
			}
			if name == "SingleCharUnicodeClass" && expr != nil {
				ast.Inspect(expr, func(m ast.Node) bool {
					if kv, ok := m.(*ast.KeyValueExpr); ok {
						if id, ok := kv.Key.(*ast.Ident); ok && id.Name == "chars" {
							if cl2, ok := kv.Value.(*ast.CompositeLit); ok {
								for _, e := range cl2.Elts {
									if bl, ok := e.(*ast.BasicLit); ok && bl.Kind == token.CHAR {
										if s, err := strconv.Unquote(bl.Value); err == nil {
											single += s
										}
									}
								}
							}
						}
					}
					return true
				})
				return false
			}
			return true
		})
	}
	if single == "" {
		r.Fatal("anchor rule SingleCharUnicodeClass (chars list) not found in pigeon.go")
	} else {
		var bad []string
		for _, ch := range single {
			if !known(string(ch)) {
				bad = append(bad, string(ch))
			}
		}
		r.Check(len(bad) == 0, "C04-d", "A.pigeon.go:SingleCharUnicodeClass ⊆ unicode tables", "", "pigeon.go", "single-letter classes "+single+" all resolve", "single-letter classes without table: "+strings.Join(bad, ","))
	}
	// rangeTable consults the three maps, each unconditionally and for every name
	rtf := load.FuncDecl(g.Pkg("builder"), "", "rangeTable")
	if rtf == nil {
		r.Fatal("builder.rangeTable not found")
		return
	}
	param := rtf.Type.Params.List[0].Names[0].Name
	found := map[string]bool{}
	var bad []string
	ast.Inspect(rtf.Body, func(n ast.Node) bool {
		is, ok := n.(*ast.IfStmt)
		if !ok || is.Init == nil {
			return true
		}
		as, ok := is.Init.(*ast.AssignStmt)
		if !ok || len(as.Rhs) != 1 {
			return true
		}
		ix, ok := as.Rhs[0].(*ast.IndexExpr)
		if !ok || !strings.HasPrefix(nospace(ix.X), "unicode.") {
			return true
		}
		m := strings.TrimPrefix(nospace(ix.X), "unicode.")
		gs := guardsOf(rtf.Body, is.Pos())
		retOK := len(is.Body.List) == 1
		if retOK {
			rs, isRet := is.Body.List[0].(*ast.ReturnStmt)
			retOK = isRet && nospace(rs.Results[0]) == nospace(as.Lhs[0])
		}
		if nospace(ix.Index) != param || nospace(is.Cond) != nospace(as.Lhs[1]) || !retOK {
			bad = append(bad, "lookup in unicode."+m+" is not `if rt, ok := unicode."+m+"["+param+"]; ok { return rt }`")
		}
		if len(gs) > 0 {
			bad = append(bad, "lookup in unicode."+m+" only under ["+strings.Join(gs, ";")+"]: some accepted class names are never looked up there (a generated parser using them panics during package initialisation)")
		}
		found[m] = true
		return true
	})
	for _, m := range []string{"Categories", "Properties", "Scripts"} {
		if !found[m] {
			bad = append(bad, "unicode."+m+" is not consulted")
		}
	}
	sort.Strings(bad)
	r.Check(len(bad) == 0, "C04-d", "T.rangeTable:lookups", "", "builder/static_code_range_table.go", "Categories, Properties and Scripts are each consulted unconditionally with the class name", strings.Join(bad, "; "))
	// the name that reaches rangeTable is the name the front-end validated: the class-text parser reads it into a
	// buffer that holds nothing else
	if cp := c.classParse(); cp != nil && cp.readLoop != nil {
		nobj, sbad := scratchBuffersClean(cp.iter)
		r.Check(len(sbad) == 0, "C04-d", "G.ast.CharClassMatcher.parse:class-name-read-into-clean-buffer", "", c.G().Where(cp.readLoop.Pos()), fmt.Sprintf("%d scratch buffers over %d iteration paths", nobj, len(cp.iter)), strings.Join(uniq(sbad), "; "))
	}
}

// unicodeMissing returns the accepted Unicode class names that have no table in the toolchain (err != "" on machinery failure).
func unicodeMissing(g *load.G) (missing []string, errText string) {
	out, err := exec.Command("go", "env", "GOROOT").Output()
	if err != nil {
		return nil, "go env GOROOT: " + err.Error()
	}
	fset := token.NewFileSet()
	tf, err := parser.ParseFile(fset, filepath.Join(strings.TrimSpace(string(out)), "src/unicode/tables.go"), nil, 0)
	if err != nil {
		return nil, err.Error()
	}
	keys := map[string]bool{}
	ast.Inspect(tf, func(n ast.Node) bool {
		vs, ok := n.(*ast.ValueSpec)
		if !ok {
			return true
		}
		for i, nm := range vs.Names {
			if (nm.Name == "Categories" || nm.Name == "Properties" || nm.Name == "Scripts") && i < len(vs.Values) {
				if cl, ok := vs.Values[i].(*ast.CompositeLit); ok {
					for _, e := range cl.Elts {
						if kv, ok := e.(*ast.KeyValueExpr); ok {
							if bl, ok := kv.Key.(*ast.BasicLit); ok {
								if k, err := strconv.Unquote(bl.Value); err == nil {
									keys[k] = true
								}
							}
						}
					}
				}
			}
		}
		return true
	})
	if len(keys) < 100 {
		return nil, "unicode tables not found"
	}
	n := 0
	for _, f := range g.Pkg("").Syntax {
		ast.Inspect(f, func(nd ast.Node) bool {
			vs, ok := nd.(*ast.ValueSpec)
			if !ok || len(vs.Names) != 1 || vs.Names[0].Name != "unicodeClasses" || len(vs.Values) != 1 {
				return true
			}
			if cl, ok := vs.Values[0].(*ast.CompositeLit); ok {
				for _, e := range cl.Elts {
					if kv, ok := e.(*ast.KeyValueExpr); ok {
						if bl, ok := kv.Key.(*ast.BasicLit); ok {
							k, _ := strconv.Unquote(bl.Value)
							n++
							if !keys[k] {
								missing = append(missing, k)
							}
						}
					}
				}
			}
			return false
		})
	}
	if n < 100 {
		return nil, "unicodeClasses table not found"
	}
	return missing, ""
}

type builtVariant struct {
	v    *variants.Variant
	skel string
}

// c04Vet runs go vet (a static tool) on every built variant as a scratch module outside /repo and /verif.
func c04Vet(c *Ctx, list []builtVariant) {
	r := c.R
	dir, err := os.MkdirTemp("", "pcheck-vet-")
	if err != nil {
		r.Fatal("scratch dir: %v", err)
		return
	}
	defer os.RemoveAll(dir)
	type res struct {
		name string
		out  string
		err  error
	}
	ch := make(chan res, len(list))
	sem := make(chan struct{}, 8)
	for _, b := range list {
		go func(b builtVariant) {
			sem <- struct{}{}
			defer func() { <-sem }()
			d := filepath.Join(dir, b.v.Name)
			_ = os.MkdirAll(d, 0o755)
			_ = os.WriteFile(filepath.Join(d, "go.mod"), []byte("module p\n\ngo 1.25\n"), 0o644)
			_ = os.WriteFile(filepath.Join(d, "variant.go"), []byte(b.v.FullSrc), 0o644)
			_ = os.WriteFile(filepath.Join(d, "skeleton.go"), []byte(b.v.SkelSrc), 0o644)
			cmd := exec.Command("go", "vet", "./...")
			cmd.Dir = d
			out, err := cmd.CombinedOutput()
			ch <- res{b.v.Name, string(out), err}
		}(b)
	}
	for range list {
		x := <-ch
		r.Check(x.err == nil, "C04-a", "go vet(skeleton+variant) "+x.name, "", "builder/static_code.go", "go vet clean", "go vet: "+strings.TrimSpace(x.out))
	}
}

// c04Flags: command-line flags are wired to the builder option of the same meaning, every option value reaches
// BuildParser, and each option function stores into its own builder field.
func c04Flags(c *Ctx, g *load.G) {
	r := c.R
	r.Rule("C04-f", "main: -optimize-parser→builder.Optimize, -optimize-basic-latin→builder.BasicLatinLookupTable, -nolint→builder.Nolint, -support-left-recursion→builder.SupportLeftRecursion, -receiver-name→builder.ReceiverName; all five option values are arguments of builder.BuildParser; each builder option assigns its own field")
	mf := load.FuncDecl(g.Pkg(""), "", "main")
	if mf == nil {
		r.Fatal("main.main not found")
		return
	}
	want := map[string]string{"optimize-parser": "builder.Optimize", "optimize-basic-latin": "builder.BasicLatinLookupTable", "nolint": "builder.Nolint", "support-left-recursion": "builder.SupportLeftRecursion", "receiver-name": "builder.ReceiverName"}
	got := map[string]string{}
	passed := map[string]bool{}
	var bad []string
	// every option value that reaches builder.BuildParser, traced back through locals, parameters and `opts...`
	mp := g.Pkg("")
	fl := newFlow(mp, func(fn string) bool { return strings.HasSuffix(fn, "/pigeon.go") || strings.HasSuffix(fn, "_test.go") })
	fm := newFlagModel(mp, func(fn string) bool { return strings.HasSuffix(fn, "/pigeon.go") || strings.HasSuffix(fn, "_test.go") })
	flagOf := func(o origin) string {
		// the value of a flag, however it is declared, possibly through a local or a parameter
		if f := fm.flagOf(o.Expr); f != "" {
			return f
		}
		for _, o2 := range fl.origins(o.Expr, o.Fd, 0) {
			if f := fm.flagOf(o2.Expr); f != "" {
				return f
			}
		}
		return ""
	}
	nBuild := 0
	for _, fd := range fl.decls {
		for _, ce := range callsIn(fd.Body) {
			if callName(ce) != "builder.BuildParser" {
				continue
			}
			nBuild++
			for _, o := range fl.variadicOrigins(ce, fd, 2, 0) {
				oc, ok := o.Expr.(*ast.CallExpr)
				if !ok || !strings.HasPrefix(callName(oc), "builder.") || len(oc.Args) != 1 {
					bad = append(bad, g.Where(o.Expr.Pos())+": the option "+nospace(o.Expr)+" passed to BuildParser is not a builder option applied to a flag")
					continue
				}
				f := ""
				for _, ao := range fl.origins(oc.Args[0], o.Fd, 0) {
					f = flagOf(ao)
				}
				if f == "" {
					bad = append(bad, g.Where(oc.Pos())+": the option "+nospace(oc)+" is not given the value of a command-line flag")
					continue
				}
				got[f] = callName(oc)
				passed[f] = true
			}
		}
	}
	if nBuild != 1 {
		bad = append(bad, fmt.Sprintf("%d calls of builder.BuildParser in the command, expected 1", nBuild))
	}
	for f, opt := range want {
		if got[f] != opt {
			bad = append(bad, fmt.Sprintf("-%s is wired to %q, expected %s", f, got[f], opt))
		}
		if !passed[f] {
			bad = append(bad, "-"+f+" does not reach builder.BuildParser")
		}
	}
	sort.Strings(bad)
	r.Check(len(bad) == 0, "C04-f", "G.main:generation-flags-wired", "", "main.go", fmt.Sprintf("%v", got), strings.Join(bad, "; "))
	// option functions
	bp := g.Pkg("builder")
	optField := map[string]string{"Optimize": "optimize", "BasicLatinLookupTable": "basicLatinLookupTable", "Nolint": "nolint", "SupportLeftRecursion": "supportLeftRecursion", "ReceiverName": "recvName"}
	var bad2 []string
	for opt, field := range optField {
		fd := load.FuncDecl(bp, "", opt)
		if fd == nil {
			bad2 = append(bad2, "option "+opt+" not found")
			continue
		}
		param := fd.Type.Params.List[0].Names[0].Name
		ok := false
		n := 0
		ast.Inspect(fd.Body, func(nd ast.Node) bool {
			if as, isAs := nd.(*ast.AssignStmt); isAs && strings.HasPrefix(nospace(as.Lhs[0]), "b.") && as.Tok.String() == "=" {
				n++
				if nospace(as.Lhs[0]) == "b."+field && nospace(as.Rhs[0]) == param {
					ok = true
				}
			}
			return true
		})
		if !ok || n != 1 {
			bad2 = append(bad2, fmt.Sprintf("builder.%s does not assign exactly b.%s = %s", opt, field, param))
		}
	}
	sort.Strings(bad2)
	r.Check(len(bad2) == 0, "C04-f", "G.builder:options-store-their-own-field", "", "builder/builder.go", "five options, each storing its argument into its field", strings.Join(bad2, "; "))
}

// constText renders an expression; a constant expression (a literal, a named constant, arithmetic on them) is
// rendered as its value.
func constText(p *packages.Package, e ast.Expr) string {
	if tv, ok := p.TypesInfo.Types[e]; ok && tv.Value != nil {
		return tv.Value.ExactString()
	}
	return nospace(e)
}

// c04OutputTruncated (C04-l): the emitted file is exactly what the builder wrote. A file opened for writing without
// truncation keeps the tail of a longer previous version behind the new parser (a second run with other flags, a rule
// removed), which is not Go. Every place of package main that opens a file for writing therefore uses os.Create, or
// os.OpenFile with os.O_TRUNC (and without os.O_APPEND) among its flags.
func c04OutputTruncated(c *Ctx) {
	r := c.R
	g := c.G()
	if g == nil {
		return
	}
	root := g.Pkg("")
	nCreate := 0
	var bad []string
	for _, fd := range load.AllFuncDecls(root) {
		if fd.Body == nil {
			continue
		}
		fn := g.Fset.Position(fd.Pos()).Filename
		if strings.HasSuffix(fn, "_test.go") || strings.HasSuffix(fn, "/pigeon.go") {
			continue
		}
		// os.Create handed to a wrapper as a function value opens (and truncates) as well
		ast.Inspect(fd.Body, func(n ast.Node) bool {
			if ce, ok := n.(*ast.CallExpr); ok {
				for _, a := range ce.Args {
					if nospace(a) == "os.Create" {
						nCreate++
					}
				}
			}
			return true
		})
		for _, ce := range callsIn(fd.Body) {
			switch callName(ce) {
			case "os.Create":
				nCreate++
			case "os.OpenFile":
				if len(ce.Args) < 2 {
					continue
				}
				flags := nospace(ce.Args[1])
				writes := strings.Contains(flags, "O_WRONLY") || strings.Contains(flags, "O_RDWR") || strings.Contains(flags, "O_APPEND") || strings.Contains(flags, "O_CREATE")
				if tv, ok := root.TypesInfo.Types[ce.Args[1]]; ok && tv.Value != nil && !writes {
					// a constant the checker cannot read by name: undecided rather than assumed
					bad = append(bad, g.Where(ce.Pos())+": os.OpenFile with flags "+flags+" (cannot tell whether the file is truncated)")
					continue
				}
				if !writes {
					continue
				}
				nCreate++
				if !strings.Contains(flags, "O_TRUNC") || strings.Contains(flags, "O_APPEND") {
					bad = append(bad, g.Where(ce.Pos())+": "+fd.Name.Name+" opens a file for writing with "+flags+", which does not truncate it: a longer previous output keeps its tail behind the new parser")
				}
			}
		}
	}
	r.Check(len(bad) == 0 && nCreate >= 1, "C04-l", "G.main:output-file-truncated", "", "main.go", fmt.Sprintf("%d places open a file for writing, each truncating it", nCreate), fmt.Sprintf("%d places open a file for writing; %s", nCreate, strings.Join(bad, "; ")))
}
