package rules

import (
	"fmt"
	"go/ast"
	"go/types"
	"sort"
	"strings"

	"golang.org/x/tools/go/packages"

	"pigeonverif/internal/load"
)

// exprKind describes one grammar-expression type of package ast.
type exprKind struct {
	Name     string
	Children []string // fields of type Expression or []Expression
	Named    *types.Named
}

// exprKinds derives the expression kinds: struct types of package ast implementing Expression that
// the builder's writeExpr dispatches on. Non-expression nodes (Grammar, Rule, ...) are returned separately.
func (c *Ctx) exprKinds() (kinds []exprKind, others []string) {
	g := c.G()
	if g == nil {
		return nil, nil
	}
	ap := g.Pkg("ast")
	exprObj := ap.Types.Scope().Lookup("Expression")
	if exprObj == nil {
		c.R.Fatal("ast.Expression not found")
		return nil, nil
	}
	iface := exprObj.Type().Underlying().(*types.Interface)
	emitted := map[string]bool{}
	for _, k := range c.Skel().Kinds {
		emitted[k.Name] = true
	}
	for _, n := range ap.Types.Scope().Names() {
		tn, ok := ap.Types.Scope().Lookup(n).(*types.TypeName)
		if !ok {
			continue
		}
		named, ok := tn.Type().(*types.Named)
		if !ok {
			continue
		}
		st, ok := named.Underlying().(*types.Struct)
		if !ok || !types.Implements(types.NewPointer(named), iface) {
			continue
		}
		if !emitted[n] {
			others = append(others, n)
			continue
		}
		k := exprKind{Name: n, Named: named}
		for i := 0; i < st.NumFields(); i++ {
			f := st.Field(i)
			ft := f.Type()
			if sl, ok := ft.(*types.Slice); ok {
				ft = sl.Elem()
			}
			if types.Identical(ft, exprObj.Type()) {
				k.Children = append(k.Children, f.Name())
			}
		}
		kinds = append(kinds, k)
	}
	sort.Slice(kinds, func(i, j int) bool { return kinds[i].Name < kinds[j].Name })
	sort.Strings(others)
	return
}

// switchInfo describes how a traversal function treats each kind.
type switchInfo struct {
	Fn        *ast.FuncDecl
	Cases     map[string]*ast.CaseClause
	Default   string // "panic", "none", "other"
	HasSwitch bool
	Var       string // variable bound by the switch (`switch v := x.(type)`), "" if none
}

// typeSwitchOn finds the first type switch in fd whose tag is the parameter named param.
func typeSwitchOn(fd *ast.FuncDecl, param string) *switchInfo {
	si := &switchInfo{Fn: fd, Cases: map[string]*ast.CaseClause{}, Default: "none"}
	ast.Inspect(fd.Body, func(n ast.Node) bool {
		ts, ok := n.(*ast.TypeSwitchStmt)
		if !ok || si.HasSwitch {
			return true
		}
		tag := ""
		switch a := ts.Assign.(type) {
		case *ast.AssignStmt:
			if ta, ok := a.Rhs[0].(*ast.TypeAssertExpr); ok {
				tag = nospace(ta.X)
				if tag == param {
					si.Var = nospace(a.Lhs[0])
				}
			}
		case *ast.ExprStmt:
			if ta, ok := a.X.(*ast.TypeAssertExpr); ok {
				tag = nospace(ta.X)
			}
		}
		if tag != param {
			return true
		}
		si.HasSwitch = true
		for _, cl := range ts.Body.List {
			cc := cl.(*ast.CaseClause)
			if cc.List == nil {
				si.Default = "other"
				for _, ce := range callsIn(cc) {
					if callName(ce) == "panic" {
						si.Default = "panic"
					}
				}
				continue
			}
			for _, t := range cc.List {
				si.Cases[strings.TrimPrefix(strings.TrimPrefix(nospace(t), "*"), "ast.")] = cc
			}
		}
		return false
	})
	return si
}

// recursesInto reports whether clause cc passes <switchVar>.<field> (or its elements) to one of the callees.
func recursesInto(cc *ast.CaseClause, field string, callees ...string) bool {
	found := false
	for _, ce := range callsIn(cc) {
		name := callSel(ce)
		ok := false
		for _, x := range callees {
			if name == x {
				ok = true
			}
		}
		if extraRecursers[name] {
			ok = true
		}
		if !ok {
			continue
		}
		for _, a := range ce.Args {
			t := nospace(a)
			if strings.HasSuffix(t, "."+field) || strings.Contains(t, "."+field+"[") {
				found = true
			}
			// range variable over the field
			if id, ok := a.(*ast.Ident); ok {
				ast.Inspect(cc, func(n ast.Node) bool {
					if rs, ok := n.(*ast.RangeStmt); ok && strings.HasSuffix(nospace(rs.X), "."+field) && rs.Value != nil && nospace(rs.Value) == id.Name {
						found = true
					}
					return true
				})
			}
		}
	}
	return found
}

// extraRecursers: helpers that apply the traversal to every element of a list (filled by traversalExhaustiveness).
var extraRecursers = map[string]bool{}

type traversal struct {
	Name    string // display name
	Pkg     *packages.Package
	Recv    string
	Func    string
	Param   string
	Callees []string
}

func (c *Ctx) traversals() []traversal {
	g := c.G()
	ap := g.Pkg("ast")
	return []traversal{
		{"ast.Walk", ap, "", "Walk", "expr", []string{"Walk"}},
		{"ast.cloneExpr", ap, "", "cloneExpr", "expr", []string{"cloneExpr"}},
	}
}

// traversalExhaustiveness emits, under the given rule id, one obligation per (traversal, kind) for the listed
// kinds (nil = all): ast.Walk must have a case recursing into every Expression child and must not reach its
// panicking default; cloneExpr must have a case for every kind that has Expression children.
func traversalExhaustiveness(c *Ctx, rule string, only []string) {
	r := c.R
	g := c.G()
	if g == nil {
		return
	}
	kinds, _ := c.exprKinds()
	if len(kinds) != 18 {
		r.Fatal("expected 18 expression kinds in package ast, found %d", len(kinds))
	}
	for h := range c.elementwiseCloners() {
		extraRecursers[h] = true
	}
	for h := range c.elementwiseWalkers() {
		extraRecursers[h] = true
	}
	want := func(k string) bool {
		if only == nil {
			return true
		}
		for _, o := range only {
			if o == k {
				return true
			}
		}
		return false
	}
	for _, t := range c.traversals() {
		fd := load.FuncDecl(t.Pkg, t.Recv, t.Func)
		if fd == nil {
			r.Fatal("anchor %s not found", t.Name)
			continue
		}
		si := typeSwitchOn(fd, t.Param)
		if !si.HasSwitch {
			r.Unk(rule, "G."+t.Name+":type-switch", "", g.Where(fd.Pos()), "no type switch on the expression parameter")
			continue
		}
		for _, k := range kinds {
			if !want(k.Name) {
				continue
			}
			construct := "G." + t.Name + ":kind=" + k.Name
			cc := si.Cases[k.Name]
			if cc == nil {
				switch {
				case t.Func == "Walk" && si.Default == "panic":
					r.Bad(rule, construct, "", g.Where(fd.Pos()), "no case for *"+k.Name+": the traversal reaches its panicking default on any grammar containing this kind")
				case t.Func == "Walk" && len(k.Children) > 0:
					r.Bad(rule, construct, "", g.Where(fd.Pos()), "no case for *"+k.Name+": its children "+strings.Join(k.Children, ",")+" are never visited")
				case t.Func == "cloneExpr" && len(k.Children) > 0:
					r.Bad(rule, construct, "", g.Where(fd.Pos()), "no case for *"+k.Name+": a node with Expression children ("+strings.Join(k.Children, ",")+") is returned un-cloned, so inlined copies share and mutate the original sub-tree")
				default:
					r.Ok(rule, construct, "", g.Where(fd.Pos()), "leaf kind without case: falls through harmlessly (default="+si.Default+")")
				}
				continue
			}
			var missing []string
			for _, ch := range k.Children {
				if !recursesInto(cc, ch, t.Callees...) {
					missing = append(missing, ch)
				}
			}
			if len(missing) > 0 {
				r.Bad(rule, construct, "", g.Where(cc.Pos()), "case *"+k.Name+" does not recurse into "+strings.Join(missing, ","))
			} else {
				r.Ok(rule, construct, "", g.Where(cc.Pos()), fmt.Sprintf("case present, recurses into %d children", len(k.Children)))
			}
		}
	}
}
