package rules

import (
	"fmt"
	"go/ast"
	"go/parser"
	"go/token"
	"go/types"
	"regexp"
	"strings"

	"pigeonverif/internal/load"
)

// Distinct keys of emitted map literals and switch cases (C04-m). A Go composite literal of map type with two equal
// constant keys, and a switch with two equal constant cases, do not compile. Where the builder emits such a construct
// with one entry per element of a list (a loop whose body writes `<verb>: …` inside a `map[K]V{` … `}` bracket, or
// `case <verb>:`), the list must be free of duplicates: it is the key set of a Go map, or the loop skips elements it
// has already seen (a membership test on a set that the loop fills with the element), on every path. A list taken
// from the grammar as written - the labels of a recovery operator, the alternatives of a choice - may repeat an element:
// the front-end does not reject that, and the old form of the emitted code (a slice literal, a loop at run time)
// tolerated it.

var (
	mapOpenRe  = regexp.MustCompile(`map\[[^\]]+\][^{}]*\{\s*$`)
	keyEntryRe = regexp.MustCompile(`^\s*(?:case\s+)?%[#+]?[qdsv]\s*:`)
)

type keyLoop struct {
	node    ast.Node
	over    string // the ranged expression
	what    string // "map literal" / "switch"
	deduped bool
}

// keyLoopsOnPath lists the loops of one normalised path that emit one keyed entry per element.
func keyLoopsOnPath(p bpath, b string) []keyLoop {
	var out []keyLoop
	ems := emissions(p, b)
	inMap := 0
	type frame struct {
		ev    emitEv
		start int
	}
	var loops []frame
	for i, ev := range ems {
		switch ev.Kind {
		case "loop":
			loops = append(loops, frame{ev, i})
		case "endloop":
			if len(loops) > 0 {
				loops = loops[:len(loops)-1]
			}
		case "fmt":
			f := strings.TrimRight(ev.Format, "\n")
			switch {
			case mapOpenRe.MatchString(f):
				inMap++
			case inMap > 0 && strings.HasPrefix(strings.TrimSpace(f), "}") && len(loops) == 0:
				inMap--
			}
			isCase := strings.HasPrefix(strings.TrimSpace(f), "case ")
			if len(loops) > 0 && keyEntryRe.MatchString(f) && (inMap > 0 || isCase) && len(ev.Args) > 0 {
				lp := loops[len(loops)-1]
				kl := keyLoop{node: lp.ev.Node, over: strings.TrimPrefix(lp.ev.Text, "range "), what: "map literal"}
				if isCase {
					kl.what = "switch"
				}
				// skipped when seen: a fact !S[key] (or !ok(S[key])) established inside the loop before the emission
				key := ev.Args[0]
				for _, fct := range ev.Facts[len(lp.ev.Facts):] {
					fct = stripAsserts(fct)
					if strings.HasPrefix(fct, "!") && (strings.HasSuffix(fct, "["+key+"]") || strings.HasSuffix(fct, "["+key+"])")) {
						kl.deduped = true
					}
				}
				out = append(out, kl)
			}
		}
	}
	return out
}

const distinctKeysControlSrc = `package p
type builder struct{}
func (b *builder) writelnf(f string, a ...any) {}
func (b *builder) bad(labels []string) {
	b.writelnf("\tlabelSet: map[string]bool{")
	for _, l := range labels {
		b.writelnf("%q: true,", l)
	}
	b.writelnf("\t},")
}
func (b *builder) good(labels []string) {
	seen := map[string]bool{}
	b.writelnf("\tlabelSet: map[string]bool{")
	for _, l := range labels {
		if seen[l] {
			continue
		}
		seen[l] = true
		b.writelnf("%q: true,", l)
	}
	b.writelnf("\t},")
}
func (b *builder) list(labels []string) {
	b.writelnf("\tfailureLabel: []string{")
	for _, l := range labels {
		b.writelnf("%q,", l)
	}
	b.writelnf("\t},")
}`

func c04DistinctKeys(c *Ctx, g *load.G) {
	r := c.R
	// control example: must report `bad`, accept `good`, ignore `list`
	ctrl := false
	if cf, err := parser.ParseFile(token.NewFileSet(), "control.go", distinctKeysControlSrc, 0); err == nil {
		var decls []*ast.FuncDecl
		for _, d := range cf.Decls {
			if fd, ok := d.(*ast.FuncDecl); ok {
				decls = append(decls, fd)
			}
		}
		nc := newNctx(decls).without("writelnf")
		res := map[string][2]int{}
		for _, fd := range decls {
			n, bad := 0, 0
			for _, p := range nc.normPaths(fd) {
				for _, kl := range keyLoopsOnPath(p, "b") {
					n++
					if !kl.deduped {
						bad++
					}
				}
			}
			res[fd.Name.Name] = [2]int{n, bad}
		}
		ctrl = res["bad"][0] >= 1 && res["bad"][1] >= 1 && res["good"][0] >= 1 && res["good"][1] == 0 && res["list"][0] == 0
	}
	if !ctrl {
		r.Fatal("C04-m: the distinct-keys rule does not behave on its control example")
	}
	bp := g.Pkg("builder")
	if bp == nil {
		return
	}
	nc := c.builderNorm()
	n, nFuncs := 0, 0
	var bad []string
	for _, fd := range load.AllFuncDecls(bp) {
		if fd.Body == nil || fd.Recv == nil || load.RecvName(fd) != "builder" {
			continue
		}
		if fn := g.Fset.Position(fd.Pos()).Filename; strings.HasSuffix(fn, "_test.go") {
			continue
		}
		nFuncs++
		b := recvName(fd)
		seen := map[ast.Node]bool{}
		for _, p := range nc.normPaths(fd) {
			for _, kl := range keyLoopsOnPath(p, b) {
				if kl.deduped || seen[kl.node] {
					continue
				}
				// the key set of a Go map has no duplicates
				if rs, ok := kl.node.(*ast.RangeStmt); ok {
					if t := bp.TypesInfo.TypeOf(rs.X); t != nil {
						if _, isMap := t.Underlying().(*types.Map); isMap {
							continue
						}
					}
				}
				seen[kl.node] = true
				n++
				where := ""
				if kl.node != nil {
					where = g.Where(kl.node.Pos())
				}
				bad = append(bad, fmt.Sprintf("%s (%s): one keyed entry of a %s is emitted per element of %s, and nothing removes repeated elements: two equal keys do not compile (a list taken from the grammar as written may repeat an element - the front-end does not check)", where, fd.Name.Name, kl.what, kl.over))
			}
		}
	}
	r.Analysed["builder_writers_scanned_for_keyed_loops"] = nFuncs
	r.Check(len(bad) == 0 && nFuncs >= 20, "C04-m", "G.builder:keyed-entries-emitted-per-list-element-are-distinct", "", "builder/builder.go",
		fmt.Sprintf("%d writer methods: no loop emits the keys of a map literal or the cases of a switch from a list that may repeat an element (control example reported as expected)", nFuncs), strings.Join(bad, "; "))
}
