package rules

import (
	"fmt"
	"go/ast"
	"sort"
	"strings"

	"pigeonverif/internal/absint"
)

// C05 — backtracking rolls back the state store; globalStore is never rolled back.
func C05(c *Ctx) {
	r := c.R
	r.Technique = "typestate abstract interpretation of state-store versions and linear clone tokens over every evaluator of the 12 template variants that keep the store; symbol-absence check on the 4 that drop it; ownership (who-may-write) scan for globalStore"
	r.Explanation = "Decides the inductive state-rollback invariant of the interpreter: (a) an evaluator that reports failure leaves the state store at the version it had at entry; (b) & and ! leave it at the entry version on every return; (c) action and predicate blocks are bracketed by a clone taken at the version current before the block and restored right after it, state blocks are not; (d) on success paths no older snapshot is reinstated (effects of state blocks persist in execution order); (e) each cloneState() token reaches restoreState at most once per path, restoreState discards the old dict before installing the clone and Discard empties the dict before pooling it; (f) the runtime never reassigns, clears or pools globalStore; (g) the left-recursion leader returns with the store of the last accepted growth step. In the 4 variants generated for Optimize without state blocks no state symbol survives. The invariant is demanded, not the redundant restoreState after a failed alternative. (h) with default options nothing is answered from the memo table without reinstating the state effects of the remembered evaluation (C05-h: the leader routine of a left-recursive rule does - finding F18). Not decided: correctness of user Clone() methods; behaviour under Memoize(true) (outside the property's default-option scope)."
	r.Assumptions = []string{"induction hypothesis on callee evaluators (closed by C05-a on every evaluator)", "user Clone() returns an independent copy", "sync.Pool contract"}
	r.Rule("C05-a", "every ok=false return of every evaluator has the state store at its entry version")
	r.Rule("C05-b", "every return of parseAndExpr / parseNotExpr has the state store at its entry version")
	r.Rule("C05-c", "each run of an action / &{} / !{} block is immediately followed (error recording aside) by restoreState of a clone taken at the version current before the block; the #{} block's effects are kept")
	r.Rule("C05-d", "on ok=true returns no restoreState reinstates a version older than the current one, except the bracket of C05-c (leader: see C05-g)")
	r.Rule("C05-e", "clone tokens are linear (no second restoreState of the same token on any path); restoreState = Discard old; install clone; Discard = delete all keys; Put")
	r.Rule("C05-f", "globalStore is written only by make() in newParser and element-wise in the GlobalStore option; never deleted from, reassigned or pooled")
	r.Rule("C05-g", "parseRuleRecursiveLeader returns with position, state store and error list equal to those recorded with the returned lastResult (the final, non-extending attempt leaves nothing behind)")
	r.Rule("C05-h", "with default options nothing is answered from the memo table in a parser that has a state store unless the state effects of the remembered evaluation are reinstated: the leader routine of a left-recursive rule keeps its final result in the table for the rest of the parse, so a path of parseRuleRecursiveLeader that returns a looked-up tuple without evaluating skips the state-change blocks of that evaluation (they were rolled back when the first use of the rule was backtracked over)")
	r.Rule("C05-n", "variants without state store contain none of cloneState, restoreState, statePool, Cloner, storeDict.Discard or a state field")
	r.Rule("C05-x", "every statement of every evaluator has a transfer function")

	abs := c.allAbs()
	r.Min("semantic variants analysed", 16, len(abs))
	nState := 0
	for _, a := range abs {
		vn := a.V.Name
		if !a.V.Params.HasState() {
			var found []string
			for _, sym := range []string{"cloneState", "restoreState", "statePool", "Cloner", "Discard", "InitState"} {
				if strings.Contains(a.V.Text, sym) {
					found = append(found, sym)
				}
			}
			if strings.Contains(a.V.Text, "state storeDict") {
				found = append(found, "current.state")
			}
			r.Check(len(found) == 0, "C05-n", "T:no-state-symbols", vn, "builder/static_code.go", "state store completely removed", "state symbols survive in a variant without store: "+strings.Join(found, ","))
			continue
		}
		nState++
		for _, fn := range a.sortedNames() {
			c.undecidedExits("C05-x", a, fn)
			c05Func(c, a, fn)
		}
		c05Shapes(c, a)
		c05LeaderMemoHit(c, a)
	}
	r.Min("variants with state store", 12, nState)
	for _, a := range abs {
		c05Global(c, a)
	}
	r.MinRule("C05-a", 20)
	r.MinRule("C05-c", 4)
}

func c05Func(c *Ctx, a *absVariant, fn string) {
	r := c.R
	vn := a.V.Name
	res := a.Res[fn]
	w := a.V.Where(res.Fn.Pos())
	var badA, badC, badD, badE []string
	nRun := 0
	for _, e := range res.Exits {
		if isMemoExit(e) {
			continue
		}
		s := e.State
		ok := e.Ok()
		if (ok.IsFalse() || (ok.K == "bool" && ok.A == "U") || fn == "parseAndExpr" || fn == "parseNotExpr") && s.St != absint.Entry {
			badA = append(badA, fmt.Sprintf("%s returns ok=%s with state store version %s (entry version expected) after [%s]", a.where(e, res.Fn), ok.A, s.St, evString(e)))
		}
		evs := s.Ev
		for i, ev := range evs {
			switch ev.Kind {
			case "run":
				nRun++
				if fn == "parseStateCodeExpr" {
					continue
				}
				// next event other than error recording must be the bracket restore
				j := i + 1
				for j < len(evs) && (evs[j].Kind == "addErr" || evs[j].Kind == "addErrAt" || evs[j].Kind == "pwrite") {
					j++
				}
				if j >= len(evs) || evs[j].Kind != "restoreState" || evs[j].Args[0] != ev.St {
					got := "nothing"
					if j < len(evs) {
						got = evs[j].String()
					}
					badC = append(badC, fmt.Sprintf("%s: block run with store version %s is followed by %s instead of restoreState(clone of %s)", a.V.Where(ev.Pos), ev.St, got, ev.St))
				}
			case "restoreState":
				if ev.Args[1] == "ALREADY-USED" {
					badE = append(badE, a.V.Where(ev.Pos)+": clone token restored a second time on one path (the dict would be live and pooled at once) ["+evString(e)+"]")
				}
				if ok.IsTrue() && fn != "parseRuleRecursiveLeader" && !predicateFuncs[fn] && ev.Args[0] != ev.St {
					// allowed only as the bracket of a run
					k := i - 1
					for k >= 0 && (evs[k].Kind == "addErr" || evs[k].Kind == "addErrAt" || evs[k].Kind == "pwrite") {
						k--
					}
					if k < 0 || evs[k].Kind != "run" || evs[k].St != ev.Args[0] {
						badD = append(badD, fmt.Sprintf("%s: on a success path restoreState reinstates version %s over %s, discarding effects that must persist [%s]", a.V.Where(ev.Pos), ev.Args[0], ev.St, evString(e)))
					}
				}
			}
		}
		if fn == "parseStateCodeExpr" && !strings.HasPrefix(s.St, "run") {
			badD = append(badD, fmt.Sprintf("%s: state block returns with store version %s: its effects are not kept", a.where(e, res.Fn), s.St))
		}
	}
	report := func(rule, construct string, bad []string, okDetail string) {
		sort.Strings(bad)
		if len(bad) > 0 {
			r.Bad(rule, construct, vn, w, bad[0])
		} else {
			r.Ok(rule, construct, vn, w, okDetail)
		}
	}
	rule := "C05-a"
	if fn == "parseAndExpr" || fn == "parseNotExpr" {
		rule = "C05-b"
	}
	report(rule, "T."+fn+":state-as-at-entry", badA, fmt.Sprintf("%d exits", len(res.Exits)))
	if nRun > 0 {
		report("C05-c", "T."+fn+":block-bracketed", badC, fmt.Sprintf("%d run events on abstract paths", nRun))
	}
	report("C05-d", "T."+fn+":success-keeps-effects", badD, "no stale snapshot reinstated on success")
	report("C05-e", "T."+fn+":clone-linear", badE, "each token restored at most once per path")
	if fn == "parseRuleRecursiveLeader" {
		leaderFinalAttempt(c, a, "C05-g")
	}
}

// c05Shapes checks restoreState and Discard bodies.
func c05Shapes(c *Ctx, a *absVariant) { c05ShapesRule(c, a, "C05-e") }

func c05ShapesRule(c *Ctx, a *absVariant, ruleID string) {
	r := c.R
	vn := a.V.Name
	rs := a.V.Func("parser", "restoreState")
	if rs == nil {
		r.Fatal("variant %s: restoreState not found", vn)
		return
	}
	param := rs.Type.Params.List[0].Names[0].Name
	// order: p.cur.state.Discard() before p.cur.state = <param>; nothing else writes p.cur.state
	seq := []string{}
	ast.Inspect(rs.Body, func(n ast.Node) bool {
		switch x := n.(type) {
		case *ast.ExprStmt:
			if ce, ok := x.X.(*ast.CallExpr); ok && callName(ce) == "p.cur.state.Discard" {
				seq = append(seq, "discard")
			}
		case *ast.AssignStmt:
			if len(x.Lhs) == 1 && exprStr(nil, x.Lhs[0]) == "p.cur.state" {
				if exprStr(nil, x.Rhs[0]) == param {
					seq = append(seq, "install")
				} else {
					seq = append(seq, "other:"+exprStr(nil, x.Rhs[0]))
				}
			}
		}
		return true
	})
	why := ""
	if strings.Join(seq, ",") != "discard,install" {
		why = "body performs [" + strings.Join(seq, ",") + "]"
	}
	// ... on every path: a dict that was discarded is in the shared pool and must not stay installed, and the snapshot
	// must be installed whatever it contains
	for _, p := range enumPaths(rs.Body) {
		if eg := extraGuards(p, "p.debug"); len(eg) > 0 && why == "" {
			why = "the exchange depends on `" + strings.Join(eg, "`, `") + "`"
		}
		iD := p.index("call", "p.cur.state.Discard()", 0)
		iI := p.index("assign", "p.cur.state="+param, 0)
		if (iD < 0 || iI < 0 || iI < iD) && why == "" {
			why = "on the path [" + strings.Join(p.guards(), " ") + "] the old dict is discarded (returned to the shared pool) without the snapshot being installed, or the snapshot is not installed: the parser keeps using a dict another parse can take from the pool"
		}
	}
	r.Check(why == "", ruleID, "T.restoreState:discard-then-install", vn, a.V.Where(rs.Pos()), "old dict discarded, then the clone installed, on every path", why)
	dd := a.V.Func("storeDict", "Discard")
	if dd == nil {
		r.Fatal("variant %s: storeDict.Discard not found", vn)
		return
	}
	recv := dd.Recv.List[0].Names[0].Name
	seq = nil
	ast.Inspect(dd.Body, func(n ast.Node) bool {
		switch x := n.(type) {
		case *ast.RangeStmt:
			if exprStr(nil, x.X) == recv && x.Key != nil && len(x.Body.List) == 1 {
				if es, ok := x.Body.List[0].(*ast.ExprStmt); ok {
					if ce, ok := es.X.(*ast.CallExpr); ok && callName(ce) == "delete" && len(ce.Args) == 2 && exprStr(nil, ce.Args[0]) == recv && exprStr(nil, ce.Args[1]) == exprStr(nil, x.Key) {
						seq = append(seq, "clear")
					}
				}
			}
		case *ast.CallExpr:
			if callName(x) == "clear" && len(x.Args) == 1 && exprStr(nil, x.Args[0]) == recv {
				seq = append(seq, "clear")
			}
			if callName(x) == "statePool.Put" {
				seq = append(seq, "put:"+exprStr(nil, x.Args[0]))
			}
		}
		return true
	})
	r.Check(strings.Join(seq, ",") == "clear,put:"+recv, ruleID, "T.storeDict.Discard:clear-then-pool", vn, a.V.Where(dd.Pos()), "all keys deleted before the dict is pooled", "body performs ["+strings.Join(seq, ",")+"]")
	// Put only in Discard
	nPut := 0
	for _, fd := range a.V.Funcs() {
		ast.Inspect(fd, func(n ast.Node) bool {
			if ce, ok := n.(*ast.CallExpr); ok && callName(ce) == "statePool.Put" && fd != dd {
				nPut++
			}
			return true
		})
	}
	r.Check(nPut == 0, ruleID, "T.statePool.Put:only-in-Discard", vn, a.V.Where(dd.Pos()), "no other Put", fmt.Sprintf("%d Put calls outside Discard", nPut))
	// cloneState: copies every key of p.cur.state, using Clone() when the value implements Cloner
	cs := a.V.Func("parser", "cloneState")
	if cs == nil {
		r.Fatal("variant %s: cloneState not found", vn)
		return
	}
	// on the normalised paths: the returned dict R receives, for every key of p.cur.state, the value's Clone() when the
	// value implements Cloner and the value itself otherwise
	okRange, okCloner, okPlain := false, false, false
	var whyC []string
	for _, p := range c.vnorm(a.V).normPaths(cs) {
		ret := lastReturn(p)
		lo, hi := loopSpan(p, "range p.cur.state")
		if lo < 0 || ret == "" {
			whyC = append(whyC, "a path does not iterate over p.cur.state")
			continue
		}
		okRange = true
		stored := ""
		for i := lo + 1; i < hi && i < len(p); i++ {
			if p[i].Kind == "set" && strings.HasPrefix(p[i].Text, ret+"[#1]=") {
				stored = strings.TrimPrefix(p[i].Text, ret+"[#1]=")
			}
			if p[i].Kind == "branch" {
				whyC = append(whyC, "the copy loop can stop early")
			}
		}
		elem := "p.cur.state[#1]"
		in := p[lo+1 : minInt(hi, len(p))]
		switch {
		case in.holds("ok(" + elem + ".(Cloner))"):
			if stored == elem+".(Cloner).Clone()" {
				okCloner = true
			} else {
				whyC = append(whyC, "a Cloner value is copied as "+stored)
			}
		case in.holds("!ok(" + elem + ".(Cloner))"):
			if stored == elem {
				okPlain = true
			} else {
				whyC = append(whyC, "a plain value is copied as "+stored)
			}
		default:
			whyC = append(whyC, "a value is copied ("+stored+") without the Cloner test; facts ["+strings.Join(in.facts(), " ")+"]")
		}
	}
	r.Check(okRange && okCloner && okPlain && len(whyC) == 0, ruleID, "T.cloneState:deep-copy", vn, a.V.Where(cs.Pos()), "every key copied, Cloner values through Clone()", fmt.Sprintf("range=%t cloner=%t plain=%t %s", okRange, okCloner, okPlain, strings.Join(uniq(whyC), "; ")))
}

// c05Global: ownership of globalStore in every variant.
func c05Global(c *Ctx, a *absVariant) {
	r := c.R
	vn := a.V.Name
	var bad []string
	n := 0
	for _, fd := range a.V.Funcs() {
		var stack []ast.Node
		ast.Inspect(fd, func(nd ast.Node) bool {
			if nd == nil {
				stack = stack[:len(stack)-1]
				return true
			}
			stack = append(stack, nd)
			sel, ok := nd.(*ast.SelectorExpr)
			if !ok || sel.Sel.Name != "globalStore" {
				return true
			}
			n++
			// classify by parent chain
			parent := stack[len(stack)-2]
			switch p := parent.(type) {
			case *ast.IndexExpr:
				// element read or element write: fine if inside GlobalStore; reads fine anywhere
				if len(stack) >= 3 {
					if as, ok := stack[len(stack)-3].(*ast.AssignStmt); ok {
						for _, l := range as.Lhs {
							if l == ast.Expr(p) && fd.Name.Name != "GlobalStore" {
								bad = append(bad, a.V.Where(sel.Pos())+": element of globalStore written in "+fd.Name.Name)
							}
						}
					}
				}
			case *ast.AssignStmt:
				for _, l := range p.Lhs {
					if l == ast.Expr(sel) {
						bad = append(bad, a.V.Where(sel.Pos())+": globalStore reassigned in "+fd.Name.Name)
					}
				}
			case *ast.CallExpr:
				bad = append(bad, a.V.Where(sel.Pos())+": globalStore passed to "+callName(p)+" in "+fd.Name.Name)
			case *ast.RangeStmt:
				// reading is harmless
			default:
				bad = append(bad, fmt.Sprintf("%s: unclassified use of globalStore (%T) in %s", a.V.Where(sel.Pos()), parent, fd.Name.Name))
			}
			return true
		})
	}
	// the initial make in newParser
	np := a.V.Func("", "newParser")
	okMake := false
	if np != nil {
		// in newParser itself or in a constructor it calls (newCurrent() …), two levels deep
		seen := map[string]bool{}
		var look func(fd *ast.FuncDecl, depth int)
		look = func(fd *ast.FuncDecl, depth int) {
			if fd == nil || fd.Body == nil || seen[fd.Name.Name] || depth > 2 {
				return
			}
			seen[fd.Name.Name] = true
			ast.Inspect(fd, func(nd ast.Node) bool {
				switch x := nd.(type) {
				case *ast.KeyValueExpr:
					if exprStr(nil, x.Key) == "globalStore" && strings.HasPrefix(exprStr(nil, x.Value), "make(") {
						okMake = true
					}
				case *ast.CallExpr:
					if id, ok := x.Fun.(*ast.Ident); ok {
						look(a.V.Func("", id.Name), depth+1)
					}
				}
				return true
			})
		}
		look(np, 0)
	}
	if !okMake {
		bad = append(bad, "newParser does not allocate globalStore with make")
	}
	sort.Strings(bad)
	if len(bad) > 0 {
		r.Bad("C05-f", "T.globalStore:ownership", vn, "builder/static_code.go", bad[0])
	} else {
		r.Ok("C05-f", "T.globalStore:ownership", vn, "builder/static_code.go", fmt.Sprintf("%d uses: allocation in newParser, element access in the GlobalStore option only", n))
	}
}

// c05LeaderMemoHit (C05-h): in a variant with a state store and left recursion, a path of parseRuleRecursiveLeader that
// returns what getMemoized found without evaluating the rule replays value and end position but not the state
// effects of the remembered evaluation. The table entry outlives the first use of the rule (it is written
// unconditionally, not only under Memoize), so after backtracking over a left-recursive rule that ran state blocks the
// second use at the same offset continues with the rolled-back store.
func c05LeaderMemoHit(c *Ctx, a *absVariant) {
	r := c.R
	v := a.V
	if !v.Params.LeftRecursion {
		return
	}
	fd := v.Func("parser", "parseRuleRecursiveLeader")
	if fd == nil {
		r.Fatal("variant %s: parseRuleRecursiveLeader missing", v.Name)
		return
	}
	nHit, nHitStateless := 0, 0
	for _, p := range c.vnorm(v).without("read", "restore", "failAt", "sliceFrom", "in", "out", "addErr", "addErrAt", "getMemoized", "setMemoized", "parseRule", "cloneState", "restoreState", "printIndent").normPaths(fd) {
		iGet := p.evIndex("call", 0, func(s string) bool { return strings.Contains(s, ".getMemoized(") })
		if iGet < 0 || lastReturn(p) == "" {
			continue
		}
		evaluates := p.evIndex("call", iGet, func(s string) bool { return strings.Contains(s, ".parseRule(") }) >= 0
		if evaluates {
			continue
		}
		nHit++
		reinstates := p.evIndex("call", iGet, func(s string) bool { return strings.Contains(s, ".restoreState(") }) >= 0
		if !reinstates {
			nHitStateless++
		}
	}
	r.Check(nHitStateless == 0, "C05-h", "T.parseRuleRecursiveLeader:memo-hit-reinstates-state", v.Name, v.Where(fd.Pos()), fmt.Sprintf("%d paths return a remembered result, each reinstating the state it ended with", nHit),
		fmt.Sprintf("%d of %d paths that return a remembered result do so without touching the state store: `S <- E ';' {…} / E '.' {…}; E <- E '+' T / T; T <- [0-9]+ #{ count++ }` on `1+2.` ends with count unset although two T matched on the successful path", nHitStateless, nHit))
}
