package rules

import (
	"go/ast"
	"go/parser"
	"go/token"
	"go/types"
	"sort"
	"strings"
)

// canonCond renders a boolean expression (negated when neg is set) in a normal form, so that rules compare what a
// condition means rather than how it is spelled:
//   - negations are pushed inwards (De Morgan, flipped comparison operators, double negation removed);
//   - a comparison with the constant on the left is mirrored (0 < x  →  x > 0);
//   - the spellings of "non-empty" and "empty" of len(X) are unified: len(X) != 0, len(X) >= 1, 0 < len(X) → len(X)>0;
//     len(X) < 1, len(X) <= 0 → len(X)==0;
//   - blanks and redundant parentheses are dropped.
//
// The else arm of `if c` is canonCond(c, true); an early exit `if c { return }` contributes canonCond(c, true) to what
// follows it.
func canonCond(e ast.Expr, neg bool) string {
	return canonCondWith(e, neg, func(l ast.Expr) string { return nospace(l) })
}

// canonCondWith is canonCond with a caller-supplied rendering of the leaves (operands of comparisons, atoms).
func canonCondWith(e ast.Expr, neg bool, leaf func(ast.Expr) string) string {
	switch x := e.(type) {
	case *ast.ParenExpr:
		return canonCondWith(x.X, neg, leaf)
	case *ast.UnaryExpr:
		if x.Op == token.NOT {
			return canonCondWith(x.X, !neg, leaf)
		}
	case *ast.BinaryExpr:
		switch x.Op {
		case token.LAND, token.LOR:
			op := x.Op
			if neg {
				if op == token.LAND {
					op = token.LOR
				} else {
					op = token.LAND
				}
			}
			var parts []string
			var flat func(e ast.Expr)
			flat = func(e ast.Expr) {
				if p, ok := e.(*ast.ParenExpr); ok {
					flat(p.X)
					return
				}
				if b, ok := e.(*ast.BinaryExpr); ok && b.Op == x.Op {
					flat(b.X)
					flat(b.Y)
					return
				}
				s := canonCondWith(e, neg, leaf)
				// parenthesise a sub-term of the other connective
				if b, ok := stripParens(e).(*ast.BinaryExpr); ok && (b.Op == token.LAND || b.Op == token.LOR) {
					s = "(" + s + ")"
				}
				parts = append(parts, s)
			}
			flat(x)
			if op == token.LOR {
				// a disjunction says the same in any order of its operands
				sort.Strings(parts)
			}
			return strings.Join(parts, op.String())
		case token.EQL, token.NEQ, token.LSS, token.LEQ, token.GTR, token.GEQ:
			op := x.Op
			l, r := x.X, x.Y
			if isConstLike(l) && !isConstLike(r) {
				l, r = r, l
				op = mirrorOp(op)
			}
			if neg {
				op = negateOp(op)
			}
			ls, rs := leaf(stripParens(l)), leaf(stripParens(r))
			// comparison of a boolean with a constant: x == true, x != false  →  x;  x != true, x == false  →  !x
			if (rs == "true" || rs == "false") && (op == token.EQL || op == token.NEQ) {
				wantTrue := (rs == "true") == (op == token.EQL)
				return canonCondWith(stripParens(l), !wantTrue, leaf)
			}
			// the empty string: s == ""  →  len(s)==0,  s != ""  →  len(s)>0
			if rs == `""` && (op == token.EQL || op == token.NEQ) {
				ls = "len(" + ls + ")"
				if op == token.EQL {
					return ls + "==0"
				}
				return ls + ">0"
			}
			if strings.HasPrefix(ls, "len(") && strings.HasSuffix(ls, ")") {
				switch {
				case (op == token.NEQ && rs == "0") || (op == token.GEQ && rs == "1"):
					op, rs = token.GTR, "0"
				case (op == token.LSS && rs == "1") || (op == token.LEQ && rs == "0"):
					op, rs = token.EQL, "0"
				}
			}
			return ls + op.String() + rs
		}
	}
	s := leaf(stripParens(e))
	if !neg {
		return s
	}
	if _, ok := stripParens(e).(*ast.BinaryExpr); ok {
		return "!(" + s + ")"
	}
	return "!" + s
}

func stripParens(e ast.Expr) ast.Expr {
	for {
		p, ok := e.(*ast.ParenExpr)
		if !ok {
			return e
		}
		e = p.X
	}
}

func isConstLike(e ast.Expr) bool {
	switch x := stripParens(e).(type) {
	case *ast.BasicLit:
		return true
	case *ast.Ident:
		return x.Name == "nil" || x.Name == "true" || x.Name == "false"
	case *ast.UnaryExpr:
		return x.Op == token.SUB && isConstLike(x.X)
	}
	return false
}

func mirrorOp(op token.Token) token.Token {
	switch op {
	case token.LSS:
		return token.GTR
	case token.LEQ:
		return token.GEQ
	case token.GTR:
		return token.LSS
	case token.GEQ:
		return token.LEQ
	}
	return op
}

func negateOp(op token.Token) token.Token {
	switch op {
	case token.EQL:
		return token.NEQ
	case token.NEQ:
		return token.EQL
	case token.LSS:
		return token.GEQ
	case token.LEQ:
		return token.GTR
	case token.GTR:
		return token.LEQ
	case token.GEQ:
		return token.LSS
	}
	return op
}

var canonTextCache = map[string]string{}

// canonText is canonCond for a condition given as source text (used for the expected side of a comparison).
func canonText(s string, neg bool) string {
	key := s
	if neg {
		key = "!" + s
	}
	if v, ok := canonTextCache[key]; ok {
		return v
	}
	out := s
	// the placeholders of the normal form ($n numbered locals, #n loop positions) are not Go identifiers
	enc := strings.NewReplacer("$", "DOLLAR_", "#", "HASH_").Replace(s)
	if e, err := parser.ParseExpr(enc); err == nil {
		out = strings.NewReplacer("DOLLAR_", "$", "HASH_", "#").Replace(canonCondWith(e, neg, nospaceLit))
	} else if neg {
		out = "!(" + s + ")"
	}
	canonTextCache[key] = out
	return out
}

// nonEmptyTest / emptyTest: does the canonical fact state that x (a string or a slice) is non-empty / empty?
func nonEmptyTest(fact, x string) bool {
	return fact == x+`!=""` || fact == "len("+x+")>0"
}

func emptyTest(fact, x string) bool {
	return fact == x+`==""` || fact == "len("+x+")==0"
}

// factsAt returns what is known to hold at pos inside root: the (normal-form) conditions of the enclosing if arms, as
// guardsOf does, plus the negated conditions of the early exits that precede pos in an enclosing block - an
// `if c { ...; return | continue | break | goto | panic(..) | exit(..) }` without else, at the same nesting level as
// a statement containing pos. Outermost first, in source order.
func factsAt(root ast.Node, pos token.Pos) []string {
	return factsAtLeaf(root, pos, func(l ast.Expr) string { return nospace(l) })
}

// exitingCalls: functions of the analysed program that never return (they end in exit): a block that ends in a call
// of one of them is an early exit. Rules register the ones they have established (C13: the usage/exit wrappers).
var exitingCalls = map[string]bool{"panic": true, "exit": true, "os.Exit": true, "log.Fatal": true, "log.Fatalf": true, "argError": true}

// factsAtLeaf is factsAt with a caller-supplied rendering of the leaves of conditions.
func factsAtLeaf(root ast.Node, pos token.Pos, leaf func(ast.Expr) string) []string {
	inline := boolLocalInliner(root)
	canonCond := func(e ast.Expr, neg bool) string { return canonCondWith(inline(e), neg, leaf) }
	var out []string
	var visitBlock func(list []ast.Stmt)
	terminates := func(b *ast.BlockStmt) bool {
		if len(b.List) == 0 {
			return false
		}
		switch x := b.List[len(b.List)-1].(type) {
		case *ast.ReturnStmt, *ast.BranchStmt:
			return true
		case *ast.ExprStmt:
			if ce, ok := x.X.(*ast.CallExpr); ok {
				if exitingCalls[callName(ce)] {
					return true
				}
			}
		}
		return false
	}
	var visit func(n ast.Node)
	visit = func(n ast.Node) {
		switch x := n.(type) {
		case *ast.BlockStmt:
			visitBlock(x.List)
		case *ast.IfStmt:
			switch {
			case x.Body.Pos() <= pos && pos < x.Body.End():
				out = append(out, canonCond(x.Cond, false))
				visitBlock(x.Body.List)
			case x.Else != nil && x.Else.Pos() <= pos && pos < x.Else.End():
				out = append(out, canonCond(x.Cond, true))
				visit(x.Else)
			}
		case *ast.ForStmt:
			visitBlock(x.Body.List)
		case *ast.RangeStmt:
			visitBlock(x.Body.List)
		case *ast.SwitchStmt:
			if x.Tag == nil {
				// a condition switch: in a clause its own condition holds and those of the clauses before it do not
				for _, cl := range x.Body.List {
					cc := cl.(*ast.CaseClause)
					inClause := cc.Pos() <= pos && pos < cc.End()
					if inClause {
						if len(cc.List) == 1 {
							out = append(out, canonCond(cc.List[0], false))
						}
						visitBlock(cc.Body)
						return
					}
					if len(cc.List) == 1 {
						out = append(out, canonCond(cc.List[0], true))
					}
				}
				return
			}
			visitBlock(x.Body.List)
		case *ast.TypeSwitchStmt:
			visitBlock(x.Body.List)
		case *ast.CaseClause:
			visitBlock(x.Body)
		case *ast.LabeledStmt:
			visit(x.Stmt)
		case *ast.FuncDecl:
			if x.Body != nil {
				visitBlock(x.Body.List)
			}
		default:
			// a statement containing pos in an expression (e.g. a func literal): descend generically
			ast.Inspect(n, func(m ast.Node) bool {
				if m == nil || m == n {
					return true
				}
				if fl, ok := m.(*ast.FuncLit); ok && fl.Body.Pos() <= pos && pos < fl.Body.End() {
					visitBlock(fl.Body.List)
					return false
				}
				return true
			})
		}
	}
	visitBlock = func(list []ast.Stmt) {
		for _, st := range list {
			if st.Pos() <= pos && pos < st.End() {
				visit(st)
				return
			}
			if st.End() <= pos {
				if is, ok := st.(*ast.IfStmt); ok && is.Else == nil && is.Init == nil && terminates(is.Body) {
					out = append(out, canonCond(is.Cond, true))
				}
			}
		}
	}
	visit(root)
	return out
}

// hasFact reports whether one of the facts is the normal form of cond (given as source text).
func hasFact(facts []string, cond string) bool {
	want := canonText(cond, false)
	for _, f := range facts {
		if f == want {
			return true
		}
		// a conjunction among the facts states each of its conjuncts
		for _, cj := range strings.Split(f, "&&") {
			if cj == want {
				return true
			}
		}
	}
	return false
}

// inlineLocals returns a renderer for expressions of fd in which every local that has exactly one definition (a `:=`
// or `var x = ...` with a single value, never assigned again, not in keep) is replaced by its defining expression,
// recursively (bounded). Helper locals introduced or removed by a refactoring therefore do not change the rendering.
func inlineLocals(fd *ast.FuncDecl, keep map[string]bool) func(e ast.Expr) string {
	defs := map[string]ast.Expr{}
	count := map[string]int{}
	ast.Inspect(fd.Body, func(n ast.Node) bool {
		switch x := n.(type) {
		case *ast.AssignStmt:
			for i, l := range x.Lhs {
				id, ok := l.(*ast.Ident)
				if !ok {
					continue
				}
				count[id.Name]++
				if x.Tok == token.DEFINE && len(x.Lhs) == len(x.Rhs) {
					defs[id.Name] = x.Rhs[i]
				} else {
					count[id.Name]++ // multi-value definition or re-assignment: not inlined
				}
			}
		case *ast.ValueSpec:
			for i, nm := range x.Names {
				count[nm.Name]++
				if i < len(x.Values) && len(x.Values) == len(x.Names) {
					defs[nm.Name] = x.Values[i]
				} else {
					count[nm.Name]++
				}
			}
		case *ast.RangeStmt:
			for _, e := range []ast.Expr{x.Key, x.Value} {
				if id, ok := e.(*ast.Ident); ok {
					count[id.Name] += 2
				}
			}
		case *ast.IncDecStmt:
			if id, ok := x.X.(*ast.Ident); ok {
				count[id.Name] += 2
			}
		}
		return true
	})
	var render func(e ast.Expr, depth int) string
	render = func(e ast.Expr, depth int) string {
		switch x := e.(type) {
		case *ast.Ident:
			if d, ok := defs[x.Name]; ok && count[x.Name] == 1 && !keep[x.Name] && depth < 4 {
				s := render(d, depth+1)
				if _, isBin := d.(*ast.BinaryExpr); isBin {
					s = "(" + s + ")"
				}
				return s
			}
			return x.Name
		case *ast.ParenExpr:
			return "(" + render(x.X, depth) + ")"
		case *ast.SelectorExpr:
			return render(x.X, depth) + "." + x.Sel.Name
		case *ast.IndexExpr:
			return render(x.X, depth) + "[" + render(x.Index, depth) + "]"
		case *ast.TypeAssertExpr:
			if x.Type == nil {
				return render(x.X, depth) + ".(type)"
			}
			return render(x.X, depth) + ".(" + nospace(x.Type) + ")"
		case *ast.StarExpr:
			return "*" + render(x.X, depth)
		case *ast.UnaryExpr:
			return x.Op.String() + render(x.X, depth)
		case *ast.BinaryExpr:
			return render(x.X, depth) + x.Op.String() + render(x.Y, depth)
		case *ast.CallExpr:
			var as []string
			for _, a := range x.Args {
				as = append(as, render(a, depth))
			}
			ell := ""
			if x.Ellipsis.IsValid() {
				ell = "..."
			}
			return render(x.Fun, depth) + "(" + strings.Join(as, ",") + ell + ")"
		}
		return nospace(e)
	}
	return func(e ast.Expr) string { return render(e, 0) }
}

// nospaceLit renders an expression without blanks, except inside string and character literals (which nospace strips too).
func nospaceLit(e ast.Expr) string {
	s := types.ExprString(e)
	var b strings.Builder
	inStr := byte(0)
	for i := 0; i < len(s); i++ {
		ch := s[i]
		if inStr != 0 {
			b.WriteByte(ch)
			if ch == '\\' && inStr != '`' && i+1 < len(s) {
				i++
				b.WriteByte(s[i])
			} else if ch == inStr {
				inStr = 0
			}
			continue
		}
		switch ch {
		case '"', '\'', '`':
			inStr = ch
			b.WriteByte(ch)
		case ' ', '\t', '\n':
		default:
			b.WriteByte(ch)
		}
	}
	return b.String()
}

// boolLocalInliner: a local that is defined once (`name := <boolean expression>`, never assigned again, address never
// taken) names its definition; conditions are read with such names replaced (`wantHelp := *h || *help; if wantHelp`).
func boolLocalInliner(root ast.Node) func(ast.Expr) ast.Expr {
	defs := map[string]ast.Expr{}
	count := map[string]int{}
	ast.Inspect(root, func(n ast.Node) bool {
		switch x := n.(type) {
		case *ast.AssignStmt:
			for i, l := range x.Lhs {
				id, ok := l.(*ast.Ident)
				if !ok {
					continue
				}
				count[id.Name]++
				if x.Tok == token.DEFINE && len(x.Lhs) == len(x.Rhs) {
					switch r := x.Rhs[i].(type) {
					case *ast.BinaryExpr:
						switch r.Op {
						case token.LOR, token.LAND, token.EQL, token.NEQ, token.LSS, token.GTR, token.LEQ, token.GEQ:
							defs[id.Name] = r
						}
					case *ast.UnaryExpr:
						if r.Op == token.NOT {
							defs[id.Name] = r
						}
						if r.Op == token.AND {
							count[id.Name] += 2
						}
					}
				}
			}
		case *ast.UnaryExpr:
			if x.Op == token.AND {
				if id, ok := x.X.(*ast.Ident); ok {
					count[id.Name] += 2
				}
			}
		case *ast.IncDecStmt:
			if id, ok := x.X.(*ast.Ident); ok {
				count[id.Name] += 2
			}
		case *ast.ValueSpec:
			for _, nm := range x.Names {
				count[nm.Name] += 2 // declared with var: not a single := definition
			}
		case *ast.RangeStmt:
			for _, e := range []ast.Expr{x.Key, x.Value} {
				if id, ok := e.(*ast.Ident); ok {
					count[id.Name] += 2
				}
			}
		}
		return true
	})
	var rewrite func(e ast.Expr, depth int) ast.Expr
	rewrite = func(e ast.Expr, depth int) ast.Expr {
		if depth > 4 {
			return e
		}
		switch x := e.(type) {
		case *ast.Ident:
			if d, ok := defs[x.Name]; ok && count[x.Name] == 1 {
				return &ast.ParenExpr{X: rewrite(d, depth+1)}
			}
		case *ast.ParenExpr:
			return &ast.ParenExpr{X: rewrite(x.X, depth)}
		case *ast.UnaryExpr:
			if x.Op == token.NOT {
				return &ast.UnaryExpr{Op: x.Op, X: rewrite(x.X, depth)}
			}
		case *ast.BinaryExpr:
			if x.Op == token.LOR || x.Op == token.LAND {
				return &ast.BinaryExpr{Op: x.Op, X: rewrite(x.X, depth), Y: rewrite(x.Y, depth)}
			}
		}
		return e
	}
	return func(e ast.Expr) ast.Expr { return rewrite(e, 0) }
}
