package rules

import (
	"fmt"
	"strings"

	"pigeonverif/internal/load"
)

// Optimizer rules restated on normalised paths (nform.go).

// optimizerRemovalGuard (C09-d): a rule is removed from the grammar only when it is neither used by another rule nor
// protected; the clean-up after a removal deletes exactly that rule from the user sets.
func optimizerRemovalGuard(c *Ctx, g *load.G) (ok bool, detail string, cleanupOK bool, cleanupDetail string) {
	ap := g.Pkg("ast")
	fd := load.FuncDecl(ap, "grammarOptimizer", "optimize")
	if fd == nil {
		return false, "optimize not found", false, ""
	}
	si := typeSwitchOn(fd, firstParam(fd))
	cc := si.Cases["Grammar"]
	if cc == nil {
		return false, "no *Grammar case in the optimize visitor", false, ""
	}
	recv := recvName(fd)
	paths := c.astNorm().normBlock(fd, cc.Body)
	nRemoval := 0
	var bad, badClean []string
	for _, p := range paths {
		ri := -1
		rulesField := ""
		for i, e := range p {
			if e.Kind == "set" && strings.Contains(e.Text, ".Rules=append(") && strings.Contains(e.Text, ".Rules[:#1],") {
				ri = i
				rulesField = e.Text[:strings.Index(e.Text, "=")]
			}
		}
		if ri < 0 {
			continue
		}
		nRemoval++
		name := rulesField + "[#1].Name.Val"
		before := p[:ri]
		if !(before.holds("!ok("+recv+".ruleUsedByRules["+name+"])") && before.holds("!ok("+recv+".protectedRules["+name+"])")) {
			bad = append(bad, "a rule is removed under ["+strings.Join(before.facts(), " ")+"], which does not include `not used by another rule` and `not protected`")
		}
		// clean-up: deletes after the removal
		for i := ri + 1; i < len(p); i++ {
			if p[i].Kind != "call" || !strings.HasPrefix(p[i].Text, "delete(") {
				continue
			}
			facts := p[ri:i].facts()
			switch {
			case strings.HasPrefix(p[i].Text, "delete("+recv+".ruleUsedByRules[#2],#3)"):
				if !containsStr(facts, "#3=="+name) {
					badClean = append(badClean, "an entry of a user set is deleted under ["+strings.Join(facts, " ")+"], not exactly for the removed rule")
				}
			case strings.HasPrefix(p[i].Text, "delete("+recv+".ruleUsedByRules,#2)"):
				if !containsStr(facts, "len("+recv+".ruleUsedByRules[#2])==0") || !containsStr(facts, "#3=="+name) {
					badClean = append(badClean, "a user set is dropped under ["+strings.Join(facts, " ")+"], not exactly when it became empty by this removal")
				}
			default:
				badClean = append(badClean, "unexpected "+p[i].Text+" after a removal")
			}
		}
	}
	if nRemoval == 0 {
		bad = append(bad, "no path removes a rule")
	}
	return len(bad) == 0, strings.Join(uniq(bad), "; "), len(badClean) == 0 && nRemoval > 0, strings.Join(uniq(badClean), "; ")
}

func containsStr(list []string, s string) bool {
	for _, x := range list {
		if x == s {
			return true
		}
	}
	return false
}

// optimizerProtectedSet (C09-d): Optimize hands newGrammarOptimizer the alternate entrypoints plus the first rule, and
// newGrammarOptimizer enters every element of its argument into protectedRules.
func optimizerProtectedSet(c *Ctx, g *load.G) (alt, first, passed, entered bool) {
	ap := g.Pkg("ast")
	of := load.FuncDecl(ap, "", "Optimize")
	ngo := load.FuncDecl(ap, "", "newGrammarOptimizer")
	if of == nil || ngo == nil || of.Type.Params == nil || len(of.Type.Params.List) < 2 {
		return
	}
	gp := firstParam(of)
	altP := of.Type.Params.List[1].Names[0].Name
	nc := c.astNorm().without("newGrammarOptimizer")
	paths := nc.normPaths(of)
	alt, first, passed = len(paths) > 0, false, len(paths) > 0
	sawNonEmpty := false
	for _, p := range paths {
		ci := p.evIndex("call", 0, func(s string) bool { return strings.HasPrefix(s, "newGrammarOptimizer(") })
		if ci < 0 {
			passed = false
			continue
		}
		arg := strings.TrimSuffix(strings.TrimPrefix(p[ci].Text, "newGrammarOptimizer("), ")")
		// the history of the argument on this path
		hasAlt, hasFirst := arg == altP, false
		for _, e := range p[:ci] {
			if e.Kind != "set" || !strings.HasPrefix(e.Text, arg+"=") {
				continue
			}
			v := strings.TrimPrefix(e.Text, arg+"=")
			if v == altP {
				hasAlt = true
			}
			if v == "append("+arg+","+gp+".Rules[0].Name.Val)" || v == "append("+altP+","+gp+".Rules[0].Name.Val)" {
				hasFirst = true
			}
		}
		if !hasAlt {
			alt = false
		}
		if p.holds("len(" + gp + ".Rules)>0") {
			sawNonEmpty = true
			if !hasFirst {
				first = false
				sawNonEmpty = false
				break
			}
			first = true
		}
	}
	first = first && sawNonEmpty
	// newGrammarOptimizer
	prm := firstParam(ngo)
	entered = true
	ps := c.astNorm().normPaths(ngo)
	if len(ps) == 0 {
		entered = false
	}
	for _, p := range ps {
		lo, hi := loopSpan(p, "range "+prm)
		set := ""
		for i := lo + 1; lo >= 0 && i < hi && i < len(p); i++ {
			if p[i].Kind == "set" && strings.HasSuffix(p[i].Text, "["+prm+"[#1]]=struct{}{}") {
				set = p[i].Text[:strings.Index(p[i].Text, "[")]
			}
			if p[i].Kind == "+" || p[i].Kind == "branch" {
				set = ""
				break
			}
		}
		if set == "" {
			entered = false
			continue
		}
		found := false
		for _, e := range p {
			if strings.Contains(e.Text, "protectedRules:"+set) || e.Kind == "set" && strings.HasSuffix(e.Text, ".protectedRules="+set) {
				found = true
			}
		}
		if !found {
			entered = false
		}
	}
	return
}

// optimizerInlineGuard (C09-f(4) / C13-h): a reference is replaced by a clone only when the referenced rule is
// defined and has no entry in ruleUsesRules, and what is cloned is that rule's expression.
func optimizerInlineGuard(c *Ctx, g *load.G) (bool, string) {
	ap := g.Pkg("ast")
	fd := load.FuncDecl(ap, "grammarOptimizer", "optimizeRule")
	if fd == nil {
		return false, "optimizeRule not found"
	}
	recv, x := recvName(fd), firstParam(fd)
	paths := c.astNorm().normPaths(fd)
	n := 0
	var bad []string
	for _, p := range paths {
		ci := p.evIndex("call", 0, func(s string) bool { return strings.HasPrefix(s, "cloneExpr(") })
		if ci < 0 {
			continue
		}
		n++
		name := "(" + x + ".(*RuleRefExpr)).Name.Val"
		before := p[:ci]
		var facts []string
		for _, f := range before.facts() {
			facts = append(facts, stripAsserts(strings.ReplaceAll(f, name, "NAME")))
		}
		need := []string{"ok(" + x + ".(*RuleRefExpr))", "ok(" + recv + ".rules[" + name + "])", "!ok(" + recv + ".ruleUsesRules[" + name + "])"}
		for _, nd := range need {
			if !before.holds(minParens(nd)) {
				bad = append(bad, "a reference is inlined without `"+nd+"` (facts: "+abbreviate(strings.Join(before.facts(), " "))+")")
			}
		}
		if arg := stripAsserts(p[ci].Text); arg != stripAsserts("cloneExpr("+recv+".rules["+name+"].Expr)") {
			bad = append(bad, "what is cloned is "+p[ci].Text+", expected the expression of the referenced rule")
		}
		_ = facts
	}
	if n == 0 {
		bad = append(bad, "cloneExpr call not found")
	}
	return len(bad) == 0, strings.Join(uniq(bad), "; ")
}

// optimizerRecordsReferences (C09-f(5) / C13-h): on every path of the visitor that sees a rule reference, both
// directions are recorded: ruleUsesRules[current rule][referenced] and ruleUsedByRules[referenced][current rule].
func optimizerRecordsReferences(c *Ctx, g *load.G) (bool, string) {
	ap := g.Pkg("ast")
	fd := load.FuncDecl(ap, "grammarOptimizer", "init")
	if fd == nil {
		return false, "init visitor not found"
	}
	recv, x := recvName(fd), firstParam(fd)
	paths := c.astNorm().normPaths(fd)
	n := 0
	var bad []string
	for _, p0 := range paths {
		p := resolveAliases(p0)
		isRef := false
		for _, e := range p {
			if e.Kind == "tcase" && strings.HasSuffix(e.Text, ":*RuleRefExpr") {
				isRef = true
			}
			if e.Kind == "+" && e.Text == "ok("+x+".(*RuleRefExpr))" {
				isRef = true
			}
		}
		if !isRef {
			continue
		}
		n++
		want := map[string]bool{
			recv + ".ruleUsesRules[" + recv + ".rule][" + x + ".Name.Val]=struct{}{}":   false,
			recv + ".ruleUsedByRules[" + x + ".Name.Val][" + recv + ".rule]=struct{}{}": false,
		}
		for _, e := range p {
			if e.Kind == "set" {
				t := stripAsserts(e.Text)
				if _, ok := want[t]; ok {
					want[t] = true
				}
			}
		}
		for w, ok := range want {
			if !ok {
				bad = append(bad, "a path of the reference case does not record "+w+" (facts: "+abbreviate(strings.Join(p.facts(), " "))+")")
			}
		}
		// no condition other than the presence tests of the inner sets may decide whether a reference is recorded
		for _, f := range p.facts() {
			t := stripAsserts(f)
			okf := t == "ok("+x+")" || strings.HasPrefix(t, "ok("+recv+".ruleUse") || strings.HasPrefix(t, "!ok("+recv+".ruleUse") ||
				strings.HasSuffix(t, "==nil") || strings.HasSuffix(t, "!=nil") || strings.HasPrefix(t, "!ok("+x+".(") || strings.HasPrefix(f, "ok("+x+".(") || strings.HasPrefix(f, "!ok("+x+".(")
			if !okf {
				bad = append(bad, "a reference is recorded only under `"+f+"`")
			}
		}
	}
	if n == 0 {
		bad = append(bad, "no path of the visitor handles a rule reference")
	}
	return len(bad) == 0, strings.Join(uniq(bad), "; ")
}

// optimizerAbsorbedRemoved (C09-f(3)): in the loop over the alternatives of a choice, element i is removed exactly on
// the paths on which a merge was applied (the merge flag was set).
func optimizerAbsorbedRemoved(c *Ctx, g *load.G) (bool, string) {
	ap := g.Pkg("ast")
	fd := load.FuncDecl(ap, "grammarOptimizer", "optimize")
	if fd == nil {
		return false, "optimize not found"
	}
	si := typeSwitchOn(fd, firstParam(fd))
	cc := si.Cases["ChoiceExpr"]
	if cc == nil {
		return false, "no *ChoiceExpr case"
	}
	paths := c.astNorm().normBlock(fd, cc.Body)
	if len(paths) == 0 {
		return false, "no paths (too many?)"
	}
	nMerged := 0
	var bad []string
	for _, p := range paths {
		// inside the loop over the alternatives: merges store a class at index #1-1 or extend a class; the flag is a
		// numbered local set to true there
		flagSet := false
		for _, e := range p {
			if e.Kind == "set" && dollarRe.MatchString(e.Text) && strings.HasSuffix(e.Text, "=true") && dollarRe.FindString(e.Text)+"=true" == e.Text {
				flagSet = true
			}
		}
		removed := false
		for _, e := range p {
			if e.Kind == "set" && strings.Contains(e.Text, ".Alternatives=") {
				v := e.Text[strings.Index(e.Text, "=")+1:]
				if strings.Contains(v, ".Alternatives[:#1]") && !strings.Contains(v, "choice") && (strings.Contains(v, ".Alternatives[#1+1:]...)") || strings.HasSuffix(v, ".Alternatives[:#1]")) && !strings.Contains(v, ".Alternatives...") {
					// distinguish the removal of element #1 from the splice of a nested choice (which appends the nested alternatives)
					if !strings.Contains(v, ".(*ChoiceExpr)") {
						removed = true
					}
				}
			}
		}
		if flagSet {
			nMerged++
		}
		if flagSet != removed {
			bad = append(bad, fmt.Sprintf("on a path merge-applied=%t but element i removed=%t", flagSet, removed))
		}
	}
	if nMerged == 0 {
		bad = append(bad, "no path applies a merge")
	}
	return len(bad) == 0, strings.Join(uniq(bad), "; ")
}
